#!/usr/bin/env python3
"""Regenerates MANIFEST.json from checks_config.py (the single source of truth)."""
import json, os, sys
sys.path.insert(0, os.path.dirname(os.path.abspath(__file__)))
from checks_config import CHECKS, NOT_APPLICABLE, ENGINES

props = [json.loads(l)["id"] for l in open("properties.jsonl")]
# only checks validated by the maintainer of /verif (zero alarms on the unchanged tree, detection shown) are claimed
READY = set(open("ready.txt").read().split())
CHECKS = {k: v for k, v in CHECKS.items() if k in READY}
checks = []
for pid in props:
    if pid not in CHECKS:
        continue
    c = CHECKS[pid]
    checks.append({
        "property_id": pid,
        "quick_cmd": "./check %s --tier quick" % pid,
        "thorough_cmd": "./check %s --tier thorough" % pid,
        "evidence_file": "/verif/evidence/%s.json" % pid,
        "replay_cmd_template": "./check %s --replay {path}" % pid,
        "engine": c.get("engine", "E-ENUM"),
        "level_claimed": {"category": c["level"], "text": c["text"], "design_ref": "DESIGN.md section 2, " + pid},
        "level_note": c["note"],
        "technique": c["technique"],
    })
na = [{"property_id": p, "reason": NOT_APPLICABLE.get(p, "no check built yet in this session; see DESIGN.md section 2 for the planned bounded-exhaustive check")}
      for p in props if p not in CHECKS]
m = {
    "version": 1,
    "setup_cmd": "./setup.sh",
    "hooks": {
        "guard": "verif",
        "enable": "no source hooks: ./check builds /repo's current tree with `go1.26 test -tags verif -modfile=/verif/.build/<id>/go.mod -overlay=/verif/.build/<id>/overlay.json`; the overlay adds the harness test files and the engine packages and replaces selected source files by go/ast-instrumented copies generated from the current tree at check time",
        "baseline_off_cmd": "cd /repo && go test -mod=mod -json -vet=off -count=1 -timeout 25m ./...",
        "source_commits": [],
        "add_only": True,
    },
    "engines": [dict(e, serves_properties=sorted(p for p, c in CHECKS.items() if c.get("engine", "E-ENUM") == e["name"]))
                for e in ENGINES if any(c.get("engine", "E-ENUM") == e["name"] for c in CHECKS.values())],
    "checks": checks,
    "not_applicable": na,
    "notes": "All instrumentation is overlay-only (nothing guarded is committed to /repo). Unguarded `fix:` commits in /repo are listed in known_findings.json with status fixed.",
}
json.dump(m, open("MANIFEST.json", "w"), indent=1)
print("checks:", len(checks), "not_applicable:", len(na))
