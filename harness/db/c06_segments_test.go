package db

import (
	"bytes"
	"context"
	"database/sql"
	"encoding/binary"
	"encoding/json"
	"errors"
	"fmt"
	"io"
	"log"
	"os"
	"path/filepath"
	"sort"
	"strings"
	"sync"
	"testing"
	"time"

	command "github.com/rqlite/rqlite/v10/command/proto"
	"github.com/rqlite/rqlite/v10/db/wal"
	kit "github.com/rqlite/rqlite/v10/internal/verifkit"
)

// C06 (db layer): the WAL segments captured by successive successful incremental
// checkpoint attempts, applied in order to the previous base database, reproduce the
// live database at each of those attempts - whatever readers do to the checkpoints.
//
// Engine E-SEQ on the real SwappableDB + its real CheckpointManager + real SQLite.
// A state is the operation sequence that reaches it; it is rebuilt by replaying the
// sequence on a database that was put back into the initial state (WAL truncated to
// zero bytes, no reader, fresh CheckpointManager; every 200 replays the database is
// re-created, and every 25th sequence is additionally re-run on a brand-new database and
// must give the same state key and outcomes). Alphabet:
//
//	a  write page set A   UPDATE of the single row of table a  (1 frame)
//	b  write page set B   UPDATE of the single row of table b  (1 frame)
//	W  big write          one transaction updating all 12 one-row-per-page rows of c, and a, and b
//	r  reader start       BEGIN + SELECT on a connection of the database's own read-only
//	                      pool: an open read transaction pinning the WAL at its current end
//	                      (offered while fewer than 2 readers are open)
//	s  reader stop        the oldest open reader rolls back      (readers are interchangeable,
//	S  reader stop        the newest open reader rolls back       so they are named by age)
//	C  checkpoint attempt exactly what Store.fsmSnapshot does for an incremental snapshot:
//	                      if the WAL has no data: nothing; else create a segment file, call
//	                      Checkpoint(segment, timeout) (busy timeout 0), and keep the segment
//	                      iff it returns nil, remove it otherwise
//	F  full attempt       what the store does for a full snapshot: Checkpoint(nil, timeout);
//	                      on success the database file becomes the new base and the captured
//	                      segments are forgotten; on failure nothing changes
//
// Oracle, at every checkpoint attempt of every sequence:
//   - after a kept segment: a copy of the base database with all kept segments applied in
//     order by SQLite itself (db.ReplayWAL, the function snapshot.Restore uses) holds the
//     live database: either it is byte-identical to the live database file while every
//     live WAL frame has been copied into that file, or (otherwise) its logical dump
//     equals the live database's dump;
//   - after a failed attempt no segment file is left (non-retryable errors, on which the
//     store exits the process, are counted: none occurs);
//   - whenever the WAL header salt differs from the salt at the attempt that left the WAL
//     untruncated (tracked by the harness independently of the manager) the attempt's
//     meta must say WALReset (a reset between attempts is always detected). A wrong resume
//     offset shows up in the first check.
//
// State key (see c06World.key): the frame structure of the live WAL file (page number,
// commit flag, salt-matches-header per frame, including stale frames behind the end),
// mxFrame and nBackfill of the wal-index, for every open reader its read mark (or that it
// reads the database file only), and the manager's watch (armed, resume frame, salt still
// current). Page CONTENTS are not part of the key: neither SQLite's checkpoint nor the
// compacting scanner nor the manager ever branches on page payload (only on page
// numbers, salts, commit flags and frame counts), so two states with equal keys go
// through the same code paths for every continuation, and the oracle's verdict (rebuilt
// == live) depends only on which frames are captured, which is decided by the key.

const c06Alphabet = "abWrsSCF"

var c06OpName = map[byte]string{'a': "write-A", 'b': "write-B", 'W': "big-write", 'r': "reader-start",
	's': "stop-oldest-reader", 'S': "stop-newest-reader", 'C': "checkpoint-attempt", 'F': "full-checkpoint-attempt"}

func c06Spell(h string) string {
	var n []string
	for i := 0; i < len(h); i++ {
		n = append(n, c06OpName[h[i]])
	}
	return strings.Join(n, ", ")
}

const c06CRows = 12

type c06Reader struct {
	conn *sql.Conn
	desc string // "z" = reads the database file only (read-mark slot 0), "m<N>" = pinned at frame N
}

type c06Violation struct{ key, what string }

type c06Result struct {
	seq        string
	key        string
	obs        string
	steps      int
	violations []c06Violation
	// how the rebuilt database was found equal to the live one
	bytesEqual, logicalEqual int
	nonRetryable             int
	attempts                 []string
}

// c06World is one worker's database.
type c06World struct {
	t       *testing.T
	dir     string
	path    string
	sdb     *SwappableDB
	replays int
	gen     int
}

func c06Must(what string, err error) {
	if err != nil {
		panic(fmt.Sprintf("c06 harness: %s: %v", what, err))
	}
}

func (w *c06World) execOK(stmts ...string) {
	req := &command.Request{Transaction: len(stmts) > 1}
	for _, s := range stmts {
		req.Statements = append(req.Statements, &command.Statement{Sql: s})
	}
	rs, err := w.sdb.db.Execute(req, false)
	c06Must("execute", err)
	for _, r := range rs {
		if r.GetError() != "" || r.GetE().GetError() != "" {
			panic(fmt.Sprintf("c06 harness: execute %q: %s%s", stmts, r.GetError(), r.GetE().GetError()))
		}
	}
}

// create builds a brand-new database in the initial state.
func (w *c06World) create() {
	if w.sdb != nil {
		w.sdb.Close()
		os.RemoveAll(filepath.Join(w.dir, fmt.Sprintf("g%d", w.gen)))
	}
	w.gen++
	d := filepath.Join(w.dir, fmt.Sprintf("g%d", w.gen))
	c06Must("mkdir", os.MkdirAll(d, 0755))
	w.path = filepath.Join(d, "live.db")
	sdb, err := OpenSwappable(w.path, nil, false, true, 4)
	c06Must("open", err)
	w.sdb = sdb
	w.execOK("CREATE TABLE a(id INTEGER PRIMARY KEY, v INTEGER)", "CREATE TABLE b(id INTEGER PRIMARY KEY, v INTEGER)",
		"CREATE TABLE c(id INTEGER PRIMARY KEY, n INTEGER, pad TEXT)")
	w.execOK("INSERT INTO a VALUES(1,0)", "INSERT INTO b VALUES(1,0)")
	var ins []string
	for i := 1; i <= c06CRows; i++ {
		ins = append(ins, fmt.Sprintf("INSERT INTO c VALUES(%d,0,'%s')", i, strings.Repeat(string(rune('a'+i)), 3000)))
	}
	w.execOK(ins...)
	w.replays = 0
	w.reset()
}

// reset puts the database back into the initial state: known values, WAL truncated to
// zero bytes, fresh CheckpointManager.
func (w *c06World) reset() {
	w.execOK("UPDATE a SET v=0", "UPDATE b SET v=0", "UPDATE c SET n=0")
	meta, err := w.sdb.db.Checkpoint(CheckpointTruncate)
	c06Must("reset checkpoint", err)
	if !meta.Success() {
		panic(fmt.Sprintf("c06 harness: reset checkpoint not complete: %s", meta))
	}
	st, err := os.Stat(w.sdb.db.WALPath())
	c06Must("stat wal", err)
	if st.Size() != 0 {
		panic("c06 harness: WAL not empty after reset")
	}
	mgr, err := NewCheckpointManager(w.sdb.db)
	c06Must("manager", err)
	w.sdb.checkpointMgr = mgr
}

func c06Copy(dst, src string) {
	b, err := os.ReadFile(src)
	c06Must("read "+src, err)
	c06Must("write "+dst, os.WriteFile(dst, b, 0644))
}

// walIndex reads mxFrame and nBackfill from the wal-index (-shm) file.
func (w *c06World) walIndex() (mx, backfill uint32) {
	b, err := os.ReadFile(w.path + "-shm")
	if err != nil || len(b) < 136 {
		return 0, 0
	}
	return binary.LittleEndian.Uint32(b[16:]), binary.LittleEndian.Uint32(b[96:])
}

// walShape describes every frame physically present in the live WAL file.
func (w *c06World) walShape() (shape string, salt wal.Salt, ok bool) {
	b, err := os.ReadFile(w.sdb.db.WALPath())
	if err != nil || len(b) < 32 {
		return "empty", wal.Salt{}, false
	}
	ps := int(binary.BigEndian.Uint32(b[8:]))
	salt = wal.Salt{binary.BigEndian.Uint32(b[16:]), binary.BigEndian.Uint32(b[20:])}
	var sb strings.Builder
	for off := 32; off+24+ps <= len(b); off += 24 + ps {
		pg := binary.BigEndian.Uint32(b[off:])
		cm := binary.BigEndian.Uint32(b[off+4:])
		fs := wal.Salt{binary.BigEndian.Uint32(b[off+8:]), binary.BigEndian.Uint32(b[off+12:])}
		fmt.Fprintf(&sb, "%d", pg)
		if cm != 0 {
			sb.WriteByte('c')
		}
		if fs != salt {
			sb.WriteByte('x')
		}
		sb.WriteByte(' ')
	}
	return sb.String(), salt, true
}

func (w *c06World) key(readers []*c06Reader) string {
	shape, salt, ok := w.walShape()
	mx, bf := w.walIndex()
	var rd []string
	for _, r := range readers {
		rd = append(rd, r.desc)
	}
	sort.Strings(rd)
	rw := w.sdb.checkpointMgr.resetWatch
	watch := "unarmed"
	if rw.armed {
		watch = fmt.Sprintf("armed@%d,saltcurrent=%t", rw.resumeFrameIdx, ok && rw.salt.Equal(salt))
	}
	return fmt.Sprintf("wal=[%s] mx=%d backfill=%d readers=%v watch=%s", shape, mx, bf, rd, watch)
}

func c06DumpDB(d *DB) (string, error) {
	var sb strings.Builder
	for _, q := range []string{"SELECT name, sql FROM sqlite_master ORDER BY name", "SELECT * FROM a ORDER BY 1", "SELECT * FROM b ORDER BY 1", "SELECT id, n, length(pad), substr(pad,1,1) FROM c ORDER BY 1"} {
		rs, err := d.QueryStringStmt(q)
		if err != nil {
			return "", err
		}
		if rs[0].GetError() != "" {
			return "", errors.New(rs[0].GetError())
		}
		for _, v := range rs[0].GetValues() {
			for _, p := range v.GetParameters() {
				switch x := p.GetValue().(type) {
				case *command.Parameter_I:
					fmt.Fprintf(&sb, "%d|", x.I)
				case *command.Parameter_S:
					fmt.Fprintf(&sb, "%s|", x.S)
				default:
					fmt.Fprintf(&sb, "%v|", p.GetValue())
				}
			}
			sb.WriteByte('\n')
		}
		sb.WriteString("--\n")
	}
	return sb.String(), nil
}

// run replays seq from the initial state and evaluates the oracle at every attempt.
func (w *c06World) run(seq string) *c06Result {
	res := &c06Result{seq: seq}
	// sequences of the search are judged at their last operation (their prefixes are
	// sequences of their own); directed ones (marked by a leading '!') at every attempt
	evalAll := strings.HasPrefix(seq, "!")
	seq = strings.TrimPrefix(seq, "!") // res.seq keeps the mark: a re-run judges the same way
	violate := func(key, what string) {
		a := res.attempts
		if len(a) > 2 {
			a = a[len(a)-2:]
		}
		res.violations = append(res.violations, c06Violation{"C06:" + key + ":attempts-" + strings.Join(a, ">"), fmt.Sprintf("sequence [%s] (%s): %s", seq, c06Spell(seq), what)})
	}
	if w.sdb == nil || w.replays >= 200 {
		w.create()
	} else {
		w.reset()
	}
	w.replays++
	work := filepath.Join(filepath.Dir(w.path), "work")
	os.RemoveAll(work)
	c06Must("mkdir", os.MkdirAll(filepath.Join(work, "staging"), 0755))
	base := filepath.Join(work, "base.db")
	c06Copy(base, w.path)

	var readers []*c06Reader
	defer func() {
		for _, r := range readers {
			r.conn.ExecContext(context.Background(), "ROLLBACK")
			r.conn.Close()
		}
	}()
	var segs []string
	var obs []string
	// the harness's own model of the manager's watch
	mArmed, mSalt := false, wal.Salt{}
	nReset := 0
	_ = nReset
	ctx := context.Background()

	fullDue := false
	incremental := func(i int) {
		st, err := os.Stat(w.sdb.db.WALPath())
		c06Must("stat wal", err)
		if st.Size() == 0 {
			obs = append(obs, "C=nowal") // the store answers ErrNoWALToSnapshot before touching anything
			return
		}
		_, salt, _ := w.walShape()
		segPath := filepath.Join(work, "staging", fmt.Sprintf("%04d.wal", i))
		f, err := os.Create(segPath)
		c06Must("create segment", err)
		meta, _, err := w.sdb.Checkpoint(f, time.Microsecond)
		// reset detection, judged against the harness's own model
		expReset := mArmed && salt != mSalt
		if meta != nil && expReset && !meta.WALReset {
			violate("wal-reset-not-detected", fmt.Sprintf("attempt %d: the WAL header salt changed since the attempt that left the WAL untruncated (the WAL was reset) but the manager reports WALReset=false", i))
		}
		if meta != nil && meta.WALReset {
			nReset++
		}
		if expReset {
			mArmed = false
		}
		if err != nil {
			f.Close()
			os.Remove(segPath) // WALWriter.Cancel
			cls := "busy"
			var re RetryableError
			if !errors.As(err, &re) {
				cls = "error(" + err.Error() + ")"
			} else if !re.Retryable() {
				// the store exits the process on a non-retryable error; the statement does not
				// forbid that, so it is only counted
				cls = "nonretryable(" + err.Error() + ")"
				res.nonRetryable++
			}
			obs = append(obs, "C="+cls)
			res.attempts = append(res.attempts, cls)
			if left, _ := filepath.Glob(filepath.Join(work, "staging", fmt.Sprintf("%04d*", i))); len(left) != 0 {
				violate("segment-left-after-failed-checkpoint", fmt.Sprintf("attempt %d failed (%v) but %v remains", i, err, left))
			}
		} else {
			c06Must("sync segment", f.Sync())
			c06Must("close segment", f.Close())
			segs = append(segs, segPath)
			if meta.Code == 0 {
				mArmed = false
				obs = append(obs, fmt.Sprintf("C=truncated(%d)", meta.Pages))
				res.attempts = append(res.attempts, "truncated"+map[bool]string{true: "+reset", false: ""}[meta.WALReset])
			} else {
				mArmed, mSalt = true, salt
				obs = append(obs, fmt.Sprintf("C=allmoved(%d)", meta.Pages))
				res.attempts = append(res.attempts, "allmoved"+map[bool]string{true: "+reset", false: ""}[meta.WALReset])
			}
			if evalAll || i == len(seq)-1 {
				w.compare(res, violate, base, segs, work, "incremental")
			}
		}
	}
	for i := 0; i < len(seq); i++ {
		res.steps++
		switch seq[i] {
		case 'a':
			w.execOK("UPDATE a SET v=v+1")
			obs = append(obs, "a")
		case 'b':
			w.execOK("UPDATE b SET v=v+1")
			obs = append(obs, "b")
		case 'W':
			w.execOK("UPDATE c SET n=n+1", "UPDATE a SET v=v+100", "UPDATE b SET v=v+100")
			obs = append(obs, "W")
		case 'r':
			mx, bf := w.walIndex()
			conn, err := w.sdb.db.roDB.Conn(ctx)
			c06Must("reader conn", err)
			_, err = conn.ExecContext(ctx, "BEGIN")
			c06Must("reader begin", err)
			var n int
			c06Must("reader select", conn.QueryRowContext(ctx, "SELECT count(*) FROM c").Scan(&n))
			desc := fmt.Sprintf("m%d", mx)
			if mx == bf {
				desc = "z"
			}
			readers = append(readers, &c06Reader{conn: conn, desc: desc})
			obs = append(obs, "r:"+desc)
		case 's', 'S':
			k := 0
			if seq[i] == 'S' {
				k = len(readers) - 1
			}
			rd := readers[k]
			_, err := rd.conn.ExecContext(ctx, "ROLLBACK")
			c06Must("reader rollback", err)
			c06Must("reader close", rd.conn.Close())
			readers = append(readers[:k], readers[k+1:]...)
			obs = append(obs, string(seq[i]))
		case 'F', 'C':
			if seq[i] == 'F' {
				// something (a failed persist that lost the staging directory, a load...) makes a
				// full snapshot due; it stays due until a full attempt succeeds
				fullDue = true
			}
			if !fullDue {
				incremental(i)
				break
			}
			meta, _, err := w.sdb.Checkpoint(nil, time.Microsecond)
			if err == nil && !meta.Success() {
				err = fmt.Errorf("not successful")
			}
			if err != nil {
				obs = append(obs, string(seq[i])+"=full-failed")
				res.attempts = append(res.attempts, "full-failed")
				break
			}
			obs = append(obs, string(seq[i])+"=full-ok")
			res.attempts = append(res.attempts, "full-ok")
			fullDue = false
			// the database file is the new base (the store streams it as the full snapshot)
			c06Copy(base, w.path)
			for _, s := range segs {
				os.Remove(s)
			}
			segs = nil
			mArmed = false
			if evalAll || i == len(seq)-1 {
				// a full snapshot must hold the live database
				w.compare(res, violate, base, nil, work, "full")
			}
		}
	}
	res.key = w.key(readers) + fmt.Sprintf(" fulldue=%t", fullDue)
	res.obs = strings.Join(obs, " ")
	return res
}

// compare rebuilds base + segments with SQLite and compares with the live database.
func (w *c06World) compare(res *c06Result, violate func(key, what string), base string, segs []string, work, kind string) {
	rb := filepath.Join(work, "rebuild")
	os.RemoveAll(rb)
	c06Must("mkdir", os.MkdirAll(rb, 0755))
	dst := filepath.Join(rb, "rebuilt.db")
	c06Copy(dst, base)
	var copies []string
	for i, s := range segs {
		c := filepath.Join(rb, fmt.Sprintf("seg%d.wal", i))
		c06Copy(c, s)
		copies = append(copies, c)
	}
	nseg := fmt.Sprintf("%d segment(s) of sizes %v", len(segs), c06Sizes(segs))
	if len(copies) > 0 {
		if err := ReplayWAL(dst, copies, false); err != nil {
			violate("segments-do-not-apply", fmt.Sprintf("applying %s to the base database fails: %v", nseg, err))
			return
		}
	}
	liveBytes, err := os.ReadFile(w.path)
	c06Must("read live", err)
	gotBytes, err := os.ReadFile(dst)
	c06Must("read rebuilt", err)
	mx, bf := w.walIndex()
	wst, _ := os.Stat(w.sdb.db.WALPath())
	if (wst == nil || wst.Size() == 0 || mx == bf) && bytes.Equal(liveBytes, gotBytes) {
		// every frame of the live WAL is in the live database file, and that file is
		// byte-identical to the rebuilt one: same logical database
		res.bytesEqual++
		return
	}
	// not byte-identical (or frames of the live WAL not yet in the file): compare logically
	live, err := c06DumpDB(w.sdb.db)
	c06Must("dump live", err)
	rdb, err := Open(dst, false, false)
	if err != nil {
		violate("rebuilt-database-unreadable", fmt.Sprintf("%s snapshot, base + %s: cannot open: %v", kind, nseg, err))
		return
	}
	defer rdb.Close()
	got, err := c06DumpDB(rdb)
	if err != nil {
		violate("rebuilt-database-unreadable", fmt.Sprintf("%s snapshot, base + %s: %v", kind, nseg, err))
		return
	}
	if got != live {
		violate("rebuilt-database-differs", fmt.Sprintf("%s snapshot, base + %s gives a different database than the live one: rebuilt a,b = %s live a,b = %s", kind, nseg, c06AB(got), c06AB(live)))
		return
	}
	// same logical database; the statement asks for no more
	res.logicalEqual++
}

func c06Sizes(ps []string) []int64 {
	var o []int64
	for _, p := range ps {
		st, err := os.Stat(p)
		if err == nil {
			o = append(o, st.Size())
		}
	}
	return o
}

func c06AB(d string) string {
	parts := strings.Split(d, "--\n")
	if len(parts) < 4 {
		return d
	}
	return strings.ReplaceAll(parts[1]+parts[2]+parts[3], "\n", " ")
}

func c06DiffBytes(a, b []byte) int {
	n := 0
	for i := 0; i < len(a) && i < len(b); i++ {
		if a[i] != b[i] {
			n++
		}
	}
	if len(a) > len(b) {
		n += len(a) - len(b)
	} else {
		n += len(b) - len(a)
	}
	return n
}

// c06Enabled says whether op can be applied after seq (reader bookkeeping only).
func c06Enabled(seq string, op byte) bool {
	n := 0
	for i := 0; i < len(seq); i++ {
		switch seq[i] {
		case 'r':
			n++
		case 's', 'S':
			n--
		}
	}
	switch op {
	case 'r':
		return n < 2
	case 's':
		return n >= 1
	case 'S':
		return n >= 2
	}
	return true
}

func TestVerif_C06(t *testing.T) {
	r := kit.Start(t, "C06", "segments")
	defer r.Finish()
	log.SetOutput(io.Discard)
	depth := r.Pick(6, 8)
	workers := 8
	r.Rule(fmt.Sprintf("breadth-first over sequences of {write A, write B, big write, reader start, stop oldest/newest reader, incremental checkpoint attempt (segment kept iff Checkpoint returns nil), full checkpoint attempt} of length <=%d with up to 2 readers on the real SwappableDB + CheckpointManager (busy timeout 0); states with equal keys (WAL frame structure, mxFrame, nBackfill, reader marks, watch state) are expanded once; after every kept segment base + segments applied by SQLite must be byte-identical to the live database file. distinct = (state key, outcomes)", depth))
	r.Assume("writes and checkpoint attempts are serialized (the store runs both on the FSM goroutine); readers only start and stop between operations - a reader that starts in the middle of a checkpoint is the scheduler's business (C05/C11)")

	base := kit.Scratch(t)
	if st, err := os.Stat("/dev/shm"); err == nil && st.IsDir() {
		if d, err := os.MkdirTemp("/dev/shm", "verif-c06-"); err == nil {
			base = d
			defer os.RemoveAll(d)
		}
	}
	worlds := make([]*c06World, workers)
	for i := range worlds {
		worlds[i] = &c06World{t: t, dir: filepath.Join(base, fmt.Sprintf("w%d", i))}
	}
	fresh := &c06World{t: t, dir: filepath.Join(base, "fresh")}
	defer func() {
		for _, w := range append(worlds, fresh) {
			if w.sdb != nil {
				w.sdb.Close()
			}
		}
	}()

	if rp := kit.Replay(); rp != nil {
		var v struct {
			Sequence string `json:"sequence"`
		}
		if err := json.Unmarshal(rp, &v); err != nil {
			t.Fatalf("bad replay: %v", err)
		}
		res := worlds[0].run(v.Sequence)
		t.Logf("sequence %q outcomes [%s] key [%s] violations %d", res.seq, res.obs, res.key, len(res.violations))
		r.Eval(1)
		r.State(1)
		r.Transition(res.steps)
		for _, vi := range res.violations {
			r.Violation(vi.key, vi.what, map[string]any{"sequence": res.seq})
		}
		return
	}

	runAll := func(seqs []string) []*c06Result {
		out := make([]*c06Result, len(seqs))
		var wg sync.WaitGroup
		next := make(chan int)
		for _, w := range worlds {
			wg.Add(1)
			go func(w *c06World) {
				defer wg.Done()
				for i := range next {
					out[i] = w.run(seqs[i])
				}
			}(w)
		}
		for i := range seqs {
			next <- i
		}
		close(next)
		wg.Wait()
		return out
	}
	nres := 0
	record := func(res *c06Result) {
		r.Eval(1)
		r.Transition(res.steps)
		r.Add("rebuilt_byte_identical", int64(res.bytesEqual))
		r.Add("rebuilt_logically_equal_only", int64(res.logicalEqual))
		r.Add("nonretryable_checkpoint_errors", int64(res.nonRetryable))
		r.Distinct(res.key + " || " + res.obs)
		r.SampleEvery(nres, map[string]any{"sequence": res.seq, "outcomes": res.obs, "state_key": res.key})
		if nres%25 == 0 {
			// the same sequence on a brand-new database must give the same state and outcomes
			if fresh.sdb != nil {
				fresh.sdb.Close()
				fresh.sdb = nil
			}
			fr := fresh.run(res.seq)
			r.Validated(1)
			if fr.key != res.key || fr.obs != res.obs || len(fr.violations) != len(res.violations) {
				t.Fatalf("c06 harness: sequence %q is not reproducible on a brand-new database:\n reused: %s || %s\n fresh:  %s || %s", res.seq, res.key, res.obs, fr.key, fr.obs)
			}
		}
		nres++
		for _, vi := range res.violations {
			r.Violation(vi.key, vi.what, map[string]any{"sequence": res.seq})
		}
	}

	seen := map[string]bool{}
	root := runAll([]string{""})[0]
	record(root)
	seen[root.key] = true
	frontier := []string{""}
	states := 1
	for d := 1; d <= depth; d++ {
		if r.OverBudget() {
			r.Cap("time budget reached before depth %d (all sequences of length <=%d are covered)", d, d-1)
			break
		}
		var seqs []string
		for _, h := range frontier {
			for i := 0; i < len(c06Alphabet); i++ {
				if c06Enabled(h, c06Alphabet[i]) {
					seqs = append(seqs, h+string(c06Alphabet[i]))
				}
			}
		}
		results := runAll(seqs)
		var next []string
		for _, res := range results {
			record(res)
			if len(res.violations) > 0 {
				continue
			}
			if !seen[res.key] {
				seen[res.key] = true
				states++
				next = append(next, res.seq)
			}
		}
		r.Note("depth %d: %d sequences run, %d new states", d, len(seqs), len(next))
		frontier = next
	}
	// directed longer sequences (beyond the search depth), judged at every attempt
	var dir []string
	for _, d := range c06Directed {
		for i := 0; i < len(d); i++ {
			if !strings.ContainsRune(c06Alphabet, rune(d[i])) || !c06Enabled(d[:i], d[i]) {
				t.Fatalf("c06 harness: directed sequence %q is not executable at position %d", d, i)
			}
		}
		dir = append(dir, "!"+d)
	}
	for _, res := range runAll(dir) {
		record(res)
		if !seen[res.key] {
			seen[res.key] = true
			states++
		}
	}
	r.Note("directed: %d sequences of length 9..14 run", len(dir))
	r.State(states)
}

// c06Directed are sequences longer than the search depth around repeated "all moved, not
// truncated" outcomes: the resume offset has to be right the second time too.
var c06Directed = []string{
	"arCarsCasC",     // untruncated twice in a row (second reader at the new end), append, truncate
	"arCarsCsaC",     // untruncated twice, then the WAL is reset
	"arCarsCarsCasC", // three times
	"WrCWrsCWsC",     // the same with page-heavy writes
	"arCbrsCasC",     // different pages
	"arCsaCarCsaC",   // two reset cycles
	"arCasCarCasC",   // append-resume twice
	"arCaCaCsC",      // busy attempts in between, repeated
	"rarCsaCsC",      // a reader of the database file only (slot 0) blocks everything, then leaves
	"arCarsCFaC",     // a full snapshot becomes due while armed
	"arCasFarCasC",   // full snapshot between two append-resume cycles
	// a busy attempt AFTER an untruncated one in the same WAL generation, blocked by a
	// different, later reader: it moves frames beyond the resume point into the database
	// but its segment is dropped - the resume point must stay where it was
	"arCarsbCsC",     // the write between the two readers' marks touches a page nothing later rewrites
	"arCbrsaCsC",     // page sets swapped
	"brCarsbCsC",     // the later write rewrites the first page, not the lost one
	"WrCarsbCsC",     // page-heavy first generation
	"arCWrsbCsC",     // several frames between the marks
	"arCarsWCsC",     // page-heavy write behind the second mark
	"arCabrsbCsC",    // two transactions between the marks
	"arCarsbCaCsC",   // two busy attempts in a row
	"arCarbCssC",     // both readers still open: the first one is the blocker (resume point unchanged anyway)
	"arCarsbCrsaCsC", // a third reader takes over: busy twice, at two different marks
	"arCarsbCsaC",    // ... and one more write before the successful attempt
}
