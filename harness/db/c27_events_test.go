package db

import (
	"bytes"
	stdsql "database/sql"
	"encoding/json"
	"fmt"
	"os"
	"path/filepath"
	"reflect"
	"regexp"
	"sort"
	"strings"
	"sync"
	"testing"

	cdcjson "github.com/rqlite/rqlite/v10/cdc/json"
	command "github.com/rqlite/rqlite/v10/command/proto"
	kit "github.com/rqlite/rqlite/v10/internal/verifkit"
)

// C27: CDC events describe exactly the rows changed.
//
// Every write program of <=2 (quick) / <=3 (thorough) statements over a menu of
// 14 statement kinds x 2 tables (one with an INTEGER PRIMARY KEY rowid alias, one
// with a hidden rowid), x transaction flag x table filter x row-ids-only x db
// entry point (Execute / Request: the two the store's command processor calls),
// on a real on-disk WAL database with a real CDCStreamer wired exactly as
// store.fsmApply does (RegisterPreUpdateHook + RegisterCommitHook + Reset(index)
// before each request).
//
// Oracle: a row-level reference model of each menu statement (SQL semantics,
// written by hand, values after column affinity), which is itself validated
// (a) per statement against plain SQLite on a shadow database and (b) per case
// against the before/after table images of the real database read through an
// independent connection. The ordered list of changes of the committed
// statements must equal the delivered event list.

const (
	c27ColsA = "id,i,r,t,y,n"
	c27ColsB = "i,r,t,y,n"
)

var c27Schema = []string{
	"CREATE TABLE a (id INTEGER PRIMARY KEY, i INTEGER, r REAL, t TEXT UNIQUE, y BLOB, n)",
	"CREATE TABLE b (i INTEGER, r REAL, t TEXT UNIQUE, y BLOB, n)",
}

var c27ResetSQL = []string{
	"DELETE FROM a",
	"DELETE FROM b",
	"INSERT INTO a(id,i,r,t,y,n) VALUES(1,10,1.5,'x',x'00ff',NULL),(3,NULL,-2.0,'y',x'',7)",
	"INSERT INTO b(rowid,i,r,t,y,n) VALUES(1,10,1.5,'x',x'00ff',NULL),(2,NULL,-2.0,'y',x'',7)",
}

// ---- reference model -------------------------------------------------------

type c27Change struct {
	Op     string  `json:"op"`
	Table  string  `json:"table"`
	OldID  int64   `json:"old_id"`
	NewID  int64   `json:"new_id"`
	Before []any   `json:"before"`
	After  []any   `json:"after"`
	Grp    int     `json:"-"` // !=0: member of an order-free group (REPLACE deleting two rows)
}

type c27Table struct {
	name  string
	hasID bool
	rows  map[int64][]any // rowid -> values of (i,r,t,y,n)
}

func (tb *c27Table) clone() *c27Table {
	c := &c27Table{name: tb.name, hasID: tb.hasID, rows: map[int64][]any{}}
	for k, v := range tb.rows {
		c.rows[k] = append([]any(nil), v...)
	}
	return c
}

func (tb *c27Table) ids() []int64 {
	var ids []int64
	for k := range tb.rows {
		ids = append(ids, k)
	}
	sort.Slice(ids, func(i, j int) bool { return ids[i] < ids[j] })
	return ids
}

func (tb *c27Table) maxID() int64 {
	var m int64
	for k := range tb.rows {
		if k > m {
			m = k
		}
	}
	return m
}

func (tb *c27Table) findT(t any) (int64, bool) {
	s, ok := t.(string)
	if !ok {
		return 0, false // NULLs never conflict
	}
	for _, id := range tb.ids() {
		if x, ok := tb.rows[id][2].(string); ok && x == s {
			return id, true
		}
	}
	return 0, false
}

// full returns the row as the table's column list sees it (id first for table a).
func (tb *c27Table) full(id int64, vals []any) []any {
	out := []any{}
	if tb.hasID {
		out = append(out, id)
	}
	return append(out, vals...)
}

type c27Ins struct {
	id   int64 // 0 = automatic
	vals []any
}

type c27Res struct {
	changes    []c27Change // changes that survive the statement
	rolledBack []c27Change // changes made and then undone by the statement's own rollback
	failed     bool
}

// insert models INSERT with conflict handling mode abort|fail|replace|upsert.
func (tb *c27Table) insert(rows []c27Ins, mode string, grp *int) c27Res {
	saved := tb.clone()
	var res c27Res
	for _, in := range rows {
		id := in.id
		idConflict := false
		if id == 0 {
			id = tb.maxID() + 1
		} else {
			_, idConflict = tb.rows[id]
		}
		tID, tConflict := tb.findT(in.vals[2])
		if tConflict && idConflict && tID == id {
			tConflict = false // same row
		}
		switch mode {
		case "abort":
			if idConflict || tConflict {
				tb.rows = saved.rows
				return c27Res{rolledBack: res.changes, failed: true}
			}
		case "fail":
			if idConflict || tConflict {
				res.failed = true
				return res
			}
		case "replace":
			var dels []int64
			if idConflict {
				dels = append(dels, id)
			}
			if tConflict {
				dels = append(dels, tID)
			}
			g := 0
			if len(dels) > 1 {
				*grp++
				g = *grp
			}
			for _, d := range dels {
				res.changes = append(res.changes, c27Change{Op: "DELETE", Table: tb.name, OldID: d, Before: tb.full(d, tb.rows[d]), Grp: g})
				delete(tb.rows, d)
			}
		case "upsert":
			if tConflict {
				old := tb.rows[tID]
				nv := append([]any(nil), old...)
				nv[0] = in.vals[0]
				nv[4] = "up"
				res.changes = append(res.changes, c27Change{Op: "UPDATE", Table: tb.name, OldID: tID, NewID: tID, Before: tb.full(tID, old), After: tb.full(tID, nv)})
				tb.rows[tID] = nv
				continue
			}
		}
		v := append([]any(nil), in.vals...)
		tb.rows[id] = v
		res.changes = append(res.changes, c27Change{Op: "INSERT", Table: tb.name, NewID: id, After: tb.full(id, v)})
	}
	return res
}

// update models UPDATE ... WHERE where, visiting rows in rowid order, aborting
// (statement rollback) on a UNIQUE(t) conflict.
func (tb *c27Table) update(where func([]any) bool, set func([]any) []any, newID func(int64) int64) c27Res {
	saved := tb.clone()
	var res c27Res
	for _, id := range tb.ids() {
		old := tb.rows[id]
		if !where(old) {
			continue
		}
		nv := set(append([]any(nil), old...))
		nid := id
		if newID != nil {
			nid = newID(id)
		}
		if cid, c := tb.findT(nv[2]); c && cid != id {
			tb.rows = saved.rows
			return c27Res{rolledBack: res.changes, failed: true}
		}
		if _, c := tb.rows[nid]; c && nid != id {
			tb.rows = saved.rows
			return c27Res{rolledBack: res.changes, failed: true}
		}
		delete(tb.rows, id)
		tb.rows[nid] = nv
		res.changes = append(res.changes, c27Change{Op: "UPDATE", Table: tb.name, OldID: id, NewID: nid, Before: tb.full(id, old), After: tb.full(nid, nv)})
	}
	return res
}

func (tb *c27Table) del(where func([]any) bool) c27Res {
	var res c27Res
	for _, id := range tb.ids() {
		old := tb.rows[id]
		if !where(old) {
			continue
		}
		delete(tb.rows, id)
		res.changes = append(res.changes, c27Change{Op: "DELETE", Table: tb.name, OldID: id, Before: tb.full(id, old)})
	}
	return res
}

func c27TIs(s string) func([]any) bool {
	return func(v []any) bool { x, ok := v[2].(string); return ok && x == s }
}
func c27All([]any) bool { return true }

type c27Stmt struct {
	Name  string
	Table string
	SQL   string
	apply func(tb *c27Table, grp *int) c27Res
}

func c27Menu() []c27Stmt {
	var m []c27Stmt
	for _, T := range []string{"a", "b"} {
		ridc := "rowid"
		if T == "a" {
			ridc = "id"
		}
		add := func(name, sql string, f func(tb *c27Table, grp *int) c27Res) {
			sql = strings.ReplaceAll(strings.ReplaceAll(sql, "{T}", T), "{RID}", ridc)
			m = append(m, c27Stmt{Name: name + "(" + T + ")", Table: T, SQL: sql, apply: f})
		}
		add("ins1", "INSERT INTO {T}(i,r,t,y,n) VALUES(20, 3, 'p', x'01', NULL)", func(tb *c27Table, g *int) c27Res {
			return tb.insert([]c27Ins{{0, []any{int64(20), float64(3), "p", []byte{1}, nil}}}, "abort", g)
		})
		add("insN", "INSERT INTO {T}(i,r,t,y,n) VALUES(NULL,0.5,'q',x'',1),('12',2.5,'s',NULL,'z')", func(tb *c27Table, g *int) c27Res {
			return tb.insert([]c27Ins{
				{0, []any{nil, 0.5, "q", []byte{}, int64(1)}},
				{0, []any{int64(12), 2.5, "s", nil, "z"}}}, "abort", g)
		})
		add("upd1", "UPDATE {T} SET i=i+1, n='u' WHERE t='x'", func(tb *c27Table, g *int) c27Res {
			return tb.update(c27TIs("x"), func(v []any) []any {
				if i, ok := v[0].(int64); ok {
					v[0] = i + 1
				}
				v[4] = "u"
				return v
			}, nil)
		})
		add("updAll", "UPDATE {T} SET r=7, y=x'aa'", func(tb *c27Table, g *int) c27Res {
			return tb.update(c27All, func(v []any) []any { v[1] = float64(7); v[3] = []byte{0xaa}; return v }, nil)
		})
		add("updNone", "UPDATE {T} SET i=0 WHERE t='nosuch'", func(tb *c27Table, g *int) c27Res {
			return tb.update(c27TIs("nosuch"), func(v []any) []any { v[0] = int64(0); return v }, nil)
		})
		add("del1", "DELETE FROM {T} WHERE t='y'", func(tb *c27Table, g *int) c27Res { return tb.del(c27TIs("y")) })
		add("delAll", "DELETE FROM {T}", func(tb *c27Table, g *int) c27Res { return tb.del(c27All) })
		add("replaceU", "INSERT OR REPLACE INTO {T}(i,r,t,y,n) VALUES(99,9.5,'x',x'02',NULL)", func(tb *c27Table, g *int) c27Res {
			return tb.insert([]c27Ins{{0, []any{int64(99), 9.5, "x", []byte{2}, nil}}}, "replace", g)
		})
		add("replaceR", "INSERT OR REPLACE INTO {T}({RID},i,r,t,y,n) VALUES(1,98,8.5,'y',NULL,2.5)", func(tb *c27Table, g *int) c27Res {
			return tb.insert([]c27Ins{{1, []any{int64(98), 8.5, "y", nil, 2.5}}}, "replace", g)
		})
		add("upsert", "INSERT INTO {T}(i,r,t,y,n) VALUES(5,5.5,'x',NULL,NULL) ON CONFLICT(t) DO UPDATE SET i=excluded.i, n='up'", func(tb *c27Table, g *int) c27Res {
			return tb.insert([]c27Ins{{0, []any{int64(5), 5.5, "x", nil, nil}}}, "upsert", g)
		})
		add("failN", "INSERT INTO {T}(i,r,t,y,n) VALUES(1,1.0,'f',NULL,NULL),(2,2.0,'f',NULL,NULL)", func(tb *c27Table, g *int) c27Res {
			return tb.insert([]c27Ins{
				{0, []any{int64(1), 1.0, "f", nil, nil}},
				{0, []any{int64(2), 2.0, "f", nil, nil}}}, "abort", g)
		})
		add("failKeep", "INSERT OR FAIL INTO {T}(i,r,t,y,n) VALUES(3,3.0,'g',NULL,NULL),(4,4.0,'g',NULL,NULL)", func(tb *c27Table, g *int) c27Res {
			return tb.insert([]c27Ins{
				{0, []any{int64(3), 3.0, "g", nil, nil}},
				{0, []any{int64(4), 4.0, "g", nil, nil}}}, "fail", g)
		})
		add("moveID", "UPDATE {T} SET {RID}={RID}+10 WHERE t='x'", func(tb *c27Table, g *int) c27Res {
			return tb.update(c27TIs("x"), func(v []any) []any { return v }, func(id int64) int64 { return id + 10 })
		})
		add("failUpd", "UPDATE {T} SET t='dup'", func(tb *c27Table, g *int) c27Res {
			return tb.update(c27All, func(v []any) []any { v[2] = "dup"; return v }, nil)
		})
	}
	return m
}

type c27State struct{ a, b *c27Table }

func c27Initial() *c27State {
	return &c27State{
		a: &c27Table{name: "a", hasID: true, rows: map[int64][]any{
			1: {int64(10), 1.5, "x", []byte{0, 0xff}, nil},
			3: {nil, -2.0, "y", []byte{}, int64(7)}}},
		b: &c27Table{name: "b", rows: map[int64][]any{
			1: {int64(10), 1.5, "x", []byte{0, 0xff}, nil},
			2: {nil, -2.0, "y", []byte{}, int64(7)}}},
	}
}

func (s *c27State) clone() *c27State { return &c27State{a: s.a.clone(), b: s.b.clone()} }
func (s *c27State) tbl(n string) *c27Table {
	if n == "a" {
		return s.a
	}
	return s.b
}

// image returns table -> rowid -> full row.
func (s *c27State) image() map[string]map[int64][]any {
	out := map[string]map[int64][]any{}
	for _, tb := range []*c27Table{s.a, s.b} {
		m := map[int64][]any{}
		for id, v := range tb.rows {
			m[id] = tb.full(id, v)
		}
		out[tb.name] = m
	}
	return out
}

// c27Trace is the reference outcome of one (program, tx).
type c27Trace struct {
	committed  []c27Change   // ordered changes that are part of the committed result
	perStmt    [][]c27Change // committed changes per executed statement (non-tx: one commit each)
	rolledBack []c27Change   // changes that were made and undone
	failed     []bool        // per executed statement
	states     []*c27State   // state after each executed statement (before tx-level rollback)
	executed   int           // number of statements executed (tx stops at first failure)
	final      *c27State
}

func c27Ref(prog []c27Stmt, tx bool) c27Trace {
	st := c27Initial()
	var tr c27Trace
	grp := 0
	for _, s := range prog {
		res := s.apply(st.tbl(s.Table), &grp)
		tr.executed++
		tr.failed = append(tr.failed, res.failed)
		tr.states = append(tr.states, st.clone())
		tr.rolledBack = append(tr.rolledBack, res.rolledBack...)
		tr.perStmt = append(tr.perStmt, res.changes)
		tr.committed = append(tr.committed, res.changes...)
		if tx && res.failed {
			// rqlite rolls the whole transaction back and stops.
			tr.rolledBack = append(tr.rolledBack, tr.committed...)
			tr.committed = nil
			tr.perStmt = nil
			tr.final = c27Initial()
			return tr
		}
	}
	tr.final = st
	return tr
}

// ---- value comparison -------------------------------------------------------

func c27ValEq(a, b any) bool {
	switch x := a.(type) {
	case nil:
		return b == nil
	case int64:
		switch y := b.(type) {
		case int64:
			return x == y
		case float64:
			// SQLite's pre-update hook reports an integral REAL as INTEGER (the record
			// stores it that way); 3 and 3.0 are equal values and identical in the JSON
			// envelope, so the property's "values equal" is taken numerically.
			return float64(x) == y && int64(y) == x
		}
		return false
	case float64:
		switch y := b.(type) {
		case float64:
			return x == y
		case int64:
			return x == float64(y) && int64(x) == y
		}
		return false
	case string:
		y, ok := b.(string)
		return ok && x == y
	case []byte:
		y, ok := b.([]byte)
		return ok && bytes.Equal(x, y)
	}
	return false
}

func c27RowEq(a, b []any) bool {
	if len(a) != len(b) {
		return false
	}
	for i := range a {
		if !c27ValEq(a[i], b[i]) {
			return false
		}
	}
	return true
}

func c27ImageEq(a, b map[string]map[int64][]any) bool {
	for _, t := range []string{"a", "b"} {
		if len(a[t]) != len(b[t]) {
			return false
		}
		for id, r := range a[t] {
			r2, ok := b[t][id]
			if !ok || !c27RowEq(r, r2) {
				return false
			}
		}
	}
	return true
}

func c27Show(v any) string {
	switch x := v.(type) {
	case nil:
		return "NULL"
	case []byte:
		return fmt.Sprintf("x'%x'", x)
	case string:
		return fmt.Sprintf("%q", x)
	case float64:
		return fmt.Sprintf("%vf", x)
	case []any:
		p := make([]string, len(x))
		for i := range x {
			p[i] = c27Show(x[i])
		}
		return "[" + strings.Join(p, ",") + "]"
	}
	return fmt.Sprint(v)
}

func (c c27Change) String() string {
	return fmt.Sprintf("%s %s old=%d new=%d before=%s after=%s", c.Op, c.Table, c.OldID, c.NewID, c27Show(c.Before), c27Show(c.After))
}

// snapshot reads table images through a plain database/sql connection.
func c27Snapshot(raw *stdsql.DB) (map[string]map[int64][]any, error) {
	out := map[string]map[int64][]any{}
	for _, t := range []string{"a", "b"} {
		rows, err := raw.Query("SELECT rowid, * FROM " + t + " ORDER BY rowid")
		if err != nil {
			return nil, err
		}
		cols, _ := rows.Columns()
		m := map[int64][]any{}
		for rows.Next() {
			vals := make([]any, len(cols))
			ptrs := make([]any, len(cols))
			for i := range vals {
				ptrs[i] = &vals[i]
			}
			if err := rows.Scan(ptrs...); err != nil {
				rows.Close()
				return nil, err
			}
			id, ok := vals[0].(int64)
			if !ok {
				rows.Close()
				return nil, fmt.Errorf("rowid is %T", vals[0])
			}
			m[id] = vals[1:]
		}
		if err := rows.Err(); err != nil {
			return nil, err
		}
		rows.Close()
		out[t] = m
	}
	return out, nil
}

// ---- real side --------------------------------------------------------------

type c27Cfg struct {
	Filter  string `json:"filter"` // "" or a regexp
	IDsOnly bool   `json:"ids_only"`
	Entry   string `json:"entry"` // Execute | Request
}

type c27Env struct {
	db  *DB
	raw *stdsql.DB
	ch  chan *command.CDCIndexedEventGroup
	st  *CDCStreamer
	idx uint64
}

var c27ExtraHooks sync.Map

func c27Panicf(f string, a ...any) { panic("C27 harness set-up: " + fmt.Sprintf(f, a...)) }

func c27NewEnv(t *testing.T, dir string, cfg c27Cfg) *c27Env {
	path := filepath.Join(dir, "db.sqlite")
	d, err := Open(path, false, true)
	if err != nil {
		c27Panicf("open: %v", err)
	}
	for _, s := range c27Schema {
		mustExecute(d, s)
	}
	e := &c27Env{db: d, ch: make(chan *command.CDCIndexedEventGroup, 64), idx: 100}
	e.st, err = NewCDCStreamer(e.ch, d)
	if err != nil {
		c27Panicf("%v", err)
	}
	var re *regexp.Regexp
	if cfg.Filter != "" {
		re = regexp.MustCompile(cfg.Filter)
	}
	// Same wiring as store.fsmApply.
	if err := d.RegisterPreUpdateHook(e.st.PreupdateHook, re, cfg.IDsOnly); err != nil {
		c27Panicf("%v", err)
	}
	if err := d.RegisterCommitHook(e.st.CommitHook); err != nil {
		c27Panicf("%v", err)
	}
	// Any further hook the streamer offers and the DB can register (by the naming
	// convention XxxHook <-> RegisterXxxHook, e.g. a rollback hook added by a fix)
	// is wired too, so that the harness keeps mirroring the store.
	sv, dv := reflect.ValueOf(e.st), reflect.ValueOf(d)
	for i := 0; i < sv.NumMethod(); i++ {
		name := sv.Type().Method(i).Name
		if !strings.HasSuffix(name, "Hook") || name == "PreupdateHook" || name == "CommitHook" {
			continue
		}
		reg := dv.MethodByName("Register" + name)
		if !reg.IsValid() || reg.Type().NumIn() != 1 || !sv.Method(i).Type().ConvertibleTo(reg.Type().In(0)) {
			continue
		}
		out := reg.Call([]reflect.Value{sv.Method(i).Convert(reg.Type().In(0))})
		if len(out) == 1 && !out[0].IsNil() {
			c27Panicf("Register%s: %v", name, out[0].Interface())
		}
		c27ExtraHooks.Store(name, true)
	}
	e.raw, err = stdsql.Open("sqlite3", "file:"+path+"?mode=ro")
	if err != nil {
		c27Panicf("%v", err)
	}
	e.raw.SetMaxOpenConns(1)
	return e
}

func (e *c27Env) close() {
	e.raw.Close()
	e.db.Close()
}

func (e *c27Env) drain() []*command.CDCIndexedEventGroup {
	var out []*command.CDCIndexedEventGroup
	for {
		select {
		case g := <-e.ch:
			out = append(out, g)
		default:
			return out
		}
	}
}

func (e *c27Env) reset() {
	req := &command.Request{Transaction: true}
	for _, s := range c27ResetSQL {
		req.Statements = append(req.Statements, &command.Statement{Sql: s})
	}
	res, err := e.db.Execute(req, false)
	if err != nil || len(res) != len(c27ResetSQL) {
		c27Panicf("reset: %v %v", res, err)
	}
	for _, r := range res {
		if r.GetError() != "" {
			c27Panicf("reset: %s", r.GetError())
		}
	}
	e.drain()
}

func c27Request(prog []c27Stmt, tx bool) *command.Request {
	req := &command.Request{Transaction: tx}
	for _, s := range prog {
		req.Statements = append(req.Statements, &command.Statement{Sql: s.SQL})
	}
	return req
}

func c27EventValue(v *command.CDCValue) (any, bool) {
	if v == nil {
		return nil, false
	}
	switch x := v.GetValue().(type) {
	case nil:
		return nil, true
	case *command.CDCValue_I:
		return x.I, true
	case *command.CDCValue_D:
		return x.D, true
	case *command.CDCValue_S:
		return x.S, true
	case *command.CDCValue_Y:
		if x.Y == nil {
			return []byte{}, true
		}
		return x.Y, true
	case *command.CDCValue_B:
		return x.B, true
	}
	return nil, false
}

func c27EventRow(r *command.CDCRow) []any {
	if r == nil {
		return nil
	}
	out := make([]any, len(r.Values))
	for i, v := range r.Values {
		x, ok := c27EventValue(v)
		if !ok {
			x = fmt.Sprintf("<bad value %v>", v)
		}
		out[i] = x
	}
	return out
}

func c27FromEvent(ev *command.CDCEvent) c27Change {
	return c27Change{Op: ev.Op.String(), Table: ev.Table, OldID: ev.OldRowId, NewID: ev.NewRowId,
		Before: c27EventRow(ev.OldRow), After: c27EventRow(ev.NewRow)}
}

// c27Diff compares one expected change with one delivered event. It returns "" or a class.
func c27Diff(exp c27Change, ev *command.CDCEvent, idsOnly bool) string {
	got := c27FromEvent(ev)
	switch {
	case ev.Error != "":
		return "event-carries-error"
	case got.Table != exp.Table:
		return "wrong-table"
	case got.Op != exp.Op:
		return "wrong-operation"
	case got.OldID != exp.OldID || got.NewID != exp.NewID:
		return "wrong-row-id"
	}
	if idsOnly {
		if ev.OldRow != nil || ev.NewRow != nil {
			return "values-present-in-ids-only-mode"
		}
		return ""
	}
	if (exp.Before == nil) != (ev.OldRow == nil) || (exp.After == nil) != (ev.NewRow == nil) {
		return "before-after-presence"
	}
	if !c27RowEq(exp.Before, got.Before) {
		return "wrong-before-values"
	}
	if !c27RowEq(exp.After, got.After) {
		return "wrong-after-values"
	}
	cols := strings.Split(c27ColsB, ",")
	if exp.Table == "a" {
		cols = strings.Split(c27ColsA, ",")
	}
	if !reflect.DeepEqual(cols, ev.ColumnNames) {
		return "wrong-column-names"
	}
	return ""
}

// c27Match matches the expected ordered change list (with order-free groups)
// against delivered events; returns "" or (class, detail).
func c27Match(exp []c27Change, evs []*command.CDCEvent, idsOnly bool) (string, string) {
	if len(exp) != len(evs) {
		return "count", fmt.Sprintf("expected %d events, got %d", len(exp), len(evs))
	}
	for i := 0; i < len(exp); {
		if exp[i].Grp == 0 {
			if c := c27Diff(exp[i], evs[i], idsOnly); c != "" {
				return c, fmt.Sprintf("event %d: expected {%s} got {%s err=%q cols=%v}", i, exp[i], c27FromEvent(evs[i]), evs[i].Error, evs[i].ColumnNames)
			}
			i++
			continue
		}
		j := i
		for j < len(exp) && exp[j].Grp == exp[i].Grp {
			j++
		}
		used := make([]bool, j-i)
		for k := i; k < j; k++ {
			found, first := false, ""
			for l := i; l < j; l++ {
				if used[l-i] {
					continue
				}
				c := c27Diff(exp[k], evs[l], idsOnly)
				if c == "" {
					used[l-i], found = true, true
					break
				}
				if first == "" {
					first = c
				}
			}
			if !found {
				return first, fmt.Sprintf("events %d..%d (order-free): no event matches {%s}", i, j-1, exp[k])
			}
		}
		i = j
	}
	return "", ""
}

// c27LeakOnly reports whether the delivered events are the expected ones plus
// only events describing rolled-back changes.
func c27LeakOnly(exp, rolledBack []c27Change, evs []*command.CDCEvent, idsOnly bool) bool {
	if len(evs) <= len(exp) {
		return false
	}
	var rest []*command.CDCEvent
	k := 0
	for _, ev := range evs {
		if k < len(exp) && c27Diff(exp[k], ev, idsOnly) == "" {
			k++
			continue
		}
		isRB := false
		for _, rb := range rolledBack {
			if c27Diff(rb, ev, idsOnly) == "" {
				isRB = true
				break
			}
		}
		if !isRB {
			return false
		}
		rest = append(rest, ev)
	}
	return k == len(exp) && len(rest) > 0
}

func c27FilterChanges(chs []c27Change, re *regexp.Regexp) []c27Change {
	if re == nil {
		return chs
	}
	var out []c27Change
	for _, c := range chs {
		if re.MatchString(c.Table) {
			out = append(out, c)
		}
	}
	return out
}

// c27JSONNorm round-trips v through encoding/json with UseNumber.
func c27JSONNorm(v any) any {
	b, err := json.Marshal(v)
	if err != nil {
		return "marshal error: " + err.Error()
	}
	var out any
	dec := json.NewDecoder(bytes.NewReader(b))
	dec.UseNumber()
	if err := dec.Decode(&out); err != nil {
		return "decode error: " + err.Error()
	}
	return out
}

// c27CheckJSON marshals the groups with the real envelope marshaller and checks
// each message event against the expected changes. Returns "" or a detail.
func c27CheckJSON(groups []*command.CDCIndexedEventGroup, exp []c27Change, idsOnly bool) string {
	if len(groups) == 0 {
		return ""
	}
	b, err := cdcjson.MarshalToEnvelopeJSON("svc", "node", false, groups)
	if err != nil {
		return "marshal: " + err.Error()
	}
	var env struct {
		Payload []struct {
			Index  uint64 `json:"index"`
			Events []map[string]any
		} `json:"payload"`
	}
	dec := json.NewDecoder(bytes.NewReader(b))
	dec.UseNumber()
	if err := dec.Decode(&env); err != nil {
		return "decode: " + err.Error()
	}
	var evs []map[string]any
	for _, p := range env.Payload {
		evs = append(evs, p.Events...)
	}
	if len(evs) != len(exp) {
		return fmt.Sprintf("JSON has %d events, expected %d", len(evs), len(exp))
	}
	// order-free groups: the proto-level match already passed, so use the proto order.
	k := 0
	for _, g := range groups {
		for _, pe := range g.Events {
			var want c27Change
			for _, c := range exp {
				if c27Diff(c, pe, idsOnly) == "" {
					want = c
					break
				}
			}
			m := map[string]any{"op": want.Op, "table": want.Table}
			if want.NewID != 0 {
				m["new_row_id"] = want.NewID
			}
			if want.OldID != 0 {
				m["old_row_id"] = want.OldID
			}
			cols := strings.Split(c27ColsB, ",")
			if want.Table == "a" {
				cols = strings.Split(c27ColsA, ",")
			}
			if !idsOnly {
				for name, row := range map[string][]any{"before": want.Before, "after": want.After} {
					if row == nil {
						continue
					}
					rm := map[string]any{}
					for i, c := range cols {
						rm[c] = row[i]
					}
					m[name] = rm
				}
			}
			if w := c27JSONNorm(m); !reflect.DeepEqual(w, any(evs[k])) {
				wb, _ := json.Marshal(w)
				gb, _ := json.Marshal(evs[k])
				return fmt.Sprintf("JSON event %d: expected %s got %s", k, wb, gb)
			}
			k++
		}
	}
	return ""
}

type c27Replay struct {
	Part  string   `json:"part,omitempty"`
	Stmts []string `json:"stmts"`
	SQL   []string `json:"sql"`
	Tx    bool     `json:"tx"`
	Cfg   c27Cfg   `json:"cfg"`
}

type c27Worker struct {
	t      *testing.T
	r      *kit.Run
	envs   map[c27Cfg]*c27Env
	shadow *stdsql.DB
	dir    string
}

func (w *c27Worker) env(cfg c27Cfg) *c27Env {
	if e, ok := w.envs[cfg]; ok {
		return e
	}
	d := filepath.Join(w.dir, fmt.Sprintf("e%d", len(w.envs)))
	if err := os.MkdirAll(d, 0o755); err != nil {
		c27Panicf("%v", err)
	}
	e := c27NewEnv(w.t, d, cfg)
	w.envs[cfg] = e
	return e
}

// validateModel runs the program statement by statement on plain SQLite (no
// rqlite code, no hooks) and compares table images with the model after every
// statement. A mismatch is a harness (model) bug.
func (w *c27Worker) validateModel(prog []c27Stmt, tx bool, tr c27Trace) string {
	if w.shadow == nil {
		var err error
		w.shadow, err = stdsql.Open("sqlite3", ":memory:")
		if err != nil {
			c27Panicf("%v", err)
		}
		w.shadow.SetMaxOpenConns(1)
		for _, s := range c27Schema {
			if _, err := w.shadow.Exec(s); err != nil {
				c27Panicf("%v", err)
			}
		}
	}
	for _, s := range c27ResetSQL {
		if _, err := w.shadow.Exec(s); err != nil {
			c27Panicf("%v", err)
		}
	}
	if tx {
		w.shadow.Exec("BEGIN")
	}
	for i, s := range prog {
		_, err := w.shadow.Exec(s.SQL)
		if (err != nil) != tr.failed[i] {
			return fmt.Sprintf("stmt %d %s: sqlite err=%v, model failed=%v", i, s.Name, err, tr.failed[i])
		}
		img, serr := c27Snapshot(w.shadow)
		if serr != nil {
			c27Panicf("%v", serr)
		}
		if !c27ImageEq(img, tr.states[i].image()) {
			return fmt.Sprintf("stmt %d %s: sqlite image %v != model %v", i, s.Name, img, tr.states[i].image())
		}
		if tx && err != nil {
			w.shadow.Exec("ROLLBACK")
			tx = false
			break
		}
	}
	if tx {
		w.shadow.Exec("COMMIT")
	}
	img, serr := c27Snapshot(w.shadow)
	if serr != nil {
		c27Panicf("%v", serr)
	}
	if !c27ImageEq(img, tr.final.image()) {
		return fmt.Sprintf("final: sqlite image %v != model %v", img, tr.final.image())
	}
	return ""
}

func (w *c27Worker) runCase(prog []c27Stmt, tx bool, cfg c27Cfg, tr c27Trace) {
	r := w.r
	e := w.env(cfg)
	var names, sqls []string
	for _, s := range prog {
		names = append(names, s.Name)
		sqls = append(sqls, s.SQL)
	}
	rp := c27Replay{Stmts: names, SQL: sqls, Tx: tx, Cfg: cfg}
	desc := fmt.Sprintf("%v tx=%v filter=%q idsOnly=%v entry=%s", names, tx, cfg.Filter, cfg.IDsOnly, cfg.Entry)

	e.reset()
	before, err := c27Snapshot(e.raw)
	if err != nil {
		c27Panicf("snapshot: %v", err)
	}
	if !c27ImageEq(before, c27Initial().image()) {
		c27Panicf("reset did not restore the initial image: %v", before)
	}
	e.idx++
	e.st.Reset(e.idx) // as store.fsmApply does before processing each entry
	req := c27Request(prog, tx)
	var results []*command.ExecuteQueryResponse
	if cfg.Entry == "Execute" {
		results, err = e.db.Execute(req, false)
	} else {
		results, err = e.db.Request(req, false)
	}
	groups := e.drain()
	after, serr := c27Snapshot(e.raw)
	if serr != nil {
		c27Panicf("snapshot: %v", serr)
	}
	r.Eval(1)
	if err != nil {
		r.Violation("C27:request-error", desc+": "+err.Error(), rp)
		return
	}
	// The reference model must describe what the request really did.
	if !c27ImageEq(after, tr.final.image()) {
		r.Violation("C27:final-image-differs-from-reference", fmt.Sprintf("%s: real image %v, reference %v", desc, after, tr.final.image()), rp)
		return
	}
	if len(results) != tr.executed {
		r.Violation("C27:final-image-differs-from-reference", fmt.Sprintf("%s: %d results, reference executed %d statements", desc, len(results), tr.executed), rp)
		return
	}
	for i, res := range results {
		if (res.GetError() != "") != tr.failed[i] {
			r.Violation("C27:final-image-differs-from-reference", fmt.Sprintf("%s: statement %d error=%q, reference failed=%v", desc, i, res.GetError(), tr.failed[i]), rp)
			return
		}
	}

	var re *regexp.Regexp
	if cfg.Filter != "" {
		re = regexp.MustCompile(cfg.Filter)
	}
	exp := c27FilterChanges(tr.committed, re)
	rb := c27FilterChanges(tr.rolledBack, re)
	var evs []*command.CDCEvent
	var shape []string
	for _, g := range groups {
		if len(g.Events) == 0 {
			r.Violation("C27:empty-event-group", desc, rp)
		}
		evs = append(evs, g.Events...)
		for _, ev := range g.Events {
			shape = append(shape, fmt.Sprintf("%s/%s/%d/%d/%v", ev.Op, ev.Table, ev.OldRowId, ev.NewRowId, ev.NewRow != nil || ev.OldRow != nil))
		}
		shape = append(shape, "|")
	}
	r.Distinct(strings.Join(shape, " "))

	if re != nil {
		for _, ev := range evs {
			if !re.MatchString(ev.Table) {
				r.Violation("C27:event-for-filtered-out-table", fmt.Sprintf("%s: event for table %s", desc, ev.Table), rp)
				return
			}
		}
	}
	class, detail := c27Match(exp, evs, cfg.IDsOnly)
	if class != "" {
		if c27LeakOnly(exp, rb, evs, cfg.IDsOnly) {
			r.Violation("C27:rolled-back-statement-event-leaks", fmt.Sprintf("%s: delivered %d events, %d expected; the extra ones describe rows whose change was rolled back: %s", desc, len(evs), len(exp), c27Events(evs)), rp)
			return
		}
		if class == "count" {
			if len(evs) > len(exp) {
				class = "extra-event"
			} else {
				class = "missing-event"
			}
			detail += ": expected " + fmt.Sprint(exp) + " got " + c27Events(evs)
		}
		r.Violation("C27:"+class, desc+": "+detail, rp)
		return
	}
	if d := c27CheckJSON(groups, exp, cfg.IDsOnly); d != "" {
		r.Violation("C27:json-envelope-mismatch", desc+": "+d, rp)
		return
	}
	// the number of rows before/after is consistent with the events (independent of the model):
	// inserted - deleted == delta of row count, per table, for unfiltered tables.
	for _, t := range []string{"a", "b"} {
		if re != nil && !re.MatchString(t) {
			continue
		}
		delta := 0
		for _, ev := range evs {
			if ev.Table != t {
				continue
			}
			switch ev.Op {
			case command.CDCEvent_INSERT:
				delta++
			case command.CDCEvent_DELETE:
				delta--
			}
		}
		if len(after[t])-len(before[t]) != delta {
			r.Violation("C27:event-count-vs-image-delta", fmt.Sprintf("%s: table %s grew by %d rows, events imply %d", desc, t, len(after[t])-len(before[t]), delta), rp)
		}
	}
}

func c27Events(evs []*command.CDCEvent) string {
	p := make([]string, len(evs))
	for i, ev := range evs {
		p[i] = "{" + c27FromEvent(ev).String() + "}"
	}
	return "[" + strings.Join(p, " ") + "]"
}

func TestVerif_C27(t *testing.T) {
	r := kit.Start(t, "C27", "enum")
	defer r.Finish()
	menu := c27Menu()
	maxLen := r.Pick(2, 3)
	r.Rule(fmt.Sprintf("every program of 0..%d statements over a menu of %d statements (14 kinds x tables a [INTEGER PRIMARY KEY alias] and b [hidden rowid]; kinds: single-row insert, multi-row insert with affinity conversions, update one, update all, update none, delete one, delete all, REPLACE by unique key, REPLACE by rowid (can delete two rows), upsert, failing multi-row INSERT (statement rolled back after changing a row), INSERT OR FAIL (keeps first row, then fails), rowid-changing UPDATE, multi-row UPDATE failing on the 2nd row) x transaction flag x filter {none, ^a$} x ids-only x entry point {Execute, Request}; a case is one request on a 2+2-row database with integer/real/text/blob/NULL values; distinct = delivered (op,table,old id,new id,values present) sequences with group boundaries", maxLen, len(menu)))
	r.Assume("SQLite's own execution of each menu statement (validated per statement against the model on a shadow database) is the meaning of 'rows changed'; an UPDATE that matches a row updates it even when the new values equal the old")
	r.Assume("REPLACE is a delete of each conflicting row followed by an insert; when one REPLACE deletes two rows the order of the two DELETE events is not judged")

	var progs [][]c27Stmt
	var gen func(prefix []c27Stmt, n int)
	gen = func(prefix []c27Stmt, n int) {
		if len(prefix) == n {
			progs = append(progs, append([]c27Stmt(nil), prefix...))
			return
		}
		for _, s := range menu {
			gen(append(prefix, s), n)
		}
	}
	for n := 0; n <= maxLen; n++ {
		gen(nil, n)
	}
	var cfgs []c27Cfg
	for _, f := range []string{"", "^a$"} {
		for _, ids := range []bool{false, true} {
			for _, en := range []string{"Execute", "Request"} {
				cfgs = append(cfgs, c27Cfg{f, ids, en})
			}
		}
	}

	byName := map[string]c27Stmt{}
	for _, s := range menu {
		byName[s.Name] = s
	}
	if raw := kit.Replay(); raw != nil {
		var rp c27Replay
		if err := json.Unmarshal(raw, &rp); err != nil {
			t.Fatal(err)
		}
		if rp.Part != "" && rp.Part != "enum" {
			t.Skip("replay is for another part")
		}
		var prog []c27Stmt
		for _, n := range rp.Stmts {
			s, ok := byName[n]
			if !ok {
				t.Fatalf("unknown statement %q", n)
			}
			prog = append(prog, s)
		}
		w := &c27Worker{t: t, r: r, envs: map[c27Cfg]*c27Env{}, dir: kit.Scratch(t)}
		tr := c27Ref(prog, rp.Tx)
		if d := w.validateModel(prog, rp.Tx, tr); d != "" {
			t.Fatalf("model/SQLite divergence: %s", d)
		}
		w.runCase(prog, rp.Tx, rp.Cfg, tr)
		for _, e := range w.envs {
			e.close()
		}
		return
	}

	base := kit.Scratch(t)
	nw := 16
	var wg sync.WaitGroup
	var mu sync.Mutex
	var modelErr string
	for wi := 0; wi < nw; wi++ {
		wg.Add(1)
		go func(wi int) {
			defer wg.Done()
			dir := filepath.Join(base, fmt.Sprintf("w%d", wi))
			if err := os.MkdirAll(dir, 0o755); err != nil {
				panic(err)
			}
			w := &c27Worker{t: t, r: r, envs: map[c27Cfg]*c27Env{}, dir: dir}
			defer func() {
				for _, e := range w.envs {
					e.close()
				}
				if w.shadow != nil {
					w.shadow.Close()
				}
			}()
			for pi := wi; pi < len(progs); pi += nw {
				prog := progs[pi]
				for _, tx := range []bool{false, true} {
					tr := c27Ref(prog, tx)
					if d := w.validateModel(prog, tx, tr); d != "" {
						mu.Lock()
						if modelErr == "" {
							var names []string
							for _, s := range prog {
								names = append(names, s.Name)
							}
							modelErr = fmt.Sprintf("%v tx=%v: %s", names, tx, d)
						}
						mu.Unlock()
						return
					}
					r.Validated(1)
					for _, cfg := range cfgs {
						w.runCase(prog, tx, cfg, tr)
					}
				}
				if pi%97 == 0 {
					var names []string
					for _, s := range prog {
						names = append(names, s.SQL)
					}
					r.SampleEvery(pi/97, map[string]any{"program": names})
				}
			}
		}(wi)
	}
	wg.Wait()
	if modelErr != "" {
		t.Fatalf("harness reference model disagrees with SQLite: %s", modelErr)
	}
	c27ExtraHooks.Range(func(k, _ any) bool {
		r.Note("additional streamer hook wired by naming convention: %v", k)
		return true
	})
	r.Note("observation (not judged): SQLite's pre-update hook reports an integral value of a REAL column as INTEGER in 'after' rows (3 for a stored 3.0); values are compared numerically, and the JSON envelope is identical")
	r.Set("programs", int64(len(progs)))
	r.Set("configs_per_program", int64(2*len(cfgs)))
}
