package db

import (
	"bytes"
	stdsql "database/sql"
	"encoding/json"
	"fmt"
	"os"
	"path/filepath"
	"reflect"
	"regexp"
	"sort"
	"strings"
	"sync"
	"testing"

	cdcjson "github.com/rqlite/rqlite/v10/cdc/json"
	command "github.com/rqlite/rqlite/v10/command/proto"
	kit "github.com/rqlite/rqlite/v10/internal/verifkit"
)

// C27, part "schema": write programs that CHANGE THE SCHEMA while CDC is active.
//
// The menu of part "enum" never alters a table once the streamer is wired. Here
// every program of <=2 (quick) / <=3 (thorough) symbols over
//
//	schema ops, per table (a: INTEGER PRIMARY KEY alias, b: hidden rowid):
//	  ALTER TABLE RENAME COLUMN, ADD COLUMN, ADD COLUMN .. DEFAULT, DROP COLUMN,
//	  RENAME TO, DROP TABLE + CREATE TABLE of the same name with other columns;
//	  CREATE TABLE of a new table c; a table Ord written to, dropped and re-created as ord
//	  (and the reverse): names that differ only in letter case, under the case-sensitive filter
//	row changes, per table: single-row INSERT, two-row INSERT, UPDATE of every row,
//	  DELETE of one row, DELETE of every row; INSERT into c; INSERT into ord/Ord
//
// is executed x transaction flag x filter {none, ^(a|a2|ord)$ (case-sensitive)} x ids-only x entry point
// {Execute, Request} on a real WAL database with the real CDCStreamer wired as
// store.fsmApply wires it. Statements that fail (a column that no longer
// exists, a table not yet created) are part of the alphabet.
//
// Oracle (unchanged): the same statements are run one by one on a plain SQLite
// shadow database (no rqlite code); the expected events of a statement are the
// diff, by rowid, of the shadow's table images before and after it, with the
// column names the shadow table has at that moment. Events must appear in
// statement order (within one statement the order is not judged); values must
// be equal; column names must be the table's names at the time of the change;
// no event may carry an error; the JSON envelope must carry the same rows
// keyed by those names. What a DDL statement itself must emit is left open by
// the property: for a DDL statement either no event or exactly its image diff
// is accepted. The final real images (tables, columns, rows) must equal the
// shadow's.

type c27sSym struct {
	name    string
	logical string // a | b | c
	ddl     string // "" for row changes, else the schema-op kind
	render  func(cur string) []string
}

func c27sMenu() []c27sSym {
	var m []c27sSym
	for _, L := range []string{"a", "b"} {
		L := L
		add := func(name, ddl string, f func(cur string) []string) {
			m = append(m, c27sSym{name: name + "(" + L + ")", logical: L, ddl: ddl, render: f})
		}
		one := func(tpl string) func(string) []string {
			return func(cur string) []string { return []string{strings.ReplaceAll(tpl, "{T}", cur)} }
		}
		add("renameColumn", "rename-column", one("ALTER TABLE {T} RENAME COLUMN i TO j"))
		add("addColumn", "add-column", one("ALTER TABLE {T} ADD COLUMN z"))
		add("addColumnDefault", "add-column-default", one("ALTER TABLE {T} ADD COLUMN w INTEGER DEFAULT 5"))
		add("dropColumn", "drop-column", one("ALTER TABLE {T} DROP COLUMN n"))
		add("renameTable", "rename-table", func(cur string) []string {
			return []string{"ALTER TABLE " + cur + " RENAME TO " + c27sOther(cur)}
		})
		add("recreate", "recreate-table", func(cur string) []string {
			cols := "k INTEGER PRIMARY KEY, q, t TEXT, r REAL, y BLOB"
			if L == "b" {
				cols = "q, t TEXT, r REAL, y BLOB"
			}
			return []string{"DROP TABLE " + cur, "CREATE TABLE " + cur + "(" + cols + ")"}
		})
		add("ins1", "", one("INSERT INTO {T}(r,t,y) VALUES(3.5,'p',x'01')"))
		add("ins2", "", one("INSERT INTO {T}(r,t,y) VALUES(0.5,'q',x''),(2,'s',NULL)"))
		add("updAll", "", one("UPDATE {T} SET r=r+1, t=t||'u'"))
		add("del1", "", one("DELETE FROM {T} WHERE t LIKE 'y%'"))
		add("delAll", "", one("DELETE FROM {T}"))
	}
	// Table names that differ only in letter case (SQLite forbids the two to coexist, so one is
	// written to, dropped, and the other created): with the case-sensitive filter only "ord"
	// is to be captured, by the table's real name at the time of the change.
	dcols := "(k INTEGER PRIMARY KEY, t TEXT, r REAL, y BLOB)"
	m = append(m, c27sSym{name: "writeUpperRecreateLower(d)", logical: "d", ddl: "recreate-other-case", render: func(string) []string {
		return []string{"CREATE TABLE Ord" + dcols, "INSERT INTO Ord(r,t,y) VALUES(1.5,'o',x'02')", "DROP TABLE Ord", "CREATE TABLE ord" + dcols}
	}})
	m = append(m, c27sSym{name: "writeLowerRecreateUpper(d)", logical: "d", ddl: "recreate-other-case", render: func(string) []string {
		return []string{"CREATE TABLE ord" + dcols, "INSERT INTO ord(r,t,y) VALUES(1.5,'o',x'02')", "DROP TABLE ord", "CREATE TABLE Ord" + dcols}
	}})
	m = append(m, c27sSym{name: "ins1(d)", logical: "d", render: func(string) []string {
		return []string{"INSERT INTO ord(r,t,y) VALUES(3.5,'p',x'01')"} // resolves to Ord or ord, whichever exists
	}})
	m = append(m, c27sSym{name: "createTable(c)", logical: "c", ddl: "create-table", render: func(string) []string {
		return []string{"CREATE TABLE c(k INTEGER PRIMARY KEY, t TEXT, r REAL, y BLOB)"}
	}})
	m = append(m, c27sSym{name: "ins1(c)", logical: "c", render: func(string) []string {
		return []string{"INSERT INTO c(r,t,y) VALUES(3.5,'p',x'01')"}
	}})
	return m
}

// c27sFilterRe is case-sensitive: it matches a, a2 and ord, and neither b, b2, c nor Ord.
const c27sFilterRe = "^(a|a2|ord)$"

func c27sOther(cur string) string {
	if strings.HasSuffix(cur, "2") {
		return strings.TrimSuffix(cur, "2")
	}
	return cur + "2"
}

var c27sResetSQL = []string{
	"DROP TABLE IF EXISTS a", "DROP TABLE IF EXISTS a2", "DROP TABLE IF EXISTS b", "DROP TABLE IF EXISTS b2", "DROP TABLE IF EXISTS c", "DROP TABLE IF EXISTS ord",
	"CREATE TABLE a (id INTEGER PRIMARY KEY, i INTEGER, r REAL, t TEXT, y BLOB, n)",
	"CREATE TABLE b (i INTEGER, r REAL, t TEXT, y BLOB, n)",
	"INSERT INTO a(id,i,r,t,y,n) VALUES(1,10,1.5,'x',x'00ff',NULL),(3,NULL,-2.0,'y',x'',7)",
	"INSERT INTO b(rowid,i,r,t,y,n) VALUES(1,10,1.5,'x',x'00ff',NULL),(2,NULL,-2.0,'y',x'',7)",
}

// c27sStmt is one rendered statement of a program.
type c27sStmt struct {
	SQL     string
	sym     string
	logical string
	ddl     string // kind, for DDL statements
	ctx     string // for row changes: the last schema op applied to the logical table earlier in the program
}

func c27sRender(prog []c27sSym) []c27sStmt {
	cur := map[string]string{"a": "a", "b": "b", "c": "c", "d": "ord"}
	last := map[string]string{}
	var out []c27sStmt
	for _, s := range prog {
		for _, q := range s.render(cur[s.logical]) {
			st := c27sStmt{SQL: q, sym: s.name, logical: s.logical, ddl: s.ddl}
			if s.ddl != "" && (strings.HasPrefix(q, "INSERT") || strings.HasPrefix(q, "UPDATE") || strings.HasPrefix(q, "DELETE")) {
				// a row change inside a composite schema symbol is judged like any other row change
				st.ddl = ""
				st.ctx = "in-" + s.ddl
			} else if s.ddl == "" {
				st.ctx = "no-schema-change"
				if l := last[s.logical]; l != "" {
					st.ctx = "after-" + l
				}
			} else {
				st.ctx = "at-" + s.ddl
			}
			out = append(out, st)
		}
		if s.ddl != "" {
			last[s.logical] = s.ddl
			if s.ddl == "rename-table" {
				cur[s.logical] = c27sOther(cur[s.logical])
			}
		}
	}
	return out
}

type c27sTableImg struct {
	cols []string
	rows map[int64][]any
}
type c27sImage map[string]*c27sTableImg

func c27sSnap(db *stdsql.DB) c27sImage {
	out := c27sImage{}
	rs, err := db.Query("SELECT name FROM sqlite_master WHERE type='table' AND name NOT LIKE 'sqlite_%' ORDER BY name")
	if err != nil {
		c27Panicf("snapshot: %v", err)
	}
	var names []string
	for rs.Next() {
		var n string
		if err := rs.Scan(&n); err != nil {
			c27Panicf("snapshot: %v", err)
		}
		names = append(names, n)
	}
	rs.Close()
	for _, n := range names {
		rows, err := db.Query(fmt.Sprintf("SELECT rowid, * FROM %q ORDER BY rowid", n))
		if err != nil {
			c27Panicf("snapshot of %s: %v", n, err)
		}
		cols, _ := rows.Columns()
		ti := &c27sTableImg{cols: append([]string(nil), cols[1:]...), rows: map[int64][]any{}}
		for rows.Next() {
			vals := make([]any, len(cols))
			ptrs := make([]any, len(cols))
			for i := range vals {
				ptrs[i] = &vals[i]
			}
			if err := rows.Scan(ptrs...); err != nil {
				c27Panicf("snapshot of %s: %v", n, err)
			}
			id, ok := vals[0].(int64)
			if !ok {
				c27Panicf("snapshot of %s: rowid is %T", n, vals[0])
			}
			ti.rows[id] = vals[1:]
		}
		if err := rows.Err(); err != nil {
			c27Panicf("snapshot of %s: %v", n, err)
		}
		rows.Close()
		out[n] = ti
	}
	return out
}

func c27sImageEq(a, b c27sImage) bool {
	if len(a) != len(b) {
		return false
	}
	for n, ta := range a {
		tb, ok := b[n]
		if !ok || !reflect.DeepEqual(ta.cols, tb.cols) || len(ta.rows) != len(tb.rows) {
			return false
		}
		for id, r := range ta.rows {
			r2, ok := tb.rows[id]
			if !ok || !c27RowEq(r, r2) {
				return false
			}
		}
	}
	return true
}

func (im c27sImage) String() string {
	var names []string
	for n := range im {
		names = append(names, n)
	}
	sort.Strings(names)
	var b strings.Builder
	for _, n := range names {
		fmt.Fprintf(&b, "%s%v{", n, im[n].cols)
		var ids []int64
		for id := range im[n].rows {
			ids = append(ids, id)
		}
		sort.Slice(ids, func(i, j int) bool { return ids[i] < ids[j] })
		for _, id := range ids {
			fmt.Fprintf(&b, "%d:%s ", id, c27Show(im[n].rows[id]))
		}
		b.WriteString("} ")
	}
	return b.String()
}

type c27sChange struct {
	Op     string   `json:"op"`
	Table  string   `json:"table"`
	OldID  int64    `json:"old_id"`
	NewID  int64    `json:"new_id"`
	Before []any    `json:"before"`
	After  []any    `json:"after"`
	Cols   []string `json:"cols"` // the table's column names at the time of the change
}

func (c c27sChange) String() string {
	return fmt.Sprintf("%s %s old=%d new=%d cols=%v before=%s after=%s", c.Op, c.Table, c.OldID, c.NewID, c.Cols, c27Show(c.Before), c27Show(c.After))
}

// c27sDiffImages lists the row changes between two images, by table name and rowid.
func c27sDiffImages(before, after c27sImage) []c27sChange {
	names := map[string]bool{}
	for n := range before {
		names[n] = true
	}
	for n := range after {
		names[n] = true
	}
	var sorted []string
	for n := range names {
		sorted = append(sorted, n)
	}
	sort.Strings(sorted)
	var out []c27sChange
	for _, n := range sorted {
		tb, ta := before[n], after[n]
		ids := map[int64]bool{}
		if tb != nil {
			for id := range tb.rows {
				ids[id] = true
			}
		}
		if ta != nil {
			for id := range ta.rows {
				ids[id] = true
			}
		}
		var sids []int64
		for id := range ids {
			sids = append(sids, id)
		}
		sort.Slice(sids, func(i, j int) bool { return sids[i] < sids[j] })
		for _, id := range sids {
			var rb, ra []any
			if tb != nil {
				rb = tb.rows[id]
			}
			if ta != nil {
				ra = ta.rows[id]
			}
			switch {
			case rb == nil && ra != nil:
				out = append(out, c27sChange{Op: "INSERT", Table: n, NewID: id, After: ra, Cols: ta.cols})
			case rb != nil && ra == nil:
				out = append(out, c27sChange{Op: "DELETE", Table: n, OldID: id, Before: rb, Cols: tb.cols})
			case !c27RowEq(rb, ra):
				out = append(out, c27sChange{Op: "UPDATE", Table: n, OldID: id, NewID: id, Before: rb, After: ra, Cols: ta.cols})
			}
		}
	}
	return out
}

// c27sExp is the reference outcome of one executed statement.
type c27sExp struct {
	stmt    c27sStmt
	failed  bool
	changes []c27sChange
}

type c27sTrace struct {
	start    c27sImage
	stmts    []c27sExp // executed statements (tx stops at the first failure)
	rolled   bool      // tx rolled back: nothing is committed
	final    c27sImage
	executed int
}

func c27sShadowRun(shadow *stdsql.DB, stmts []c27sStmt, tx bool) c27sTrace {
	for _, s := range c27sResetSQL {
		if _, err := shadow.Exec(s); err != nil {
			c27Panicf("shadow reset: %v", err)
		}
	}
	var tr c27sTrace
	tr.start = c27sSnap(shadow)
	if tx {
		if _, err := shadow.Exec("BEGIN"); err != nil {
			c27Panicf("shadow: %v", err)
		}
	}
	img := tr.start
	for _, st := range stmts {
		_, err := shadow.Exec(st.SQL)
		after := c27sSnap(shadow)
		e := c27sExp{stmt: st, failed: err != nil, changes: c27sDiffImages(img, after)}
		if err != nil && len(e.changes) != 0 {
			c27Panicf("shadow: failing statement %q changed rows: %v", st.SQL, e.changes)
		}
		tr.stmts = append(tr.stmts, e)
		tr.executed++
		img = after
		if err != nil && tx {
			if _, err := shadow.Exec("ROLLBACK"); err != nil {
				c27Panicf("shadow: %v", err)
			}
			tr.rolled = true
			tx = false
			break
		}
	}
	if tx {
		if _, err := shadow.Exec("COMMIT"); err != nil {
			c27Panicf("shadow: %v", err)
		}
	}
	tr.final = c27sSnap(shadow)
	return tr
}

// c27sDiff compares one expected change with one delivered event: "" or a symptom.
func c27sDiff(exp c27sChange, ev *command.CDCEvent, idsOnly bool, startCols []string) string {
	switch {
	case ev.Error != "":
		return "event-carries-error"
	case ev.Table != exp.Table:
		return "wrong-table"
	case ev.Op.String() != exp.Op:
		return "wrong-operation"
	case ev.OldRowId != exp.OldID || ev.NewRowId != exp.NewID:
		return "wrong-row-id"
	}
	if idsOnly {
		if ev.OldRow != nil || ev.NewRow != nil {
			return "values-present-in-ids-only-mode"
		}
		return ""
	}
	if (exp.Before == nil) != (ev.OldRow == nil) || (exp.After == nil) != (ev.NewRow == nil) {
		return "before-after-presence"
	}
	if !c27RowEq(exp.Before, c27EventRow(ev.OldRow)) {
		return "wrong-before-values"
	}
	if !c27RowEq(exp.After, c27EventRow(ev.NewRow)) {
		return "wrong-after-values"
	}
	if !reflect.DeepEqual(exp.Cols, ev.ColumnNames) {
		if startCols != nil && reflect.DeepEqual(startCols, ev.ColumnNames) {
			return "stale-column-names"
		}
		return "wrong-column-names"
	}
	return ""
}

// c27sMatchSet matches a set of expected changes against the same number of events, order-free.
// It returns the change matched to each event, or a symptom.
func c27sMatchSet(exp []c27sChange, evs []*command.CDCEvent, idsOnly bool, start c27sImage) ([]c27sChange, string, string) {
	matched := make([]c27sChange, len(evs))
	used := make([]bool, len(evs))
	for _, c := range exp {
		found, first := false, ""
		var startCols []string
		if t := start[c.Table]; t != nil {
			startCols = t.cols
		}
		for l, ev := range evs {
			if used[l] {
				continue
			}
			d := c27sDiff(c, ev, idsOnly, startCols)
			if d == "" {
				used[l], found, matched[l] = true, true, c
				break
			}
			// prefer the symptom of the event that is about the same row
			if first == "" || (ev.Table == c.Table && ev.OldRowId == c.OldID && ev.NewRowId == c.NewID) {
				first = d
			}
		}
		if !found {
			return nil, first, fmt.Sprintf("no event matches {%s} among %s", c, c27sEvents(evs))
		}
	}
	return matched, "", ""
}

func c27sEvents(evs []*command.CDCEvent) string {
	p := make([]string, len(evs))
	for i, ev := range evs {
		p[i] = fmt.Sprintf("{%s %s old=%d new=%d cols=%v err=%q before=%s after=%s}", ev.Op, ev.Table, ev.OldRowId, ev.NewRowId, ev.ColumnNames, ev.Error, c27Show(c27EventRow(ev.OldRow)), c27Show(c27EventRow(ev.NewRow)))
	}
	return "[" + strings.Join(p, " ") + "]"
}

func c27sFilter(chs []c27sChange, re *regexp.Regexp) []c27sChange {
	if re == nil {
		return chs
	}
	var out []c27sChange
	for _, c := range chs {
		if re.MatchString(c.Table) {
			out = append(out, c)
		}
	}
	return out
}

type c27sReplay struct {
	Part  string   `json:"part"`
	Stmts []string `json:"stmts"`
	SQL   []string `json:"sql"`
	Tx    bool     `json:"tx"`
	Cfg   c27Cfg   `json:"cfg"`
}

type c27sWorker struct {
	t      *testing.T
	r      *kit.Run
	envs   map[c27Cfg]*c27Env
	shadow *stdsql.DB
	dir    string
}

func (w *c27sWorker) env(cfg c27Cfg) *c27Env {
	if e, ok := w.envs[cfg]; ok {
		return e
	}
	d := filepath.Join(w.dir, fmt.Sprintf("e%d", len(w.envs)))
	if err := os.MkdirAll(d, 0o755); err != nil {
		c27Panicf("%v", err)
	}
	e := c27NewEnv(w.t, d, cfg)
	w.envs[cfg] = e
	return e
}

func (w *c27sWorker) close() {
	for _, e := range w.envs {
		e.close()
	}
	if w.shadow != nil {
		w.shadow.Close()
	}
}

func c27sKey(symptom string, st c27sStmt, tx bool) string {
	k := "C27:" + symptom + ":" + st.ctx
	if st.ctx != "no-schema-change" {
		if tx {
			k += ":same-transaction"
		} else {
			k += ":separate-commits"
		}
	}
	return k
}

func (w *c27sWorker) runCase(prog []c27sSym, stmts []c27sStmt, tx bool, cfg c27Cfg, tr c27sTrace) {
	r := w.r
	e := w.env(cfg)
	var names, sqls []string
	for _, s := range prog {
		names = append(names, s.name)
	}
	for _, s := range stmts {
		sqls = append(sqls, s.SQL)
	}
	rp := c27sReplay{Part: "schema", Stmts: names, SQL: sqls, Tx: tx, Cfg: cfg}
	desc := fmt.Sprintf("%q tx=%v filter=%q idsOnly=%v entry=%s", sqls, tx, cfg.Filter, cfg.IDsOnly, cfg.Entry)

	// reset the real database to the initial schema and rows
	req := &command.Request{Transaction: true}
	for _, s := range c27sResetSQL {
		req.Statements = append(req.Statements, &command.Statement{Sql: s})
	}
	res, err := e.db.Execute(req, false)
	if err != nil || len(res) != len(c27sResetSQL) {
		c27Panicf("reset: %v %v", res, err)
	}
	for _, x := range res {
		if x.GetError() != "" {
			c27Panicf("reset: %s", x.GetError())
		}
	}
	e.drain()
	if before := c27sSnap(e.raw); !c27sImageEq(before, tr.start) {
		c27Panicf("reset did not restore the initial image: %v", before)
	}
	// Let the pooled read-only connection (the one DB.ColumnNames uses; single-threaded use
	// keeps the pool at one connection) run a statement, so that it has seen the schema as
	// it is at the start of the program: whatever is stale afterwards is due to the program.
	if _, err := e.db.QueryStringStmt("SELECT count(*) FROM sqlite_master"); err != nil {
		c27Panicf("refresh of the read-only connection: %v", err)
	}

	e.idx++
	e.st.Reset(e.idx) // as store.fsmApply does before processing each entry
	req = &command.Request{Transaction: tx}
	for _, s := range stmts {
		req.Statements = append(req.Statements, &command.Statement{Sql: s.SQL})
	}
	var results []*command.ExecuteQueryResponse
	if cfg.Entry == "Execute" {
		results, err = e.db.Execute(req, false)
	} else {
		results, err = e.db.Request(req, false)
	}
	groups := e.drain()
	after := c27sSnap(e.raw)
	r.Eval(1)
	if err != nil {
		r.Violation("C27:request-error", desc+": "+err.Error(), rp)
		return
	}
	// the shadow must describe what the request really did
	if !c27sImageEq(after, tr.final) {
		r.Violation("C27:final-image-differs-from-reference", fmt.Sprintf("%s: real image %v, shadow %v", desc, after, tr.final), rp)
		return
	}
	if len(results) != tr.executed {
		r.Violation("C27:final-image-differs-from-reference", fmt.Sprintf("%s: %d results, shadow executed %d statements", desc, len(results), tr.executed), rp)
		return
	}
	for i, x := range results {
		if (x.GetError() != "") != tr.stmts[i].failed {
			r.Violation("C27:final-image-differs-from-reference", fmt.Sprintf("%s: statement %d error=%q, shadow failed=%v", desc, i, x.GetError(), tr.stmts[i].failed), rp)
			return
		}
	}

	var re *regexp.Regexp
	if cfg.Filter != "" {
		re = regexp.MustCompile(cfg.Filter)
	}
	var evs []*command.CDCEvent
	var shape []string
	for _, g := range groups {
		if len(g.Events) == 0 {
			r.Violation("C27:empty-event-group", desc, rp)
		}
		evs = append(evs, g.Events...)
		for _, ev := range g.Events {
			shape = append(shape, fmt.Sprintf("%s/%s/%d/%d/%v/%d names/err=%v", ev.Op, ev.Table, ev.OldRowId, ev.NewRowId, ev.NewRow != nil || ev.OldRow != nil, len(ev.ColumnNames), ev.Error != ""))
		}
		shape = append(shape, "|")
	}
	r.Distinct(strings.Join(shape, " "))
	if re != nil {
		for _, ev := range evs {
			if !re.MatchString(ev.Table) {
				r.Violation("C27:event-for-filtered-out-table", fmt.Sprintf("%s: event for table %s", desc, ev.Table), rp)
				return
			}
		}
	}

	// sequential matching, statement by statement. What a DDL statement emits is left open:
	// nothing, or exactly its image diff; every combination is tried, "nothing" first.
	type vio struct{ key, what string }
	var ddlIdx []int
	if !tr.rolled {
		for i, x := range tr.stmts {
			if x.stmt.ddl != "" && len(c27sFilter(x.changes, re)) > 0 {
				ddlIdx = append(ddlIdx, i)
			}
		}
	}
	try := func(mask int) ([]c27sChange, *vio) {
		matched := make([]c27sChange, 0, len(evs))
		k := 0
		if !tr.rolled {
			for i, x := range tr.stmts {
				exp := c27sFilter(x.changes, re)
				if len(exp) == 0 {
					continue
				}
				if x.stmt.ddl != "" {
					bit := 0
					for j, di := range ddlIdx {
						if di == i {
							bit = 1 << j
						}
					}
					if mask&bit == 0 {
						continue
					}
				}
				if k+len(exp) > len(evs) {
					return nil, &vio{c27sKey("missing-event", x.stmt, tx), fmt.Sprintf("%s: statement %q: expected %v, only %d events left of %s", desc, x.stmt.SQL, exp, len(evs)-k, c27sEvents(evs))}
				}
				m, sym, detail := c27sMatchSet(exp, evs[k:k+len(exp)], cfg.IDsOnly, tr.start)
				if sym != "" {
					return nil, &vio{c27sKey(sym, x.stmt, tx), fmt.Sprintf("%s: statement %q: %s", desc, x.stmt.SQL, detail)}
				}
				matched = append(matched, m...)
				k += len(exp)
			}
		}
		if k != len(evs) {
			last := c27sStmt{ctx: "no-schema-change"}
			if len(stmts) > 0 {
				last = stmts[len(stmts)-1]
			}
			return nil, &vio{c27sKey("extra-event", last, tx), fmt.Sprintf("%s: %d events beyond the expected ones: %s", desc, len(evs)-k, c27sEvents(evs[k:]))}
		}
		return matched, nil
	}
	matched, first := try(0)
	for mask := 1; first != nil && mask < 1<<len(ddlIdx); mask++ {
		if m, v := try(mask); v == nil {
			matched, first = m, nil
		}
	}
	if first != nil {
		r.Violation(first.key, first.what, rp)
		return
	}

	// JSON envelope
	if len(groups) == 0 {
		return
	}
	b, err := cdcjson.MarshalToEnvelopeJSON("svc", "node", false, groups)
	if err != nil {
		r.Violation("C27:json-envelope-mismatch", desc+": marshal: "+err.Error(), rp)
		return
	}
	var envl struct {
		Payload []struct {
			Events []map[string]any
		} `json:"payload"`
	}
	dec := json.NewDecoder(bytes.NewReader(b))
	dec.UseNumber()
	if err := dec.Decode(&envl); err != nil {
		r.Violation("C27:json-envelope-mismatch", desc+": decode: "+err.Error(), rp)
		return
	}
	var jevs []map[string]any
	for _, p := range envl.Payload {
		jevs = append(jevs, p.Events...)
	}
	if len(jevs) != len(matched) {
		r.Violation("C27:json-envelope-mismatch", fmt.Sprintf("%s: JSON has %d events, expected %d", desc, len(jevs), len(matched)), rp)
		return
	}
	for i, want := range matched {
		m := map[string]any{"op": want.Op, "table": want.Table}
		if want.NewID != 0 {
			m["new_row_id"] = want.NewID
		}
		if want.OldID != 0 {
			m["old_row_id"] = want.OldID
		}
		if !cfg.IDsOnly {
			for name, row := range map[string][]any{"before": want.Before, "after": want.After} {
				if row == nil {
					continue
				}
				rm := map[string]any{}
				for j, c := range want.Cols {
					rm[c] = row[j]
				}
				m[name] = rm
			}
		}
		if wv := c27JSONNorm(m); !reflect.DeepEqual(wv, any(jevs[i])) {
			wb, _ := json.Marshal(wv)
			gb, _ := json.Marshal(jevs[i])
			r.Violation("C27:json-envelope-mismatch", fmt.Sprintf("%s: JSON event %d: expected %s got %s", desc, i, wb, gb), rp)
			return
		}
	}
}

func TestVerif_C27_schema(t *testing.T) {
	r := kit.Start(t, "C27", "schema")
	defer r.Finish()
	menu := c27sMenu()
	maxLen := r.Pick(2, 3)
	r.Rule(fmt.Sprintf("every program of 0..%d symbols over a menu of %d (per table a [INTEGER PRIMARY KEY alias] / b [hidden rowid]: RENAME COLUMN, ADD COLUMN, ADD COLUMN DEFAULT, DROP COLUMN, RENAME TO, DROP+CREATE with other columns, 1-row INSERT, 2-row INSERT, UPDATE all, DELETE one, DELETE all; CREATE TABLE c, INSERT into c; write Ord + drop + create ord and the reverse, INSERT into ord/Ord) x transaction flag x filter {none, case-sensitive ^(a|a2|ord)$} x ids-only x entry point {Execute, Request}; a case is one request on a freshly reset 2+2-row database; expected events of each statement = rowid diff of a plain-SQLite shadow's table images around it, with the shadow's column names at that moment; distinct = delivered (op,table,ids,values present,#names,error) sequences with group boundaries", maxLen, len(menu)))
	r.Assume("what a DDL statement itself must emit (DROP TABLE, DROP COLUMN, RENAME TO) is left open by the property: no event, or exactly the statement's image diff, are both accepted")
	r.Assume("within one statement the order of events is not judged (the image diff has no order); across statements it is")

	var progs [][]c27sSym
	var gen func(prefix []c27sSym, n int)
	gen = func(prefix []c27sSym, n int) {
		if len(prefix) == n {
			progs = append(progs, append([]c27sSym(nil), prefix...))
			return
		}
		for _, s := range menu {
			gen(append(prefix, s), n)
		}
	}
	for n := 0; n <= maxLen; n++ {
		gen(nil, n)
	}
	var cfgs []c27Cfg
	for _, f := range []string{"", c27sFilterRe} {
		for _, ids := range []bool{false, true} {
			for _, en := range []string{"Execute", "Request"} {
				cfgs = append(cfgs, c27Cfg{f, ids, en})
			}
		}
	}

	newShadow := func() *stdsql.DB {
		sh, err := stdsql.Open("sqlite3", ":memory:")
		if err != nil {
			c27Panicf("%v", err)
		}
		sh.SetMaxOpenConns(1)
		return sh
	}

	if raw := kit.Replay(); raw != nil {
		var rp c27sReplay
		if err := json.Unmarshal(raw, &rp); err != nil {
			t.Fatal(err)
		}
		if rp.Part != "schema" {
			t.Skip("replay is for another part")
		}
		byName := map[string]c27sSym{}
		for _, s := range menu {
			byName[s.name] = s
		}
		var prog []c27sSym
		for _, n := range rp.Stmts {
			s, ok := byName[n]
			if !ok {
				t.Fatalf("unknown symbol %q", n)
			}
			prog = append(prog, s)
		}
		w := &c27sWorker{t: t, r: r, envs: map[c27Cfg]*c27Env{}, dir: kit.Scratch(t), shadow: newShadow()}
		defer w.close()
		stmts := c27sRender(prog)
		w.runCase(prog, stmts, rp.Tx, rp.Cfg, c27sShadowRun(w.shadow, stmts, rp.Tx))
		return
	}

	base := kit.Scratch(t)
	nw := 16
	var wg sync.WaitGroup
	for wi := 0; wi < nw; wi++ {
		wg.Add(1)
		go func(wi int) {
			defer wg.Done()
			dir := filepath.Join(base, fmt.Sprintf("w%d", wi))
			if err := os.MkdirAll(dir, 0o755); err != nil {
				panic(err)
			}
			w := &c27sWorker{t: t, r: r, envs: map[c27Cfg]*c27Env{}, dir: dir, shadow: newShadow()}
			defer w.close()
			for pi := wi; pi < len(progs); pi += nw {
				prog := progs[pi]
				stmts := c27sRender(prog)
				for _, tx := range []bool{false, true} {
					tr := c27sShadowRun(w.shadow, stmts, tx)
					r.Validated(1)
					for _, cfg := range cfgs {
						w.runCase(prog, stmts, tx, cfg, tr)
					}
				}
				if pi%199 == 0 {
					var sq []string
					for _, s := range stmts {
						sq = append(sq, s.SQL)
					}
					r.SampleEvery(pi/199, map[string]any{"program": sq})
				}
			}
		}(wi)
	}
	wg.Wait()
	r.Set("programs", int64(len(progs)))
	r.Set("configs_per_program", int64(2*len(cfgs)))
}
