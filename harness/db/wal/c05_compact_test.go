package wal

// C05: WAL compaction is equivalent to the original WAL.
//
// Two parts, both differential against SQLite itself:
//
//   synthetic  every WAL of <=N frames over a small alphabet, written frame by
//              frame by an independent WAL writer (c05W), with every single
//              flaw (stale salts, bad checksums, truncation, trailing garbage),
//              compacted by the real scanner+writer at every resume offset,
//              with and without fullScan.
//   sqlite     every workload script of <=D steps run by real SQLite (WAL kept
//              whole), optionally on top of a stale earlier WAL generation,
//              compacted at every commit boundary.
//
// Both parts run at 512-byte and at 65536-byte pages (the only page size whose
// length does not fit 16 bits); part sqlite also at 4096. Both parts cut WALs
// short inside the page data of a frame (synthetic: the last frame of every
// enumerated WAL, at 0/1/half/all-but-one bytes of page data; sqlite: every frame
// of every WAL) and push the cut file through the checksum-verifying scan and
// through the fast scan + Writer, the calls db.CheckpointManager makes. The fast
// scan seeks over page data, so it accepts a cut frame and its commit marker; for
// those files the demand is: an error, or an output that checkpoints to exactly
// what SQLite makes of the same cut file (judgeCut).
//
// Oracle: SQLite checkpoints (copy of base + rqlite's compacted WAL) and (copy of
// base + reference WAL holding exactly the valid committed frames from the
// resume position, re-checksummed by c05W); the two database files must be
// byte-identical. The model of "valid prefix" used to build the reference is
// itself validated against SQLite's own recovery on every synthetic WAL.

import (
	"bytes"
	"context"
	"crypto/sha256"
	"database/sql"
	"encoding/binary"
	"encoding/json"
	"fmt"
	"os"
	"path/filepath"
	"runtime"
	"runtime/debug"
	"strconv"
	"strings"
	"sync"
	"sync/atomic"
	"testing"

	_ "github.com/mattn/go-sqlite3"
	kit "github.com/rqlite/rqlite/v10/internal/verifkit"
)

// ---------------------------------------------------------------------------
// Independent WAL writer / parser (does not use anything from package wal).

const (
	c05MagicLE  = 0x377f0682
	c05MagicBE  = 0x377f0683
	c05Version  = 3007000
	c05HdrSize  = 32
	c05FHdrSize = 24
)

type c05Hdr struct {
	BE           bool
	PageSize     uint32
	Seq          uint32
	Salt1, Salt2 uint32
}

func c05Sum(be bool, s0, s1 uint32, b []byte) (uint32, uint32) {
	for i := 0; i+8 <= len(b); i += 8 {
		var x, y uint32
		if be {
			x, y = binary.BigEndian.Uint32(b[i:]), binary.BigEndian.Uint32(b[i+4:])
		} else {
			x, y = binary.LittleEndian.Uint32(b[i:]), binary.LittleEndian.Uint32(b[i+4:])
		}
		s0 += x + s1
		s1 += y + s0
	}
	return s0, s1
}

// c05W builds a WAL image in memory.
type c05W struct {
	h      c05Hdr
	buf    []byte
	s0, s1 uint32
}

func c05NewW(h c05Hdr, capFrames int) *c05W {
	w := &c05W{h: h, buf: make([]byte, c05HdrSize, c05HdrSize+capFrames*(c05FHdrSize+int(h.PageSize))+64)}
	magic := uint32(c05MagicLE)
	if h.BE {
		magic = c05MagicBE
	}
	binary.BigEndian.PutUint32(w.buf[0:], magic)
	binary.BigEndian.PutUint32(w.buf[4:], c05Version)
	binary.BigEndian.PutUint32(w.buf[8:], h.PageSize)
	binary.BigEndian.PutUint32(w.buf[12:], h.Seq)
	binary.BigEndian.PutUint32(w.buf[16:], h.Salt1)
	binary.BigEndian.PutUint32(w.buf[20:], h.Salt2)
	w.s0, w.s1 = c05Sum(h.BE, 0, 0, w.buf[:24])
	binary.BigEndian.PutUint32(w.buf[24:], w.s0)
	binary.BigEndian.PutUint32(w.buf[28:], w.s1)
	return w
}

// frame appends a frame continuing the checksum chain, with the header's salts.
func (w *c05W) frame(pgno, commit uint32, data []byte) {
	w.frameSalt(pgno, commit, w.h.Salt1, w.h.Salt2, data)
}

func (w *c05W) frameSalt(pgno, commit, salt1, salt2 uint32, data []byte) {
	if len(data) != int(w.h.PageSize) {
		panic("c05W: bad page length")
	}
	var fh [c05FHdrSize]byte
	binary.BigEndian.PutUint32(fh[0:], pgno)
	binary.BigEndian.PutUint32(fh[4:], commit)
	binary.BigEndian.PutUint32(fh[8:], salt1)
	binary.BigEndian.PutUint32(fh[12:], salt2)
	w.s0, w.s1 = c05Sum(w.h.BE, w.s0, w.s1, fh[:8])
	w.s0, w.s1 = c05Sum(w.h.BE, w.s0, w.s1, data)
	binary.BigEndian.PutUint32(fh[16:], w.s0)
	binary.BigEndian.PutUint32(fh[20:], w.s1)
	w.buf = append(w.buf, fh[:]...)
	w.buf = append(w.buf, data...)
}

// c05PF is one frame slot found in a WAL image by the independent parser.
type c05PF struct {
	Pgno, Commit uint32
	Off          int // offset of the frame header
	HdrFull      bool
	DataFull     bool
	SaltOK       bool
	CkOK         bool // only meaningful while every earlier slot was valid
}

type c05P struct {
	HdrOK     bool
	H         c05Hdr
	FS        int     // frame size
	F         []c05PF // all slots to end of file, including a partial last one
	FullValid int     // leading slots valid by SQLite's recovery rule (salt, pgno!=0, checksum chain, complete)
	FastValid int     // leading slots with a complete frame header, matching salts and pgno!=0
	CutData   int     // -1, or: the file ends after a complete frame header and this many (< page size) bytes of its page data
}

// c05Parse applies SQLite's WAL recovery rules (walIndexRecover/walDecodeFrame).
func c05Parse(b []byte) c05P {
	p := c05P{CutData: -1}
	if len(b) < c05HdrSize {
		return p
	}
	magic := binary.BigEndian.Uint32(b[0:])
	if magic != c05MagicLE && magic != c05MagicBE {
		return p
	}
	p.H.BE = magic == c05MagicBE
	if binary.BigEndian.Uint32(b[4:]) != c05Version {
		return p
	}
	p.H.PageSize = binary.BigEndian.Uint32(b[8:])
	ps := int(p.H.PageSize)
	if ps < 512 || ps > 65536 || ps&(ps-1) != 0 {
		return p
	}
	p.H.Seq = binary.BigEndian.Uint32(b[12:])
	p.H.Salt1 = binary.BigEndian.Uint32(b[16:])
	p.H.Salt2 = binary.BigEndian.Uint32(b[20:])
	s0, s1 := c05Sum(p.H.BE, 0, 0, b[:24])
	if s0 != binary.BigEndian.Uint32(b[24:]) || s1 != binary.BigEndian.Uint32(b[28:]) {
		return p
	}
	p.HdrOK = true
	p.FS = c05FHdrSize + ps
	chain, fast := true, true
	for off := c05HdrSize; off < len(b); off += p.FS {
		f := c05PF{Off: off}
		if off+c05FHdrSize <= len(b) {
			f.HdrFull = true
			f.Pgno = binary.BigEndian.Uint32(b[off:])
			f.Commit = binary.BigEndian.Uint32(b[off+4:])
			f.SaltOK = binary.BigEndian.Uint32(b[off+8:]) == p.H.Salt1 && binary.BigEndian.Uint32(b[off+12:]) == p.H.Salt2
			f.DataFull = off+p.FS <= len(b)
		}
		if fast && f.HdrFull && f.SaltOK && f.Pgno != 0 {
			p.FastValid++
		} else {
			fast = false
		}
		if chain && f.DataFull && f.SaltOK && f.Pgno != 0 {
			t0, t1 := c05Sum(p.H.BE, s0, s1, b[off:off+8])
			t0, t1 = c05Sum(p.H.BE, t0, t1, b[off+c05FHdrSize:off+p.FS])
			if t0 == binary.BigEndian.Uint32(b[off+16:]) && t1 == binary.BigEndian.Uint32(b[off+20:]) {
				f.CkOK = true
				s0, s1 = t0, t1
				p.FullValid++
			} else {
				chain = false
			}
		} else {
			chain = false
		}
		p.F = append(p.F, f)
	}
	if n := len(p.F); n > 0 && p.F[n-1].HdrFull && !p.F[n-1].DataFull {
		p.CutData = len(b) - p.F[n-1].Off - c05FHdrSize
	}
	return p
}

// cutOnly reports whether the one thing that separates the fast rule (frame header read, page data seeked
// over) from SQLite's rule on this file is that the file ends inside the page data of its last frame.
func (p *c05P) cutOnly() bool {
	return p.HdrOK && p.CutData >= 0 && p.FullValid == len(p.F)-1 && p.FastValid == len(p.F)
}

func (p *c05P) data(b []byte, i int) []byte {
	f := p.F[i]
	return b[f.Off+c05FHdrSize : f.Off+p.FS]
}

// c05Ref builds a standalone WAL with the same header fields holding frames [from,to) of b.
func c05Ref(b []byte, p *c05P, from, to int) []byte {
	w := c05NewW(p.H, to-from)
	for i := from; i < to; i++ {
		w.frame(p.F[i].Pgno, p.F[i].Commit, p.data(b, i))
	}
	return w.buf
}

// boundaries returns the resume positions: 0 and the index after every commit frame inside the valid prefix.
func (p *c05P) boundaries(valid int) []int {
	bs := []int{0}
	for i := 0; i < valid; i++ {
		if p.F[i].Commit != 0 {
			bs = append(bs, i+1)
		}
	}
	return bs
}

// ---------------------------------------------------------------------------
// SQLite as the checkpointing oracle.

type c05SQ struct {
	dir  string
	n    atomic.Int64
	pool chan *c05Conn
}

// c05Conn is one long-lived SQLite connection (opening one costs milliseconds in this driver);
// each database under examination is ATTACHed to it as "d" and DETACHed afterwards.
type c05Conn struct {
	db   *sql.DB
	c    *sql.Conn
	path string // database file owned by this connection while it is checked out
}

func c05NewSQ(dir string) *c05SQ {
	return &c05SQ{dir: dir, pool: make(chan *c05Conn, 256)}
}

func (q *c05SQ) conn() (*c05Conn, error) {
	select {
	case c := <-q.pool:
		return c, nil
	default:
	}
	db, err := sql.Open("sqlite3", "file::memory:")
	if err != nil {
		return nil, err
	}
	db.SetMaxOpenConns(1)
	c, err := db.Conn(context.Background())
	if err != nil {
		db.Close()
		return nil, err
	}
	// locking_mode=EXCLUSIVE (inherited by databases attached later) keeps the wal-index in heap memory:
	// no -shm file, no mmap per case. wal_autocheckpoint is connection-wide.
	for _, p := range []string{"PRAGMA wal_autocheckpoint=0", "PRAGMA locking_mode=EXCLUSIVE"} {
		if _, err := c.ExecContext(context.Background(), p); err != nil {
			c.Close()
			db.Close()
			return nil, err
		}
	}
	return &c05Conn{db: db, c: c, path: filepath.Join(q.dir, fmt.Sprintf("c%d.db", q.n.Add(1)))}, nil
}

func (q *c05SQ) put(c *c05Conn) {
	select {
	case q.pool <- c:
	default:
		c.close()
	}
}

func (q *c05SQ) closeAll() {
	for {
		select {
		case c := <-q.pool:
			c.close()
		default:
			return
		}
	}
}

func (c *c05Conn) close() {
	c.c.Close()
	c.db.Close()
	os.Remove(c.path)
	os.Remove(c.path + "-wal")
	os.Remove(c.path + "-shm")
}

// c05Put replaces the content of a file without unlinking it (create/unlink is the slow part on ext4).
func c05Put(path string, b []byte) error {
	f, err := os.OpenFile(path, os.O_RDWR|os.O_CREATE, 0o644)
	if err != nil {
		return err
	}
	if _, err = f.WriteAt(b, 0); err == nil {
		err = f.Truncate(int64(len(b)))
	}
	if e := f.Close(); err == nil {
		err = e
	}
	return err
}

func (c *c05Conn) exec(q string) error {
	_, err := c.c.ExecContext(context.Background(), q)
	return err
}

func (c *c05Conn) ckpt(mode string) (busy, nlog, nck int, err error) {
	err = c.c.QueryRowContext(context.Background(), "PRAGMA d.wal_checkpoint("+mode+")").Scan(&busy, &nlog, &nck)
	return
}

type c05Ck struct {
	DB        []byte
	Log, Ckpt int
	Err       string
}

// checkpoint writes base + wal as a fresh database/WAL pair, lets SQLite recover
// and checkpoint it, and returns the resulting database file.
func (q *c05SQ) checkpoint(base, wal []byte) (res c05Ck) {
	res = c05Ck{Log: -2, Ckpt: -2}
	c, err := q.conn()
	if err != nil {
		res.Err = "harness: open: " + err.Error()
		return
	}
	p := c.path
	if err := c05Put(p, base); err != nil {
		c.close()
		res.Err = "harness: " + err.Error()
		return
	}
	if err := c05Put(p+"-wal", wal); err != nil {
		c.close()
		res.Err = "harness: " + err.Error()
		return
	}
	// ATTACH loads the schema through a read transaction, which makes SQLite recover the WAL.
	if err := c.exec("ATTACH DATABASE 'file:" + p + "' AS d"); err != nil {
		c.close()
		res.Err = "attach: " + err.Error()
		return
	}
	run := func() string {
		if err := c.exec("PRAGMA d.synchronous=OFF"); err != nil {
			return "synchronous: " + err.Error()
		}
		var uv int64
		if err := c.c.QueryRowContext(context.Background(), "PRAGMA d.user_version").Scan(&uv); err != nil {
			return "user_version: " + err.Error()
		}
		// PASSIVE first: it reports the number of frames SQLite recovered (TRUNCATE reports 0 0 0 on success).
		busy, nlog, nck, err := c.ckpt("PASSIVE")
		if err != nil || busy != 0 {
			return fmt.Sprintf("wal_checkpoint(PASSIVE): busy=%d %v", busy, err)
		}
		res.Log, res.Ckpt = nlog, nck
		if busy, _, _, err = c.ckpt("TRUNCATE"); err != nil || busy != 0 {
			return fmt.Sprintf("wal_checkpoint(TRUNCATE): busy=%d %v", busy, err)
		}
		return ""
	}
	res.Err = run()
	if err := c.exec("DETACH DATABASE d"); err != nil {
		c.close()
		if res.Err == "" {
			res.Err = "detach: " + err.Error()
		}
		return
	}
	if res.Err == "" {
		out, err := os.ReadFile(p)
		if err != nil {
			res.Err = "harness: " + err.Error()
		}
		res.DB = out
	}
	q.put(c)
	return
}

// c05Digest is the memoised summary of a checkpoint: a pure function of (base bytes, wal bytes).
type c05Digest struct {
	H    [16]byte
	Size int
	Log  int
	Err  string
}

func (d c05Digest) same(o c05Digest) bool {
	return d.Err == "" && o.Err == "" && d.H == o.H && d.Size == o.Size
}

type c05Cache struct {
	q      *c05SQ
	shards [64]struct {
		sync.Mutex
		m map[[16]byte]c05Digest
	}
	calls, hits atomic.Int64
}

func c05NewCache(q *c05SQ) *c05Cache {
	c := &c05Cache{q: q}
	for i := range c.shards {
		c.shards[i].m = map[[16]byte]c05Digest{}
	}
	return c
}

func c05Key(b []byte) (k [16]byte) {
	h := sha256.Sum256(b)
	copy(k[:], h[:16])
	return
}

func (c *c05Cache) get(baseKey [16]byte, base, wal []byte) c05Digest {
	h := sha256.New()
	h.Write(baseKey[:])
	h.Write(wal)
	var k [16]byte
	copy(k[:], h.Sum(nil)[:16])
	sh := &c.shards[k[0]%64]
	sh.Lock()
	d, ok := sh.m[k]
	sh.Unlock()
	if ok {
		c.hits.Add(1)
		return d
	}
	c.calls.Add(1)
	r := c.q.checkpoint(base, wal)
	d = c05Digest{Size: len(r.DB), Log: r.Log, Err: r.Err}
	if r.Err == "" {
		d.H = c05Key(r.DB)
	}
	sh.Lock()
	sh.m[k] = d
	sh.Unlock()
	return d
}

// ---------------------------------------------------------------------------
// The code under test.

type c05Out struct {
	ScanErr  error
	WriteErr error
	W        []byte // Writer.WriteTo output
	B        []byte // CompactingFrameScanner.Bytes() output
	BErr     error
	NFrames  int
}

func (o *c05Out) err() error {
	if o.ScanErr != nil {
		return o.ScanErr
	}
	return o.WriteErr
}

// c05Compact runs the path CheckpointManager uses: scanner -> NewWriter -> WriteTo.
func c05Compact(walBytes []byte, start int, full bool, buf *bytes.Buffer) (o c05Out) {
	s, err := NewCompactingFrameScanner(bytes.NewReader(walBytes), int64(start), full)
	if err != nil {
		o.ScanErr = err
		return
	}
	o.NFrames = len(s.frames)
	o.B, o.BErr = s.Bytes()
	w, err := NewWriter(s)
	if err != nil {
		o.WriteErr = err
		return
	}
	buf.Reset()
	n, err := w.WriteTo(buf)
	if err != nil {
		o.WriteErr = err
		return
	}
	if n != int64(buf.Len()) {
		o.WriteErr = fmt.Errorf("WriteTo reported %d bytes, wrote %d", n, buf.Len())
		return
	}
	o.W = buf.Bytes()
	return
}

func c05DiffPages(a, b []byte, ps int) string {
	if len(a) != len(b) {
		return fmt.Sprintf("sizes %d vs %d bytes", len(a), len(b))
	}
	var d []string
	for i := 0; i+ps <= len(a); i += ps {
		if !bytes.Equal(a[i:i+ps], b[i:i+ps]) {
			d = append(d, fmt.Sprint(i/ps+1))
		}
	}
	return "pages " + strings.Join(d, ",") + " differ"
}

// c05Shape names the structural class of the valid frames [start,valid).
func c05Shape(p *c05P, start, valid int) string {
	if p.H.BE {
		return "big-endian"
	}
	if start > 0 {
		return "resume"
	}
	seen := map[uint32]bool{}
	over, shrink, ntx := false, false, 0
	var maxc uint32
	for i := start; i < valid; i++ {
		f := p.F[i]
		if seen[f.Pgno] {
			over = true
		}
		seen[f.Pgno] = true
		if f.Commit != 0 {
			ntx++
			if f.Commit < maxc {
				shrink = true
			}
			if f.Commit > maxc {
				maxc = f.Commit
			}
		}
	}
	switch {
	case over:
		return "overwritten-page"
	case shrink:
		return "shrink"
	case ntx > 1:
		return "multi-tx"
	}
	return "simple"
}

// c05Foreign reports whether the compacted output holds a page image that only exists beyond the valid prefix.
func c05Foreign(out []byte, orig []byte, p *c05P, valid int) bool {
	op := c05Parse(out)
	if !op.HdrOK || !p.HdrOK {
		return false
	}
	for i := range op.F {
		if !op.F[i].DataFull {
			continue
		}
		d := op.data(out, i)
		in, beyond := false, false
		for j := range p.F {
			if !p.F[j].DataFull || !bytes.Equal(d, p.data(orig, j)) {
				continue
			}
			if j < valid {
				in = true
			} else {
				beyond = true
			}
		}
		if beyond && !in {
			return true
		}
	}
	return false
}

// ---------------------------------------------------------------------------
// Judging one (WAL, resume position, fullScan) case. Shared by both parts.

type c05Judge struct {
	r       *kit.Run
	cache   *c05Cache
	fault   func(f string, a ...any) // harness fault (the oracle itself is broken): fails the test
	nCutVio [2]atomic.Int64          // cut-WAL violations reported so far, per class
}

type c05Case struct {
	wal     []byte
	p       *c05P
	base    []byte
	baseKey [16]byte
	start   int
	full    bool
	class   string // description of the WAL for messages
	flaw    string // key class of the file's flaw, "" for a flawless WAL
	group   string // key prefix ("" synthetic, "sqlite:" real WALs)
	lenient bool   // statement does not cover this input: an error is as good as the equivalent result
	replay  any
	wk      *c05Work
}

// c05Work holds per-goroutine scratch buffers (the enumeration is allocation-bound otherwise).
type c05Work struct {
	wal []byte
	out bytes.Buffer
}

// judge returns a short outcome label.
func (j *c05Judge) judge(c *c05Case) string {
	r := j.r
	p := c.p
	mode := "fast"
	valid := p.FullValid
	if c.full {
		mode = "full"
	}
	flawKey := c.flaw
	if flawKey == "" {
		flawKey = "clean"
	}
	var o c05Out
	panicked := true
	r.Guard("C05:panic:"+c.group+flawKey, c.replay, func() {
		o = c05Compact(c.wal, c.start, c.full, &c.wk.out)
		panicked = false
	})
	if panicked {
		return mode + ":panic"
	}
	if !c.full && p.cutOnly() {
		return j.judgeCut(c, &o)
	}
	if !c.full && p.FastValid != p.FullValid {
		// A frame with matching salts but a bad checksum follows the valid prefix. Without fullScan the
		// scanner is documented to trust such a WAL; nothing is demanded except no panic.
		if e := o.err(); e != nil {
			return mode + ":unjudged:error"
		}
		return mode + ":unjudged:ok"
	}
	if !p.HdrOK {
		valid = 0
	}
	openTx := valid > c.start && p.F[valid-1].Commit == 0
	if openTx {
		if e := o.err(); e == nil {
			r.Violation("C05:open-tx-not-reported",
				fmt.Sprintf("%s scan from frame %d of a %s WAL whose valid prefix (%d frames) ends in an uncommitted frame returned no error (%d frames emitted)", mode, c.start, c.class, valid, o.NFrames), c.replay)
			return mode + ":open-tx-silent"
		}
		return mode + ":open-tx-error"
	}
	var ref []byte
	if c.start == 0 && p.HdrOK {
		ref = c.wal[:c05HdrSize+valid*p.FS]
	} else if p.HdrOK {
		ref = c05Ref(c.wal, p, c.start, valid)
	} else {
		ref = nil // SQLite ignores a WAL with a bad header; an empty WAL file is the reference
	}
	// key names the class of a failure: the flaw of the file if only the flawed file fails, else (the
	// clean valid prefix alone fails the same way) the shape of the committed frames.
	key := func(kind string, bytesAPI bool, want *c05Digest) string {
		if c.flaw != "" && p.HdrOK && len(c.wal) != c05HdrSize+valid*p.FS {
			var tmp bytes.Buffer
			var po c05Out
			ok := false
			func() {
				defer func() { recover() }()
				po = c05Compact(c.wal[:c05HdrSize+valid*p.FS], c.start, c.full, &tmp)
				ok = true
			}()
			if ok && po.err() == nil && want != nil {
				out := po.W
				if bytesAPI {
					out = po.B
				}
				if j.cache.get(c.baseKey, c.base, out).same(*want) {
					return "C05:" + kind + ":" + c.group + c.flaw
				}
			} else if ok && po.err() == nil {
				return "C05:" + kind + ":" + c.group + c.flaw
			}
		} else if c.flaw != "" {
			return "C05:" + kind + ":" + c.group + c.flaw
		}
		return "C05:" + kind + ":" + c.group + c05Shape(p, c.start, valid)
	}
	if e := o.err(); e != nil {
		if c.lenient {
			return mode + ":lenient-error"
		}
		r.Violation(key("unexpected-error", false, nil),
			fmt.Sprintf("%s scan from frame %d of a %s WAL with %d valid frames ending at a commit failed: %v", mode, c.start, c.class, valid, e), c.replay)
		return mode + ":unexpected-error"
	}
	want := j.cache.get(c.baseKey, c.base, ref)
	if want.Err != "" || (p.HdrOK && want.Log != valid-c.start) {
		j.fault("reference WAL not accepted by SQLite: %+v replay=%+v", want, c.replay)
		return mode + ":harness-bad-reference"
	}
	label := fmt.Sprintf("%s:ok:%x", mode, want.H[:6])
	check := func(out []byte, bytesAPI bool) {
		got := j.cache.get(c.baseKey, c.base, out)
		if got.same(want) {
			return
		}
		via := "Writer.WriteTo"
		if bytesAPI {
			via = "Bytes()"
		}
		k := key("compacted-differs", bytesAPI, &want)
		if c05Foreign(out, c.wal, p, valid) {
			k = "C05:stale-frame-included:" + c.group + flawKey
		}
		a := j.cache.q.checkpoint(c.base, out)
		b := j.cache.q.checkpoint(c.base, ref)
		what := fmt.Sprintf("%s scan from frame %d (%s) of a %s WAL (%d valid frames): SQLite checkpoint of the compacted WAL (%d frames, sqlite recovered %d, err=%q) differs from checkpoint of the committed frames: %s",
			mode, c.start, via, c.class, valid, o.NFrames, a.Log, a.Err, c05DiffPages(a.DB, b.DB, int(p.H.PageSize)))
		r.Violation(k, what, c.replay)
		label = mode + ":differs"
	}
	check(o.W, false)
	if o.BErr != nil {
		r.Violation("C05:unexpected-error:"+c.group+"bytes-api", fmt.Sprintf("Bytes() failed where WriteTo succeeded on a %s WAL: %v", c.class, o.BErr), c.replay)
	} else if !bytes.Equal(o.B, o.W) {
		check(o.B, true)
	}
	return label
}

// judgeCut judges the fast (fullScan=false) scan + Writer on a WAL that ends inside the page data of its
// last frame (frame header complete, salts right). The fast scan seeks over page data, so it takes that frame
// - and its commit marker - at face value; the page bytes are only missed when the Writer asks for them.
// Demanded: compaction reports an error, or what it emits checkpoints to exactly what SQLite makes of the
// same cut file (SQLite ignores the incomplete frame and every frame of its unfinished transaction).
func (j *c05Judge) judgeCut(c *c05Case, o *c05Out) string {
	r, p := j.r, c.p
	where := "partial-page-data"
	if p.CutData == 0 {
		where = "no-page-data"
	}
	lastCommit := "commit"
	if p.F[len(p.F)-1].Commit == 0 {
		lastCommit = "noncommit"
	}
	pre := "fast:cut:" + where + ":" + lastCommit
	if e := o.err(); e != nil {
		if e == ErrOpenTransaction {
			return pre + ":error-open-tx"
		}
		return pre + ":error"
	}
	committed := c.start
	for i := c.start; i < p.FullValid; i++ {
		if p.F[i].Commit != 0 {
			committed = i + 1
		}
	}
	ref := c05Ref(c.wal, p, c.start, committed)
	want := j.cache.get(c.baseKey, c.base, ref)
	if want.Err != "" || want.Log != committed-c.start {
		j.fault("reference WAL for a cut WAL not accepted by SQLite: %+v replay=%+v", want, c.replay)
		return pre + ":harness-bad-reference"
	}
	if c.start == 0 {
		// the reference really is what SQLite makes of the cut file itself
		direct := j.cache.get(c.baseKey, c.base, c.wal)
		if !direct.same(want) || direct.Log != committed {
			j.fault("SQLite on the cut WAL itself (log=%d err=%q) disagrees with the model (%d committed frames before the cut): replay=%+v", direct.Log, direct.Err, committed, c.replay)
			return pre + ":harness-bad-reference"
		}
		r.Validated(1)
	}
	label := fmt.Sprintf("%s:ok:%x", pre, want.H[:6])
	check := func(out []byte, via string) {
		got := j.cache.get(c.baseKey, c.base, out)
		if got.same(want) {
			return
		}
		ci := 0
		if p.CutData == 0 {
			ci = 1
		}
		diff := "database images differ"
		if j.nCutVio[ci].Add(1) <= 16 { // the page-level diff costs two more uncached checkpoints: only for the first few of a class
			a := j.cache.q.checkpoint(c.base, out)
			b := j.cache.q.checkpoint(c.base, ref)
			diff = fmt.Sprintf("sqlite recovered %d frames of it, err=%q: %s", a.Log, a.Err, c05DiffPages(a.DB, b.DB, int(p.H.PageSize)))
		}
		op := c05Parse(out)
		what := fmt.Sprintf("fast scan from frame %d (%s) of a %s WAL that ends after %d of %d page-data bytes of its last frame (frame %d, %s; %d complete frames before it, %d of them committed): no error, scanner listed %d frames, %d written out; SQLite's checkpoint of the compacted WAL differs from SQLite's checkpoint of the same cut WAL (%s)",
			c.start, via, c.class, p.CutData, p.H.PageSize, len(p.F)-1, lastCommit, p.FullValid, committed, o.NFrames, op.FullValid, diff)
		r.Violation("C05:cut-wal-compacted-silently:"+c.group+where, what, c.replay)
		label = pre + ":differs"
	}
	check(o.W, "Writer.WriteTo")
	if o.BErr == nil && !bytes.Equal(o.B, o.W) {
		check(o.B, "Bytes()")
	}
	return label
}

// ---------------------------------------------------------------------------
// Part (i): synthetic WALs.

const c05PS = 512

var c05Commits = []uint32{0, 3, 4}

type c05Spec struct {
	PS     int    `json:"ps,omitempty"` // page size; 0 = 512
	BE     bool   `json:"be"`
	Frames string `json:"frames"` // e.g. "1c0 2c4 3c3": page, commit marker
	Flaw   string `json:"flaw"`   // clean | stale-tail | stale-s1 | stale-s2 | ck-data | ck-field | ck-hdr | cut | hdr-cut | hdr-ck | garbage-* | zero-pgno
	At     int    `json:"at"`     // frame index of the flaw / byte length kept of the last frame (cut) or header (hdr-cut)
}

type c05Replay struct {
	Part  string  `json:"part"`
	Spec  c05Spec `json:"spec"`
	Start int     `json:"start"`
	Full  bool    `json:"full"`
}

type c05Sym struct{ pg, commit uint32 }

func c05FramesString(fr []c05Sym) string {
	s := make([]string, len(fr))
	for i, f := range fr {
		s[i] = fmt.Sprintf("%dc%d", f.pg, f.commit)
	}
	return strings.Join(s, " ")
}

func c05ParseFrames(s string) []c05Sym {
	var fr []c05Sym
	for _, t := range strings.Fields(s) {
		var f c05Sym
		fmt.Sscanf(t, "%dc%d", &f.pg, &f.commit)
		fr = append(fr, f)
	}
	return fr
}

// c05Page returns the page image carried by the frame at position pos for page pgno; every
// (pos, pgno, gen) gives a different image, and none equals a base page. Page 1 stays a valid
// database header (only user_version and application_id vary) so SQLite can open the file.
func c05Page(base []byte, ps, pos int, pgno uint32, gen int) []byte {
	d := make([]byte, ps)
	if pgno == 1 {
		copy(d, base[:ps])
		d[60], d[61], d[62], d[63] = 0x45, byte(pos+1), byte(gen), 1
		d[68], d[69], d[70], d[71] = 0x05, byte(pos+1), byte(gen), 0xEE
		return d
	}
	for j := range d {
		d[j] = byte(j*7) ^ byte(pos*37+int(pgno)*11+gen*131+1)
	}
	d[0], d[1], d[2], d[3] = 0xD0|byte(gen), byte(pos+1), byte(pgno), 0x5A
	return d
}

type c05Synth struct {
	ps      int
	base    []byte
	baseKey [16]byte
	pages   [8][5][2][]byte // [pos][pgno][gen]
}

func (s *c05Synth) hdr(be bool) c05Hdr {
	return c05Hdr{BE: be, PageSize: uint32(s.ps), Seq: 7, Salt1: 0x1badcafe, Salt2: 0x600dd00d}
}

const (
	c05StaleSalt1 = 0x1badcafd // previous generation: salt1 is incremented on every WAL restart
	c05StaleSalt2 = 0x0ddba115
)

var c05Flaws = []string{"stale-tail", "stale-s1", "stale-s2", "ck-data", "ck-field", "ck-hdr"}

// cuts returns the numbers of bytes kept of the last frame: inside the frame header, the whole header and
// none of the page data, and one byte / half / all but one byte of the page data.
func (s *c05Synth) cuts() []int {
	return []int{1, 8, 16, 23, 24, 25, 24 + s.ps/2, 24 + s.ps - 1}
}

var c05HdrCuts = []int{0, 1, 16, 31}
var c05Garbage = []string{"garbage-short", "garbage-hdr", "garbage-zeros", "garbage-long"}

// c05BaseWAL is one enumerated frame sequence written out once; its flawed variants are patched copies.
type c05BaseWAL struct {
	be     bool
	fr     []c05Sym
	cleanZ []byte // header + n valid frames + one more checksummed frame with page number 0
	old    []byte // the same n slots as an earlier, fully written generation left them (frames only, own salts and chain)
}

func (s *c05Synth) prep(be bool, fr []c05Sym) *c05BaseWAL {
	n := len(fr)
	w := c05NewW(s.hdr(be), n+1)
	for i, f := range fr {
		w.frame(f.pg, f.commit, s.pages[i][f.pg][0])
	}
	w.frame(0, 4, s.pages[n][2][1])
	old := c05NewW(c05Hdr{BE: be, PageSize: uint32(s.ps), Seq: 6, Salt1: c05StaleSalt1, Salt2: c05StaleSalt2}, n)
	for i, f := range fr {
		old.frame(f.pg, f.commit, s.pages[i][f.pg][1])
	}
	return &c05BaseWAL{be: be, fr: fr, cleanZ: w.buf, old: old.buf[c05HdrSize:]}
}

// variant writes the WAL image for a spec into dst (reused scratch) and returns it with the number of
// leading frames intended to be valid under SQLite's rule (used only to cross-check the parser).
func (s *c05Synth) variant(bw *c05BaseWAL, sp c05Spec, dst []byte) (wal []byte, intended int) {
	fr := bw.fr
	n := len(fr)
	fs := c05FHdrSize + s.ps
	off := func(i int) int { return c05HdrSize + i*fs }
	b := append(dst[:0], bw.cleanZ[:off(n)]...)
	switch sp.Flaw {
	case "clean":
		return b, n
	case "stale-s1": // salts are not covered by the frame checksum: only the salt tells this frame is not ours
		binary.BigEndian.PutUint32(b[off(sp.At)+8:], c05StaleSalt1)
		return b, sp.At
	case "stale-s2":
		binary.BigEndian.PutUint32(b[off(sp.At)+12:], c05StaleSalt2)
		return b, sp.At
	case "stale-tail": // frames At.. are what an earlier, longer WAL generation left behind
		return append(b[:off(sp.At)], bw.old[off(sp.At)-c05HdrSize:]...), sp.At
	case "ck-data":
		b[off(sp.At)+c05FHdrSize+(sp.At*97+5)%s.ps] ^= 0x40
		return b, sp.At
	case "ck-field":
		b[off(sp.At)+16+(sp.At%8)] ^= 0x01
		return b, sp.At
	case "ck-hdr": // page number changed after the checksum was computed
		pg := fr[sp.At].pg%4 + 1
		binary.BigEndian.PutUint32(b[off(sp.At):], pg)
		return b, sp.At
	case "cut":
		return b[:off(n-1)+sp.At], n - 1
	case "hdr-cut":
		return b[:sp.At], 0
	case "hdr-ck":
		b[25] ^= 0x10
		return b, 0
	case "garbage-short":
		return append(b, 0xAA, 0xAA, 0xAA, 0xAA, 0xAA, 0xAA, 0xAA), n
	case "garbage-hdr":
		for i := 0; i < c05FHdrSize; i++ {
			b = append(b, 0xAA)
		}
		return b, n
	case "garbage-zeros":
		for i := 0; i < fs; i++ {
			b = append(b, 0)
		}
		return b, n
	case "garbage-long":
		for i := 0; i < fs+10; i++ {
			b = append(b, byte(i*13+1))
		}
		return b, n
	case "zero-pgno": // a frame SQLite rejects (page number 0) although salts and checksum are right
		return append(dst[:0], bw.cleanZ...), n
	}
	panic("c05: unknown flaw " + sp.Flaw)
}

// c05FlawClass maps a spec's flaw to its violation-key class ("" for a flawless WAL).
func c05FlawClass(sp c05Spec) string {
	c := sp.Flaw
	switch {
	case c == "clean":
		return ""
	case c == "stale-s1" || c == "stale-s2":
		return "stale-one"
	case strings.HasPrefix(c, "ck-"):
		return "cksum"
	case c == "cut":
		return "truncated"
	case c == "hdr-cut" || c == "hdr-ck":
		return "bad-header"
	case strings.HasPrefix(c, "garbage"):
		return "garbage"
	}
	return c
}

func (s *c05Synth) variants(be bool, fr []c05Sym) []c05Spec {
	n := len(fr)
	fs := c05FramesString(fr)
	ps := s.ps
	if ps == c05PS {
		ps = 0
	}
	v := []c05Spec{{PS: ps, BE: be, Frames: fs, Flaw: "clean"}}
	for k := 0; k < n; k++ {
		for _, f := range c05Flaws {
			v = append(v, c05Spec{PS: ps, BE: be, Frames: fs, Flaw: f, At: k})
		}
	}
	if n > 0 {
		for _, c := range s.cuts() {
			v = append(v, c05Spec{PS: ps, BE: be, Frames: fs, Flaw: "cut", At: c})
		}
	} else {
		for _, c := range c05HdrCuts {
			v = append(v, c05Spec{PS: ps, BE: be, Frames: fs, Flaw: "hdr-cut", At: c})
		}
		v = append(v, c05Spec{PS: ps, BE: be, Frames: fs, Flaw: "hdr-ck"})
	}
	for _, g := range c05Garbage {
		v = append(v, c05Spec{PS: ps, BE: be, Frames: fs, Flaw: g})
	}
	v = append(v, c05Spec{PS: ps, BE: be, Frames: fs, Flaw: "zero-pgno"})
	return v
}

func c05MakeSynthBase(t *testing.T, dir string, ps int) []byte {
	p := filepath.Join(dir, fmt.Sprintf("synthbase%d.db", ps))
	blob := 300 // the row of b overflows onto exactly one more page
	if ps != c05PS {
		blob = ps * 5 / 8
	}
	db, err := sql.Open("sqlite3", "file:"+p)
	if err != nil {
		t.Fatal(err)
	}
	db.SetMaxOpenConns(1)
	for _, q := range []string{
		fmt.Sprintf("PRAGMA page_size=%d", ps), "PRAGMA journal_mode=WAL", "PRAGMA synchronous=OFF",
		// roots on pages 2 and 3; page 4 is an overflow page, so the schema stays loadable when a
		// synthetic commit marker shrinks the database to 3 pages
		"CREATE TABLE a(x)", "CREATE TABLE b(x)",
		"INSERT INTO a VALUES('base-a')", fmt.Sprintf("INSERT INTO b VALUES('base-b'||hex(zeroblob(%d)))", blob),
		"PRAGMA user_version=77",
	} {
		if _, err := db.Exec(q); err != nil {
			t.Fatalf("%s: %v", q, err)
		}
	}
	var a, b, c int
	if err := db.QueryRow("PRAGMA wal_checkpoint(TRUNCATE)").Scan(&a, &b, &c); err != nil || a != 0 {
		t.Fatalf("base checkpoint: %v busy=%d", err, a)
	}
	if err := db.Close(); err != nil {
		t.Fatal(err)
	}
	base, err := os.ReadFile(p)
	if err != nil {
		t.Fatal(err)
	}
	hps := int(binary.BigEndian.Uint16(base[16:]))
	if hps == 1 {
		hps = 65536
	}
	if len(base) != 4*ps || hps != ps || base[18] != 2 || base[19] != 2 {
		t.Fatalf("unexpected synthetic base: %d bytes, page size %d, format %d/%d", len(base), hps, base[18], base[19])
	}
	// Make "version-valid-for" differ from the change counter, as a pre-3.7.0 writer leaves it: SQLite then
	// ignores the in-header page count and uses the real size, so one page-1 image is valid whatever
	// database size the synthetic commit markers declare (otherwise header size 4 > actual 3 reads as corrupt).
	base[95] ^= 0x01
	return base
}

func TestVerif_C05_synthetic(t *testing.T) {
	r := kit.Start(t, "C05", "synthetic")
	defer r.Finish()
	// millions of short-lived few-KB buffers on a tiny live heap: let the heap grow instead of collecting continuously
	defer debug.SetGCPercent(debug.SetGCPercent(400))
	N := r.Pick(4, 5)
	NBE := r.Pick(3, 4)
	if v, err := strconv.Atoi(os.Getenv("VERIF_C05_N")); err == nil { // mutant runs only: smaller scope
		N, NBE = v, v
		r.Cap("VERIF_C05_N=%d overrides the frame bound", v)
	}
	NV := r.Pick(2, 3) // whole flawed WALs of up to NV frames are also handed to SQLite to validate the harness's validity model
	// the same enumeration at SQLite's largest page size, the only one whose length does not fit 16 bits
	const bigPS = 65536
	NBig, NBigBE := r.Pick(2, 3), r.Pick(1, 2)
	if NBig > N {
		NBig, NBigBE = N, N
	}
	r.Rule(fmt.Sprintf("every WAL of <=%d frames (<=%d with big-endian checksum magic) over frame alphabet page{1,2,3,4} x commit{0,3,4} on a real 4-page 512-byte-page SQLite database, and every such WAL of <=%d frames (<=%d big-endian) on a real 4-page 65536-byte-page database, every frame carrying a distinct page image; each WAL clean and with every single flaw: stale-salt tail from an earlier generation at any frame, one frame with only salt1 / only salt2 stale, checksum broken by a data byte / checksum field / page-number change at any frame, last frame cut at 8 offsets (1,8,16,23 bytes of its header; whole header and 0, 1, half, all but one byte of its page data), header cut/corrupt (empty WAL), 4 kinds of trailing garbage, a checksummed page-0 frame; each compacted by NewCompactingFrameScanner+Writer.WriteTo (and Bytes()), the calls db.CheckpointManager makes, with fullScan at frame 0 and without fullScan at every commit boundary of the valid prefix. A WAL cut inside the page data of its last frame is judged in both modes: with fullScan like any other file (the cut frame ends the valid prefix), without fullScan (the scan seeks over page data and takes the cut frame and its commit marker at face value) the compaction must report an error or emit a WAL that checkpoints to exactly what SQLite makes of the same cut file. distinct = (mode, outcome, final database image)", N, NBE, NBig, NBigBE))
	r.Assume("SQLite's WAL recovery and checkpoint (PRAGMA wal_checkpoint) are the reference semantics of a WAL; a checkpoint result is a deterministic function of (database bytes, WAL bytes) and is memoised on that pair")
	r.Assume("without fullScan a complete frame with matching salts but a bad checksum is outside the documented contract (trusted WAL): only absence of panics is required there. A file that simply ends inside a frame's page data is not excluded: an error or SQLite's own reading of the cut file is demanded")

	dir := kit.Scratch(t)
	q := c05NewSQ(dir)
	defer q.closeAll()
	cache := c05NewCache(q)
	synths := map[int]*c05Synth{}
	synth := func(ps int) *c05Synth {
		if ps == 0 {
			ps = c05PS
		}
		if s := synths[ps]; s != nil {
			return s
		}
		s := &c05Synth{ps: ps, base: c05MakeSynthBase(t, dir, ps)}
		s.baseKey = c05Key(s.base)
		for pos := range s.pages {
			for pg := 1; pg <= 4; pg++ {
				for gen := 0; gen < 2; gen++ {
					s.pages[pos][pg][gen] = c05Page(s.base, ps, pos, uint32(pg), gen)
				}
			}
		}
		synths[ps] = s
		return s
	}
	var harnessFaults, nValidated atomic.Int64
	fault := func(f string, a ...any) {
		if harnessFaults.Add(1) <= 10 {
			t.Errorf("HARNESS FAULT: "+f, a...)
		}
	}
	j := &c05Judge{r: r, cache: cache, fault: fault}

	// runSpec judges every (start, mode) case of one WAL variant. validate => also feed the whole
	// flawed WAL to SQLite and compare its recovery with the harness's model of the valid prefix.
	runSpec := func(s *c05Synth, sp c05Spec, bw *c05BaseWAL, wk *c05Work, validate bool, only *c05Replay, seen map[string]struct{}) {
		walb, intended := s.variant(bw, sp, wk.wal)
		wk.wal = walb[:0]
		p := c05Parse(walb)
		flaw := c05FlawClass(sp)
		class := sp.Flaw
		if sp.BE {
			class += " big-endian"
		}
		if s.ps != c05PS {
			class += fmt.Sprintf(" page-size-%d", s.ps)
		}
		if p.HdrOK != (flaw != "bad-header") || (p.HdrOK && p.FullValid != intended) {
			fault("parser finds %d valid frames (hdr %v), spec %+v intends %d", p.FullValid, p.HdrOK, sp, intended)
			return
		}
		valid := p.FullValid
		committed := 0
		for i := 0; i < valid; i++ {
			if p.F[i].Commit != 0 {
				committed = i + 1
			}
		}
		if validate {
			// SQLite on the complete flawed file must recover exactly the committed valid prefix.
			got := q.checkpoint(s.base, walb)
			var ref []byte
			if p.HdrOK {
				ref = walb[:c05HdrSize+committed*p.FS]
			}
			want := cache.get(s.baseKey, s.base, ref)
			if got.Err != "" || want.Err != "" || got.Log != committed || want.Log != committed || c05Key(got.DB) != want.H {
				fault("SQLite recovery disagrees with the model for %+v: sqlite log=%d err=%q, model committed=%d, reference log=%d err=%q", sp, got.Log, got.Err, committed, want.Log, want.Err)
				return
			}
			r.Validated(1)
			nValidated.Add(1)
		}
		lenient := flaw == "zero-pgno" || !p.HdrOK
		type cs struct {
			start int
			full  bool
		}
		cases := []cs{{0, true}}
		if p.HdrOK {
			for _, b := range p.boundaries(valid) {
				cases = append(cases, cs{b, false})
			}
		} else {
			cases = append(cases, cs{0, false})
		}
		for _, c := range cases {
			if only != nil && (only.Start != c.start || only.Full != c.full) {
				continue
			}
			rp := c05Replay{Part: "synthetic", Spec: sp, Start: c.start, Full: c.full}
			out := j.judge(&c05Case{wal: walb, p: &p, base: s.base, baseKey: s.baseKey, start: c.start, full: c.full, class: class, flaw: flaw, lenient: lenient, replay: rp, wk: wk})
			seen[fmt.Sprintf("%d|%s|%v|%s|%d", s.ps, flaw, sp.BE, out, c.start)] = struct{}{}
			if only != nil {
				t.Logf("replay %+v -> %s", rp, out)
			}
		}
		r.Eval(len(cases))
	}

	if raw := kit.Replay(); raw != nil {
		var rp c05Replay
		if err := json.Unmarshal(raw, &rp); err != nil {
			t.Fatal(err)
		}
		s := synth(rp.Spec.PS)
		runSpec(s, rp.Spec, s.prep(rp.Spec.BE, c05ParseFrames(rp.Spec.Frames)), &c05Work{}, true, &rp, map[string]struct{}{})
		return
	}

	// Enumerate base WALs.
	type job struct {
		s  *c05Synth
		be bool
		fr []c05Sym
	}
	var jobs []job
	var alpha []c05Sym
	for pg := uint32(1); pg <= 4; pg++ {
		for _, c := range c05Commits {
			alpha = append(alpha, c05Sym{pg, c})
		}
	}
	gen := func(s *c05Synth, be bool, n int) {
		idx := make([]int, n)
		for {
			fr := make([]c05Sym, n)
			for i, k := range idx {
				fr[i] = alpha[k]
			}
			jobs = append(jobs, job{s, be, fr})
			k := n - 1
			for k >= 0 {
				idx[k]++
				if idx[k] < len(alpha) {
					break
				}
				idx[k] = 0
				k--
			}
			if k < 0 {
				break
			}
		}
	}
	// the large-page WALs first: they are the expensive ones and must not form the tail of the run
	for n := NBig; n >= 0; n-- {
		gen(synth(bigPS), false, n)
	}
	for n := NBigBE; n >= 0; n-- {
		gen(synth(bigPS), true, n)
	}
	nBigJobs := len(jobs)
	for n := 0; n <= N; n++ {
		gen(synth(c05PS), false, n)
	}
	for n := 0; n <= NBE; n++ {
		gen(synth(c05PS), true, n)
	}

	var next, nWAL atomic.Int64
	var wg sync.WaitGroup
	nw := runtime.NumCPU()
	for w := 0; w < nw; w++ {
		wg.Add(1)
		go func() {
			defer wg.Done()
			seen := map[string]struct{}{}
			wk := &c05Work{}
			defer func() {
				for k := range seen {
					r.Distinct(k)
				}
			}()
			for {
				i := int(next.Add(1)) - 1
				if i >= len(jobs) {
					return
				}
				jb := jobs[i]
				bw := jb.s.prep(jb.be, jb.fr)
				for vi, sp := range jb.s.variants(jb.be, jb.fr) {
					runSpec(jb.s, sp, bw, wk, len(jb.fr) <= NV, nil, seen)
					nWAL.Add(1)
					if vi == 3 {
						r.SampleEvery(i, sp)
					}
				}
			}
		}()
	}
	wg.Wait()
	r.State(int(nWAL.Load()))
	r.Set("base_wals", len(jobs))
	r.Set("base_wals_page_size_65536", nBigJobs)
	r.Set("wal_variants", nWAL.Load())
	r.Set("sqlite_checkpoints_run", cache.calls.Load()+nValidated.Load())
	r.Set("sqlite_checkpoints_memoised", cache.hits.Load())
	r.Note("every synthetic WAL of <=%d frames was also given whole (flaw included) to SQLite: it recovered exactly the frames the harness's model calls the committed valid prefix (traces_validated); every reference WAL used by the oracle was accepted by SQLite with exactly the intended number of frames", NV)
}

// ---------------------------------------------------------------------------
// Part (ii): WALs written by SQLite itself.

var c05StepNames = []string{"ins", "upd", "del", "grow", "vac", "drop", "create"}

// c05StepSQL returns the statements (one autocommit transaction each) of step kind at script position i.
func c05StepSQL(kind string, i, ps int) []string {
	switch kind {
	case "ins":
		return []string{fmt.Sprintf("INSERT INTO d.t(k,v) VALUES (%d,'i%da'||hex(zeroblob(%d))),(%d,'i%db'||hex(zeroblob(%d))),(%d,'i%dc')",
			i*10+1, i, ps/24, i*10+2, i, ps/16, i*10+3, i)}
	case "upd":
		return []string{fmt.Sprintf("UPDATE d.t SET k=k+1000, v='u%d'||substr(v,1,%d) WHERE id%%2=%d", i, ps/6, i%2)}
	case "del":
		return []string{"DELETE FROM d.t WHERE id IN (SELECT id FROM d.t ORDER BY id LIMIT 4)"}
	case "grow":
		return []string{fmt.Sprintf("WITH RECURSIVE c(n) AS (SELECT 1 UNION ALL SELECT n+1 FROM c WHERE n<16) INSERT INTO d.t(k,v) SELECT n+%d, 'g%d_'||n||hex(zeroblob(%d)) FROM c", i*100, i, ps/6)}
	case "vac":
		return []string{"VACUUM d"}
	case "drop":
		return []string{"DROP TABLE IF EXISTS d.x"}
	case "create":
		return []string{"CREATE TABLE IF NOT EXISTS d.x(id INTEGER PRIMARY KEY, v TEXT)",
			fmt.Sprintf("INSERT INTO d.x(v) VALUES('c%d'||hex(zeroblob(%d)))", i, ps)}
	}
	panic("c05: unknown step " + kind)
}

func c05MakeRealBase(t *testing.T, dir string, ps int) []byte {
	p := filepath.Join(dir, fmt.Sprintf("realbase%d.db", ps))
	db, err := sql.Open("sqlite3", "file:"+p)
	if err != nil {
		t.Fatal(err)
	}
	db.SetMaxOpenConns(1)
	for _, q := range []string{
		fmt.Sprintf("PRAGMA page_size=%d", ps), "PRAGMA journal_mode=WAL", "PRAGMA synchronous=OFF",
		"CREATE TABLE t(id INTEGER PRIMARY KEY, k INTEGER, v TEXT)", "CREATE INDEX tk ON t(k)",
		"CREATE TABLE x(id INTEGER PRIMARY KEY, v TEXT)",
		fmt.Sprintf("WITH RECURSIVE c(n) AS (SELECT 1 UNION ALL SELECT n+1 FROM c WHERE n<8) INSERT INTO t(k,v) SELECT n, 'b'||n||hex(zeroblob(%d)) FROM c", ps/12),
		fmt.Sprintf("INSERT INTO x(v) VALUES('bx'||hex(zeroblob(%d)))", ps),
	} {
		if _, err := db.Exec(q); err != nil {
			t.Fatalf("%s: %v", q, err)
		}
	}
	var a, b, c int
	if err := db.QueryRow("PRAGMA wal_checkpoint(TRUNCATE)").Scan(&a, &b, &c); err != nil || a != 0 {
		t.Fatalf("base checkpoint: %v busy=%d", err, a)
	}
	if err := db.Close(); err != nil {
		t.Fatal(err)
	}
	base, err := os.ReadFile(p)
	if err != nil {
		t.Fatal(err)
	}
	hps := int(binary.BigEndian.Uint16(base[16:]))
	if hps == 1 {
		hps = 65536
	}
	if hps != ps || base[18] != 2 || len(base)%ps != 0 {
		t.Fatalf("unexpected base for page size %d: header page size %d, format %d, %d bytes", ps, hps, base[18], len(base))
	}
	return base
}

type c05Script struct {
	PS      int      `json:"page_size"`
	Prelude bool     `json:"stale_generation_prelude"`
	Steps   []string `json:"steps"`
}

type c05RealReplay struct {
	Part   string    `json:"part"`
	Script c05Script `json:"script"`
	Start  int       `json:"start"`
	Full   bool      `json:"full"`
	Cut    *c05Cut   `json:"cut,omitempty"`
}

// c05Cut: the WAL file ends after the header of frame Frame (0-based) and Data bytes of its page data.
type c05Cut struct {
	Frame int `json:"frame"`
	Data  int `json:"page_data_bytes_kept"`
}

// c05RunScript lets SQLite produce a WAL for the script (autocheckpoint off). It returns the database file
// the WAL applies to, the complete WAL file, and the database file after SQLite's own live checkpoint.
func c05RunScript(sq *c05SQ, base []byte, sc c05Script) (dbBase, walb, live []byte, err error) {
	c, err := sq.conn() // wal_autocheckpoint=0 is a connection-wide setting made when the connection is created
	if err != nil {
		return
	}
	p := c.path
	if err = c05Put(p, base); err == nil {
		err = c05Put(p+"-wal", nil)
	}
	if err != nil {
		c.close()
		return
	}
	if err = c.exec("ATTACH DATABASE 'file:" + p + "' AS d"); err != nil {
		c.close()
		return
	}
	defer func() {
		if e := c.exec("DETACH DATABASE d"); e != nil {
			c.close()
			if err == nil {
				err = e
			}
			return
		}
		sq.put(c)
	}()
	exec := func(q string) {
		if err == nil {
			if e := c.exec(q); e != nil {
				err = fmt.Errorf("%s: %w", q, e)
			}
		}
	}
	exec("PRAGMA d.synchronous=OFF")
	var jm string
	if err == nil {
		if e := c.c.QueryRowContext(context.Background(), "PRAGMA d.journal_mode").Scan(&jm); e != nil || jm != "wal" {
			err = fmt.Errorf("journal_mode=%q %v", jm, e)
		}
	}
	dbBase = base
	if sc.Prelude {
		// An earlier WAL generation: written, fully checkpointed but not truncated. The next write
		// restarts the WAL at frame 0 with new salts and leaves the old frames behind it.
		for _, k := range []string{"grow", "upd", "create"} {
			for _, q := range c05StepSQL(k, 9, sc.PS) {
				exec(q)
			}
		}
		if err == nil {
			busy, nlog, nck, e := c.ckpt("FULL")
			if e != nil || busy != 0 || nlog != nck || nlog == 0 {
				err = fmt.Errorf("prelude checkpoint: %v busy=%d log=%d ckpt=%d", e, busy, nlog, nck)
			}
		}
		if err == nil {
			dbBase, err = os.ReadFile(p)
		}
	}
	for i, st := range sc.Steps {
		for _, q := range c05StepSQL(st, i, sc.PS) {
			exec(q)
		}
	}
	if err != nil {
		return
	}
	if walb, err = os.ReadFile(p + "-wal"); err != nil {
		if os.IsNotExist(err) {
			walb, err = nil, nil
		} else {
			return
		}
	}
	busy, _, _, e := c.ckpt("TRUNCATE")
	if e != nil || busy != 0 {
		err = fmt.Errorf("live checkpoint: %v busy=%d", e, busy)
		return
	}
	live, err = os.ReadFile(p)
	return
}

func TestVerif_C05_sqlite(t *testing.T) {
	r := kit.Start(t, "C05", "sqlite")
	defer r.Finish()
	D := r.Pick(3, 4)
	sizes := []int{512, 4096, 65536}
	depth := map[int]int{512: D, 4096: D, 65536: r.Pick(2, 4)} // 65536-byte pages make megabyte WALs: fewer steps at quick
	r.Rule(fmt.Sprintf("every script of <=%d steps (<=%d at page size 65536) over {insert rows, update rows, delete rows, grow (16 large rows), VACUUM, DROP TABLE, CREATE TABLE+overflow row} run by real SQLite (wal_autocheckpoint=0) at page sizes %v, each on a clean WAL and on a WAL restarted over a longer, fully checkpointed earlier generation (real stale frames behind the new ones); the WAL is compacted by NewCompactingFrameScanner+Writer.WriteTo (the calls db.CheckpointManager makes) with fullScan at frame 0 and without fullScan at every commit boundary; for resume position k the base database is the base with frames [0,k) checkpointed by SQLite. Then the same WAL cut short (torn write): for EVERY frame k the file cut after the frame header plus half of its page data, and after the frame header alone (zero bytes of page data); for the final commit frame also after 1 and after all but one byte of page data; each cut file compacted with fullScan at 0 (the cut frame ends the valid prefix: judged as above, an open trailing transaction must be an error), without fullScan at 0 and without fullScan at the last commit boundary before the cut frame (compaction must report an error or emit a WAL that checkpoints to exactly what SQLite makes of the same cut file). distinct = (mode, outcome, final database image)", D, depth[65536], sizes))
	r.Assume("SQLite's WAL recovery and checkpoint (PRAGMA wal_checkpoint) are the reference semantics of a WAL")
	r.Assume("without fullScan a complete frame with matching salts but a bad checksum is outside the documented contract (trusted WAL). A file that simply ends inside a frame's page data is not excluded: an error or SQLite's own reading of the cut file is demanded")

	dir := kit.Scratch(t)
	q := c05NewSQ(dir)
	defer q.closeAll()
	cache := c05NewCache(q) // only used through judge; keys differ per script (random salts)
	bases := map[int][]byte{}
	for _, ps := range sizes {
		bases[ps] = c05MakeRealBase(t, dir, ps)
	}
	var harnessFaults atomic.Int64
	fault := func(f string, a ...any) {
		if harnessFaults.Add(1) <= 10 {
			t.Errorf("HARNESS FAULT: "+f, a...)
		}
	}
	var staleSeen, framesTotal, maxFrames, cutWALs, cutCases atomic.Int64
	j := &c05Judge{r: r, cache: cache, fault: fault}

	runScript := func(sc c05Script, only *c05RealReplay) {
		dbBase, walb, live, err := c05RunScript(q, bases[sc.PS], sc)
		if err != nil {
			fault("script %+v: %v", sc, err)
			return
		}
		r.Transition(len(sc.Steps))
		p := c05Parse(walb)
		if len(walb) == 0 {
			// no WAL at all (empty script on a clean database): nothing to compact
			r.Distinct("no-wal")
			return
		}
		if !p.HdrOK {
			fault("script %+v: SQLite's WAL header not understood", sc)
			return
		}
		valid := p.FullValid
		if valid > 0 && p.F[valid-1].Commit == 0 {
			fault("script %+v: SQLite WAL valid prefix ends uncommitted", sc)
			return
		}
		if len(p.F) > valid {
			staleSeen.Add(1)
			if p.F[valid].SaltOK {
				fault("script %+v: frame after the valid prefix has current salts", sc)
				return
			}
		}
		framesTotal.Add(int64(valid))
		for {
			m := maxFrames.Load()
			if int64(valid) <= m || maxFrames.CompareAndSwap(m, int64(valid)) {
				break
			}
		}
		class := fmt.Sprintf("SQLite-written (page size %d)", sc.PS)
		flaw := ""
		if len(p.F) > valid {
			class = fmt.Sprintf("SQLite-written (page size %d, %d stale frames of the previous generation behind the valid ones)", sc.PS, len(p.F)-valid)
			flaw = "stale-generation"
		}
		// Oracle self-check: checkpoint of the whole file by a fresh connection == SQLite's live checkpoint,
		// and SQLite recovers exactly the frames the model calls valid.
		whole := q.checkpoint(dbBase, walb)
		if whole.Err != "" || whole.Log != valid || !bytes.Equal(whole.DB, live) {
			fault("script %+v: re-checkpointing SQLite's own WAL (log=%d err=%q, model valid=%d) does not give the live checkpoint result (%s)", sc, whole.Log, whole.Err, valid, c05DiffPages(whole.DB, live, sc.PS))
			return
		}
		r.Validated(1)
		liveKey := c05Key(live)
		wk := &c05Work{}
		bk, bkAt := dbBase, 0 // database with frames [0,bkAt) checkpointed
		one := func(start int, full bool) {
			if only != nil && (only.Cut != nil || only.Start != start || only.Full != full) {
				return
			}
			bkKey := c05Key(bk)
			if start > 0 {
				// composition self-check: prefix checkpoint then the reference suffix must give the live result
				suf := cache.get(bkKey, bk, c05Ref(walb, &p, start, valid))
				if suf.Err != "" || suf.H != liveKey {
					fault("script %+v: checkpointing [0,%d) then [%d,%d) does not give the live result: %+v", sc, start, start, valid, suf)
					return
				}
				r.Validated(1)
			}
			rp := c05RealReplay{Part: "sqlite", Script: sc, Start: start, Full: full}
			out := j.judge(&c05Case{wal: walb, p: &p, base: bk, baseKey: bkKey, start: start, full: full, class: class, flaw: flaw, group: "sqlite:", replay: rp, wk: wk})
			r.Eval(1)
			r.Distinct(fmt.Sprintf("%d|%v|%s|%d", sc.PS, flaw != "", out, start))
			if only != nil {
				t.Logf("replay %+v -> %s", rp, out)
			}
		}
		one(0, true)
		bounds := p.boundaries(valid)
		bks := make([][]byte, len(bounds)) // bks[i]: the database with frames [0,bounds[i]) checkpointed
		for i, b := range bounds {
			if b > bkAt {
				pre := q.checkpoint(bk, c05Ref(walb, &p, bkAt, b))
				if pre.Err != "" || pre.Log != b-bkAt {
					fault("script %+v: reference WAL for frames [%d,%d) rejected: log=%d err=%q", sc, bkAt, b, pre.Log, pre.Err)
					return
				}
				bk, bkAt = pre.DB, b
			}
			bks[i] = bk
			one(b, false)
		}

		// The same WAL torn: the file ends inside the page data of frame k.
		bkKeys := make([][16]byte, len(bounds))
		for i := range bks {
			bkKeys[i] = c05Key(bks[i])
		}
		for k := 0; k < valid; k++ {
			datas := []int{sc.PS / 2, 0}
			if k == valid-1 {
				datas = []int{sc.PS / 2, 0, 1, sc.PS - 1}
			}
			bi := 0 // last commit boundary at or before frame k
			for i, b := range bounds {
				if b <= k {
					bi = i
				}
			}
			for _, nd := range datas {
				if only != nil && (only.Cut == nil || only.Cut.Frame != k || only.Cut.Data != nd) {
					continue
				}
				cut := walb[:c05HdrSize+k*p.FS+c05FHdrSize+nd]
				cp := c05Parse(cut)
				if !cp.cutOnly() || cp.FullValid != k || cp.CutData != nd {
					fault("script %+v: cut at frame %d + %d data bytes parsed as %d/%d valid frames, cut %d", sc, k, nd, cp.FullValid, cp.FastValid, cp.CutData)
					return
				}
				cutWALs.Add(1)
				kind := "commit"
				if p.F[k].Commit == 0 {
					kind = "non-commit"
				}
				ccl := fmt.Sprintf("SQLite-written (page size %d, %d frames) and then cut inside %s frame %d,", sc.PS, valid, kind, k)
				type cs struct {
					start, bi int
					full      bool
				}
				cases := []cs{{0, 0, true}, {0, 0, false}}
				if bounds[bi] > 0 {
					cases = append(cases, cs{bounds[bi], bi, false})
				}
				for _, c := range cases {
					if only != nil && (only.Start != c.start || only.Full != c.full) {
						continue
					}
					rp := c05RealReplay{Part: "sqlite", Script: sc, Start: c.start, Full: c.full, Cut: &c05Cut{Frame: k, Data: nd}}
					out := j.judge(&c05Case{wal: cut, p: &cp, base: bks[c.bi], baseKey: bkKeys[c.bi], start: c.start, full: c.full, class: ccl, flaw: "truncated", group: "sqlite:", replay: rp, wk: wk})
					r.Eval(1)
					cutCases.Add(1)
					pos := "mid"
					if k == valid-1 {
						pos = "last"
					}
					r.Distinct(fmt.Sprintf("%d|cut-%s|%s|%v", sc.PS, pos, out, c.start > 0))
					if only != nil {
						t.Logf("replay script=%+v start=%d full=%v cut=%+v -> %s", rp.Script, rp.Start, rp.Full, *rp.Cut, out)
					}
				}
			}
		}
	}

	if raw := kit.Replay(); raw != nil {
		var rp c05RealReplay
		if err := json.Unmarshal(raw, &rp); err != nil {
			t.Fatal(err)
		}
		if _, ok := bases[rp.Script.PS]; !ok {
			bases[rp.Script.PS] = c05MakeRealBase(t, dir, rp.Script.PS)
		}
		runScript(rp.Script, &rp)
		return
	}

	var scripts []c05Script
	var rec func(prefix []string)
	for _, ps := range []int{65536, 512, 4096} { // the expensive page size first, not as the tail of the run
		for _, pre := range []bool{false, true} {
			rec = func(prefix []string) {
				scripts = append(scripts, c05Script{PS: ps, Prelude: pre, Steps: append([]string(nil), prefix...)})
				if len(prefix) == depth[ps] {
					return
				}
				for _, s := range c05StepNames {
					rec(append(prefix, s))
				}
			}
			rec(nil)
		}
	}
	var next atomic.Int64
	var wg sync.WaitGroup
	for w := 0; w < runtime.NumCPU(); w++ {
		wg.Add(1)
		go func() {
			defer wg.Done()
			for {
				i := int(next.Add(1)) - 1
				if i >= len(scripts) {
					return
				}
				runScript(scripts[i], nil)
				r.SampleEvery(i, scripts[i])
			}
		}()
	}
	wg.Wait()
	r.State(len(scripts))
	r.Set("scripts", len(scripts))
	r.Set("wals_with_real_stale_frames", staleSeen.Load())
	r.Set("valid_frames_total", framesTotal.Load())
	r.Set("max_valid_frames_in_a_wal", maxFrames.Load())
	r.Set("cut_wals", cutWALs.Load())
	r.Set("cut_wal_cases", cutCases.Load())
	r.Note("for every script SQLite's live checkpoint, a fresh-connection checkpoint of its WAL, and prefix-then-suffix checkpoints of re-checksummed reference WALs were checked to agree before judging rqlite's output")
}
