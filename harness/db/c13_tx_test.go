package db

import (
	"context"
	"database/sql"
	"encoding/json"
	"fmt"
	"os"
	"path/filepath"
	"sort"
	"strings"
	"sync"
	"sync/atomic"
	"testing"

	command "github.com/rqlite/rqlite/v10/command/proto"
	kit "github.com/rqlite/rqlite/v10/internal/verifkit"
)

// C13: transactional requests are all-or-nothing and results match statements.
//
// Every request of 1..N statements over a small statement menu x transaction flag x
// rollback-on-error flag x {execute path db.Execute, unified path db.Request} is run
// on a fresh real database; a shadow SQLite database driven statement by statement
// through plain database/sql with explicit BEGIN/COMMIT/ROLLBACK text gives, under the
// rule of the property statement, the allowed result lists and the allowed final table
// contents.

// ---------------------------------------------------------------------------------
// statement menu

type c13Item struct {
	Name  string `json:"name"`
	SQL   string `json:"sql"`
	FQ    bool   `json:"force_query,omitempty"` // Statement.ForceQuery, as the HTTP layer sets for RETURNING
	class string // valid | unparsable | unknown-table | constraint-violation | returning | select | empty | whitespace | begin | commit
	kind  byte   // 'i' insert, 'u' update, 's' select, 'r' insert..returning, 'c' tx control, 0 other
}

const (
	c13Schema  = "CREATE TABLE t (id INTEGER PRIMARY KEY, v TEXT NOT NULL UNIQUE, n INTEGER NOT NULL DEFAULT 0)"
	c13Seed    = "INSERT INTO t(id, v, n) VALUES(1, 'a', 0)"
	c13DumpQ   = "SELECT id, v, n FROM t ORDER BY id"
	c13Initial = `[i1,s"a",i0]`
)

var c13Menu = map[string]c13Item{
	// always valid, value depends on what ran before it
	"ins": {Name: "ins", SQL: "INSERT INTO t(v) SELECT 'k'||(MAX(id)+1) FROM t", class: "valid", kind: 'i'},
	// valid the first time, UNIQUE violation when repeated in a request (repeated key)
	"insx": {Name: "insx", SQL: "INSERT INTO t(v) VALUES('x')", class: "constraint-violation", kind: 'i'},
	// rows affected = number of rows present, so it tells what ran (and persisted) before it
	"upd":    {Name: "upd", SQL: "UPDATE t SET n = n + 1", class: "valid", kind: 'u'},
	"syn":    {Name: "syn", SQL: "INSRT INTO t(v) VALUES('s')", class: "unparsable"},
	"notab":  {Name: "notab", SQL: "INSERT INTO nosuch(v) VALUES('z')", class: "unknown-table", kind: 'i'},
	"conpk":  {Name: "conpk", SQL: "INSERT INTO t(id, v) VALUES(1, 'pk')", class: "constraint-violation", kind: 'i'},
	"connn":  {Name: "connn", SQL: "INSERT INTO t(v) VALUES(NULL)", class: "constraint-violation", kind: 'i'},
	"conuq":  {Name: "conuq", SQL: "INSERT INTO t(v) VALUES('a')", class: "constraint-violation", kind: 'i'},
	"multi":  {Name: "multi", SQL: "INSERT INTO t(v) VALUES('m'),('a')", class: "constraint-violation", kind: 'i'},
	"ret":    {Name: "ret", SQL: "INSERT INTO t(v) SELECT 'r'||(MAX(id)+1) FROM t RETURNING id, v", FQ: true, class: "returning", kind: 'r'},
	"retcon": {Name: "retcon", SQL: "INSERT INTO t(id, v) VALUES(1, 'rc') RETURNING id", FQ: true, class: "constraint-violation", kind: 'r'},
	"rete":   {Name: "rete", SQL: "INSERT INTO t(v) SELECT 'e'||(MAX(id)+1) FROM t RETURNING id", class: "returning", kind: 'i'},
	"sel":    {Name: "sel", SQL: "SELECT count(*), COALESCE(SUM(n), 0), COALESCE(MAX(v), '') FROM t", class: "select", kind: 's'},
	// prepares, then fails when executed because its parameter is not supplied
	"parm": {Name: "parm", SQL: "INSERT INTO t(v) VALUES(?)", class: "missing-parameter", kind: 'i'},
	// a read-only statement that prepares and then fails when stepped
	"selfail": {Name: "selfail", SQL: "SELECT abs(-9223372036854775808)", class: "failing-select", kind: 's'},
	"empty":   {Name: "empty", SQL: "", class: "empty"},
	"ws":      {Name: "ws", SQL: "  ", class: "whitespace"},
	// statements that make, change or remove a schema object, and statements that only
	// prepare when an EARLIER statement of the same request did so (part 'schema')
	"mk":      {Name: "mk", SQL: "CREATE TABLE nt (id INTEGER PRIMARY KEY, w TEXT NOT NULL)", class: "create-table"},
	"insnt":   {Name: "insnt", SQL: "INSERT INTO nt(w) SELECT 'n'||count(*) FROM t", class: "uses-created-table", kind: 'i'},
	"selnt":   {Name: "selnt", SQL: "SELECT id, w FROM nt ORDER BY id", class: "uses-created-table", kind: 's'},
	"addc":    {Name: "addc", SQL: "ALTER TABLE t ADD COLUMN age INTEGER", class: "add-column"},
	"updc":    {Name: "updc", SQL: "UPDATE t SET age = id + 30 WHERE age IS NULL", class: "uses-added-column", kind: 'u'},
	"mktmp":   {Name: "mktmp", SQL: "CREATE TEMP TABLE tt (id INTEGER, v TEXT)", class: "create-temp-table"},
	"instmp":  {Name: "instmp", SQL: "INSERT INTO tt(id, v) SELECT MAX(id)+10, 'tmp'||(MAX(id)+10) FROM t", class: "uses-temp-table", kind: 'i'},
	"fromtmp": {Name: "fromtmp", SQL: "INSERT INTO t(id, v) SELECT id, v FROM tt", class: "uses-temp-table", kind: 'i'},
	"drop":    {Name: "drop", SQL: "DROP TABLE t", class: "drop-table"},
	"begin":   {Name: "begin", SQL: "BEGIN", class: "begin", kind: 'c'},
	"commit":  {Name: "commit", SQL: "COMMIT", class: "commit", kind: 'c'},
}

func c13Items(names ...string) []c13Item {
	out := make([]c13Item, len(names))
	for i, n := range names {
		it, ok := c13Menu[n]
		if !ok {
			panic("c13: unknown menu item " + n)
		}
		out[i] = it
	}
	return out
}

// ---------------------------------------------------------------------------------
// shadow reference

type c13Out struct {
	optional  bool   // whitespace-only statement: the statement leaves open whether it is "non-empty"
	err       string // SQLite's message when the statement fails
	rows      string // canonical rows when the statement returns rows
	ra, lid   int64
	item      c13Item
	stmt      int    // index in the request
	inTx      bool   // an explicit (statement-text) transaction was open when it ran
	cur       string // table as seen on the connection after the statement
	committed string // table that remains if everything open is rolled back now
}

type c13Exp struct {
	initial string
	outs    []c13Out // one per non-empty statement the reference executed
	failed  int      // index in outs where the reference had to stop (transaction flag), or -1
	final   string   // table after all of outs ran (and the transaction flag's COMMIT/ROLLBACK)
}

var c13ShadowSeq atomic.Int64

func c13CanonRow(vals []any) string {
	var b strings.Builder
	b.WriteByte('[')
	for i, v := range vals {
		if i > 0 {
			b.WriteByte(',')
		}
		switch x := v.(type) {
		case nil:
			b.WriteString("null")
		case int64:
			fmt.Fprintf(&b, "i%d", x)
		case float64:
			fmt.Fprintf(&b, "f%g", x)
		case string:
			fmt.Fprintf(&b, "s%q", x)
		case []byte:
			fmt.Fprintf(&b, "s%q", string(x))
		case bool:
			fmt.Fprintf(&b, "b%v", x)
		default:
			fmt.Fprintf(&b, "?%v", x)
		}
	}
	b.WriteByte(']')
	return b.String()
}

func c13ShadowQuery(ctx context.Context, conn *sql.Conn, q string) (string, error) {
	rs, err := conn.QueryContext(ctx, q)
	if err != nil {
		return "", err
	}
	defer rs.Close()
	cols, err := rs.Columns()
	if err != nil {
		return "", err
	}
	var out []string
	for rs.Next() {
		dest := make([]any, len(cols))
		ptrs := make([]any, len(cols))
		for i := range dest {
			ptrs[i] = &dest[i]
		}
		if err := rs.Scan(ptrs...); err != nil {
			return "", err
		}
		out = append(out, c13CanonRow(dest))
	}
	if err := rs.Err(); err != nil {
		return "", err
	}
	return strings.Join(out, ""), nil
}

// c13W is one worker: a real database and a shadow database, both reset to the seed
// state before every case (the reset is verified) and replaced by brand-new ones every
// c13FreshEvery cases. Opening a new database file per case costs 10-30 ms here and
// does not parallelise (SQLite's global VFS mutex), which would not fit the time budget.
type c13W struct {
	t      testing.TB
	file   string
	db     *DB
	nReal  int
	sdb    *sql.DB
	sconn  *sql.Conn
	nShad  int
	fresh  int
	opened int

	resetFailed int

	tmpReal, tmpShad bool // the connection may hold the TEMP table of the previous case

	// schema mode (part 'schema'): requests may create, alter and drop tables, so the
	// reset rebuilds the schema and the dump covers the schema and every main table
	schema bool
	init   string // dump of the seed state in schema mode (taken from a brand-new shadow)
}

// c13SchemaTables are the main-database tables a request of part 'schema' can touch.
var c13SchemaTables = []string{"t", "nt"}

const c13SchemaQ = "SELECT type, name, tbl_name, COALESCE(sql, '') FROM sqlite_master ORDER BY name"

// In schema mode table t has no UNIQUE column: dropping a table that owns an index costs
// ~5 ms on the real database here (against ~0.05 ms without), and it is dropped before
// every case. The PRIMARY KEY still gives the constraint violations of this part.
const c13SchemaS = "CREATE TABLE t (id INTEGER PRIMARY KEY, v TEXT NOT NULL, n INTEGER NOT NULL DEFAULT 0)"

func (w *c13W) createSQL() string {
	if w.schema {
		return c13SchemaS
	}
	return c13Schema
}

// resetSQL: tmp = the previous case on this connection may have left the TEMP table
// behind (only CREATE TEMP TABLE makes one; dropping it costs ~2 ms, so only then).
func (w *c13W) resetSQL(tmp bool) []string {
	if w.schema {
		q := []string{"DROP TABLE IF EXISTS nt", "DROP TABLE IF EXISTS t", c13SchemaS, c13Seed}
		if tmp {
			q = append([]string{"DROP TABLE IF EXISTS temp.tt"}, q...)
		}
		return q
	}
	return []string{"DELETE FROM t", c13Seed}
}

func c13MakesTemp(sqls ...string) bool {
	for _, q := range sqls {
		if strings.HasPrefix(q, "CREATE TEMP") {
			return true
		}
	}
	return false
}

func (w *c13W) initial() string {
	if w.schema {
		return w.init
	}
	return c13Initial
}

func c13NoSuchTable(msg, tbl string) bool { return strings.Contains(msg, "no such table: "+tbl) }

// shadowDump: the table (default mode) or the main schema plus the content of every main
// table (schema mode; TEMP tables are connection-private and not part of the database).
func (w *c13W) shadowDump(ctx context.Context, conn *sql.Conn) string {
	if !w.schema {
		s, err := c13ShadowQuery(ctx, conn, c13DumpQ)
		if err != nil {
			w.t.Fatalf("shadow dump: %v", err)
		}
		return s
	}
	s, err := c13ShadowQuery(ctx, conn, c13SchemaQ)
	if err != nil {
		w.t.Fatalf("shadow schema dump: %v", err)
	}
	for _, tb := range c13SchemaTables {
		rows, err := c13ShadowQuery(ctx, conn, "SELECT * FROM main."+tb+" ORDER BY 1")
		switch {
		case err == nil:
			s += "|" + tb + ":" + rows
		case c13NoSuchTable(err.Error(), "main."+tb) || c13NoSuchTable(err.Error(), tb):
			s += "|" + tb + ":absent"
		default:
			w.t.Fatalf("shadow dump of %s: %v", tb, err)
		}
	}
	return s
}

const c13FreshEvery = 200

func (w *c13W) close() {
	if w.db != nil {
		w.db.Close()
		w.db = nil
	}
	if w.sconn != nil {
		w.sconn.Close()
		w.sdb.Close()
		w.sconn = nil
	}
}

func (w *c13W) shadowConn() *sql.Conn {
	t := w.t
	ctx := context.Background()
	if w.sconn != nil && w.nShad < w.fresh {
		w.nShad++
		w.sconn.ExecContext(ctx, "ROLLBACK")
		for _, q := range w.resetSQL(w.tmpShad) {
			if _, err := w.sconn.ExecContext(ctx, q); err != nil {
				t.Fatalf("shadow reset %q: %v", q, err)
			}
		}
		w.tmpShad = false
		return w.sconn
	}
	if w.sconn != nil {
		w.sconn.Close()
		w.sdb.Close()
	}
	sdb, err := sql.Open("sqlite3", fmt.Sprintf("file:c13shadow%d?mode=memory&cache=private", c13ShadowSeq.Add(1)))
	if err != nil {
		t.Fatalf("shadow open: %v", err)
	}
	sdb.SetMaxOpenConns(1)
	conn, err := sdb.Conn(ctx)
	if err != nil {
		t.Fatalf("shadow conn: %v", err)
	}
	for _, q := range []string{w.createSQL(), c13Seed} {
		if _, err := conn.ExecContext(ctx, q); err != nil {
			t.Fatalf("shadow %q: %v", q, err)
		}
	}
	w.sdb, w.sconn, w.nShad, w.tmpShad = sdb, conn, 1, false
	if w.schema {
		w.init = w.shadowDump(ctx, conn)
	}
	return conn
}

// shadow runs the statements one at a time on a private in-memory SQLite database.
// With tx it brackets them with BEGIN ... COMMIT and, at the first failure, issues
// ROLLBACK and stops (the rule of the statement). Without tx every statement is run
// (the caller derives the allowed early stops from the per-statement snapshots).
func (w *c13W) shadow(items []c13Item, tx bool) c13Exp {
	t := w.t
	ctx := context.Background()
	conn := w.shadowConn()
	var err error
	must := func(q string) {
		if _, err := conn.ExecContext(ctx, q); err != nil {
			t.Fatalf("shadow %q: %v", q, err)
		}
	}
	dump := func() string { return w.shadowDump(ctx, conn) }
	exp := c13Exp{initial: dump(), failed: -1}
	if exp.initial != w.initial() {
		t.Fatalf("shadow database not in the seed state: %s", exp.initial)
	}
	committed := exp.initial
	if tx {
		must("BEGIN")
	}
	explicit := false
	for si, it := range items {
		if it.SQL == "" {
			continue
		}
		w.tmpShad = w.tmpShad || c13MakesTemp(it.SQL)
		o := c13Out{item: it, stmt: si, inTx: explicit}
		if it.class == "whitespace" {
			o.optional = true
		} else if it.kind == 's' || it.kind == 'r' {
			o.rows, err = c13ShadowQuery(ctx, conn, it.SQL)
			if err != nil {
				o.err = err.Error()
			} else if it.kind == 'r' {
				if err := conn.QueryRowContext(ctx, "SELECT last_insert_rowid()").Scan(&o.lid); err != nil {
					t.Fatalf("shadow rowid: %v", err)
				}
			}
		} else {
			res, err := conn.ExecContext(ctx, it.SQL)
			if err != nil {
				o.err = err.Error()
			} else {
				o.ra, _ = res.RowsAffected()
				o.lid, _ = res.LastInsertId()
				if it.class == "begin" {
					explicit = true
				} else if it.class == "commit" {
					explicit = false
				}
			}
		}
		o.cur = dump()
		if !tx && !explicit {
			committed = o.cur
		}
		o.committed = committed
		exp.outs = append(exp.outs, o)
		if o.err != "" && tx {
			must("ROLLBACK")
			exp.failed = len(exp.outs) - 1
			break
		}
	}
	if tx && exp.failed < 0 {
		must("COMMIT")
	}
	conn.ExecContext(ctx, "COMMIT") // same finalisation as on the real database: close whatever the request text left open
	exp.final = dump()
	return exp
}

// ---------------------------------------------------------------------------------
// real database

type c13Real struct {
	results []*command.ExecuteQueryResponse
	reqErr  string
	dump    string
}

func c13Req(items []c13Item, tx, roe bool) *command.Request {
	req := &command.Request{Transaction: tx, RollbackOnError: roe}
	for _, it := range items {
		req.Statements = append(req.Statements, &command.Statement{Sql: it.SQL, ForceQuery: it.FQ})
	}
	return req
}

func c13RealRows(q *command.QueryRows) string {
	var b strings.Builder
	for _, v := range q.GetValues() {
		row := make([]any, len(v.GetParameters()))
		for i, p := range v.GetParameters() {
			switch x := p.GetValue().(type) {
			case *command.Parameter_I:
				row[i] = x.I
			case *command.Parameter_D:
				row[i] = x.D
			case *command.Parameter_B:
				row[i] = x.B
			case *command.Parameter_S:
				row[i] = x.S
			case *command.Parameter_Y:
				row[i] = x.Y
			case nil:
				row[i] = nil
			default:
				row[i] = fmt.Sprintf("%v", x)
			}
		}
		b.WriteString(c13CanonRow(row))
	}
	return b.String()
}

// realDB returns the worker's real database in the seed state: a brand-new WAL-mode
// file every w.fresh cases (or whenever a reset does not go through), otherwise the
// previous one with the table emptied and re-seeded in one checked transaction; the
// result of the reset is spot-verified by a dump.
func (w *c13W) realDB() *DB {
	t := w.t
	if w.db != nil && w.nReal < w.fresh {
		// the previous case ended with COMMIT, so no transaction is open here
		reset := &command.Request{Transaction: true}
		for _, q := range w.resetSQL(w.tmpReal) {
			reset.Statements = append(reset.Statements, &command.Statement{Sql: q})
		}
		sr, err := w.db.Execute(reset, false)
		ok := err == nil && len(sr) == len(reset.Statements)
		for _, x := range sr {
			ok = ok && c13RealErr(x) == ""
		}
		if ok {
			w.nReal++
			w.tmpReal = false
			if w.nReal%4 == 1 {
				if d := w.realDump(); d != w.initial() {
					t.Fatalf("real database not in the seed state after reset: %s", d)
				}
			}
			return w.db
		}
		w.resetFailed++
	}
	if w.db != nil {
		w.db.Close()
	}
	for _, sfx := range []string{"", "-wal", "-shm", "-journal"} {
		os.Remove(w.file + sfx)
	}
	db, err := Open(w.file, false, true)
	if err != nil {
		t.Fatalf("open real database: %v", err)
	}
	setup := &command.Request{Transaction: true, Statements: []*command.Statement{{Sql: w.createSQL()}, {Sql: c13Seed}}}
	sr, err := db.Execute(setup, false)
	if err != nil || len(sr) != 2 || c13RealErr(sr[0]) != "" || c13RealErr(sr[1]) != "" {
		t.Fatalf("seed real database: %v %v", err, sr)
	}
	w.db, w.nReal, w.tmpReal = db, 1, false
	w.opened++
	if d := w.realDump(); d != w.initial() {
		t.Fatalf("real database not in the seed state: %s", d)
	}
	return w.db
}

func (w *c13W) realDump() string {
	if !w.schema {
		rows, err := w.db.QueryStringStmt(c13DumpQ)
		if err != nil || len(rows) != 1 || rows[0].GetError() != "" {
			w.t.Fatalf("dump real database: %v %v", err, rows)
		}
		return c13RealRows(rows[0])
	}
	rows, err := w.db.QueryStringStmt(c13SchemaQ)
	if err != nil || len(rows) != 1 || rows[0].GetError() != "" {
		w.t.Fatalf("dump real schema: %v %v", err, rows)
	}
	s := c13RealRows(rows[0])
	for _, tb := range c13SchemaTables {
		rows, err := w.db.QueryStringStmt("SELECT * FROM main." + tb + " ORDER BY 1")
		if err != nil || len(rows) != 1 {
			w.t.Fatalf("dump real table %s: %v %v", tb, err, rows)
		}
		switch e := rows[0].GetError(); {
		case e == "":
			s += "|" + tb + ":" + c13RealRows(rows[0])
		case c13NoSuchTable(e, "main."+tb) || c13NoSuchTable(e, tb):
			s += "|" + tb + ":absent"
		default:
			w.t.Fatalf("dump real table %s: %s", tb, e)
		}
	}
	return s
}

// real runs the request on the given path against a database in the seed state, then
// closes any transaction the request left open on the write connection with COMMIT (so
// anything that "failed but stayed" becomes visible) and dumps the table through the
// read-only connection.
func (w *c13W) real(req *command.Request, path string) c13Real {
	t := w.t
	db := w.realDB()
	var out c13Real
	var rerr error
	for _, st := range req.Statements {
		w.tmpReal = w.tmpReal || c13MakesTemp(st.Sql)
	}
	switch path {
	case "execute":
		out.results, rerr = db.Execute(req, false)
	case "unified":
		out.results, rerr = db.Request(req, false)
	default:
		t.Fatalf("bad path %q", path)
	}
	if rerr != nil {
		out.reqErr = rerr.Error()
	}
	db.ExecuteStringStmt("COMMIT")
	out.dump = w.realDump()
	return out
}

func c13RealErr(r *command.ExecuteQueryResponse) string {
	if r == nil {
		return ""
	}
	if e := r.GetError(); e != "" {
		return e
	}
	if e := r.GetE().GetError(); e != "" {
		return e
	}
	return r.GetQ().GetError()
}

func c13Sig(r *command.ExecuteQueryResponse) string {
	if e := c13RealErr(r); e != "" {
		return "err(" + e + ")"
	}
	switch {
	case r == nil || r.GetResult() == nil:
		return "none"
	case r.GetQ() != nil:
		return "rows(" + c13RealRows(r.GetQ()) + ")"
	case r.GetE() != nil:
		return fmt.Sprintf("exec(ra=%d,id=%d)", r.GetE().GetRowsAffected(), r.GetE().GetLastInsertId())
	}
	return "other"
}

// ---------------------------------------------------------------------------------
// comparison

func c13SameErr(want, got string) bool {
	return got != "" && (strings.Contains(got, want) || strings.Contains(want, got))
}

// c13ResultOK: does the real result report the outcome of the statement the reference
// executed at this position? Only what the statement demands is compared: error vs no
// error (and that it is this statement's error), rows for statements that return rows on
// this path, rows affected for INSERT/UPDATE, insert id for INSERT.
func c13ResultOK(o c13Out, r *command.ExecuteQueryResponse, path string) bool {
	got := c13RealErr(r)
	if o.optional {
		// a whitespace-only statement: any non-error, row-less result
		return got == "" && len(r.GetQ().GetValues()) == 0
	}
	if o.err != "" {
		return c13SameErr(o.err, got)
	}
	if got != "" {
		return false
	}
	wantRows := o.item.FQ || (path == "unified" && o.item.kind == 's')
	if wantRows {
		return r.GetQ() != nil && c13RealRows(r.GetQ()) == o.rows
	}
	switch o.item.kind {
	case 'i':
		// the insert id only belongs to this statement when it inserted something
		return r.GetE() != nil && r.GetE().GetRowsAffected() == o.ra && (o.ra == 0 || r.GetE().GetLastInsertId() == o.lid)
	case 'u':
		return r.GetE() != nil && r.GetE().GetRowsAffected() == o.ra
	}
	// SELECT through the execute path, BEGIN, COMMIT: only "no error" is demanded
	return true
}

// c13FailClass names the class of a failed statement for violation keys: text SQLite
// cannot parse, text that parses but cannot be prepared (unknown table), or a statement
// that prepares and then fails when run (constraint violation, BEGIN inside a transaction).
func c13FailClass(o c13Out) string {
	switch o.item.class {
	case "unparsable", "unknown-table":
		return o.item.class
	}
	return "failing"
}

type c13Verdict struct {
	keys  []string // violation keys (class:path), empty = held
	why   []string
	stops []int // reference positions at which the real code may have stopped (-1 = ran everything)
}

// c13Match finds every way the real result list can be explained by the reference:
// optional (whitespace) results present or absent, and, where the statement is silent
// (a failure outside any transaction), stopping after the failed statement or going on.
// mustStop = index in outs after which nothing may run (first failure inside a transaction).
func c13Match(outs []c13Out, mustStop int, real []*command.ExecuteQueryResponse, path string, mayStop func(k int) bool) []int {
	end := len(outs)
	if mustStop >= 0 {
		end = mustStop + 1
	}
	stops := map[int]bool{}
	var rec func(i, j int)
	rec = func(i, j int) {
		if i == end {
			if j == len(real) {
				if mustStop >= 0 {
					stops[mustStop] = true
				} else {
					stops[-1] = true
				}
			}
			return
		}
		if outs[i].optional {
			rec(i+1, j)
		}
		if j < len(real) && c13ResultOK(outs[i], real[j], path) {
			if outs[i].err != "" && i != mustStop && j+1 == len(real) && mayStop(i) {
				stops[i] = true
			}
			rec(i+1, j+1)
		}
	}
	rec(0, 0)
	var out []int
	for k := range stops {
		out = append(out, k)
	}
	sort.Ints(out)
	return out
}

func c13Permute(n int, f func(p []int) bool) bool {
	p := make([]int, n)
	for i := range p {
		p[i] = i
	}
	var rec func(k int) bool
	rec = func(k int) bool {
		if k == n {
			return f(p)
		}
		for i := k; i < n; i++ {
			p[k], p[i] = p[i], p[k]
			if rec(k + 1) {
				return true
			}
			p[k], p[i] = p[i], p[k]
		}
		return false
	}
	return rec(0)
}

// c13Judge applies the rule of the property statement to one executed case.
func c13Judge(exp c13Exp, real c13Real, tx, roe bool, path string) c13Verdict {
	var v c13Verdict
	add := func(key, why string) {
		for _, k := range v.keys {
			if k == key {
				return
			}
		}
		v.keys = append(v.keys, key)
		v.why = append(v.why, why)
	}
	outs := exp.outs

	// Where must execution stop? Transaction flag: at the first failure (the reference
	// already stopped there). Rollback-on-error without the flag: at the first failure
	// that happens while a transaction opened by the request text is open.
	mustStop := -1
	if tx {
		mustStop = exp.failed
	} else if roe {
		for i, o := range outs {
			if o.err != "" && o.inTx {
				mustStop = i
				break
			}
		}
	}
	mayStop := func(k int) bool { return !tx } // statement silent about failures outside a transaction

	if real.reqErr != "" {
		add("C13:request-level-error:"+path, "request returned error "+real.reqErr)
	}

	stops := c13Match(outs, mustStop, real.results, path, mayStop)
	v.stops = stops
	if len(stops) == 0 {
		end := len(outs)
		if mustStop >= 0 {
			end = mustStop + 1
		}
		minN := 0
		for _, o := range outs[:end] {
			if !o.optional {
				minN++
			}
		}
		n := len(real.results)
		countOK := n >= minN && n <= end
		if !countOK && !tx {
			// an allowed early stop after a failure outside a transaction
			req := 0
			for i, o := range outs[:end] {
				if !o.optional {
					req++
				}
				if o.err != "" && i != mustStop && n >= req && n <= i+1 {
					countOK = true
				}
			}
		}
		switch {
		case mustStop >= 0 && n > end && tx:
			add(fmt.Sprintf("C13:tx-continues-after-%s-statement:%s", c13FailClass(outs[mustStop]), path),
				fmt.Sprintf("statement %d (%s) failed inside the transaction but %d result(s) follow it", outs[mustStop].stmt, outs[mustStop].item.Name, n-end))
		case mustStop >= 0 && n > end:
			add(fmt.Sprintf("C13:rollback-on-error-continues-after-%s-statement:%s", c13FailClass(outs[mustStop]), path),
				fmt.Sprintf("statement %d (%s) failed inside an open transaction with rollback-on-error but %d result(s) follow it", outs[mustStop].stmt, outs[mustStop].item.Name, n-end))
		case !countOK:
			add("C13:result-count-mismatch:"+path, fmt.Sprintf("%d results, rule allows %d..%d", n, minN, end))
		default:
			reordered := n <= 6 && c13Permute(n, func(p []int) bool {
				pr := make([]*command.ExecuteQueryResponse, n)
				for i, k := range p {
					pr[i] = real.results[k]
				}
				return len(c13Match(outs, mustStop, pr, path, mayStop)) > 0
			})
			if reordered {
				add("C13:result-order:"+path, "results are those of the statements but in another order")
			} else {
				add("C13:result-outcome-mismatch:"+path, "a result does not report its statement's own outcome")
			}
		}
	}

	// final content
	allowed := map[string]bool{}
	allow := func(k int) {
		switch {
		case k < 0:
			allowed[exp.final] = true
		case tx:
			allowed[exp.initial] = true
		case k == mustStop:
			allowed[outs[k].committed] = true // rollback-on-error: no effect of the failed transaction
		default:
			allowed[outs[k].cur] = true
			allowed[outs[k].committed] = true
		}
	}
	if len(stops) > 0 {
		for _, k := range stops {
			allow(k)
		}
	} else {
		// the result list is already reported as wrong; judge the content against every
		// stop the rule could allow so that it is only reported when wrong on its own
		if mustStop >= 0 {
			allow(mustStop)
		} else {
			allow(-1)
		}
		if !tx {
			for i, o := range outs {
				if o.err != "" && (mustStop < 0 || i < mustStop) {
					allow(i)
				}
			}
		}
	}
	if !allowed[real.dump] {
		var al []string
		for k := range allowed {
			al = append(al, k)
		}
		sort.Strings(al)
		why := fmt.Sprintf("final table %s, rule allows %s", real.dump, strings.Join(al, " or "))
		switch {
		case tx && exp.failed >= 0:
			add("C13:partial-commit:"+path, "transaction failed but left effects: "+why)
		case tx:
			add("C13:committed-transaction-incomplete:"+path, why)
		case mustStop >= 0:
			add("C13:rollback-on-error-leaves-effects:"+path, why)
		default:
			add("C13:final-state-mismatch:"+path, why)
		}
	}
	return v
}

// ---------------------------------------------------------------------------------
// driver

type c13Case struct {
	Part  string   `json:"part"`
	Path  string   `json:"path"`
	Tx    bool     `json:"transaction"`
	Roe   bool     `json:"rollback_on_error"`
	Items []string `json:"statements"`
	SQL   []string `json:"sql,omitempty"`
	Got   []string `json:"results,omitempty"`
	Dump  string   `json:"final_table,omitempty"`
}

func c13Names(items []c13Item) []string {
	out := make([]string, len(items))
	for i, it := range items {
		out[i] = it.Name
	}
	return out
}

func c13RunCase(w *c13W, r *kit.Run, items []c13Item, exp c13Exp, tx, roe bool, path, part string) {
	real := w.real(c13Req(items, tx, roe), path)
	v := c13Judge(exp, real, tx, roe, path)
	sigs := make([]string, len(real.results))
	for i, rr := range real.results {
		sigs[i] = c13Sig(rr)
	}
	r.Eval(1)
	r.Distinct(fmt.Sprintf("%s|%v|%v|%s|%s|%s", path, tx, roe, strings.Join(sigs, ";"), real.dump, real.reqErr))
	if len(v.keys) == 0 {
		return
	}
	sqls := make([]string, len(items))
	for i, it := range items {
		sqls[i] = it.SQL
	}
	c := c13Case{Part: part, Path: path, Tx: tx, Roe: roe, Items: c13Names(items), SQL: sqls, Got: sigs, Dump: real.dump}
	for i, k := range v.keys {
		if part == "schema" {
			// its own class: the request changes the schema and later statements depend on it
			k = strings.TrimSuffix(k, ":"+path) + ":request-changes-schema:" + path
		}
		r.Violation(k, fmt.Sprintf("%s path, transaction=%v rollback_on_error=%v, statements %v: %s; results %v", path, tx, roe, c.Items, v.why[i], sigs), c)
	}
}

// c13Enumerate runs f on every sequence of minLen..maxLen menu items, on nw workers. Requests
// of up to freshLen statements get a brand-new database for every single case; longer
// ones run on a database that is reset (and checked) before every case and replaced
// every c13FreshEvery cases.
func c13Enumerate(t testing.TB, r *kit.Run, dir string, menu []c13Item, minLen, maxLen, nw, freshLen int, f func(w *c13W, idx int, items []c13Item)) int {
	type job struct {
		idx   int
		items []c13Item
	}
	ch := make(chan job, 256)
	var wg sync.WaitGroup
	var stopped atomic.Bool
	for w := 0; w < nw; w++ {
		wg.Add(1)
		go func(wi int) {
			defer wg.Done()
			w := &c13W{t: t, file: filepath.Join(dir, fmt.Sprintf("w%d.db", wi)), schema: r.Part == "schema"}
			defer func() {
				w.close()
				r.Add("databases_opened", int64(w.opened))
				r.Add("resets_replaced_by_new_database", int64(w.resetFailed))
			}()
			for j := range ch {
				if stopped.Load() {
					continue
				}
				w.fresh = c13FreshEvery
				if len(j.items) <= freshLen {
					w.fresh = 1
				}
				f(w, j.idx, j.items)
			}
		}(w)
	}
	n := 0
	for l := minLen; l <= maxLen && !stopped.Load(); l++ {
		idx := make([]int, l)
		for {
			if r.OverBudget() {
				stopped.Store(true)
				r.Cap("time budget used up at length %d after %d requests", l, n)
				break
			}
			items := make([]c13Item, l)
			for i, k := range idx {
				items[i] = menu[k]
			}
			ch <- job{n, items}
			n++
			k := l - 1
			for k >= 0 {
				idx[k]++
				if idx[k] < len(menu) {
					break
				}
				idx[k] = 0
				k--
			}
			if k < 0 {
				break
			}
		}
	}
	close(ch)
	wg.Wait()
	return n
}

func c13Replay(t *testing.T, r *kit.Run, parts ...string) bool {
	raw := kit.Replay()
	if raw == nil {
		return false
	}
	var c c13Case
	if err := json.Unmarshal(raw, &c); err != nil {
		t.Fatalf("bad replay: %v", err)
	}
	mine := false
	for _, p := range parts {
		mine = mine || p == c.Part
	}
	if !mine {
		return true
	}
	items := c13Items(c.Items...)
	w := &c13W{t: t, file: filepath.Join(kit.Scratch(t), "replay.db"), fresh: 1, schema: c.Part == "schema"}
	defer w.close()
	if c.Part == "joined" {
		c13RunJoined(w, r, items, c.Tx, c.Roe)
	} else {
		c13RunCase(w, r, items, w.shadow(items, c.Tx), c.Tx, c.Roe, c.Path, c.Part)
	}
	return true
}

type c13Stage struct {
	menu           []string
	minLen, maxLen int
}

func (st c13Stage) String() string {
	if st.minLen == st.maxLen {
		return fmt.Sprintf("all requests of exactly %d statements over %v", st.maxLen, st.menu)
	}
	return fmt.Sprintf("all requests of %d..%d statements over %v", st.minLen, st.maxLen, st.menu)
}

func c13Stages(st []c13Stage) string {
	var p []string
	for _, x := range st {
		p = append(p, x.String())
	}
	return strings.Join(p, "; ")
}

// TestVerif_C13 is the main enumeration: the statement menu of the property, no explicit
// transaction control in statement text.
func TestVerif_C13(t *testing.T) {
	r := kit.Start(t, "C13", "enum")
	defer r.Finish()
	if c13Replay(t, r, "enum") {
		return
	}
	full := []string{"ins", "insx", "upd", "syn", "notab", "conpk", "ret", "retcon", "sel", "selfail", "empty", "ws"}
	wide := append(append([]string{}, full...), "connn", "conuq", "multi", "rete", "parm")
	core5 := []string{"ins", "insx", "upd", "syn", "notab", "conpk", "ret", "sel"}
	tiny := []string{"ins", "upd", "syn", "conpk", "sel"}
	core := []string{"ins", "insx", "upd", "syn", "conpk", "sel"}
	stages := []c13Stage{{full, 1, 3}, {core, 4, 4}}
	if r.Thorough() {
		stages = []c13Stage{{wide, 1, 3}, {full, 4, 4}, {core5, 5, 5}, {tiny, 6, 6}}
	}
	freshLen := r.Pick(1, 2)
	r.Rule(fmt.Sprintf("%s; each x transaction flag x rollback-on-error flag x {db.Execute, db.Request}, each on a WAL-mode database file holding one seed row (requests of <=%d statements: a brand-new file per case; longer: reset to the seed state by a checked DELETE+INSERT transaction after the previous case's closing COMMIT, spot-verified by a dump, new file every %d cases); oracle = shadow SQLite database driven statement by statement with explicit BEGIN/COMMIT/ROLLBACK under the rule of the statement (whitespace-only statement: result optional; failure outside a transaction: stopping or continuing both allowed); distinct = distinct (path, flags, result list, final table) observations", c13Stages(stages), freshLen, c13FreshEvery))
	r.Assume("SQLite (the shadow database executes the same statement text through plain database/sql) defines each single statement's own outcome")
	r.Note("explicit BEGIN/COMMIT statement text and multi-statement text are covered by part 'explicit'")
	dir := kit.Scratch(t)
	for _, st := range stages {
		seqs := c13Enumerate(t, r, dir, c13Items(st.menu...), st.minLen, st.maxLen, 16, freshLen, func(w *c13W, idx int, items []c13Item) {
			for _, tx := range []bool{false, true} {
				exp := w.shadow(items, tx)
				for _, roe := range []bool{false, true} {
					for _, path := range []string{"execute", "unified"} {
						c13RunCase(w, r, items, exp, tx, roe, path, "enum")
					}
				}
			}
			r.SampleEvery(idx, map[string]any{"statements": c13Names(items)})
		})
		r.State(seqs)
		r.Add("requests", int64(seqs))
	}
}

// TestVerif_C13_schema: requests in which a later statement depends on a schema object
// that an EARLIER statement of the same request made, changed or removed: CREATE TABLE +
// INSERT/SELECT on it, ALTER TABLE ADD COLUMN + UPDATE using the column, CREATE TEMP TABLE
// + INSERT into it + INSERT INTO real SELECT FROM temp, DROP TABLE + statements using the
// dropped table (which must fail exactly as on the shadow database). Every such statement
// on its own (or in the wrong order) fails with "no such table/column" on the shadow as
// well. The execute path, which never classifies statements, is the control.
func TestVerif_C13_schema(t *testing.T) {
	r := kit.Start(t, "C13", "schema")
	defer r.Finish()
	if c13Replay(t, r, "schema") {
		return
	}
	full := []string{"mk", "insnt", "selnt", "addc", "updc", "mktmp", "instmp", "fromtmp", "drop", "ins", "conpk"}
	stages := []c13Stage{{full, 1, 3}}
	if r.Thorough() {
		wide := append(append([]string{}, full...), "upd", "sel", "syn", "ret", "notab")
		core := []string{"mk", "insnt", "addc", "updc", "mktmp", "instmp", "fromtmp", "drop", "conpk"}
		stages = []c13Stage{{wide, 1, 3}, {core, 4, 4}}
	}
	freshLen := 1
	r.Rule(fmt.Sprintf("%s; each x transaction flag x rollback-on-error flag x {db.Execute, db.Request}, each on a WAL-mode database file holding table t with one seed row (requests of 1 statement: a brand-new file per case; longer: schema rebuilt by a checked DROP TABLE IF EXISTS [temp.tt,] nt, t + CREATE + INSERT transaction (t without its UNIQUE column constraint in this part) after the previous case's closing COMMIT, spot-verified by a dump, new file every %d cases); oracle = shadow SQLite database driven statement by statement on ONE connection with explicit BEGIN/COMMIT/ROLLBACK under the rule of the statement; final state compared = sqlite_master (type, name, tbl_name, sql) plus all rows of every main table (TEMP tables are private to the write connection and not part of the database); distinct = distinct (path, flags, result list, final schema+content) observations", c13Stages(stages), c13FreshEvery))
	r.Assume("SQLite (the shadow database executes the same statement text through plain database/sql on one connection) defines each single statement's own outcome, including whether it can be prepared against the schema the earlier statements of the request left on that connection")
	r.Note("the write connection of db.DB is a single pooled connection (MaxOpenConns 1, no lifetime limit), so a TEMP table lives across the statements of a request exactly as on the shadow's single connection; it is dropped by the reset between cases")
	dir := kit.Scratch(t)
	for _, st := range stages {
		seqs := c13Enumerate(t, r, dir, c13Items(st.menu...), st.minLen, st.maxLen, 16, freshLen, func(w *c13W, idx int, items []c13Item) {
			for _, tx := range []bool{false, true} {
				exp := w.shadow(items, tx)
				for _, roe := range []bool{false, true} {
					for _, path := range []string{"execute", "unified"} {
						c13RunCase(w, r, items, exp, tx, roe, path, "schema")
					}
				}
			}
			r.SampleEvery(idx, map[string]any{"statements": c13Names(items)})
		})
		r.State(seqs)
		r.Add("requests", int64(seqs))
	}
}

// ---------------------------------------------------------------------------------
// explicit transaction control in statement text (what rollback-on-error exists for)

// c13RunJoined: the /db/load shape - the whole statement list as ONE statement text
// joined with ";\n", execute path. One result; it reports an error iff a statement
// failed; with the transaction flag, or with rollback-on-error when the failure is
// inside a transaction opened by the text, nothing of the failed transaction remains.
func c13RunJoined(w *c13W, r *kit.Run, items []c13Item, tx, roe bool) {
	var parts []string
	for _, it := range items {
		parts = append(parts, it.SQL)
	}
	text := strings.Join(parts, ";\n")
	// reference: statement by statement, stop at the first failure
	exp := w.shadow(items, tx)
	fail := -1
	for i, o := range exp.outs {
		if o.err != "" {
			fail = i
			break
		}
	}
	req := &command.Request{Transaction: tx, RollbackOnError: roe, Statements: []*command.Statement{{Sql: text}}}
	real := w.real(req, "execute")
	r.Eval(1)
	sigs := make([]string, len(real.results))
	for i, rr := range real.results {
		sigs[i] = c13Sig(rr)
	}
	r.Distinct(fmt.Sprintf("joined|%v|%v|%s|%s|%s", tx, roe, strings.Join(sigs, ";"), real.dump, real.reqErr))
	c := c13Case{Part: "joined", Path: "execute", Tx: tx, Roe: roe, Items: c13Names(items), SQL: []string{text}, Got: sigs, Dump: real.dump}
	bad := func(key, why string) {
		r.Violation(key, fmt.Sprintf("execute path, one multi-statement text, transaction=%v rollback_on_error=%v, statements %v: %s; results %v", tx, roe, c.Items, why, sigs), c)
	}
	if real.reqErr != "" {
		bad("C13:request-level-error:execute-multi-statement-text", "request returned error "+real.reqErr)
	}
	allowed := map[string]bool{}
	if strings.TrimSpace(strings.ReplaceAll(text, ";", "")) == "" {
		// nothing but separators/whitespace: no effect; result optional
		if len(real.results) > 1 || (len(real.results) == 1 && c13RealErr(real.results[0]) != "") {
			bad("C13:result-count-mismatch:execute-multi-statement-text", "empty text gave an error or several results")
		}
		allowed[exp.initial] = true
	} else {
		if len(real.results) != 1 {
			bad("C13:result-count-mismatch:execute-multi-statement-text", fmt.Sprintf("%d results for one non-empty statement", len(real.results)))
		} else if got := c13RealErr(real.results[0]); (fail >= 0) != (got != "") {
			bad("C13:result-outcome-mismatch:execute-multi-statement-text", fmt.Sprintf("reference failure index %d, reported error %q", fail, got))
		} else if fail >= 0 && !c13SameErr(exp.outs[fail].err, got) {
			bad("C13:result-outcome-mismatch:execute-multi-statement-text", fmt.Sprintf("reference error %q, reported %q", exp.outs[fail].err, got))
		}
		switch {
		case fail < 0:
			allowed[exp.final] = true
		case tx:
			allowed[exp.initial] = true
		case roe && exp.outs[fail].inTx:
			allowed[exp.outs[fail].committed] = true
		default:
			allowed[exp.outs[fail].cur] = true
			allowed[exp.outs[fail].committed] = true
		}
	}
	if !allowed[real.dump] {
		var al []string
		for k := range allowed {
			al = append(al, k)
		}
		sort.Strings(al)
		why := fmt.Sprintf("final table %s, rule allows %s", real.dump, strings.Join(al, " or "))
		switch {
		case tx && fail >= 0:
			bad("C13:partial-commit:execute-multi-statement-text", why)
		case roe && fail >= 0 && exp.outs[fail].inTx:
			bad("C13:rollback-on-error-leaves-effects:execute-multi-statement-text", why)
		default:
			bad("C13:final-state-mismatch:execute-multi-statement-text", why)
		}
	}
}

// TestVerif_C13_explicit: requests whose statement text opens and closes transactions
// itself (BEGIN / COMMIT), which is what rollback-on-error is for (SQL dump loading).
// Separate statements on both paths (transaction flag off: mixing the flag with explicit
// transaction control is outside the statement), and the same lists joined into one
// multi-statement text on the execute path (flag on and off; BEGIN/COMMIT-free lists only
// when the flag is on).
func TestVerif_C13_explicit(t *testing.T) {
	r := kit.Start(t, "C13", "explicit")
	defer r.Finish()
	if c13Replay(t, r, "explicit", "joined") {
		return
	}
	full := []string{"begin", "commit", "ins", "insx", "upd", "syn", "conpk", "sel", "empty"}
	core := []string{"begin", "commit", "ins", "syn", "conpk"}
	stages := []c13Stage{{full, 1, 3}, {core, 4, 4}}
	if r.Thorough() {
		stages = []c13Stage{{full, 1, 4}, {core, 5, 5}}
	}
	r.Rule(fmt.Sprintf("%s; each with transaction=false x rollback-on-error flag x {db.Execute, db.Request} as separate statements, plus the same list joined with ';' into ONE statement text through db.Execute (x transaction flag for lists without BEGIN/COMMIT); oracle = shadow SQLite database; rollback-on-error + failure while a text-opened transaction is open: execution stops and nothing of that transaction remains even after a later COMMIT; elsewhere stop/continue and keep/rollback are all allowed", c13Stages(stages)))
	r.Assume("SQLite (the shadow database executes the same statement text through plain database/sql) defines each single statement's own outcome")
	dir := kit.Scratch(t)
	for _, st := range stages {
		seqs := c13Enumerate(t, r, dir, c13Items(st.menu...), st.minLen, st.maxLen, 16, 1, func(w *c13W, idx int, items []c13Item) {
			exp := w.shadow(items, false)
			ctl := false
			for _, it := range items {
				ctl = ctl || it.kind == 'c'
			}
			for _, roe := range []bool{false, true} {
				for _, path := range []string{"execute", "unified"} {
					c13RunCase(w, r, items, exp, false, roe, path, "explicit")
				}
				c13RunJoined(w, r, items, false, roe)
				if !ctl {
					c13RunJoined(w, r, items, true, roe)
				}
			}
			r.SampleEvery(idx, map[string]any{"statements": c13Names(items)})
		})
		r.State(seqs)
		r.Add("requests", int64(seqs))
	}
}
