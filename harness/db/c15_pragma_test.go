package db

import (
	"bytes"
	"encoding/json"
	"fmt"
	"os"
	"path/filepath"
	"regexp"
	"sort"
	"strings"
	"sync"
	"sync/atomic"
	"testing"

	command "github.com/rqlite/rqlite/v10/command/proto"
	kit "github.com/rqlite/rqlite/v10/internal/verifkit"
)

// C15: no accepted request can change journal_mode, wal_autocheckpoint,
// synchronous, query_only, or run a WAL checkpoint.
//
// Every text of a PRAGMA grammar is shown to the real guard (IsBreakingPragma,
// exactly what store.PragmaCheckRequest.Check calls per statement). A text the
// guard ACCEPTS is executed by the real db layer, through the same db functions
// the store's three entry points end in, on a scratch database opened the way a
// node opens its database. The oracle is the database itself: the four settings
// read back afterwards, the bytes of the main database file and the WAL size.

// ---------------------------------------------------------------- grammar ---

type c15Pragma struct {
	name    string
	guarded bool
	values  []string
}

var c15Pragmas = []c15Pragma{
	{"journal_mode", true, []string{"delete", "'persist'", "OFF", "wal"}},
	{"wal_autocheckpoint", true, []string{"1000", "'7'", "-1", "0"}},
	{"synchronous", true, []string{"normal", "2", "'EXTRA'", "off"}},
	{"query_only", true, []string{"1", "true", "ON", "0"}},
	{"wal_checkpoint", true, []string{"passive", "TRUNCATE", "'full'", "restart"}},
	{"cache_size", false, []string{"-2000", "100", "'64'", "0"}},
	{"foreign_keys", false, []string{"1", "on", "'off'", "0"}},
	{"table_info", false, []string{"c15t", "'c15t'", "\"c15t\"", "sqlite_master"}},
}

// Reducible dimensions. In every dimension value 0 is the canonical (plainest)
// form and the values are ordered from plain to exotic.
const (
	c15DLead = iota
	c15DPos
	c15DSep
	c15DSchema
	c15DQuote
	c15DSyntax
	c15DCase
	c15DTrail
	c15NDims
)

type c15Form struct {
	text  string // literal or role
	class string // bypass-class name if this form is the cause
}

const (
	c15SynEq = iota
	c15SynEqSp
	c15SynBare
	c15SynCall
	c15SynCallSp
)

var c15Dims = [c15NDims][]c15Form{
	c15DLead: {
		{"", ""},
		{" ", "leading-whitespace"},
		{"\n\t", "leading-whitespace"},
		{"-- c\n", "leading-comment"},
		{"/* c */", "leading-comment"},
		{";", "leading-empty-statement"},
		{"explain ", "explain-prefix"},
	},
	c15DPos: {
		{"", ""},
		{"SELECT 1;", "later-statement"},
		{"INSERT INTO c15t(v) VALUES('p');", "later-statement"},
	},
	c15DSep: {
		{" ", ""},
		{"\t\n", "inner-whitespace"},
		{"/**/", "inner-comment"},
		{"", "no-separator"},
	},
	c15DSchema: {
		{"", ""},
		{"main.", "schema-prefix"},
		{"\"main\".", "quoted-schema-prefix"},
		{"[main].", "quoted-schema-prefix"},
		{"temp.", "temp-schema-prefix"},
	},
	c15DQuote: {
		{"", ""},
		{"\"\"", "quoted-name"},
		{"[]", "quoted-name"},
		{"``", "quoted-name"},
		{"''", "quoted-name"},
	},
	c15DSyntax: {
		{"=", ""},
		{" = ", "spaced-assignment"},
		{"bare", "bare"},
		{"()", "call-syntax"},
		{" ( )", "call-syntax"},
	},
	c15DCase: {
		{"lower", ""},
		{"UPPER", "letter-case"},
		{"Mixed", "letter-case"},
	},
	c15DTrail: {
		{"", ""},
		{";", "trailing-semicolon"},
	},
}

// c15Simpler lists, per dimension and form, the plainer forms a violating text
// is reduced towards (always the canonical form first; then forms that are the
// same construct with less decoration). A form that is a different construct
// (a comment vs an empty statement) is never a reduction target.
func c15Simpler(d, v int) []int {
	switch {
	case v == 0:
		return nil
	case d == c15DPos && v == 2:
		return []int{0, 1}
	case d == c15DLead && v == 2:
		return []int{0, 1}
	case d == c15DSchema && v >= 2:
		return []int{0, 1}
	case d == c15DSyntax && v == c15SynCallSp:
		return []int{0, c15SynCall}
	}
	return []int{0}
}

// c15Case is one point of the grammar.
type c15Case struct {
	name, value int
	d           [c15NDims]int
}

func c15Mixed(s string) string {
	up := true
	b := []byte(s)
	for i, c := range b {
		if c == '_' {
			up = true
			continue
		}
		if up {
			b[i] = byte(strings.ToUpper(string(c))[0])
			up = false
		}
	}
	return string(b)
}

func (c c15Case) text() string {
	p := c15Pragmas[c.name]
	kw, nm := "pragma", p.name
	switch c.d[c15DCase] {
	case 1:
		kw, nm = "PRAGMA", strings.ToUpper(nm)
	case 2:
		kw, nm = "Pragma", c15Mixed(nm)
	}
	if q := c15Dims[c15DQuote][c.d[c15DQuote]].text; q != "" {
		nm = q[:1] + nm + q[1:]
	}
	var tail string
	v := p.values[c.value]
	switch c.d[c15DSyntax] {
	case c15SynEq:
		tail = "=" + v
	case c15SynEqSp:
		tail = " = " + v
	case c15SynBare:
		tail = ""
	case c15SynCall:
		tail = "(" + v + ")"
	case c15SynCallSp:
		tail = " ( " + v + " )"
	}
	return c15Dims[c15DPos][c.d[c15DPos]].text +
		c15Dims[c15DLead][c.d[c15DLead]].text +
		kw + c15Dims[c15DSep][c.d[c15DSep]].text +
		c15Dims[c15DSchema][c.d[c15DSchema]].text + nm + tail +
		c15Dims[c15DTrail][c.d[c15DTrail]].text
}

// c15Space is the enumerated product: per dimension the list of admitted value
// indexes (a tier may admit a subset; index 0 is always admitted).
type c15Space struct {
	names  []int
	values []int
	dims   [c15NDims][]int
	// strides for the dense index
	radix []int
}

func (s *c15Space) init() {
	s.radix = []int{len(c15Pragmas), 4}
	for d := 0; d < c15NDims; d++ {
		s.radix = append(s.radix, len(c15Dims[d]))
	}
}

// index is dense over the FULL grammar, so that reductions can look up any
// variant regardless of the tier's subset.
func (s *c15Space) index(c c15Case) int {
	i := c.name
	i = i*4 + c.value
	for d := 0; d < c15NDims; d++ {
		i = i*len(c15Dims[d]) + c.d[d]
	}
	return i
}

func (s *c15Space) size() int {
	n := 1
	for _, r := range s.radix {
		n *= r
	}
	return n
}

func (s *c15Space) admitted(c c15Case) bool {
	in := func(l []int, v int) bool {
		for _, x := range l {
			if x == v {
				return true
			}
		}
		return false
	}
	if !in(s.names, c.name) || !in(s.values, c.value) {
		return false
	}
	for d := 0; d < c15NDims; d++ {
		if !in(s.dims[d], c.d[d]) {
			return false
		}
	}
	// the bare form has no value: only value 0 stands for it
	if c.d[c15DSyntax] == c15SynBare && c.value != 0 {
		return false
	}
	return true
}

func (s *c15Space) all() []c15Case {
	var out []c15Case
	var rec func(d int, c c15Case)
	rec = func(d int, c c15Case) {
		if d == c15NDims {
			if s.admitted(c) {
				out = append(out, c)
			}
			return
		}
		for _, v := range s.dims[d] {
			c.d[d] = v
			rec(d+1, c)
		}
	}
	for _, n := range s.names {
		for _, v := range s.values {
			rec(0, c15Case{name: n, value: v})
		}
	}
	return out
}

// ------------------------------------------------------------ observation ---

const (
	c15BitJM = 1 << iota
	c15BitAC
	c15BitSync
	c15BitQO
	c15BitCkpt
	c15BitROConn // the change was seen on the read-only connection
)

var c15SettingNames = []struct {
	bit  int
	name string
}{
	{c15BitJM, "journal_mode"},
	{c15BitAC, "wal_autocheckpoint"},
	{c15BitSync, "synchronous"},
	{c15BitQO, "query_only"},
	{c15BitCkpt, "wal_checkpoint"},
}

type c15Obs struct {
	jm           string
	ac, sync, qo int64
	roQO         int64 // -1: read-only pool deliberately left empty
	roSync, roAC int64
	main         []byte
	walSize      int64
}

func (o c15Obs) String() string {
	return fmt.Sprintf("rw{journal_mode=%s wal_autocheckpoint=%d synchronous=%d query_only=%d} ro{query_only=%d} main=%dB wal=%dB",
		o.jm, o.ac, o.sync, o.qo, o.roQO, len(o.main), o.walSize)
}

// c15Scratch is a database opened exactly like a node's database
// (store.createDBOnDisk -> OpenSwappable -> OpenWithDriver(DefaultDriver, path,
// fk=false, wal=true): WAL, wal_autocheckpoint=0 on the single read-write
// connection, synchronous OFF, checkpoint-on-close disabled, read-only pool with
// query_only=1) holding rows that exist only in the WAL.
type c15Scratch struct {
	root   string
	n      int
	withRO bool // keep one pooled read-only connection open (a node that has served reads recently)
	db     *DB
	base   c15Obs
	builds int
}

func c15Must(err error, what string) {
	if err != nil {
		panic(fmt.Sprintf("C15 harness set-up failed: %s: %v", what, err))
	}
}

func (s *c15Scratch) build() {
	if s.db != nil {
		s.db.Close()
		os.RemoveAll(filepath.Dir(s.db.Path()))
		s.db = nil
	}
	s.n++
	s.builds++
	dir := filepath.Join(s.root, fmt.Sprintf("s%d", s.n))
	c15Must(os.MkdirAll(dir, 0o755), "mkdir")
	d, err := OpenWithDriver(DefaultDriver(), filepath.Join(dir, "db.sqlite"), false, true)
	c15Must(err, "open scratch")
	d.SetMaxReadOnlyConns(1) // one pooled read-only connection, so that it can be read back
	s.db = d
	for _, q := range []string{
		"CREATE TABLE c15t(id INTEGER PRIMARY KEY, v TEXT)",
		"INSERT INTO c15t(v) VALUES('a')",
		"INSERT INTO c15t(v) VALUES('b')",
	} {
		res, err := d.ExecuteStringStmt(q)
		c15Must(err, q)
		if len(res) != 1 || res[0].GetError() != "" {
			panic("C15 harness set-up failed: " + q + ": " + res[0].GetError())
		}
	}
	if s.withRO {
		rows, err := d.QueryStringStmt("SELECT count(*) FROM c15t")
		c15Must(err, "prime read-only connection")
		if len(rows) != 1 || rows[0].Error != "" {
			panic("C15 harness set-up failed: prime read-only connection: " + rows[0].Error)
		}
	}
	s.base = s.observe()
	b := s.base
	if b.jm != "wal" || b.ac != 0 || b.sync != 0 || b.qo != 0 || (s.withRO && b.roQO != 1) || b.walSize == 0 {
		panic("C15 harness set-up failed: scratch database is not configured like a node: " + b.String())
	}
}

func (s *c15Scratch) close() {
	if s.db != nil {
		s.db.Close()
		s.db = nil
	}
}

// observe reads the settings back through plain PRAGMA queries on the pooled
// connections themselves (the read-write pool has exactly one connection, the
// read-only pool at most one) and reads the files.
func (s *c15Scratch) observe() c15Obs {
	var o c15Obs
	c15Must(s.db.rwDB.QueryRow("PRAGMA journal_mode").Scan(&o.jm), "read journal_mode")
	c15Must(s.db.rwDB.QueryRow("PRAGMA wal_autocheckpoint").Scan(&o.ac), "read wal_autocheckpoint")
	c15Must(s.db.rwDB.QueryRow("PRAGMA synchronous").Scan(&o.sync), "read synchronous")
	c15Must(s.db.rwDB.QueryRow("PRAGMA query_only").Scan(&o.qo), "read query_only")
	o.roQO = -1
	if s.withRO {
		c15Must(s.db.roDB.QueryRow("PRAGMA query_only").Scan(&o.roQO), "read ro query_only")
		c15Must(s.db.roDB.QueryRow("PRAGMA synchronous").Scan(&o.roSync), "read ro synchronous")
		c15Must(s.db.roDB.QueryRow("PRAGMA wal_autocheckpoint").Scan(&o.roAC), "read ro wal_autocheckpoint")
	}
	b, err := os.ReadFile(s.db.Path())
	c15Must(err, "read main file")
	o.main = b
	if fi, err := os.Stat(s.db.WALPath()); err == nil {
		o.walSize = fi.Size()
	} else if !os.IsNotExist(err) {
		c15Must(err, "stat WAL")
	}
	return o
}

// diff returns the changed-settings mask, and the mask of harmless changes seen
// only on the read-only connection (synchronous / wal_autocheckpoint of a
// connection that can never write; counted, not flagged).
func c15Diff(a, b c15Obs) (mask int, roOnly int) {
	if a.jm != b.jm {
		mask |= c15BitJM
	}
	if a.ac != b.ac {
		mask |= c15BitAC
	}
	if a.sync != b.sync {
		mask |= c15BitSync
	}
	if a.qo != b.qo {
		mask |= c15BitQO
	}
	if a.roQO != b.roQO {
		mask |= c15BitQO | c15BitROConn
	}
	if a.roSync != b.roSync {
		roOnly |= c15BitSync
	}
	if a.roAC != b.roAC {
		roOnly |= c15BitAC
	}
	// A checkpoint copies WAL frames into the main file (its bytes change) and a
	// RESTART/TRUNCATE one also resets the WAL. Nothing else an accepted text of
	// this grammar does can touch the main file or shrink the WAL, except leaving
	// WAL mode, which is already reported as journal_mode.
	if mask&c15BitJM == 0 && (!bytes.Equal(a.main, b.main) || b.walSize < a.walSize) {
		mask |= c15BitCkpt
	}
	return
}

const (
	c15PExecute = iota
	c15PRequestStrong
	c15PQuery
	c15PRequestWeak
	c15NPaths
)

var c15PathNames = [c15NPaths]string{
	"Execute->db.Execute(rw conn)",
	"Request(STRONG or has write)->db.Request(rw conn)",
	"Query->db.Query(ro conn)",
	"Request(not STRONG)->db.StmtReadOnly(ro conn), then db.Query(ro conn) if read-only else db.Request(rw conn)",
}

var c15ErrQuoted = regexp.MustCompile(`"[^"]*"|'[^']*'`)

// run sends one text down one path and returns (changed mask, ro-only mask, error class).
func (s *c15Scratch) run(path int, text string) (int, int, string) {
	req := &command.Request{Statements: []*command.Statement{{Sql: text}}}
	var errs []string
	switch path {
	case c15PExecute:
		res, err := s.db.Execute(req, false)
		if err != nil {
			errs = append(errs, err.Error())
		}
		for _, r := range res {
			if e := r.GetError(); e != "" {
				errs = append(errs, e)
			}
		}
	case c15PQuery:
		res, err := s.db.Query(req, false)
		if err != nil {
			errs = append(errs, err.Error())
		}
		for _, r := range res {
			if r.Error != "" {
				errs = append(errs, r.Error)
			}
		}
	case c15PRequestStrong, c15PRequestWeak:
		useQuery := false
		if path == c15PRequestWeak {
			// Store.Request: RORWCount -> db.StmtReadOnly on a read-only connection;
			// nRW==0 -> db.QueryWithContext, else consensus -> db.Request.
			ro, err := s.db.StmtReadOnly(text)
			useQuery = err == nil && ro
		}
		if useQuery {
			res, err := s.db.Query(req, false)
			if err != nil {
				errs = append(errs, err.Error())
			}
			for _, r := range res {
				if r.Error != "" {
					errs = append(errs, r.Error)
				}
			}
		} else {
			res, err := s.db.Request(req, false)
			if err != nil {
				errs = append(errs, err.Error())
			}
			for _, r := range res {
				if e := r.GetError(); e != "" {
					errs = append(errs, e)
				}
			}
		}
	}
	after := s.observe()
	mask, roOnly := c15Diff(s.base, after)
	ec := "ok"
	if len(errs) > 0 {
		ec = "err:" + c15ErrQuoted.ReplaceAllString(errs[0], "_")
	}
	if mask == 0 && roOnly == 0 {
		s.base = after // the WAL may have grown legitimately (INSERT position)
		if after.walSize > 8<<20 {
			s.build()
		}
		return 0, 0, ec
	}
	// Something changed: put the scratch back into the node configuration
	// (directly on the pooled connections, not through any guarded path), make
	// sure the WAL again holds frames the main file lacks, and verify by a fresh
	// observation. If that does not give the node configuration, start over with
	// a new database.
	s.db.rwDB.Exec("PRAGMA query_only=0")
	s.db.rwDB.Exec("PRAGMA wal_autocheckpoint=0")
	s.db.rwDB.Exec("PRAGMA synchronous=0")
	if s.withRO {
		s.db.roDB.Exec("PRAGMA query_only=1")
		s.db.roDB.Exec(fmt.Sprintf("PRAGMA synchronous=%d", s.base.roSync))
		s.db.roDB.Exec(fmt.Sprintf("PRAGMA wal_autocheckpoint=%d", s.base.roAC))
	}
	ok := true
	if mask&c15BitJM != 0 {
		var jm string
		ok = s.db.rwDB.QueryRow("PRAGMA journal_mode=wal").Scan(&jm) == nil && jm == "wal"
	}
	if ok && mask&(c15BitJM|c15BitCkpt) != 0 {
		_, err := s.db.rwDB.Exec("INSERT INTO c15t(v) VALUES('r')")
		ok = err == nil
	}
	if ok {
		again := s.observe()
		want := again
		want.jm, want.ac, want.sync, want.qo = "wal", 0, 0, 0
		want.roQO, want.roSync, want.roAC = s.base.roQO, s.base.roSync, s.base.roAC
		m, ro := c15Diff(want, again)
		if m == 0 && ro == 0 && again.walSize > 0 && len(again.main) < 1<<18 && again.walSize < 8<<20 {
			s.base = again
			return mask, roOnly, ec
		}
	}
	s.build()
	return mask, roOnly, ec
}

// ---------------------------------------------------------------- outcome ---

type c15Outcome struct {
	done     bool
	rejected bool
	ch       [c15NPaths]uint8
}

func (o c15Outcome) any() int {
	m := 0
	for _, c := range o.ch {
		m |= int(c)
	}
	return m
}

// guard is what store.PragmaCheckRequest.Check does for a one-statement request.
func c15Guard(text string) bool { return IsBreakingPragma(text) }

func c15Workers() int { return 16 }

// c15Root is the scratch root. Durability plays no part in this property, so a
// memory file system is used when there is one (a fresh database per detected
// change makes set-up the dominant cost on a journaling disk file system).
func c15Root(t *testing.T) string {
	if d, err := os.MkdirTemp("/dev/shm", "verif-c15-"); err == nil {
		t.Cleanup(func() { os.RemoveAll(d) })
		return d
	}
	return kit.Scratch(t)
}

func TestVerif_C15(t *testing.T) {
	r := kit.Start(t, "C15", "enum")
	defer r.Finish()

	sp := &c15Space{}
	sp.init()
	full := func(d int) []int {
		l := make([]int, len(c15Dims[d]))
		for i := range l {
			l[i] = i
		}
		return l
	}
	for i := range c15Pragmas {
		sp.names = append(sp.names, i)
	}
	if r.Thorough() {
		sp.values = []int{0, 1, 2, 3}
		for d := 0; d < c15NDims; d++ {
			sp.dims[d] = full(d)
		}
	} else {
		sp.values = []int{0, 3}
		sp.dims = [c15NDims][]int{
			c15DLead:   {0, 1, 3, 4, 5, 6},
			c15DPos:    {0, 1, 2},
			c15DSep:    {0, 2},
			c15DSchema: {0, 1, 2, 4},
			c15DQuote:  {0, 1},
			c15DSyntax: {0, 1, 2, 3},
			c15DCase:   {0, 2},
			c15DTrail:  {0, 1},
		}
	}
	r.Rule("full product of: pragma name {journal_mode, wal_autocheckpoint, synchronous, query_only, wal_checkpoint + controls cache_size, foreign_keys, table_info} x value (2 quick/4 thorough per pragma: keyword, numeric, quoted and one no-change value) x schema prefix {none, main., \"main\"., [main]., temp.} x name quoting {none, \"\", [], ``, ''} x syntax {=v, ' = v', bare, (v), ' ( v )'} x leading {none, space, newline+tab, -- comment, /* comment */, empty statement ';', 'explain '} x separator after PRAGMA {space, tab+newline, /**/, nothing} x position {alone, after 'SELECT 1;', after an INSERT} x case {lower, UPPER, Mixed} x trailing {none, ';'} (quick tier drops some forms per dimension); each text is judged by the real IsBreakingPragma; accepted texts are executed by the real db layer down the 4 db-level paths the store's Execute/Query/Request end in, on a scratch database opened like a node's; distinct = (pragma, path, changed settings, error class)")
	r.Assume("SQLite's own PRAGMA read-back (PRAGMA x on the same pooled connection), os.ReadFile and os.Stat are trusted as the observation")
	r.Assume("the db-level path emulation (Execute->db.Execute; Query->db.Query; Request->StmtReadOnly then db.Query or db.Request) mirrors store.go; part 'store' replays one representative per class through the real Store")

	if rp := os.Getenv("VERIF_REPLAY"); rp != "" {
		c15Replay(t, r, rp)
		return
	}

	cases := sp.all()
	// plainest texts first (fewest non-canonical dimensions), so that a run cut
	// short by the time budget has still judged every pragma's simple forms
	weight := func(c c15Case) int {
		n := 0
		for _, v := range c.d {
			if v != 0 {
				n++
			}
		}
		return n
	}
	ordinal := make(map[int]int, len(cases)) // k-th text of its pragma, so that pragmas alternate
	perName := map[int]int{}
	for _, c := range cases {
		ordinal[sp.index(c)] = perName[c.name]
		perName[c.name]++
	}
	sort.SliceStable(cases, func(i, j int) bool {
		wi, wj := weight(cases[i]), weight(cases[j])
		if wi != wj {
			return wi < wj
		}
		return ordinal[sp.index(cases[i])] < ordinal[sp.index(cases[j])]
	})
	outcomes := make([]c15Outcome, sp.size())
	root := c15Root(t)

	var nRejected, nAccepted, nExec, nROOnly, builds int64
	rejectedByName := make([]int64, len(c15Pragmas))
	acceptedByName := make([]int64, len(c15Pragmas))
	var capped atomic.Bool

	var wg sync.WaitGroup
	nw := c15Workers()
	for w := 0; w < nw; w++ {
		wg.Add(1)
		go func(w int) {
			defer wg.Done()
			// scratch A: read-only pool empty (node after start-up or >30 s without reads)
			// scratch B: one pooled read-only connection open and used
			sa := &c15Scratch{root: filepath.Join(root, fmt.Sprintf("w%da", w))}
			sb := &c15Scratch{root: filepath.Join(root, fmt.Sprintf("w%db", w)), withRO: true}
			sa.build()
			sb.build()
			defer sa.close()
			defer sb.close()
			defer func() { atomic.AddInt64(&builds, int64(sa.builds+sb.builds)) }()
			for i := w; i < len(cases); i += nw {
				if i%4096 == w && r.OverBudget() {
					capped.Store(true)
					return
				}
				c := cases[i]
				text := c.text()
				o := c15Outcome{done: true}
				if c15Guard(text) {
					o.rejected = true
					atomic.AddInt64(&nRejected, 1)
					atomic.AddInt64(&rejectedByName[c.name], 1)
					outcomes[sp.index(c)] = o
					r.Eval(1)
					r.Distinct(c15Pragmas[c.name].name + "|rejected")
					continue
				}
				atomic.AddInt64(&nAccepted, 1)
				atomic.AddInt64(&acceptedByName[c.name], 1)
				for p := 0; p < c15NPaths; p++ {
					s := sa
					if p == c15PQuery || p == c15PRequestWeak {
						s = sb
					}
					mask, roOnly, ec := s.run(p, text)
					o.ch[p] = uint8(mask)
					if roOnly != 0 {
						atomic.AddInt64(&nROOnly, 1)
					}
					atomic.AddInt64(&nExec, 1)
					r.Distinct(fmt.Sprintf("%s|p%d|%d|%s", c15Pragmas[c.name].name, p, mask, ec))
				}
				outcomes[sp.index(c)] = o
				r.Eval(1)
				r.SampleEvery(i, map[string]any{"text": text, "guard": "accepted", "changed_per_path": o.ch})
			}
		}(w)
	}
	wg.Wait()
	if capped.Load() {
		r.Cap("time budget reached before all %d texts were judged", len(cases))
	}
	r.Transition(int(nExec))
	r.Set("texts", len(cases))
	r.Set("guard_rejected", nRejected)
	r.Set("guard_accepted", nAccepted)
	r.Set("executions_on_scratch_db", nExec)
	r.Set("scratch_databases_built", builds)
	byName := map[string]any{}
	for i, p := range c15Pragmas {
		byName[p.name] = map[string]int64{"rejected": rejectedByName[i], "accepted": acceptedByName[i]}
	}
	r.Set("by_pragma", byName)
	var overblocked int64
	for i, p := range c15Pragmas {
		if !p.guarded {
			overblocked += rejectedByName[i]
		}
	}
	r.Note("guard rejected %d of %d texts (of which %d name a harmless control pragma: over-blocking is not a violation of this property); %d accepted texts executed down 4 paths = %d executions.", nRejected, len(cases), overblocked, nAccepted, nExec)
	r.Note("%d executions changed synchronous/wal_autocheckpoint only on the pooled read-only connection (mode=ro, can never write or checkpoint): counted, not flagged.", nROOnly)

	// ------------------------------------------------ classify violations ---
	// For every accepted text that changed a setting, and per setting, reduce the
	// text dimension by dimension towards the canonical form `pragma name=value`,
	// keeping a reduction whenever the reduced text (also a grammar member whose
	// real outcome is in the table, or is computed now) still bypasses the guard
	// and changes that setting. What is left names the class.
	red := &c15Scratch{root: filepath.Join(root, "reda")}
	redB := &c15Scratch{root: filepath.Join(root, "redb"), withRO: true}
	defer func() { red.close(); redB.close() }()
	judge := func(text string) c15Outcome {
		if red.db == nil {
			red.build()
			redB.build()
		}
		o := c15Outcome{done: true}
		if c15Guard(text) {
			o.rejected = true
			return o
		}
		for p := 0; p < c15NPaths; p++ {
			s := red
			if p == c15PQuery || p == c15PRequestWeak {
				s = redB
			}
			m, _, _ := s.run(p, text)
			o.ch[p] = uint8(m)
		}
		return o
	}
	nLate := 0
	lookup := func(c c15Case) c15Outcome {
		if c.d[c15DSyntax] == c15SynBare {
			c.value = 0
		}
		i := sp.index(c)
		if outcomes[i].done {
			return outcomes[i]
		}
		// variant outside this tier's subset, or not reached before the time budget
		// ran out: judge it now, same machinery (an evaluation, not a validation)
		outcomes[i] = judge(c.text())
		nLate++
		return outcomes[i]
	}
	bypasses := func(c c15Case, bit int) bool {
		o := lookup(c)
		return !o.rejected && o.any()&bit != 0
	}
	type vio struct {
		c, min c15Case
		paths  []string
		roConn bool
	}
	byKey := map[string][]vio{}
	for _, c := range cases {
		o := outcomes[sp.index(c)]
		if !o.done || o.rejected || o.any()&^c15BitROConn == 0 {
			continue
		}
		for _, sn := range c15SettingNames {
			if o.any()&sn.bit == 0 {
				continue
			}
			m := c
			for changed := true; changed; {
				changed = false
				for d := 0; d < c15NDims; d++ {
					for _, v := range c15Simpler(d, m.d[d]) {
						try := m
						try.d[d] = v
						if bypasses(try, sn.bit) {
							m = try
							changed = true
							break
						}
					}
				}
			}
			var cl []string
			for d := 0; d < c15NDims; d++ {
				if m.d[d] != 0 {
					cl = append(cl, c15Dims[d][m.d[d]].class)
				}
			}
			class := strings.Join(cl, "+")
			if class == "" {
				class = "plain-form-not-guarded"
			}
			v := vio{c: c, min: m}
			for p := 0; p < c15NPaths; p++ {
				if int(o.ch[p])&sn.bit != 0 {
					v.paths = append(v.paths, c15PathNames[p])
					if int(o.ch[p])&c15BitROConn != 0 && sn.bit == c15BitQO {
						v.roConn = true
					}
				}
			}
			key := "C15:" + sn.name + ":" + class
			byKey[key] = append(byKey[key], v)
		}
	}
	r.Eval(nLate)
	r.Set("texts_judged_during_reduction", nLate)
	keys := make([]string, 0, len(byKey))
	for k := range byKey {
		keys = append(keys, k)
	}
	sort.Strings(keys)
	summary := map[string]any{}
	for _, k := range keys {
		vs := byKey[k]
		// the minimal witness first, then shortest texts
		sort.SliceStable(vs, func(i, j int) bool {
			ti, tj := vs[i].c.text(), vs[j].c.text()
			if vs[i].roConn != vs[j].roConn {
				return !vs[i].roConn // a change on the read-write connection is the better headline
			}
			mi, mj := ti == vs[i].min.text(), tj == vs[j].min.text()
			if mi != mj {
				return mi
			}
			if len(ti) != len(tj) {
				return len(ti) < len(tj)
			}
			return ti < tj
		})
		summary[k] = map[string]any{"texts": len(vs), "minimal": vs[0].min.text()}
		for _, v := range vs {
			what := fmt.Sprintf("guard accepts %q and executing it changes %s (minimal form of the bypass: %q) via %s",
				v.c.text(), strings.SplitN(k, ":", 3)[1], v.min.text(), strings.Join(v.paths, "; "))
			r.Violation(k, what, map[string]any{"text": v.c.text(), "minimal": v.min.text(), "setting": strings.SplitN(k, ":", 3)[1],
				"paths": v.paths, "on_read_only_connection": v.roConn, "key": k})
		}
	}
	r.Set("violation_classes", summary)

	// A few texts outside the product grammar that reach the same pragmas by
	// another route (table-valued pragma functions), judged the same way.
	for _, e := range []struct{ label, text string }{
		{"pragma-function", "SELECT * FROM pragma_journal_mode('delete')"},
		{"pragma-function", "SELECT * FROM pragma_synchronous(2)"},
		{"pragma-function", "SELECT * FROM pragma_synchronous WHERE synchronous=2"},
		{"pragma-function", "SELECT * FROM pragma_query_only(1)"},
		{"pragma-function", "SELECT * FROM pragma_wal_autocheckpoint(1000)"},
		{"pragma-function", "SELECT * FROM pragma_wal_checkpoint('truncate')"},
		{"pragma-function", "SELECT * FROM pragma_wal_checkpoint"},
		{"pragma-function", "SELECT * FROM main.pragma_journal_mode"},
	} {
		o := judge(e.text)
		r.Eval(1)
		r.Distinct(fmt.Sprintf("extra|%s|%v|%v", e.label, o.rejected, o.ch))
		for _, sn := range c15SettingNames {
			if !o.rejected && o.any()&sn.bit != 0 {
				r.Violation("C15:"+sn.name+":"+e.label, fmt.Sprintf("guard accepts %q and executing it changes %s", e.text, sn.name),
					map[string]any{"text": e.text, "setting": sn.name, "key": "C15:" + sn.name + ":" + e.label})
			}
		}
	}
}

// c15Replay re-judges the text of a replay file.
func c15Replay(t *testing.T, r *kit.Run, file string) {
	b, err := os.ReadFile(file)
	if err != nil {
		t.Fatalf("replay file: %v", err)
	}
	var rf struct {
		Key    string `json:"key"`
		Replay struct {
			Text    string `json:"text"`
			Setting string `json:"setting"`
		} `json:"replay"`
	}
	if err := json.Unmarshal(b, &rf); err != nil || rf.Replay.Text == "" {
		t.Fatalf("replay file has no text: %v", err)
	}
	root := c15Root(t)
	sa := &c15Scratch{root: filepath.Join(root, "a")}
	sb := &c15Scratch{root: filepath.Join(root, "b"), withRO: true}
	sa.build()
	sb.build()
	defer sa.close()
	defer sb.close()
	text := rf.Replay.Text
	r.Eval(1)
	if c15Guard(text) {
		t.Logf("guard rejects %q", text)
		return
	}
	for p := 0; p < c15NPaths; p++ {
		s := sa
		if p == c15PQuery || p == c15PRequestWeak {
			s = sb
		}
		before := s.base
		mask, _, ec := s.run(p, text)
		t.Logf("%q via %s: changed mask %d (%s), before %s", text, c15PathNames[p], mask, ec, before)
		for _, sn := range c15SettingNames {
			if mask&sn.bit != 0 && (rf.Replay.Setting == "" || rf.Replay.Setting == sn.name) {
				r.Violation(rf.Key, fmt.Sprintf("guard accepts %q and executing it changes %s via %s", text, sn.name, c15PathNames[p]),
					map[string]any{"text": text, "setting": sn.name})
			}
		}
	}
}
