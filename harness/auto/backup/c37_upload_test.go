package backup

import (
	"context"
	"errors"
	"fmt"
	"io"
	"net"
	"os"
	"path/filepath"
	"sort"
	"strconv"
	"strings"
	"sync"
	"testing"
	"time"

	"github.com/rqlite/rqlite/v10/command/proto"
	"github.com/rqlite/rqlite/v10/db"
	kit "github.com/rqlite/rqlite/v10/internal/verifkit"
	"github.com/rqlite/rqlite/v10/store"
)

// C37: whenever the database has changed since the last successful automatic
// upload, the next upload round uploads a backup that contains every change up
// to the index it is labelled with; rounds with no change upload nothing; a
// failed upload is retried on a later round.
//
// The real Uploader (its round function upload is called directly, one call =
// one round) reads from the real store.Provider of a real single-node Store and
// writes to an in-memory StorageClient that records every upload and can be told
// to fail the next one. Every history up to the explored length over
//
//	W  write a row            S  strong read (a log entry that changes nothing)
//	U  upload round           F  upload round during which the storage fails
//	L  load a database file   B  boot the node from a database file
//
// runs on a fresh Store and is followed by one more upload round. A reference
// model (the rows the database must hold, and whether it changed since the last
// successful upload) is stepped alongside; every uploaded backup is opened with
// SQLite and its rows are compared with the model's.

type c37Storage struct {
	mu       sync.Mutex
	failNext bool
	uploads  []c37Upload
	attempts int
}

type c37Upload struct {
	id   string
	data []byte
}

func (s *c37Storage) Upload(ctx context.Context, r io.Reader, id string) error {
	s.mu.Lock()
	defer s.mu.Unlock()
	s.attempts++
	b, err := io.ReadAll(r)
	if err != nil {
		return err
	}
	if s.failNext {
		s.failNext = false
		return errors.New("c37: injected storage failure")
	}
	s.uploads = append(s.uploads, c37Upload{id, b})
	return nil
}

func (s *c37Storage) CurrentID(ctx context.Context) (string, error) {
	s.mu.Lock()
	defer s.mu.Unlock()
	if len(s.uploads) == 0 {
		return "", nil
	}
	return s.uploads[len(s.uploads)-1].id, nil
}

func (s *c37Storage) String() string { return "c37-memory-storage" }

type c37Layer struct{ net.Listener }

func (l *c37Layer) Dial(addr string, timeout time.Duration) (net.Conn, error) {
	return net.DialTimeout("tcp", addr, timeout)
}

// c37Rows reads table t of a SQLite file image.
func c37Rows(dir string, data []byte) (string, error) {
	p := filepath.Join(dir, fmt.Sprintf("up-%d.db", time.Now().UnixNano()))
	if err := os.WriteFile(p, data, 0o600); err != nil {
		return "", err
	}
	defer os.Remove(p)
	d, err := db.Open(p, false, false)
	if err != nil {
		return "", err
	}
	defer d.Close()
	rows, err := d.QueryStringStmt("SELECT id, v FROM t ORDER BY id")
	if err != nil {
		return "", err
	}
	if len(rows) != 1 || rows[0].Error != "" {
		return "", fmt.Errorf("query: %v", rows)
	}
	var out []string
	for _, r := range rows[0].Values {
		out = append(out, fmt.Sprintf("%d:%s", r.Parameters[0].GetI(), r.Parameters[1].GetS()))
	}
	return strings.Join(out, ","), nil
}

// c37MakeDB builds a SQLite file holding table t with one row.
func c37MakeDB(dir, name string, id int, v string) []byte {
	p := filepath.Join(dir, name)
	d, err := db.Open(p, false, false)
	if err != nil {
		panic(err)
	}
	for _, q := range []string{"CREATE TABLE t(id INTEGER PRIMARY KEY, v TEXT)", fmt.Sprintf("INSERT INTO t(id,v) VALUES(%d,'%s')", id, v)} {
		if r, err := d.ExecuteStringStmt(q); err != nil || r[0].GetError() != "" {
			panic(fmt.Sprintf("harness: %s: %v %v", q, err, r))
		}
	}
	if err := d.Close(); err != nil {
		panic(err)
	}
	b, err := os.ReadFile(p)
	if err != nil {
		panic(err)
	}
	return b
}

// c37Scratch returns a scratch directory on tmpfs when there is one (a run opens
// a few hundred Stores; their fsyncs are irrelevant to the property).
func c37Scratch(t *testing.T) string {
	if st, err := os.Stat("/dev/shm"); err == nil && st.IsDir() {
		if d, err := os.MkdirTemp("/dev/shm", "verif-c37-"); err == nil {
			t.Cleanup(func() { os.RemoveAll(d) })
			return d
		}
	}
	return kit.Scratch(t)
}

func c37Histories(depth int) []string {
	var out []string
	var rec func(h string)
	rec = func(h string) {
		out = append(out, h)
		if len(h) == depth {
			return
		}
		for _, op := range "WSUFLB" {
			rec(h + string(op))
		}
	}
	rec("")
	return out
}

// c37Model is the set of rows table t must hold.
type c37Model map[int]string

func (m c37Model) String() string {
	ids := make([]int, 0, len(m))
	for id := range m {
		ids = append(ids, id)
	}
	sort.Ints(ids)
	var out []string
	for _, id := range ids {
		out = append(out, fmt.Sprintf("%d:%s", id, m[id]))
	}
	return strings.Join(out, ",")
}

func TestVerif_C37(t *testing.T) {
	r := kit.Start(t, "C37", "rounds")
	defer r.Finish()
	depth := r.Pick(3, 4)
	r.Rule(fmt.Sprintf("every history of length <=%d over {write, strong read, upload round, upload round with storage failure, load a database file, boot from a database file} on a fresh real single-node Store with the real Provider and Uploader, followed by one more upload round; a reference model says after every round whether an upload was due and what rows it must contain; every uploaded file is opened with SQLite. distinct = (history, per-round outcome)", depth))
	r.Assume("rounds and writes do not overlap (sequential histories); backups taken while writes are in flight are C21")

	scratch := c37Scratch(t)
	bootDB := c37MakeDB(scratch, "boot.db", 100, "boot")
	loadDB := c37MakeDB(scratch, "load.db", 200, "load")

	hs := c37Histories(depth)
	var mu sync.Mutex
	var wg sync.WaitGroup
	sem := make(chan struct{}, 36)
	for i, h := range hs {
		wg.Add(1)
		sem <- struct{}{}
		go func(i int, h string) {
			defer wg.Done()
			defer func() { <-sem }()
			obs, steps := c37Run(t, r, h, bootDB, loadDB)
			mu.Lock()
			defer mu.Unlock()
			r.Eval(1)
			r.Transition(steps)
			r.Distinct(h + "=>" + obs)
			if i%97 == 0 {
				r.Sample(map[string]any{"history": h + "+U", "rounds": obs})
			}
		}(i, h)
	}
	wg.Wait()
	r.State(len(hs))
}

func c37Run(t *testing.T, r *kit.Run, h string, bootDB, loadDB []byte) (string, int) {
	must := func(what string, err error) {
		if err != nil {
			panic(fmt.Sprintf("harness: history %q: %s: %v", h, what, err))
		}
	}
	dir := c37Scratch(t)
	defer os.RemoveAll(dir)
	ln, err := net.Listen("tcp", "127.0.0.1:0")
	must("listen", err)
	defer ln.Close()
	s := store.New(&store.Config{DBConf: store.NewDBConfig(), Dir: dir, ID: "n1"}, &c37Layer{ln})
	must("open", s.Open())
	defer s.Close(true)
	must("bootstrap", s.Bootstrap(store.NewServer(s.ID(), s.Addr(), true)))
	_, err = s.WaitForLeader(60 * time.Second)
	must("leader", err)
	ctx := context.Background()
	exec := func(q string) {
		res, _, err := s.Execute(ctx, &proto.ExecuteRequest{Request: &proto.Request{Statements: []*proto.Statement{{Sql: q}}}})
		must(q, err)
		if len(res) != 1 || res[0].GetError() != "" {
			panic(fmt.Sprintf("harness: history %q: %s: %v", h, q, res))
		}
	}
	exec("CREATE TABLE t(id INTEGER PRIMARY KEY, v TEXT)")

	st := &c37Storage{}
	u := NewUploader(st, store.NewProvider(s, false, false), time.Hour)

	// reference model
	rows := c37Model{}
	changed := true // the table was just created
	cause := "create-table"
	var obs []string
	steps := 0

	round := func(pos int, fail bool) {
		steps++
		before := len(st.uploads)
		attemptsBefore := st.attempts
		st.mu.Lock()
		st.failNext = fail
		st.mu.Unlock()
		uerr := u.upload(ctx)
		st.mu.Lock()
		st.failNext = false
		n := len(st.uploads) - before
		attempts := st.attempts - attemptsBefore
		st.mu.Unlock()
		replay := map[string]any{"history": h, "round_at": pos, "storage_fails": fail}
		where := fmt.Sprintf("history %s, round at position %d", c37Spell(h), pos)
		switch {
		case !changed:
			if attempts != 0 {
				obs = append(obs, "uploaded-without-change")
				r.Violation("C37:upload-without-change", fmt.Sprintf("%s: nothing changed since the last successful upload but the round sent %d upload(s)", where, attempts), replay)
			} else {
				obs = append(obs, "skip")
			}
		case fail:
			if attempts == 0 {
				obs = append(obs, "due-but-not-attempted:"+cause)
				r.Violation("C37:change-not-uploaded:after-"+cause, fmt.Sprintf("%s: the database changed (%s) since the last successful upload but the round did not upload (rows now %v)", where, cause, rows), replay)
			} else if uerr == nil || n != 0 {
				obs = append(obs, "failure-recorded-as-done")
				r.Violation("C37:failed-upload-recorded-as-done", fmt.Sprintf("%s: the storage failed but the round returned %v and recorded %d upload(s)", where, uerr, n), replay)
			} else {
				obs = append(obs, "failed-will-retry")
			}
			// still due
		default:
			if n == 0 {
				obs = append(obs, "due-but-not-uploaded:"+cause)
				r.Violation("C37:change-not-uploaded:after-"+cause, fmt.Sprintf("%s: the database changed (%s) since the last successful upload but the round uploaded nothing (error %v, rows now %v, db applied index %d)", where, cause, uerr, rows, s.DBAppliedIndex()), replay)
				return // still due
			}
			up := st.uploads[len(st.uploads)-1]
			got, rerr := c37Rows(dir, up.data)
			want := rows.String()
			id, perr := strconv.ParseUint(up.id, 10, 64)
			switch {
			case n != 1:
				obs = append(obs, "several-uploads")
				r.Violation("C37:several-uploads-in-one-round", fmt.Sprintf("%s: %d uploads in one round", where, n), replay)
			case rerr != nil:
				obs = append(obs, "unreadable-upload")
				r.Violation("C37:uploaded-backup-unreadable", fmt.Sprintf("%s: the uploaded file is not a readable database: %v", where, rerr), replay)
			case got != want:
				obs = append(obs, "incomplete-upload")
				r.Violation("C37:uploaded-backup-misses-changes:after-"+cause, fmt.Sprintf("%s: upload labelled %s holds rows [%s], the database holds [%s]", where, up.id, got, want), replay)
			case perr != nil || id > s.DBAppliedIndex():
				obs = append(obs, "bad-label")
				r.Violation("C37:upload-label-ahead-of-database", fmt.Sprintf("%s: upload labelled %q, database applied index %d", where, up.id, s.DBAppliedIndex()), replay)
			default:
				obs = append(obs, "uploaded")
			}
			changed = false
		}
	}

	for i := 0; i < len(h); i++ {
		switch h[i] {
		case 'W':
			steps++
			exec(fmt.Sprintf("INSERT INTO t(id,v) VALUES(%d,'w')", i+1))
			rows[i+1] = "w"
			changed, cause = true, "write"
		case 'S':
			steps++
			_, _, _, err := s.Query(ctx, &proto.QueryRequest{Request: &proto.Request{Statements: []*proto.Statement{{Sql: "SELECT COUNT(*) FROM t"}}}, Level: proto.ConsistencyLevel_STRONG})
			must("strong read", err)
		case 'L':
			steps++
			must("load", s.Load(ctx, &proto.LoadRequest{Data: loadDB}))
			rows = c37Model{200: "load"}
			changed, cause = true, "load"
		case 'B':
			steps++
			_, err := s.ReadFrom(strings.NewReader(string(bootDB)))
			must("boot", err)
			rows = c37Model{100: "boot"}
			changed, cause = true, "boot"
		case 'U':
			round(i, false)
		case 'F':
			round(i, true)
		}
	}
	round(len(h), false)
	return strings.Join(obs, ","), steps
}

func c37Spell(h string) string {
	names := map[byte]string{'W': "write", 'S': "strong-read", 'U': "round", 'F': "round(storage fails)", 'L': "load", 'B': "boot"}
	var n []string
	for i := 0; i < len(h); i++ {
		n = append(n, names[h[i]])
	}
	if len(n) == 0 {
		return "(none)"
	}
	return strings.Join(n, ", ")
}
