package cluster

import (
	"bytes"
	"compress/gzip"
	"context"
	"encoding/binary"
	"encoding/json"
	"fmt"
	"io"
	"net"
	"sort"
	"strings"
	"sync"
	"sync/atomic"
	"testing"
	"time"

	"github.com/rqlite/rqlite/v10/auth"
	"github.com/rqlite/rqlite/v10/cluster/proto"
	command "github.com/rqlite/rqlite/v10/command/proto"
	kit "github.com/rqlite/rqlite/v10/internal/verifkit"
	pb "google.golang.org/protobuf/proto"
)

// C18, part "cluster": every inter-node command type x every credential store
// of <=2 entries over users {u,*} x permission sets {none, each required perm,
// all required perms, `all`, every other perm} x credential presentation
// {none, wrong password, right password, unknown user}, sent as raw bytes over
// a real TCP connection to the real cluster.Service, the answer read from the
// socket UNTIL CLOSE (not through cluster.Client, which stops reading after an
// error header). Oracle: the C19 reference decision applied to the command's
// required permission(s).

const (
	c18Marker   = "C18SECRET-DATABASE-CONTENT"
	c18MarkerID = int64(0x43313853) // appears as last_insert_id / integer cell
)

// every permission constant of package auth (checked against the source at run time)
var c18AllPerms = []string{auth.PermAll, auth.PermJoin, auth.PermJoinReadOnly, auth.PermJoinReadReplica,
	auth.PermRemove, auth.PermExecute, auth.PermQuery, auth.PermStatus, auth.PermReady, auth.PermBackup,
	auth.PermLoad, auth.PermSnapshot, auth.PermLeaderOps, auth.PermUI}

// ---- recording mocks -------------------------------------------------------

type c18Rec struct {
	mu    sync.Mutex
	calls []string
}

func (r *c18Rec) add(s string) { r.mu.Lock(); r.calls = append(r.calls, s); r.mu.Unlock() }
func (r *c18Rec) take() []string {
	r.mu.Lock()
	defer r.mu.Unlock()
	c := r.calls
	r.calls = nil
	return c
}

type c18DB struct{ rec *c18Rec }

func (d *c18DB) Execute(ctx context.Context, er *command.ExecuteRequest) ([]*command.ExecuteQueryResponse, uint64, error) {
	d.rec.add("db.Execute")
	return []*command.ExecuteQueryResponse{{Result: &command.ExecuteQueryResponse_E{
		E: &command.ExecuteResult{LastInsertId: c18MarkerID, RowsAffected: 1}}}}, 7, nil
}

func c18Rows() *command.QueryRows {
	return &command.QueryRows{Columns: []string{"secret"}, Types: []string{"text"},
		Values: []*command.Values{{Parameters: []*command.Parameter{{Value: &command.Parameter_S{S: c18Marker}}}}}}
}

func (d *c18DB) Query(ctx context.Context, qr *command.QueryRequest) ([]*command.QueryRows, command.ConsistencyLevel, uint64, error) {
	d.rec.add("db.Query")
	return []*command.QueryRows{c18Rows()}, command.ConsistencyLevel_NONE, 7, nil
}

func (d *c18DB) Request(ctx context.Context, rr *command.ExecuteQueryRequest) ([]*command.ExecuteQueryResponse, uint64, uint64, error) {
	d.rec.add("db.Request")
	return []*command.ExecuteQueryResponse{{Result: &command.ExecuteQueryResponse_Q{Q: c18Rows()}}}, 1, 7, nil
}

// Backup behaves like the real store: the image is gzip-compressed when the request says so.
func (d *c18DB) Backup(ctx context.Context, br *command.BackupRequest, dst io.Writer) error {
	d.rec.add("db.Backup")
	img := []byte("SQLite format 3\x00" + strings.Repeat(c18Marker, 8))
	if br.Compress {
		zw := gzip.NewWriter(dst)
		if _, err := zw.Write(img); err != nil {
			return err
		}
		return zw.Close()
	}
	_, err := dst.Write(img)
	return err
}

func (d *c18DB) Load(ctx context.Context, lr *command.LoadRequest) error {
	d.rec.add("db.Load")
	return nil
}

type c18Mgr struct{ rec *c18Rec }

func (m *c18Mgr) LeaderAddr() (string, error)  { return "leader:4002", nil }
func (m *c18Mgr) CommitIndex() (uint64, error) { return 7, nil }
func (m *c18Mgr) Remove(ctx context.Context, rn *command.RemoveNodeRequest) error {
	m.rec.add("mgr.Remove")
	return nil
}
func (m *c18Mgr) Notify(n *command.NotifyRequest) error { m.rec.add("mgr.Notify"); return nil }
func (m *c18Mgr) Join(n *command.JoinRequest) error     { m.rec.add("mgr.Join"); return nil }
func (m *c18Mgr) Stepdown(wait bool, id string) error   { m.rec.add("mgr.Stepdown"); return nil }

// c18Creds delegates to the real auth.CredentialsStore currently installed and
// records which permissions the service asked about.
type c18Creds struct {
	cur   atomic.Pointer[auth.CredentialsStore]
	mu    sync.Mutex
	asked []string
}

func (c *c18Creds) AA(username, password, perm string) bool {
	c.mu.Lock()
	c.asked = append(c.asked, perm)
	c.mu.Unlock()
	return c.cur.Load().AA(username, password, perm)
}

func (c *c18Creds) takeAsked() []string {
	c.mu.Lock()
	defer c.mu.Unlock()
	a := c.asked
	c.asked = nil
	return a
}

// ---- credential stores and the reference decision (rule of C19) -------------

type c18Entry struct {
	User  string   `json:"username"`
	Pass  string   `json:"password,omitempty"`
	Perms []string `json:"perms"`
}

type c18Model struct {
	pw    map[string]string
	perms map[string]map[string]bool
}

func c18Ref(entries []c18Entry) c18Model {
	m := c18Model{map[string]string{}, map[string]map[string]bool{}}
	for _, e := range entries {
		m.pw[e.User] = e.Pass
		m.perms[e.User] = map[string]bool{}
		for _, x := range e.Perms {
			m.perms[e.User][x] = true
		}
	}
	return m
}

func (m c18Model) authorized(user, pass, perm string) bool {
	if m.perms["*"][perm] || m.perms["*"]["all"] {
		return true
	}
	if user == "" {
		return false
	}
	sp, ok := m.pw[user]
	if !ok || sp != pass {
		return false
	}
	return m.perms[user][perm] || m.perms[user]["all"]
}

// need is a disjunction of conjunctions of permissions.
func (m c18Model) allowed(user, pass string, need [][]string) bool {
	for _, conj := range need {
		ok := true
		for _, p := range conj {
			if !m.authorized(user, pass, p) {
				ok = false
				break
			}
		}
		if ok {
			return true
		}
	}
	return false
}

type c18PermSet struct {
	Name  string
	Perms []string
}

// c18PermSets: permission sets an entry may carry, relative to what a command needs.
func c18PermSets(need [][]string, thorough bool) []c18PermSet {
	rel := map[string]bool{}
	var relList []string
	for _, conj := range need {
		for _, p := range conj {
			if !rel[p] {
				rel[p] = true
				relList = append(relList, p)
			}
		}
	}
	out := []c18PermSet{{"none", []string{}}}
	for _, p := range relList {
		out = append(out, c18PermSet{"only:" + p, []string{p}})
	}
	if len(relList) > 1 {
		out = append(out, c18PermSet{"every-required", append([]string{}, relList...)})
	}
	out = append(out, c18PermSet{"all", []string{auth.PermAll}})
	var others []string
	for _, p := range c18AllPerms {
		if p != auth.PermAll && !rel[p] {
			others = append(others, p)
		}
	}
	out = append(out, c18PermSet{"every-other", others})
	if thorough {
		for _, p := range others {
			out = append(out, c18PermSet{"other:" + p, []string{p}})
		}
	}
	return out
}

type c18Store struct {
	Entries []c18Entry
	JSON    string
	Label   string
}

func c18Stores(need [][]string, thorough bool) []c18Store {
	sets := c18PermSets(need, thorough)
	type ent struct {
		e     c18Entry
		label string
	}
	var alpha []ent
	for _, u := range []string{"u", "*"} {
		for _, s := range sets {
			e := c18Entry{User: u, Perms: s.Perms}
			if u == "u" {
				e.Pass = "p"
			}
			alpha = append(alpha, ent{e, u + "=" + s.Name})
		}
	}
	mk := func(es []ent) c18Store {
		var entries []c18Entry
		var labels []string
		for _, x := range es {
			entries = append(entries, x.e)
			labels = append(labels, x.label)
		}
		if entries == nil {
			entries = []c18Entry{}
		}
		b, _ := json.Marshal(entries)
		return c18Store{Entries: entries, JSON: string(b), Label: "[" + strings.Join(labels, " ") + "]"}
	}
	stores := []c18Store{mk(nil)}
	for _, a := range alpha {
		stores = append(stores, mk([]ent{a}))
	}
	for _, a := range alpha {
		for _, b := range alpha {
			// thorough: an entry with a single non-required permission is combined only with a
			// basic entry of the other user, in one order
			ao, bo := strings.Contains(a.label, "=other:"), strings.Contains(b.label, "=other:")
			if ao || (bo && a.e.User == b.e.User) {
				continue
			}
			stores = append(stores, mk([]ent{a, b}))
		}
	}
	return stores
}

type c18Pres struct {
	Name, User, Pass string
	None             bool
}

var c18Presentations = []c18Pres{
	{Name: "no-credentials", None: true},
	{Name: "wrong-password", User: "u", Pass: "bad"},
	{Name: "right-password", User: "u", Pass: "p"},
	{Name: "unknown-user", User: "x", Pass: "p"},
}

// ---- command table ----------------------------------------------------------

type c18Cmd struct {
	Type    proto.Command_Type
	Variant string
	Need    [][]string // nil = no permission defined: reported, not judged
	Action  string     // mock call an allowed command performs
	Why     string     // for unjudged commands
	build   func(c *proto.Command)
}

func c18Req() *command.Request {
	return &command.Request{Statements: []*command.Statement{{Sql: "SELECT secret FROM t"}}}
}

// c18Commands has one entry (or more, for variants) per command type. A type of
// the generated enum with no entry here makes the harness fail loudly.
func c18Commands() []c18Cmd {
	T := func(t proto.Command_Type) proto.Command_Type { return t }
	return []c18Cmd{
		{Type: T(proto.Command_COMMAND_TYPE_UNKNOWN), Why: "type 0 is ignored by the service", build: func(c *proto.Command) {}},
		{Type: T(proto.Command_COMMAND_TYPE_GET_NODE_META), Why: "no permission is defined for node metadata (API URL, version, commit index)", build: func(c *proto.Command) {}},
		{Type: T(proto.Command_COMMAND_TYPE_EXECUTE), Need: [][]string{{auth.PermExecute}}, Action: "db.Execute", build: func(c *proto.Command) {
			c.Request = &proto.Command_ExecuteRequest{ExecuteRequest: &command.ExecuteRequest{Request: c18Req()}}
		}},
		{Type: T(proto.Command_COMMAND_TYPE_QUERY), Need: [][]string{{auth.PermQuery}}, Action: "db.Query", build: func(c *proto.Command) {
			c.Request = &proto.Command_QueryRequest{QueryRequest: &command.QueryRequest{Request: c18Req()}}
		}},
		{Type: T(proto.Command_COMMAND_TYPE_REQUEST), Need: [][]string{{auth.PermQuery, auth.PermExecute}}, Action: "db.Request", build: func(c *proto.Command) {
			c.Request = &proto.Command_ExecuteQueryRequest{ExecuteQueryRequest: &command.ExecuteQueryRequest{Request: c18Req()}}
		}},
		{Type: T(proto.Command_COMMAND_TYPE_BACKUP), Need: [][]string{{auth.PermBackup}}, Action: "db.Backup", build: func(c *proto.Command) {
			c.Request = &proto.Command_BackupRequest{BackupRequest: &command.BackupRequest{Format: command.BackupRequest_BACKUP_REQUEST_FORMAT_BINARY}}
		}},
		{Type: T(proto.Command_COMMAND_TYPE_BACKUP_STREAM), Need: [][]string{{auth.PermBackup}}, Action: "db.Backup", build: func(c *proto.Command) {
			c.Request = &proto.Command_BackupRequest{BackupRequest: &command.BackupRequest{Format: command.BackupRequest_BACKUP_REQUEST_FORMAT_BINARY}}
		}},
		{Type: T(proto.Command_COMMAND_TYPE_LOAD), Need: [][]string{{auth.PermLoad}}, Action: "db.Load", build: func(c *proto.Command) {
			c.Request = &proto.Command_LoadRequest{LoadRequest: &command.LoadRequest{Data: []byte("SQLite format 3\x00")}}
		}},
		{Type: T(proto.Command_COMMAND_TYPE_LOAD_CHUNK), Why: "answered \"unsupported\" for everybody, no action exists", build: func(c *proto.Command) {
			c.Request = &proto.Command_LoadChunkRequest{LoadChunkRequest: &command.LoadChunkRequest{StreamId: "s", Data: []byte("x"), IsLast: true}}
		}},
		{Type: T(proto.Command_COMMAND_TYPE_REMOVE_NODE), Need: [][]string{{auth.PermRemove}}, Action: "mgr.Remove", build: func(c *proto.Command) {
			c.Request = &proto.Command_RemoveNodeRequest{RemoveNodeRequest: &command.RemoveNodeRequest{Id: "n2"}}
		}},
		{Type: T(proto.Command_COMMAND_TYPE_NOTIFY), Need: [][]string{{auth.PermJoin}}, Action: "mgr.Notify", build: func(c *proto.Command) {
			c.Request = &proto.Command_NotifyRequest{NotifyRequest: &command.NotifyRequest{Id: "n2", Address: "n2:4002"}}
		}},
		{Type: T(proto.Command_COMMAND_TYPE_JOIN), Variant: "voter", Need: [][]string{{auth.PermJoin}}, Action: "mgr.Join", build: func(c *proto.Command) {
			c.Request = &proto.Command_JoinRequest{JoinRequest: &command.JoinRequest{Id: "n2", Address: "n2:4002", Voter: true}}
		}},
		{Type: T(proto.Command_COMMAND_TYPE_JOIN), Variant: "non-voter", Need: [][]string{{auth.PermJoinReadOnly}, {auth.PermJoinReadReplica}}, Action: "mgr.Join", build: func(c *proto.Command) {
			c.Request = &proto.Command_JoinRequest{JoinRequest: &command.JoinRequest{Id: "n2", Address: "n2:4002", Voter: false}}
		}},
		{Type: T(proto.Command_COMMAND_TYPE_STEPDOWN), Need: [][]string{{auth.PermLeaderOps}}, Action: "mgr.Stepdown", build: func(c *proto.Command) {
			c.Request = &proto.Command_StepdownRequest{StepdownRequest: &command.StepdownRequest{Id: "n2"}}
		}},
		{Type: T(proto.Command_COMMAND_TYPE_HIGHWATER_MARK_UPDATE), Why: "no permission is defined for CDC high-water-mark updates (the handler has no check at all)", build: func(c *proto.Command) {
			c.Request = &proto.Command_HighwaterMarkUpdateRequest{HighwaterMarkUpdateRequest: &proto.HighwaterMarkUpdateRequest{NodeId: "n2", HighwaterMark: 1 << 40}}
		}},
	}
}

func (c c18Cmd) name() string {
	n := strings.TrimPrefix(c.Type.String(), "COMMAND_TYPE_")
	if c.Variant != "" {
		n += "/" + c.Variant
	}
	return n
}

// ---- one live service -------------------------------------------------------

type c18Node struct {
	ln    net.Listener
	svc   *Service
	rec   *c18Rec
	creds *c18Creds
	hwm   chan uint64
}

func c18NewNode(t testing.TB) *c18Node {
	ln, err := net.Listen("tcp", "127.0.0.1:0")
	if err != nil {
		t.Fatalf("listen: %v", err)
	}
	n := &c18Node{ln: ln, rec: &c18Rec{}, creds: &c18Creds{}, hwm: make(chan uint64, 4)}
	n.creds.cur.Store(auth.NewCredentialsStore())
	n.svc = New(ln, &c18DB{n.rec}, &c18Mgr{n.rec}, n.creds)
	n.svc.logger.SetOutput(io.Discard)
	n.svc.SetAPIAddr("api:4001")
	n.svc.RegisterHWMUpdate(n.hwm)
	if err := n.svc.Open(); err != nil {
		t.Fatalf("open: %v", err)
	}
	return n
}

func (n *c18Node) close() { n.svc.Close() }

type c18Obs struct {
	Frame     bool   `json:"frame"`          // a complete first response frame arrived
	Err       string `json:"error"`          // its error field
	Payload   bool   `json:"payload"`        // fields other than the error are set
	Trailing  int    `json:"trailing_bytes"` // bytes after the first frame
	Marker    bool   `json:"marker"`         // database marker found anywhere (raw, or after gunzip)
	Calls     string `json:"calls"`          // mock calls recorded
	Asked     string `json:"perms_asked"`    // permissions the service asked the credential store about
	HWM       bool   `json:"hwm_delivered"`  // a high-water-mark update reached the registered channel
	ReadError string `json:"read_error,omitempty"`
}

func c18Gunzip(b []byte) []byte {
	zr, err := gzip.NewReader(bytes.NewReader(b))
	if err != nil {
		return nil
	}
	out, _ := io.ReadAll(zr) // partial output is still output
	return out
}

func c18HasMarker(b []byte) bool {
	if bytes.Contains(b, []byte(c18Marker)) {
		return true
	}
	for i := 0; i+2 < len(b); i++ { // any embedded gzip stream
		if b[i] == 0x1f && b[i+1] == 0x8b && b[i+2] == 8 {
			if bytes.Contains(c18Gunzip(b[i:]), []byte(c18Marker)) {
				return true
			}
		}
	}
	return false
}

// c18Exchange sends one framed command as raw bytes, half-closes, and reads until the server closes.
func (n *c18Node) exchange(t testing.TB, cmd c18Cmd, pres c18Pres) c18Obs {
	c := &proto.Command{Type: cmd.Type}
	cmd.build(c)
	if !pres.None {
		c.Credentials = &proto.Credentials{Username: pres.User, Password: pres.Pass}
	}
	p, err := pb.Marshal(c)
	if err != nil {
		t.Fatalf("marshal: %v", err)
	}
	msg := make([]byte, 8, 8+len(p))
	binary.LittleEndian.PutUint64(msg, uint64(len(p)))
	msg = append(msg, p...)

	n.rec.take()
	n.creds.takeAsked()
	for len(n.hwm) > 0 {
		<-n.hwm
	}
	conn, err := net.DialTimeout("tcp", n.ln.Addr().String(), 10*time.Second)
	if err != nil {
		t.Fatalf("dial: %v", err)
	}
	defer conn.Close()
	conn.SetDeadline(time.Now().Add(60 * time.Second))
	if _, err := conn.Write(msg); err != nil {
		t.Fatalf("write: %v", err)
	}
	conn.(*net.TCPConn).CloseWrite()
	raw, rerr := io.ReadAll(conn) // until the service closes its side

	var o c18Obs
	if rerr != nil {
		o.ReadError = rerr.Error()
	}
	o.Calls = strings.Join(n.rec.take(), ",")
	asked := n.creds.takeAsked()
	o.Asked = strings.Join(asked, ",")
	o.HWM = len(n.hwm) > 0
	o.Marker = c18HasMarker(raw)
	if len(raw) >= 8 {
		sz := binary.LittleEndian.Uint64(raw)
		if uint64(len(raw)-8) >= sz {
			o.Frame = true
			body := raw[8 : 8+sz]
			o.Trailing = len(raw) - 8 - int(sz)
			o.Err, o.Payload = c18Decode(cmd.Type, body)
		}
	}
	return o
}

// c18Decode returns the error field of a response frame and whether any other field is set.
func c18Decode(t proto.Command_Type, body []byte) (string, bool) {
	un := func(m pb.Message) bool { return pb.Unmarshal(body, m) == nil }
	switch t {
	case proto.Command_COMMAND_TYPE_GET_NODE_META:
		m := &proto.NodeMeta{}
		un(m)
		return "", m.Url != "" || m.Version != "" || m.CommitIndex != 0
	case proto.Command_COMMAND_TYPE_EXECUTE:
		m := &proto.CommandExecuteResponse{}
		un(m)
		return m.Error, len(m.Response) > 0 || m.RaftIndex != 0
	case proto.Command_COMMAND_TYPE_QUERY:
		m := &proto.CommandQueryResponse{}
		un(m)
		return m.Error, len(m.Rows) > 0 || m.RaftIndex != 0
	case proto.Command_COMMAND_TYPE_REQUEST:
		m := &proto.CommandRequestResponse{}
		un(m)
		return m.Error, len(m.Response) > 0 || m.RaftIndex != 0 || m.NumRW != 0
	case proto.Command_COMMAND_TYPE_BACKUP:
		m := &proto.CommandBackupResponse{}
		if z := c18Gunzip(body); z != nil {
			pb.Unmarshal(z, m)
		}
		return m.Error, len(m.Data) > 0
	case proto.Command_COMMAND_TYPE_BACKUP_STREAM:
		m := &proto.CommandBackupResponse{}
		un(m)
		return m.Error, len(m.Data) > 0
	case proto.Command_COMMAND_TYPE_JOIN:
		m := &proto.CommandJoinResponse{}
		un(m)
		return m.Error, m.Leader != ""
	default: // all remaining responses are {string error = 1}
		m := &proto.CommandLoadResponse{}
		un(m)
		return m.Error, false
	}
}

type c18Case struct {
	Cmd      string `json:"command"`
	Store    string `json:"store"`
	Pres     string `json:"presentation"`
	Expected string `json:"expected"`
	Obs      c18Obs `json:"observed"`
}

type c18Vio struct{ key, what string }

func c18Judge(cmd c18Cmd, want bool, o c18Obs) []c18Vio {
	var v []c18Vio
	if cmd.Need == nil {
		return nil
	}
	n := cmd.name()
	if !want {
		if o.Calls != "" {
			v = append(v, c18Vio{"C18:cluster:action-performed-although-denied:" + n, "performed " + o.Calls})
		}
		if o.Marker || o.Payload {
			v = append(v, c18Vio{"C18:cluster:data-sent-although-denied:" + n,
				fmt.Sprintf("database content on the wire (marker=%v payload-fields=%v, %d bytes after the first frame)", o.Marker, o.Payload, o.Trailing)})
		}
		if o.Frame && o.Err == "" {
			v = append(v, c18Vio{"C18:cluster:no-error-although-denied:" + n, "the answer carries no error"})
		}
	} else {
		if o.Err == "unauthorized" {
			v = append(v, c18Vio{"C18:cluster:refused-although-authorized:" + n, "answered \"unauthorized\""})
		}
	}
	return v
}

func TestVerif_C18_cluster(t *testing.T) {
	r := kit.Start(t, "C18", "cluster")
	defer r.Finish()
	thorough := r.Thorough()
	r.Rule("full product: every value of the generated Command_Type enum (JOIN as voter and as non-voter), each with a well-formed request, x every credentials file of <=2 entries over users {u (password p), *} x permission sets {none, each required permission alone, every required permission, `all`, every permission constant that is not required; thorough adds each non-required constant alone} (duplicate users included, last wins) loaded by the real auth.CredentialsStore x presentation {no credentials, u with a wrong password, u with the right password, unknown user}; the framed command is written as raw bytes to a real TCP connection of the real cluster.Service, the write side is closed and the socket is read until the service closes it. Oracle: C19 reference decision for the command's required permission(s); on deny no mock database/manager call, no database bytes (marker searched raw and in every embedded gzip stream, non-error response fields) anywhere in the byte stream, an error in the answer; on allow no \"unauthorized\". SEQUENCES: every ordered pair of commands over {EXECUTE, QUERY, REMOVE_NODE, BACKUP_STREAM} (thorough: over every judged command with a single requirement, plus every ordered triple over those four) sent on ONE connection, each command with each of 5 presentations {u right password, u wrong password, no credentials, unknown user, valid user v lacking the permission} against a credentials file in which u holds exactly the first command's permission(s) and v the others'; each command is written, its answer (and backup stream) read, the mock calls taken, then the next one; every command is judged alone by the same oracle on its own credentials. distinct = (command, expected, observed error class, calls, bytes-after-frame>0, marker) and per-sequence outcome vectors")
	r.Assume("the command -> permission table is the one documented for rqlite's permissions (execute, query, both for the unified request, backup, load, remove, join for voters and for notify, join-read-only or join-read-replica for non-voters, leader-ops for stepdown); where the repository has no written table the constants' doc comments in auth/credential_store.go were used")
	r.Assume("database and manager are recording mocks (every method records its call and returns marker data); the credential store is the real auth.CredentialsStore behind a delegating recorder")

	cmds := c18Commands()
	// every enum value must have an entry
	have := map[proto.Command_Type]bool{}
	for _, c := range cmds {
		have[c.Type] = true
	}
	var missing []string
	for v, name := range proto.Command_Type_name {
		if !have[proto.Command_Type(v)] {
			missing = append(missing, name)
		}
	}
	sort.Strings(missing)

	var replay *c18Case
	if raw := kit.Replay(); raw != nil {
		var x struct {
			Case     c18Case     `json:"case"`
			Sequence *c18SeqCase `json:"sequence"`
		}
		if err := json.Unmarshal(raw, &x); err != nil {
			t.Fatalf("replay: %v", err)
		}
		if x.Sequence != nil {
			c18Sequences(t, r, thorough, x.Sequence.id())
			return
		}
		replay = &x.Case
	}

	type job struct {
		cmd   c18Cmd
		store c18Store
	}
	var jobs []job
	unjudgedStore := []c18Store{{Entries: []c18Entry{}, JSON: "[]", Label: "[]"}}
	for _, c := range cmds {
		stores := unjudgedStore
		if c.Need != nil {
			stores = c18Stores(c.Need, thorough)
		}
		for _, s := range stores {
			if replay != nil && (replay.Cmd != c.name() || replay.Store != s.JSON) {
				continue
			}
			jobs = append(jobs, job{c, s})
		}
	}
	type res struct {
		cases []c18Case
		vios  [][]c18Vio
	}
	results := make([]res, len(jobs))
	nw := 8
	var wg sync.WaitGroup
	var next atomic.Int64
	for w := 0; w < nw; w++ {
		wg.Add(1)
		go func() {
			defer wg.Done()
			n := c18NewNode(t)
			defer n.close()
			for {
				i := int(next.Add(1)) - 1
				if i >= len(jobs) {
					return
				}
				j := jobs[i]
				cs := auth.NewCredentialsStore()
				if err := cs.Load(strings.NewReader(j.store.JSON)); err != nil {
					t.Errorf("credentials %s: %v", j.store.JSON, err)
					return
				}
				n.creds.cur.Store(cs)
				ref := c18Ref(j.store.Entries)
				for _, p := range c18Presentations {
					if replay != nil && replay.Pres != p.Name {
						continue
					}
					o := n.exchange(t, j.cmd, p)
					exp := "unjudged"
					want := false
					if j.cmd.Need != nil {
						want = ref.allowed(p.User, p.Pass, j.cmd.Need)
						if p.None {
							want = ref.allowed("", "", j.cmd.Need)
						}
						exp = map[bool]string{true: "allow", false: "deny"}[want]
					}
					results[i].cases = append(results[i].cases, c18Case{j.cmd.name(), j.store.JSON, p.Name, exp, o})
					results[i].vios = append(results[i].vios, c18Judge(j.cmd, want, o))
				}
			}
		}()
	}
	wg.Wait()

	// deterministic bookkeeping, in job order
	type cmdStat struct {
		n, allow, deny, acted int
		asked                 map[string]bool
		outcomes              map[string]int
	}
	stats := map[string]*cmdStat{}
	idx := 0
	for i := range results {
		for k, c := range results[i].cases {
			st := stats[c.Cmd]
			if st == nil {
				st = &cmdStat{asked: map[string]bool{}, outcomes: map[string]int{}}
				stats[c.Cmd] = st
			}
			st.n++
			switch c.Expected {
			case "allow":
				st.allow++
			case "deny":
				st.deny++
			}
			if c.Obs.Calls != "" {
				st.acted++
			}
			for _, a := range strings.Split(c.Obs.Asked, ",") {
				if a != "" {
					st.asked[a] = true
				}
			}
			errClass := c.Obs.Err
			if !c.Obs.Frame {
				errClass = "(no frame)"
			}
			okey := fmt.Sprintf("%s|%s|err=%q|calls=%s|trailing=%v|marker=%v|hwm=%v", c.Cmd, c.Expected, errClass, c.Obs.Calls, c.Obs.Trailing > 0, c.Obs.Marker, c.Obs.HWM)
			ostr := fmt.Sprintf("%s: err=%q calls=[%s] bytes-after-frame=%v data=%v", c.Expected, errClass, c.Obs.Calls, c.Obs.Trailing > 0, c.Obs.Marker || c.Obs.Payload)
			if c.Obs.HWM {
				ostr += " high-water-mark-delivered"
			}
			st.outcomes[ostr]++
			r.Distinct(okey)
			r.Eval(1)
			r.SampleEvery(idx, c)
			idx++
			for _, v := range results[i].vios[k] {
				r.Violation(v.key, fmt.Sprintf("%s with store %s, %s (reference decision: %s): %s", c.Cmd, c.Store, c.Pres, c.Expected, v.what),
					map[string]any{"case": c})
			}
		}
	}
	r.State(len(jobs))
	if replay != nil {
		return
	}
	r.State(c18Sequences(t, r, thorough, ""))

	// per-command report; vacuity guard: a judged command must have been seen acting when
	// allowed, otherwise "no mock call on deny" proves nothing.
	names := make([]string, 0, len(stats))
	for n := range stats {
		names = append(names, n)
	}
	sort.Strings(names)
	report := map[string]any{}
	for _, c := range cmds {
		st := stats[c.name()]
		if st == nil {
			continue
		}
		var asked []string
		for a := range st.asked {
			asked = append(asked, a)
		}
		sort.Strings(asked)
		e := map[string]any{"cases": st.n, "expected_allow": st.allow, "expected_deny": st.deny,
			"permissions_the_service_asked_about": asked, "outcomes": st.outcomes}
		if c.Need == nil {
			e["judged"] = false
			e["why_not_judged"] = c.Why
		} else {
			e["judged"] = true
			e["required"] = c.Need
			if st.acted == 0 {
				t.Errorf("harness: %s never performed its action, the deny oracle would be vacuous", c.name())
			}
			if st.allow == 0 || st.deny == 0 {
				t.Errorf("harness: %s has allow=%d deny=%d expected cases", c.name(), st.allow, st.deny)
			}
		}
		report[c.name()] = e
	}
	r.Set("commands", report)
	r.Set("command_types_enumerated", len(proto.Command_Type_name))
	var unj []string
	for _, c := range cmds {
		if c.Need == nil {
			unj = append(unj, c.name()+": "+c.Why)
		}
	}
	r.Note("not judged (no permission defined): %s", strings.Join(unj, "; "))
	if o, ok := report["HIGHWATER_MARK_UPDATE"].(map[string]any); ok {
		r.Note("observation: HIGHWATER_MARK_UPDATE is delivered to the registered channel for a client that presents no credentials at all (outcomes %v)", o["outcomes"])
	}
	if len(missing) > 0 {
		r.Cap("command types without an entry in the permission table: %s", strings.Join(missing, ","))
		t.Errorf("command types %v have no entry in the C18 permission table: extend c18Commands (a type that is not judged would be silently missed)", missing)
	}
}
