package cluster

import (
	"bufio"
	"bytes"
	"context"
	"encoding/binary"
	"encoding/hex"
	"encoding/json"
	"errors"
	"fmt"
	"io"
	"net"
	"os"
	"os/exec"
	"regexp"
	"runtime"
	"sort"
	"strings"
	"sync"
	"sync/atomic"
	"syscall"
	"testing"
	"time"

	"github.com/rqlite/rqlite/v10/auth"
	"github.com/rqlite/rqlite/v10/cluster/proto"
	command "github.com/rqlite/rqlite/v10/command/proto"
	kit "github.com/rqlite/rqlite/v10/internal/verifkit"
	"github.com/rqlite/rqlite/v10/tcp"
	pb "google.golang.org/protobuf/proto"
)

// C35: byte streams against the inter-node port. The node under test (real
// tcp.Mux + real cluster.Service + recording mock database/manager + real
// auth.CredentialsStore) runs in a WORKER PROCESS (this test binary re-executed
// with VERIF_C35_WORKER=1) under an address-space limit, so that a crash or a
// giant allocation kills the worker and not the harness. The harness talks to
// the worker's port with raw TCP and to a side channel (stdin/stdout) that
// reports runtime.MemStats, the mock call counters and the connection counters.

const (
	c35WorkerEnv   = "VERIF_C35_WORKER"
	c35AddrLimit   = uint64(8) << 30 // RLIMIT_AS of the worker
	c35MemSlack    = uint64(16) << 20
	c35MemFactor   = 4
	c35RetireAlloc = uint64(256) << 20
	c35CredsJSON   = `[{"username":"u","password":"p","perms":["all"]}]`
)

// ---------------------------------------------------------------------------
// worker side
// ---------------------------------------------------------------------------

type c35WState struct {
	mu        sync.Mutex
	calls     map[string]int
	bytesRead int64
	accepted  int64
	open      int64
	pending   int64 // Read calls in progress: a handler blocked in Read has finished with what it was given
	hwm       int64
}

func (s *c35WState) call(n string) { s.mu.Lock(); s.calls[n]++; s.mu.Unlock() }

type c35WLn struct {
	net.Listener
	st *c35WState
}

func (l *c35WLn) Accept() (net.Conn, error) {
	c, err := l.Listener.Accept()
	if err != nil {
		return nil, err
	}
	atomic.AddInt64(&l.st.accepted, 1)
	atomic.AddInt64(&l.st.open, 1)
	return &c35WConn{Conn: c, st: l.st}, nil
}

type c35WConn struct {
	net.Conn
	st   *c35WState
	once sync.Once
}

func (c *c35WConn) Read(p []byte) (int, error) {
	atomic.AddInt64(&c.st.pending, 1)
	n, err := c.Conn.Read(p)
	atomic.AddInt64(&c.st.bytesRead, int64(n))
	atomic.AddInt64(&c.st.pending, -1)
	return n, err
}

func (c *c35WConn) Close() error {
	c.once.Do(func() { atomic.AddInt64(&c.st.open, -1) })
	return c.Conn.Close()
}

type c35DB struct{ st *c35WState }

func (d *c35DB) Execute(ctx context.Context, er *command.ExecuteRequest) ([]*command.ExecuteQueryResponse, uint64, error) {
	d.st.call("db.Execute")
	_ = er.Timings // like the real store, the mock uses its argument
	return []*command.ExecuteQueryResponse{}, 1, nil
}
func (d *c35DB) Query(ctx context.Context, qr *command.QueryRequest) ([]*command.QueryRows, command.ConsistencyLevel, uint64, error) {
	d.st.call("db.Query")
	_ = qr.Timings
	return []*command.QueryRows{}, command.ConsistencyLevel_NONE, 1, nil
}
func (d *c35DB) Request(ctx context.Context, rr *command.ExecuteQueryRequest) ([]*command.ExecuteQueryResponse, uint64, uint64, error) {
	d.st.call("db.Request")
	_ = rr.Timings
	return []*command.ExecuteQueryResponse{}, 0, 1, nil
}
func (d *c35DB) Backup(ctx context.Context, br *command.BackupRequest, dst io.Writer) error {
	d.st.call("db.Backup")
	_ = br.Format
	_, err := dst.Write([]byte("backup-bytes"))
	return err
}
func (d *c35DB) Load(ctx context.Context, lr *command.LoadRequest) error {
	d.st.call("db.Load")
	_ = lr.Data
	return nil
}

type c35Mgr struct{ st *c35WState }

func (m *c35Mgr) LeaderAddr() (string, error)  { return "leader:4002", nil }
func (m *c35Mgr) CommitIndex() (uint64, error) { return 7, nil }
func (m *c35Mgr) Remove(ctx context.Context, rn *command.RemoveNodeRequest) error {
	m.st.call("mgr.Remove")
	_ = rn.Id
	return nil
}
func (m *c35Mgr) Notify(n *command.NotifyRequest) error {
	m.st.call("mgr.Notify")
	_ = n.Id
	return nil
}
func (m *c35Mgr) Join(n *command.JoinRequest) error   { m.st.call("mgr.Join"); _ = n.Id; return nil }
func (m *c35Mgr) Stepdown(wait bool, id string) error { m.st.call("mgr.Stepdown"); return nil }

type c35Stat struct {
	HeapAlloc  uint64         `json:"heap_alloc"`
	TotalAlloc uint64         `json:"total_alloc"`
	Sys        uint64         `json:"sys"`
	Calls      map[string]int `json:"calls"`
	BytesRead  int64          `json:"bytes_read"`
	Accepted   int64          `json:"accepted"`
	Open       int64          `json:"open"`
	Pending    int64          `json:"pending_reads"`
	Handlers   int            `json:"handlers"`
	HWM        int64          `json:"hwm"`
}

// c35WorkerMain never returns.
func c35WorkerMain() {
	out := bufio.NewWriter(os.Stdout)
	say := func(f string, a ...any) { fmt.Fprintf(out, "C35W "+f+"\n", a...); out.Flush() }
	lim := syscall.Rlimit{Cur: c35AddrLimit, Max: c35AddrLimit}
	if err := syscall.Setrlimit(syscall.RLIMIT_AS, &lim); err != nil {
		say("FATAL setrlimit: %v", err)
		os.Exit(3)
	}
	st := &c35WState{calls: map[string]int{}}
	base, err := net.Listen("tcp", "127.0.0.1:0")
	if err != nil {
		say("FATAL listen: %v", err)
		os.Exit(3)
	}
	mux, err := tcp.NewMux(&c35WLn{base, st}, nil)
	if err != nil {
		say("FATAL mux: %v", err)
		os.Exit(3)
	}
	mux.Logger.SetOutput(io.Discard)
	go mux.Serve()
	cs := auth.NewCredentialsStore()
	if err := cs.Load(strings.NewReader(c35CredsJSON)); err != nil {
		say("FATAL creds: %v", err)
		os.Exit(3)
	}
	svc := New(mux.Listen(MuxClusterHeader), &c35DB{st}, &c35Mgr{st}, cs)
	svc.logger.SetOutput(io.Discard)
	svc.SetAPIAddr("api:4001")
	hwm := make(chan uint64, 16)
	svc.RegisterHWMUpdate(hwm)
	go func() {
		for range hwm {
			atomic.AddInt64(&st.hwm, 1)
		}
	}()
	if err := svc.Open(); err != nil {
		say("FATAL open: %v", err)
		os.Exit(3)
	}
	say("ADDR %s", base.Addr().String())
	in := bufio.NewScanner(os.Stdin)
	for in.Scan() {
		switch in.Text() {
		case "GCSTAT":
			runtime.GC()
			fallthrough
		case "STAT":
			var ms runtime.MemStats
			runtime.ReadMemStats(&ms)
			st.mu.Lock()
			calls := map[string]int{}
			for k, v := range st.calls {
				calls[k] = v
			}
			st.mu.Unlock()
			b, _ := json.Marshal(c35Stat{ms.HeapAlloc, ms.TotalAlloc, ms.Sys, calls, atomic.LoadInt64(&st.bytesRead),
				atomic.LoadInt64(&st.accepted), atomic.LoadInt64(&st.open), atomic.LoadInt64(&st.pending), len(svc.connLimiterCh), atomic.LoadInt64(&st.hwm)})
			say("STAT %s", b)
		case "CLOSELN":
			// node shutdown begins: the TCP listener under the mux is closed (rqlited closes it before
			// the store); give Serve time to notice before the harness goes on
			base.Close()
			time.Sleep(300 * time.Millisecond)
			say("CLOSED")
		case "QUIT":
			os.Exit(0)
		}
	}
	os.Exit(0) // harness went away
}

// ---------------------------------------------------------------------------
// harness side: worker handle
// ---------------------------------------------------------------------------

type c35Worker struct {
	cmd    *exec.Cmd
	stdin  io.WriteCloser
	lines  chan string
	exited chan struct{}
	addr   string
	errMu  sync.Mutex
	errBuf bytes.Buffer
}

type c35LockedWriter struct{ w *c35Worker }

func (l c35LockedWriter) Write(p []byte) (int, error) {
	l.w.errMu.Lock()
	defer l.w.errMu.Unlock()
	if l.w.errBuf.Len() < 1<<16 {
		l.w.errBuf.Write(p)
	}
	return len(p), nil
}

func (w *c35Worker) stderr() string {
	w.errMu.Lock()
	defer w.errMu.Unlock()
	return w.errBuf.String()
}

func c35Spawn() (*c35Worker, error) {
	cmd := exec.Command(os.Args[0], "-test.run", "^TestVerif_C35$", "-test.timeout", "60m")
	cmd.Env = append(os.Environ(), c35WorkerEnv+"=1", "VERIF_OUT=", "VERIF_REPLAY=", "GOMAXPROCS=2", "GOTRACEBACK=single")
	w := &c35Worker{cmd: cmd, lines: make(chan string, 64), exited: make(chan struct{})}
	var err error
	if w.stdin, err = cmd.StdinPipe(); err != nil {
		return nil, err
	}
	so, err := cmd.StdoutPipe()
	if err != nil {
		return nil, err
	}
	cmd.Stderr = c35LockedWriter{w}
	if err := cmd.Start(); err != nil {
		return nil, err
	}
	go func() {
		sc := bufio.NewScanner(so)
		sc.Buffer(make([]byte, 1<<20), 1<<20)
		for sc.Scan() {
			if l := sc.Text(); strings.HasPrefix(l, "C35W ") {
				w.lines <- l[5:]
			}
		}
		cmd.Wait()
		close(w.exited)
	}()
	select {
	case l := <-w.lines:
		if !strings.HasPrefix(l, "ADDR ") {
			w.kill()
			return nil, fmt.Errorf("worker said %q, stderr %s", l, w.stderr())
		}
		w.addr = l[5:]
	case <-w.exited:
		return nil, fmt.Errorf("worker exited at start-up: %s", w.stderr())
	case <-time.After(120 * time.Second):
		w.kill()
		return nil, fmt.Errorf("worker did not start")
	}
	return w, nil
}

func (w *c35Worker) dead() bool {
	select {
	case <-w.exited:
		return true
	default:
		return false
	}
}

func (w *c35Worker) kill() {
	if w.cmd.Process != nil {
		w.cmd.Process.Kill()
	}
	w.stdin.Close()
	<-w.exited
}

// closeListener tells the worker to close its listener; false when the worker is dead.
func (w *c35Worker) closeListener() bool {
	if w.dead() {
		return false
	}
	if _, err := io.WriteString(w.stdin, "CLOSELN\n"); err != nil {
		return false
	}
	select {
	case l := <-w.lines:
		return l == "CLOSED"
	case <-w.exited:
		return false
	case <-time.After(120 * time.Second):
		return false
	}
}

// stat returns nil when the worker is dead.
func (w *c35Worker) stat(gc bool) *c35Stat {
	if w.dead() {
		return nil
	}
	req := "STAT\n"
	if gc {
		req = "GCSTAT\n"
	}
	if _, err := io.WriteString(w.stdin, req); err != nil {
		<-w.exited
		return nil
	}
	select {
	case l := <-w.lines:
		var s c35Stat
		if strings.HasPrefix(l, "STAT ") && json.Unmarshal([]byte(l[5:]), &s) == nil {
			return &s
		}
		return nil
	case <-w.exited:
		return nil
	case <-time.After(120 * time.Second):
		return nil
	}
}

// ---------------------------------------------------------------------------
// inputs
// ---------------------------------------------------------------------------

type c35Payload struct {
	Name  string
	Bytes []byte
	Bulk  bool // member of a large family (truncations, flips): reduced product in the quick tier
	Core  bool // combined with the giant length prefixes in the quick tier too
}

type c35Spec struct {
	t      proto.Command_Type
	action string
	build  func(c *proto.Command)
}

func c35Request() *command.Request {
	return &command.Request{Statements: []*command.Statement{{Sql: "X"}}}
}

func c35Specs() []c35Spec {
	return []c35Spec{
		{proto.Command_COMMAND_TYPE_UNKNOWN, "", func(c *proto.Command) {}},
		{proto.Command_COMMAND_TYPE_GET_NODE_META, "", func(c *proto.Command) {}},
		{proto.Command_COMMAND_TYPE_EXECUTE, "db.Execute", func(c *proto.Command) {
			c.Request = &proto.Command_ExecuteRequest{ExecuteRequest: &command.ExecuteRequest{Request: c35Request()}}
		}},
		{proto.Command_COMMAND_TYPE_QUERY, "db.Query", func(c *proto.Command) {
			c.Request = &proto.Command_QueryRequest{QueryRequest: &command.QueryRequest{Request: c35Request()}}
		}},
		{proto.Command_COMMAND_TYPE_BACKUP, "db.Backup", func(c *proto.Command) {
			c.Request = &proto.Command_BackupRequest{BackupRequest: &command.BackupRequest{Format: command.BackupRequest_BACKUP_REQUEST_FORMAT_BINARY}}
		}},
		{proto.Command_COMMAND_TYPE_LOAD, "db.Load", func(c *proto.Command) {
			c.Request = &proto.Command_LoadRequest{LoadRequest: &command.LoadRequest{Data: []byte("SQLite format 3\x00")}}
		}},
		{proto.Command_COMMAND_TYPE_REMOVE_NODE, "mgr.Remove", func(c *proto.Command) {
			c.Request = &proto.Command_RemoveNodeRequest{RemoveNodeRequest: &command.RemoveNodeRequest{Id: "n"}}
		}},
		{proto.Command_COMMAND_TYPE_NOTIFY, "mgr.Notify", func(c *proto.Command) {
			c.Request = &proto.Command_NotifyRequest{NotifyRequest: &command.NotifyRequest{Id: "n", Address: "a"}}
		}},
		{proto.Command_COMMAND_TYPE_JOIN, "mgr.Join", func(c *proto.Command) {
			c.Request = &proto.Command_JoinRequest{JoinRequest: &command.JoinRequest{Id: "n", Address: "a", Voter: true}}
		}},
		{proto.Command_COMMAND_TYPE_REQUEST, "db.Request", func(c *proto.Command) {
			c.Request = &proto.Command_ExecuteQueryRequest{ExecuteQueryRequest: &command.ExecuteQueryRequest{Request: c35Request()}}
		}},
		{proto.Command_COMMAND_TYPE_LOAD_CHUNK, "", func(c *proto.Command) {
			c.Request = &proto.Command_LoadChunkRequest{LoadChunkRequest: &command.LoadChunkRequest{StreamId: "s"}}
		}},
		{proto.Command_COMMAND_TYPE_BACKUP_STREAM, "db.Backup", func(c *proto.Command) {
			c.Request = &proto.Command_BackupRequest{BackupRequest: &command.BackupRequest{Format: command.BackupRequest_BACKUP_REQUEST_FORMAT_BINARY}}
		}},
		{proto.Command_COMMAND_TYPE_STEPDOWN, "mgr.Stepdown", func(c *proto.Command) {
			c.Request = &proto.Command_StepdownRequest{StepdownRequest: &command.StepdownRequest{Id: "n"}}
		}},
		{proto.Command_COMMAND_TYPE_HIGHWATER_MARK_UPDATE, "", func(c *proto.Command) {
			c.Request = &proto.Command_HighwaterMarkUpdateRequest{HighwaterMarkUpdateRequest: &proto.HighwaterMarkUpdateRequest{NodeId: "n", HighwaterMark: 9}}
		}},
		{proto.Command_Type(99), "", func(c *proto.Command) {}},
	}
}

func c35TypeName(t proto.Command_Type) string {
	if n, ok := proto.Command_Type_name[int32(t)]; ok {
		return strings.TrimPrefix(n, "COMMAND_TYPE_")
	}
	return fmt.Sprintf("UNDEFINED_%d", int32(t))
}

func c35Marshal(t testing.TB, s c35Spec, withReq, withCreds bool) []byte {
	c := &proto.Command{Type: s.t}
	if withReq {
		s.build(c)
	}
	if withCreds {
		c.Credentials = &proto.Credentials{Username: "u", Password: "p"}
	}
	b, err := pb.Marshal(c)
	if err != nil {
		t.Fatalf("marshal: %v", err)
	}
	return b
}

func c35Payloads(t testing.TB, thorough bool) []c35Payload {
	var ps []c35Payload
	ps = append(ps, c35Payload{Name: "none", Bytes: nil, Core: true})
	ps = append(ps, c35Payload{Name: "garbage-3", Bytes: []byte{0xff, 0xff, 0xff}, Core: true})
	ps = append(ps, c35Payload{Name: "garbage-64", Bytes: bytes.Repeat([]byte{0xab}, 64)})
	ps = append(ps, c35Payload{Name: "garbage-70000", Bytes: bytes.Repeat([]byte{0xab}, 70000)})
	specs := c35Specs()
	for _, s := range specs {
		n := c35TypeName(s.t)
		ps = append(ps, c35Payload{Name: n + ":nil-request:no-credentials", Bytes: c35Marshal(t, s, false, false)})
		ps = append(ps, c35Payload{Name: n + ":nil-request:credentials", Bytes: c35Marshal(t, s, false, true),
			Core: s.t == proto.Command_COMMAND_TYPE_BACKUP_STREAM})
		ps = append(ps, c35Payload{Name: n + ":request:no-credentials", Bytes: c35Marshal(t, s, true, false)})
		ps = append(ps, c35Payload{Name: n + ":request:credentials", Bytes: c35Marshal(t, s, true, true),
			Core: s.t == proto.Command_COMMAND_TYPE_EXECUTE})
	}
	bases := []c35Spec{specs[2]} // EXECUTE
	if thorough {
		bases = append(bases, specs[11]) // BACKUP_STREAM
	}
	masks := []byte{0x01, 0x80, 0xff}
	if thorough {
		masks = []byte{0x01, 0x02, 0x04, 0x08, 0x10, 0x20, 0x40, 0x80, 0xff}
	}
	for _, s := range bases {
		m := c35Marshal(t, s, true, true)
		n := c35TypeName(s.t)
		for k := 0; k < len(m); k++ {
			ps = append(ps, c35Payload{Name: fmt.Sprintf("%s:truncated-at-%d-of-%d", n, k, len(m)), Bytes: append([]byte{}, m[:k]...), Bulk: true})
		}
		for k := 0; k < len(m); k++ {
			for _, x := range masks {
				f := append([]byte{}, m...)
				f[k] ^= x
				ps = append(ps, c35Payload{Name: fmt.Sprintf("%s:byte-%d-of-%d-xor-%02x", n, k, len(m), x), Bytes: f, Bulk: true})
			}
		}
	}
	return ps
}

type c35Prefix struct {
	Name  string
	Value func(n int) (uint64, bool)
	Giant bool
}

var c35Prefixes = []c35Prefix{
	{"0", func(n int) (uint64, bool) { return 0, true }, false},
	{"1", func(n int) (uint64, bool) { return 1, true }, false},
	{"n-1", func(n int) (uint64, bool) { return uint64(n - 1), n >= 1 }, false},
	{"n", func(n int) (uint64, bool) { return uint64(n), true }, false},
	{"n+1", func(n int) (uint64, bool) { return uint64(n + 1), true }, false},
	{"2^31", func(n int) (uint64, bool) { return 1 << 31, true }, true},
	{"2^40", func(n int) (uint64, bool) { return 1 << 40, true }, true},
	{"2^63", func(n int) (uint64, bool) { return 1 << 63, true }, true},
	{"2^64-1", func(n int) (uint64, bool) { return ^uint64(0), true }, true},
}

type c35Case struct {
	Header    string `json:"mux_header"` // valid | invalid-<b> | none
	Prefix    string `json:"length_prefix"`
	Payload   string `json:"payload"`
	Behaviour string `json:"behaviour"` // close | half-close | stall
	Hex       string `json:"bytes_hex"` // bytes sent after the header byte (cut at 256)
	stream    []byte // everything written to the socket
	hdr       int    // -1 none
}

func (c c35Case) id() string { return c.Header + "|" + c.Prefix + "|" + c.Payload + "|" + c.Behaviour }

func c35Cases(t testing.TB, thorough bool) []c35Case {
	payloads := c35Payloads(t, thorough)
	// half-close first: its cases are deterministic, so the first recorded case of a violation class (the replay) is
	behaviours := []string{"half-close", "stall", "close"}
	var out []c35Case
	add := func(header string, hdr int, pfx string, val uint64, noFrame bool, p c35Payload, beh string) {
		var s []byte
		if hdr >= 0 {
			s = append(s, byte(hdr))
		}
		if !noFrame {
			var l [8]byte
			binary.LittleEndian.PutUint64(l[:], val)
			s = append(s, l[:]...)
			s = append(s, p.Bytes...)
		}
		body := s
		if hdr >= 0 {
			body = s[1:]
		}
		h := hex.EncodeToString(body)
		if len(h) > 512 {
			h = h[:512] + "..."
		}
		out = append(out, c35Case{Header: header, Prefix: pfx, Payload: p.Name, Behaviour: beh, Hex: h, stream: s, hdr: hdr})
	}
	for _, p := range payloads {
		seen := map[uint64]bool{}
		for _, px := range c35Prefixes {
			v, ok := px.Value(len(p.Bytes))
			if !ok || seen[v] {
				continue // e.g. n-1 == 0: the same stream again
			}
			seen[v] = true
			if !thorough {
				if (px.Giant || px.Name == "0") && !p.Core && p.Name != "garbage-64" {
					continue // giant prefixes, and the prefix 0 that turns the payload's first 8 bytes into the next prefix
				}
				if p.Bulk && px.Name != "n-1" && px.Name != "n" && px.Name != "n+1" {
					continue
				}
			}
			for _, beh := range behaviours {
				if !thorough && p.Bulk && beh != "half-close" {
					continue
				}
				add("valid", MuxClusterHeader, px.Name, v, false, p, beh)
			}
		}
	}
	// other header bytes: the mux must drop the connection whatever follows
	bad := []int{9}
	if thorough {
		bad = []int{0, MuxRaftHeader, 3, 9, 255}
	}
	exec := c35Payload{Name: "EXECUTE:request:credentials", Bytes: c35Marshal(t, c35Specs()[2], true, true)}
	for _, b := range bad {
		for _, beh := range behaviours {
			add(fmt.Sprintf("invalid-%d", b), b, "n", uint64(len(exec.Bytes)), false, exec, beh)
			add(fmt.Sprintf("invalid-%d", b), b, "2^63", 1<<63, false, c35Payload{Name: "none"}, beh)
			add(fmt.Sprintf("invalid-%d", b), b, "-", 0, true, c35Payload{Name: "header-only"}, beh)
		}
	}
	for _, beh := range behaviours {
		add("none", -1, "-", 0, true, c35Payload{Name: "nothing-sent"}, beh)
	}
	// node shutdown: the connection is accepted by the mux, the node then closes its listener, and only
	// then the client sends its bytes (the connection is still being demultiplexed at that moment)
	meta := c35Payload{Name: "GET_NODE_META:nil-request:no-credentials", Bytes: c35Marshal(t, c35Specs()[1], false, false)}
	add("valid", MuxClusterHeader, "n", uint64(len(meta.Bytes)), false, meta, "listener-closed-before-the-bytes")
	add("valid", MuxClusterHeader, "n", uint64(len(exec.Bytes)), false, exec, "listener-closed-before-the-bytes")
	add(fmt.Sprintf("invalid-%d", bad[0]), bad[0], "n", uint64(len(meta.Bytes)), false, meta, "listener-closed-before-the-bytes")
	add("none", -1, "-", 0, true, c35Payload{Name: "nothing-sent"}, "listener-closed-before-the-bytes")
	return out
}

// ---------------------------------------------------------------------------
// reference reading of a byte stream (the framing rule of the protocol)
// ---------------------------------------------------------------------------

type c35Expect struct {
	Allowed map[string]int // mock calls a correctly authorized command may cause
	Last    string         // what the service is doing with the last bytes: class of the input
	HWM     int
}

func c35Bucket(l uint64) string {
	switch {
	case l >= 1<<48:
		return ">=2^48"
	case l >= 1<<40:
		return "2^40..2^48"
	case l >= 1<<31:
		return "2^31..2^40"
	case l >= 1<<24:
		return "2^24..2^31"
	default:
		return "<2^24"
	}
}

func c35Reference(c c35Case) c35Expect {
	e := c35Expect{Allowed: map[string]int{}, Last: "idle"}
	if c.hdr != MuxClusterHeader {
		e.Last = "not-routed-to-the-cluster-service"
		return e
	}
	s := c.stream[1:]
	specs := map[proto.Command_Type]c35Spec{}
	for _, sp := range c35Specs() {
		specs[sp.t] = sp
	}
	for {
		if len(s) == 0 {
			return e
		}
		if len(s) < 8 {
			e.Last = "partial-length-prefix"
			return e
		}
		l := binary.LittleEndian.Uint64(s)
		s = s[8:]
		if l > uint64(len(s)) {
			e.Last = "waiting-for-declared-length:" + c35Bucket(l)
			return e
		}
		msg := s[:l]
		s = s[l:]
		cmd := &proto.Command{}
		if err := pb.Unmarshal(msg, cmd); err != nil {
			e.Last = "undecodable-message"
			return e
		}
		nilReq := true
		switch cmd.Type {
		case proto.Command_COMMAND_TYPE_EXECUTE:
			nilReq = cmd.GetExecuteRequest() == nil
		case proto.Command_COMMAND_TYPE_QUERY:
			nilReq = cmd.GetQueryRequest() == nil
		case proto.Command_COMMAND_TYPE_REQUEST:
			nilReq = cmd.GetExecuteQueryRequest() == nil
		case proto.Command_COMMAND_TYPE_BACKUP, proto.Command_COMMAND_TYPE_BACKUP_STREAM:
			nilReq = cmd.GetBackupRequest() == nil
		case proto.Command_COMMAND_TYPE_LOAD:
			nilReq = cmd.GetLoadRequest() == nil
		case proto.Command_COMMAND_TYPE_REMOVE_NODE:
			nilReq = cmd.GetRemoveNodeRequest() == nil
		case proto.Command_COMMAND_TYPE_NOTIFY:
			nilReq = cmd.GetNotifyRequest() == nil
		case proto.Command_COMMAND_TYPE_JOIN:
			nilReq = cmd.GetJoinRequest() == nil
		case proto.Command_COMMAND_TYPE_STEPDOWN:
			nilReq = cmd.GetStepdownRequest() == nil
		case proto.Command_COMMAND_TYPE_HIGHWATER_MARK_UPDATE:
			nilReq = cmd.GetHighwaterMarkUpdateRequest() == nil
			if !nilReq {
				e.HWM++
			}
		}
		e.Last = "command:" + c35TypeName(cmd.Type) + map[bool]string{true: ":nil-request", false: ":request"}[nilReq]
		// the worker's credentials file gives `all` to u/p and nothing to anybody else
		authorized := cmd.GetCredentials().GetUsername() == "u" && cmd.GetCredentials().GetPassword() == "p"
		if sp, ok := specs[cmd.Type]; ok && sp.action != "" && !nilReq && authorized {
			e.Allowed[sp.action]++
		}
	}
}

// ---------------------------------------------------------------------------
// running one case
// ---------------------------------------------------------------------------

type c35Obs struct {
	Crashed       bool           `json:"worker_crashed"`
	CrashReason   string         `json:"crash_reason,omitempty"`
	CrashWhere    string         `json:"crash_where,omitempty"`
	ProbeOK       bool           `json:"serving_afterwards"`
	Sent          int            `json:"bytes_sent"`
	ServerRead    int64          `json:"bytes_read_by_node"`
	AllocDelta    uint64         `json:"total_alloc_delta"`
	LiveDelta     int64          `json:"live_heap_delta_while_stalled,omitempty"`
	Calls         map[string]int `json:"mock_calls,omitempty"`
	HWM           int64          `json:"hwm_updates_delivered,omitempty"`
	ResponseBytes int            `json:"response_bytes"`
	Lingering     bool           `json:"connection_still_open_at_node,omitempty"`
	NotRejected   bool           `json:"undecodable_frame_neither_answered_nor_dropped,omitempty"`
}

var c35PanicRe = regexp.MustCompile(`(?m)^(panic: .*|fatal error: .*)$`)
var c35WhereRe = regexp.MustCompile(`(?m)^\s+(\S*/(?:cluster|tcp)/[a-z_]+\.go:\d+)`)

func c35CrashInfo(stderr string) (reason, where string) {
	reason = "unknown"
	if m := c35PanicRe.FindString(stderr); m != "" {
		switch {
		case strings.Contains(m, "makeslice"):
			reason = "makeslice-len-out-of-range"
		case strings.Contains(m, "out of memory") || strings.Contains(m, "cannot allocate memory"):
			reason = "out-of-memory"
		case strings.Contains(m, "nil pointer dereference"):
			reason = "nil-pointer-dereference"
		default:
			reason = strings.NewReplacer(" ", "-", ":", "").Replace(m)
			if len(reason) > 60 {
				reason = reason[:60]
			}
		}
	}
	if m := c35WhereRe.FindStringSubmatch(stderr); m != nil {
		w := m[1]
		if i := strings.LastIndex(w, "/cluster/"); i >= 0 {
			w = w[i+1:]
		} else if i := strings.LastIndex(w, "/tcp/"); i >= 0 {
			w = w[i+1:]
		}
		where = w
	}
	return
}

func c35Probe(addr string) bool {
	conn, err := net.DialTimeout("tcp", addr, 10*time.Second)
	if err != nil {
		return false
	}
	defer conn.Close()
	conn.SetDeadline(time.Now().Add(60 * time.Second))
	p, _ := pb.Marshal(&proto.Command{Type: proto.Command_COMMAND_TYPE_GET_NODE_META})
	msg := []byte{MuxClusterHeader, 0, 0, 0, 0, 0, 0, 0, 0}
	binary.LittleEndian.PutUint64(msg[1:], uint64(len(p)))
	msg = append(msg, p...)
	if _, err := conn.Write(msg); err != nil {
		return false
	}
	conn.(*net.TCPConn).CloseWrite()
	raw, _ := io.ReadAll(conn)
	if len(raw) < 8 {
		return false
	}
	l := binary.LittleEndian.Uint64(raw)
	if uint64(len(raw)-8) != l {
		return false
	}
	m := &proto.NodeMeta{}
	return pb.Unmarshal(raw[8:], m) == nil && m.Url == "http://api:4001" && m.CommitIndex == 7
}

// c35Run runs one case on w. It reports whether the worker has to be replaced.
func c35Run(w *c35Worker, c c35Case, expectDrop bool) (o c35Obs, replace bool, fault string) {
	o.Sent = len(c.stream)
	before := w.stat(true)
	if before == nil {
		return o, true, c35DeadBefore
	}
	crashed := func() (c35Obs, bool, string) {
		select {
		case <-w.exited:
		case <-time.After(30 * time.Second):
			return o, true, "worker unresponsive" // alive but silent: machinery trouble, no verdict
		}
		o.Crashed = true
		o.CrashReason, o.CrashWhere = c35CrashInfo(w.stderr())
		return o, true, ""
	}
	conn, err := net.DialTimeout("tcp", w.addr, 10*time.Second)
	if err != nil {
		if w.dead() {
			return crashed()
		}
		return o, true, "dial: " + err.Error()
	}
	defer conn.Close()
	conn.SetDeadline(time.Now().Add(120 * time.Second))
	if len(c.stream) > 0 {
		conn.Write(c.stream) // an error here means the node already dropped us
	}
	// let the node take what it wants to take and finish with it: until it has dropped the connection, or has
	// read everything and is blocked in the next read (so that what follows does not race with its processing)
	var cur *c35Stat
	for dl := time.Now().Add(20 * time.Second); ; {
		cur = w.stat(false)
		if cur == nil {
			return crashed()
		}
		if cur.Accepted > before.Accepted && (cur.Open == 0 || (cur.BytesRead-before.BytesRead >= int64(len(c.stream)) && cur.Pending >= cur.Open)) {
			break
		}
		if time.Now().After(dl) {
			break // the node is not reading (e.g. busy writing a stream we do not read yet): go on
		}
		time.Sleep(200 * time.Microsecond)
	}
	switch c.Behaviour {
	case "close":
		conn.Close()
	case "half-close":
		conn.(*net.TCPConn).CloseWrite()
		raw, _ := io.ReadAll(conn)
		o.ResponseBytes = len(raw)
		conn.Close()
	case "stall":
		if expectDrop {
			// a frame that cannot be decoded has to be rejected: the node drops the connection
			// (or answers). It does so within microseconds; waiting 10 s tells that apart from
			// a node that keeps waiting for more (until its 30 s idle timeout).
			conn.SetReadDeadline(time.Now().Add(10 * time.Second))
			raw, err := io.ReadAll(conn)
			o.ResponseBytes = len(raw)
			var ne net.Error
			o.NotRejected = len(raw) == 0 && errors.As(err, &ne) && ne.Timeout()
			conn.SetReadDeadline(time.Now().Add(120 * time.Second))
		}
		// answer bytes the node has already produced, without waiting for more
		conn.SetReadDeadline(time.Now().Add(20 * time.Millisecond))
		raw, _ := io.ReadAll(conn)
		o.ResponseBytes += len(raw)
		st := w.stat(true)
		if st == nil {
			return crashed()
		}
		o.LiveDelta = int64(st.HeapAlloc) - int64(before.HeapAlloc)
		conn.Close()
	}
	// quiescence: the node has let go of the connection
	var after *c35Stat
	for dl := time.Now().Add(20 * time.Second); ; {
		after = w.stat(false)
		if after == nil {
			return crashed()
		}
		if after.Open == 0 && after.Handlers == 0 {
			break
		}
		if time.Now().After(dl) {
			o.Lingering = true
			break
		}
		time.Sleep(200 * time.Microsecond)
	}
	o.ServerRead = after.BytesRead - before.BytesRead
	o.AllocDelta = after.TotalAlloc - before.TotalAlloc
	o.HWM = after.HWM - before.HWM
	for k, v := range after.Calls {
		if d := v - before.Calls[k]; d != 0 {
			if o.Calls == nil {
				o.Calls = map[string]int{}
			}
			o.Calls[k] = d
		}
	}
	o.ProbeOK = c35Probe(w.addr)
	if !o.ProbeOK {
		// a node that is dying of this input has already dropped its connections (the deferred
		// calls of the panicking goroutine) but may not have exited yet: give it time to
		select {
		case <-w.exited:
			return crashed()
		case <-time.After(10 * time.Second):
		}
		o.ProbeOK = c35Probe(w.addr) // still alive: ask once more
		if !o.ProbeOK && w.dead() {
			return crashed()
		}
	}
	return o, o.Lingering || !o.ProbeOK || o.AllocDelta > c35RetireAlloc, ""
}

// c35RunShutdown: connect, wait until the mux is blocked reading the header byte, have the node
// close its listener, then send the bytes, half-close and read to EOF. The node must not die. The
// worker is always replaced afterwards (it no longer listens).
func c35RunShutdown(w *c35Worker, c c35Case) (o c35Obs, replace bool, fault string) {
	o.Sent = len(c.stream)
	o.ProbeOK = true // no new connection can be made once the listener is closed: liveness is the process
	before := w.stat(true)
	if before == nil {
		return o, true, c35DeadBefore
	}
	crashed := func() (c35Obs, bool, string) {
		select {
		case <-w.exited:
		case <-time.After(30 * time.Second):
			return o, true, "worker unresponsive"
		}
		o.Crashed, o.ProbeOK = true, false
		o.CrashReason, o.CrashWhere = c35CrashInfo(w.stderr())
		return o, true, ""
	}
	conn, err := net.DialTimeout("tcp", w.addr, 10*time.Second)
	if err != nil {
		return o, true, "dial: " + err.Error()
	}
	defer conn.Close()
	conn.SetDeadline(time.Now().Add(60 * time.Second))
	for dl := time.Now().Add(20 * time.Second); ; {
		cur := w.stat(false)
		if cur == nil {
			return crashed()
		}
		if cur.Accepted > before.Accepted && cur.Pending >= cur.Open && cur.Open > 0 {
			break // accepted, and the mux is waiting for the header byte
		}
		if time.Now().After(dl) {
			return o, true, "the mux did not accept the connection"
		}
		time.Sleep(200 * time.Microsecond)
	}
	if !w.closeListener() {
		if w.dead() {
			return crashed()
		}
		return o, true, "worker did not close its listener"
	}
	if len(c.stream) > 0 {
		conn.Write(c.stream)
	}
	conn.(*net.TCPConn).CloseWrite()
	raw, _ := io.ReadAll(conn)
	o.ResponseBytes = len(raw)
	// a node dying of this runs its deferred calls first and exits a little later
	select {
	case <-w.exited:
		return crashed()
	case <-time.After(500 * time.Millisecond):
	}
	after := w.stat(false)
	if after == nil {
		return crashed()
	}
	o.ServerRead = after.BytesRead - before.BytesRead
	o.AllocDelta = after.TotalAlloc - before.TotalAlloc
	o.HWM = after.HWM - before.HWM
	for k, v := range after.Calls {
		if d := v - before.Calls[k]; d != 0 {
			if o.Calls == nil {
				o.Calls = map[string]int{}
			}
			o.Calls[k] = d
		}
	}
	return o, true, ""
}

const c35DeadBefore = "worker dead before the case"

type c35Vio struct{ key, what string }

func c35Judge(c c35Case, e c35Expect, o c35Obs) []c35Vio {
	var v []c35Vio
	if o.Crashed {
		v = append(v, c35Vio{"C35:crash:" + o.CrashReason + ":" + e.Last,
			fmt.Sprintf("the node process died (%s at %s) after %d bytes", o.CrashReason, o.CrashWhere, o.Sent)})
		return v
	}
	if !o.ProbeOK {
		v = append(v, c35Vio{"C35:not-serving-afterwards:" + e.Last, "a well-formed GET_NODE_META on a new connection was not answered"})
	}
	limit := uint64(c35MemFactor*o.Sent) + c35MemSlack
	if o.AllocDelta > limit || (o.LiveDelta > 0 && uint64(o.LiveDelta) > limit) {
		v = append(v, c35Vio{"C35:memory:allocation-exceeds-bytes-sent:" + e.Last,
			fmt.Sprintf("%d bytes sent, the node allocated %d bytes (live while the connection stalled: %d); allowed %d", o.Sent, o.AllocDelta, o.LiveDelta, limit)})
	}
	if o.NotRejected {
		v = append(v, c35Vio{"C35:malformed-not-rejected:" + e.Last, "10 s after an undecodable frame the node has neither answered nor dropped the connection"})
	}
	var names []string
	for k := range o.Calls {
		names = append(names, k)
	}
	sort.Strings(names)
	for _, k := range names {
		if o.Calls[k] > e.Allowed[k] {
			v = append(v, c35Vio{"C35:state-changed-without-authorization:" + k + ":" + e.Last,
				fmt.Sprintf("%s called %d times, the stream contains %d correctly authorized commands for it", k, o.Calls[k], e.Allowed[k])})
		}
	}
	return v
}

func TestVerif_C35(t *testing.T) {
	if os.Getenv(c35WorkerEnv) != "" {
		c35WorkerMain()
		return
	}
	r := kit.Start(t, "C35", "bytes")
	defer r.Finish()
	thorough := r.Thorough()
	r.Rule("product: mux header byte {the cluster header, an unregistered byte (thorough: 0,1,3,9,255), none} x 8-byte little-endian length prefix {0, 1, n-1, n, n+1, 2^31, 2^40, 2^63, 2^64-1} (n = bytes that follow) x payload {nothing; garbage of 3, 64, 70000 bytes; for each of the 14 command types and an undefined type: no request / a well-formed request, each with and without credentials; every truncation of a valid EXECUTE message; every byte of it XORed with 01, 80, ff (thorough: all 8 single bits and ff, also for BACKUP_STREAM)} x connection behaviour {close without reading, half-close and read to EOF, stall; plus 4 shutdown cases in which the node closes its TCP listener after the mux has accepted the connection and before the client sends its bytes (header valid/invalid/none), the node process having to survive} applied once the node has dropped the connection or has read everything and is blocked in its next read. Quick tier: the giant prefixes and the prefix 0 (after which the payload itself is read as the next prefix) are combined with 5 representative payloads, truncations/flips with prefixes n-1,n,n+1 and half-close only. Each stream is sent to a worker process running the real tcp.Mux + cluster.Service under RLIMIT_AS; after that the node is left to drop the connection, then a well-formed GET_NODE_META is sent on a new connection. Oracle: the worker process is alive and answers; cumulative allocation during the case (runtime.MemStats.TotalAlloc) and live heap while stalled <= 4 x bytes sent + 16 MiB; mock database/manager calls <= the calls of correctly authorized commands found by a reference reading of the same bytes; when the last complete frame does not decode and the client stalls, the node answers or drops the connection (10 s allowed, against its 30 s idle timeout). distinct = (what the node was doing with the last bytes, behaviour, outcome)")
	r.Assume("worker: real tcp.Mux and cluster.Service, recording mock database and manager, real auth.CredentialsStore holding one user u/p with `all`; a crashed worker is replaced by a fresh one; a worker that allocated more than 256 MiB in a case is retired")
	r.Assume(fmt.Sprintf("address-space limit of the worker %d GiB: an allocation that does not fit kills the worker the way it would kill a node whose memory is exhausted", c35AddrLimit>>30))
	r.Assume("commands for which rqlite defines no permission (GET_NODE_META, HIGHWATER_MARK_UPDATE) are not judged for state change; delivered high-water-mark updates are counted in the evidence")
	r.Assume("TLS transports are not exercised; the 30 s idle timeouts are not waited for (the harness closes its side)")

	cases := c35Cases(t, thorough)
	if raw := kit.Replay(); raw != nil {
		var x struct {
			Case c35Case `json:"case"`
		}
		if err := json.Unmarshal(raw, &x); err != nil {
			t.Fatalf("replay: %v", err)
		}
		var sel []c35Case
		for _, c := range cases {
			if c.id() == x.Case.id() {
				sel = append(sel, c)
			}
		}
		if len(sel) == 0 {
			t.Fatalf("replay: case %s not in the enumeration of this tier", x.Case.id())
		}
		cases = sel
	}

	type res struct {
		obs   c35Obs
		exp   c35Expect
		vios  []c35Vio
		fault string
	}
	results := make([]res, len(cases))
	var next atomic.Int64
	var spawns, spawnNs, runNs, crashNs atomic.Int64
	var wg sync.WaitGroup
	nw := 8
	if len(cases) < nw {
		nw = 1
	}
	for i := 0; i < nw; i++ {
		wg.Add(1)
		go func() {
			defer wg.Done()
			var w *c35Worker
			defer func() {
				if w != nil {
					w.kill()
				}
			}()
			last := -1 // the case this worker process ran last
			// a worker found dead when nothing has been sent to it yet died of the previous input (a
			// panicking goroutine runs its deferred Close first, the process exits a little later)
			blame := func() {
				if last >= 0 && w != nil && results[last].fault == "" && !results[last].obs.Crashed {
					select {
					case <-w.exited:
					case <-time.After(10 * time.Second):
						return // not dead, only unresponsive: no verdict
					}
					o := results[last].obs
					o.Crashed, o.ProbeOK = true, false
					o.CrashReason, o.CrashWhere = c35CrashInfo(w.stderr())
					results[last].obs = o
					results[last].vios = c35Judge(cases[last], results[last].exp, o)
				}
			}
			for {
				i := int(next.Add(1)) - 1
				if i >= len(cases) {
					if w != nil {
						time.Sleep(300 * time.Millisecond)
						if w.stat(false) == nil {
							blame()
						}
					}
					return
				}
				if r.OverBudget() {
					results[i].fault = "budget"
					continue
				}
				for attempt := 0; ; attempt++ {
					if w == nil {
						var err error
						t0 := time.Now()
						if w, err = c35Spawn(); err != nil {
							results[i].fault = "spawn: " + err.Error()
							break
						}
						spawns.Add(1)
						spawnNs.Add(int64(time.Since(t0)))
					}
					t1 := time.Now()
					exp := c35Reference(cases[i])
					var o c35Obs
					var replace bool
					var fault string
					if cases[i].Behaviour == "listener-closed-before-the-bytes" {
						exp.Last = "listener-closed-while-demultiplexing:" + exp.Last
						o, replace, fault = c35RunShutdown(w, cases[i])
					} else {
						o, replace, fault = c35Run(w, cases[i], exp.Last == "undecodable-message")
					}
					if o.Crashed {
						crashNs.Add(int64(time.Since(t1)))
					} else {
						runNs.Add(int64(time.Since(t1)))
					}
					if fault == c35DeadBefore {
						blame()
					}
					if replace {
						w.kill()
						w = nil
						last = -1
					} else {
						last = i
					}
					if fault != "" && attempt < 2 {
						continue // machinery hiccup (not a verdict): once more on a fresh worker
					}
					results[i].obs, results[i].fault = o, fault
					results[i].exp = exp
					if fault == "" {
						results[i].vios = c35Judge(cases[i], results[i].exp, o)
					}
					break
				}
			}
		}()
	}
	wg.Wait()
	t.Logf("timing (summed over workers): spawn %.1fs for %d workers, crashing cases %.1fs, other cases %.1fs",
		time.Duration(spawnNs.Load()).Seconds(), spawns.Load(), time.Duration(crashNs.Load()).Seconds(), time.Duration(runNs.Load()).Seconds())

	outcomes := map[string]int{}
	hwmDelivered, acted, budget, replaced := 0, 0, 0, 0
	var faults []string
	for i, c := range cases {
		rs := results[i]
		if rs.fault == "budget" {
			budget++
			continue
		}
		if rs.fault != "" {
			faults = append(faults, c.id()+": "+rs.fault)
			continue
		}
		o := rs.obs
		out := "served"
		switch {
		case o.Crashed:
			out = "CRASH " + o.CrashReason + " at " + o.CrashWhere
		case !o.ProbeOK:
			out = "NOT-SERVING"
		case len(rs.vios) > 0 && strings.HasPrefix(rs.vios[0].key, "C35:memory:"):
			out = "VIOLATION memory"
		case len(rs.vios) > 0:
			out = "VIOLATION " + strings.SplitN(rs.vios[0].key, ":", 3)[1]
		case len(o.Calls) > 0:
			out = "served, authorized command performed"
		}
		if len(o.Calls) > 0 && len(rs.vios) == 0 {
			acted++
		}
		if o.Crashed || o.AllocDelta > c35RetireAlloc {
			replaced++
		}
		if o.HWM > 0 {
			hwmDelivered++
		}
		key := fmt.Sprintf("%s | %s | %s", rs.exp.Last, c.Behaviour, out)
		if c.hdr != MuxClusterHeader {
			key = fmt.Sprintf("header %s | %s | %s", c.Header, c.Behaviour, out)
		}
		outcomes[key]++
		r.Distinct(key)
		r.Eval(1)
		r.SampleEvery(i, map[string]any{"case": c, "node_was": rs.exp.Last, "outcome": out}) // no byte counts: they vary a little from run to run
		for _, v := range rs.vios {
			r.Violation(v.key, fmt.Sprintf("header %s, length prefix %s, payload %s, then %s: %s", c.Header, c.Prefix, c.Payload, c.Behaviour, v.what),
				map[string]any{"case": c, "observed": o})
		}
	}
	r.State(len(cases))
	r.Set("outcomes", outcomes)
	r.Set("cases_after_which_the_worker_process_had_to_be_replaced", replaced)
	r.Set("cases_in_which_an_authorized_command_acted", acted)
	r.Set("cases_in_which_a_high_water_mark_update_was_delivered_without_any_permission_check", hwmDelivered)
	if budget > 0 {
		r.Cap("time budget: %d of %d cases not run", budget, len(cases))
	}
	if len(faults) > 0 {
		r.Cap("%d cases could not be run: %s", len(faults), strings.Join(faults[:min(3, len(faults))], "; "))
		t.Errorf("harness: %d cases could not be run, first: %s", len(faults), faults[0])
	}
	if kit.Replay() == nil && acted == 0 {
		t.Errorf("harness: no authorized command ever reached the mocks; the state oracle would be vacuous")
	}
}
