package cluster

import (
	"bytes"
	"compress/gzip"
	"context"
	"database/sql"
	"encoding/json"
	"errors"
	"fmt"
	"io"
	"net"
	"os"
	"path/filepath"
	"strings"
	"sync"
	"sync/atomic"
	"syscall"
	"testing"
	"time"

	sqlite3 "github.com/mattn/go-sqlite3"
	command "github.com/rqlite/rqlite/v10/command/proto"
	kit "github.com/rqlite/rqlite/v10/internal/verifkit"
	"github.com/rqlite/rqlite/v10/store"
)

// C21 part "remote": a backup fetched from another node with the real
// cluster.Client.Backup from the real cluster.Service (backed by a real
// store.Store) is either reported as an error or is the complete backup.
//
// For every request shape x {compression requested by the caller or not} the
// server->client byte stream (response header + backup stream, L bytes) is cut
//
//	eof      after every offset n = 0..L: the client's connection reports a clean
//	         end of stream after n bytes (what a peer that dies/closes produces)
//	reset    after every offset n = 0..L: the connection reports ECONNRESET
//	srcfail  after every offset n = 0..len-1 of the backup stream: the Store behind
//	         the Service fails after having written n bytes; the real Service then
//	         ends the exchange the way it does (a real TCP close reaches the client)
//
// plus the uncut exchange. Oracle: Client.Backup returning nil means the bytes it
// wrote are exactly the complete backup (as a complete gzip stream of it when
// compression was requested); anything else has to be a non-nil error.

type c21Layer struct{ net.Listener }

func (l *c21Layer) Dial(addr string, timeout time.Duration) (net.Conn, error) {
	return net.DialTimeout("tcp", addr, timeout)
}

func c21Scratch(t *testing.T) string {
	if st, err := os.Stat("/dev/shm"); err == nil && st.IsDir() {
		if d, err := os.MkdirTemp("/dev/shm", "verif-c21-"); err == nil {
			t.Cleanup(func() { os.RemoveAll(d) })
			return d
		}
	}
	return kit.Scratch(t)
}

type c21Shape struct {
	Format string `json:"format"` // binary | sql | delete
	Vacuum bool   `json:"vacuum"`
	Tables string `json:"tables"`
}

func (s c21Shape) String() string {
	o := s.Format
	if s.Vacuum {
		o += "+vacuum"
	}
	if s.Tables != "" {
		o += "+tables=" + s.Tables
	}
	return o
}

func (s c21Shape) request(compress bool) *command.BackupRequest {
	br := &command.BackupRequest{Vacuum: s.Vacuum, Compress: compress, Leader: true}
	switch s.Format {
	case "binary":
		br.Format = command.BackupRequest_BACKUP_REQUEST_FORMAT_BINARY
	case "sql":
		br.Format = command.BackupRequest_BACKUP_REQUEST_FORMAT_SQL
	case "delete":
		br.Format = command.BackupRequest_BACKUP_REQUEST_FORMAT_DELETE
	}
	if s.Tables != "" {
		br.Tables = strings.Split(s.Tables, ",")
	}
	return br
}

func c21ShapeOf(br *command.BackupRequest) c21Shape {
	s := c21Shape{Vacuum: br.Vacuum, Tables: strings.Join(br.Tables, ",")}
	switch br.Format {
	case command.BackupRequest_BACKUP_REQUEST_FORMAT_BINARY:
		s.Format = "binary"
	case command.BackupRequest_BACKUP_REQUEST_FORMAT_SQL:
		s.Format = "sql"
	case command.BackupRequest_BACKUP_REQUEST_FORMAT_DELETE:
		s.Format = "delete"
	}
	return s
}

// c21Source is the Database behind the Service: the real Store. What the Store
// writes for a request shape is recorded the first time and written again for
// later requests of the same shape (the database does not change in between),
// so that tens of thousands of exchanges do not each pay for a VACUUM. failAfter
// >= 0 makes Backup fail after that many bytes have been written.
type c21Source struct {
	*store.Store
	rec       *c21Recorded
	failAfter atomic.Int64
}

type c21Recorded struct {
	mu sync.Mutex
	m  map[string][]byte
}

func (r *c21Recorded) get(s *store.Store, br *command.BackupRequest) ([]byte, error) {
	key := fmt.Sprintf("%s/gz=%v", c21ShapeOf(br), br.Compress)
	r.mu.Lock()
	defer r.mu.Unlock()
	if b, ok := r.m[key]; ok {
		return b, nil
	}
	var buf bytes.Buffer
	if err := s.Backup(context.Background(), br, &buf); err != nil {
		return nil, err
	}
	r.m[key] = buf.Bytes()
	return r.m[key], nil
}

var errC21Source = errors.New("c21: injected failure of the backup source")

func (d *c21Source) Backup(ctx context.Context, br *command.BackupRequest, dst io.Writer) error {
	b, err := d.rec.get(d.Store, br)
	if err != nil {
		return err
	}
	if fa := int(d.failAfter.Load()); fa >= 0 && fa < len(b) {
		if fa > 0 {
			if _, err := dst.Write(b[:fa]); err != nil {
				return err
			}
		}
		return errC21Source
	}
	_, err = dst.Write(b)
	return err
}

// c21Dialer hands the client connections whose inbound stream is cut.
type c21Dialer struct {
	inner Dialer
	limit int    // < 0: never cut
	kind  string // eof | reset
	mu    sync.Mutex
	seen  int // bytes the client read from the last connection
}

func (d *c21Dialer) Dial(addr string, timeout time.Duration) (net.Conn, error) {
	c, err := d.inner.Dial(addr, timeout)
	if err != nil {
		return nil, err
	}
	return &c21Conn{Conn: c, d: d}, nil
}

type c21Conn struct {
	net.Conn
	d    *c21Dialer
	read int
}

func (c *c21Conn) Read(p []byte) (int, error) {
	if c.d.limit >= 0 {
		rem := c.d.limit - c.read
		if rem <= 0 {
			c.Conn.Close()
			if c.d.kind == "reset" {
				return 0, &net.OpError{Op: "read", Net: "tcp", Err: syscall.ECONNRESET}
			}
			return 0, io.EOF
		}
		if len(p) > rem {
			p = p[:rem]
		}
	}
	n, err := c.Conn.Read(p)
	c.read += n
	c.d.mu.Lock()
	c.d.seen = c.read
	c.d.mu.Unlock()
	return n, err
}

type c21Node struct {
	svc *Service
	src *c21Source
	cl  func()
}

func c21NewNode(t *testing.T, st *store.Store, rec *c21Recorded) *c21Node {
	ln, mux := mustNewMux()
	go mux.Serve()
	tn := mux.Listen(1)
	src := &c21Source{Store: st, rec: rec}
	src.failAfter.Store(-1)
	svc := New(tn, src, mustNewMockManager(), mustNewMockCredentialStore())
	if err := svc.Open(); err != nil {
		t.Fatalf("harness: %v", err)
	}
	return &c21Node{svc: svc, src: src, cl: func() { svc.Close(); ln.Close(); mux.Close() }}
}

type c21Case struct {
	Shape    c21Shape `json:"shape"`
	Compress bool     `json:"compress"`
	Kind     string   `json:"kind"` // uncut | eof | reset | srcfail | realsrc-sqlcol | realsrc-dbfile
	N        int      `json:"n"`
}

func (c c21Case) String() string {
	gz := "caller-wants-plain"
	if c.Compress {
		gz = "caller-wants-gzip"
	}
	if c.Kind == "uncut" {
		return fmt.Sprintf("%s %s uncut", c.Shape, gz)
	}
	return fmt.Sprintf("%s %s %s@%d", c.Shape, gz, c.Kind, c.N)
}

// c21Fetch runs one exchange through the real client and returns what it wrote and its error.
func c21Fetch(node *c21Node, cs c21Case) ([]byte, error, int) {
	dl := &c21Dialer{inner: mustNewDialer(1, false, false), limit: -1, kind: cs.Kind}
	node.src.failAfter.Store(-1)
	timeout := 20 * time.Second
	if cs.N == 1<<30 {
		timeout = 5 * time.Second // reference fetch
	}
	switch cs.Kind {
	case "eof", "reset":
		dl.limit = cs.N
	case "srcfail":
		node.src.failAfter.Store(int64(cs.N))
	case "uncut":
		// nothing ends the exchange but the deadlines: with compression requested the client
		// reads until the connection ends, which an idle Service does only after 30 s; the
		// client's own timeout is kept short here - any outcome is judged the same way
		timeout = 1500 * time.Millisecond
	}
	c := NewClient(dl, timeout)
	var out bytes.Buffer
	err := c.Backup(context.Background(), cs.Shape.request(cs.Compress), node.svc.Addr(), nil, timeout, &out)
	dl.mu.Lock()
	seen := dl.seen
	dl.mu.Unlock()
	return out.Bytes(), err, seen
}

func c21Gunzip(b []byte) ([]byte, error) {
	zr, err := gzip.NewReader(bytes.NewReader(b))
	if err != nil {
		return nil, err
	}
	zr.Multistream(false)
	p, err := io.ReadAll(zr)
	if err != nil {
		return nil, err
	}
	return p, nil
}

var c21DriverOnce sync.Once

// c21Rows restores a backup payload and returns the rows of table kv.
func c21Rows(t *testing.T, dir string, sh c21Shape, payload []byte) (string, error) {
	c21DriverOnce.Do(func() { sql.Register("c21r-sqlite3", &sqlite3.SQLiteDriver{}) })
	p := filepath.Join(dir, fmt.Sprintf("p-%d.db", time.Now().UnixNano()))
	defer os.Remove(p)
	if sh.Format != "sql" {
		if err := os.WriteFile(p, payload, 0o644); err != nil {
			t.Fatal(err)
		}
	}
	d, err := sql.Open("c21r-sqlite3", "file:"+p)
	if err != nil {
		return "", err
	}
	defer d.Close()
	d.SetMaxOpenConns(1)
	if sh.Format == "sql" {
		if _, err := d.Exec(string(payload)); err != nil {
			return "", fmt.Errorf("dump does not execute: %w", err)
		}
	}
	var ic string
	if err := d.QueryRow("PRAGMA integrity_check").Scan(&ic); err != nil || ic != "ok" {
		return "", fmt.Errorf("integrity_check: %q %v", ic, err)
	}
	rows, err := d.Query("SELECT k || '=' || quote(v) FROM kv ORDER BY k")
	if err != nil {
		return "", err
	}
	defer rows.Close()
	var out []string
	for rows.Next() {
		var s string
		rows.Scan(&s)
		out = append(out, s)
	}
	return strings.Join(out, ","), rows.Err()
}

func TestVerif_C21(t *testing.T) {
	r := kit.Start(t, "C21", "remote")
	defer r.Finish()
	r.Rule("request shapes {binary, binary+vacuum, delete, sql, sql+tables} x {caller asks for gzip, caller asks for plain} fetched by the real cluster.Client.Backup from the real cluster.Service in front of a real Store; the server->client stream is cut after EVERY byte offset 0..L with a clean end of stream, after every offset with a connection reset, and the Store is made to fail after EVERY number of bytes written 0..len-1 (the Service ends the exchange itself); plus the uncut exchange. A nil return must have written exactly the complete backup. distinct = (shape, compression, kind, success | error class)")
	r.Assume("the harness-owned net.Conn reports the end of stream / reset after n bytes the way a dead peer's socket does; TLS between nodes is not used")
	r.Note("the uncut exchange with compression requested ends only by a deadline (the client reads until the connection ends, the Service keeps it open): error or success are both accepted there, a success is compared with the complete backup")

	dir := c21Scratch(t)
	ln, err := net.Listen("tcp", "localhost:0")
	if err != nil {
		t.Fatal(err)
	}
	st := store.New(&store.Config{DBConf: store.NewDBConfig(), Dir: filepath.Join(dir, "node"), ID: "c21"}, &c21Layer{ln})
	if err := st.Open(); err != nil {
		t.Fatalf("harness: open: %v", err)
	}
	defer st.Close(true)
	defer ln.Close()
	if err := st.Bootstrap(store.NewServer(st.ID(), st.Addr(), true)); err != nil {
		t.Fatalf("harness: bootstrap: %v", err)
	}
	if _, err := st.WaitForLeader(60 * time.Second); err != nil {
		t.Fatalf("harness: leader: %v", err)
	}
	stmts := []string{
		`CREATE TABLE kv(k TEXT PRIMARY KEY, v)`,
		`CREATE TABLE other(id INTEGER PRIMARY KEY, x)`,
		`INSERT INTO kv VALUES('a',1),('b','two'),('c',x'00ff')`,
		`INSERT INTO other VALUES(1,'o')`,
	}
	want := "a=1,b='two',c=X'00FF'"
	if r.Thorough() {
		// a few KB that do not compress away
		stmts = append(stmts, `WITH RECURSIVE c(i) AS (SELECT 1 UNION ALL SELECT i+1 FROM c WHERE i<40) INSERT INTO other(id,x) SELECT i+1, printf('%x-%x-%x-%x', i*2654435761, i*i*40503+977, (i+13)*7919*104729, i*i*i*31337) FROM c`)
	}
	er := &command.ExecuteRequest{Request: &command.Request{Transaction: true}}
	for _, q := range stmts {
		er.Request.Statements = append(er.Request.Statements, &command.Statement{Sql: q})
	}
	resp, _, err := st.Execute(context.Background(), er)
	if err != nil {
		t.Fatalf("harness: execute: %v", err)
	}
	for i, rr := range resp {
		if e := rr.GetError() + rr.GetE().GetError(); e != "" {
			t.Fatalf("harness: %s: %s", stmts[i], e)
		}
	}

	rec := &c21Recorded{m: map[string][]byte{}}
	shapes := []c21Shape{{"binary", false, ""}, {"binary", true, ""}, {"delete", false, ""}, {"sql", false, ""}, {"sql", false, "kv"}}

	if raw := kit.Replay(); raw != nil {
		var cs c21Case
		if err := json.Unmarshal(raw, &cs); err != nil {
			t.Fatal(err)
		}
		if strings.HasPrefix(cs.Kind, "realsrc") {
			c21RealSource(t, r, dir, &cs)
			return
		}
		node := c21NewNode(t, st, rec)
		defer node.cl()
		ref, rerr, _ := c21Fetch(node, c21Case{Shape: cs.Shape, Kind: "eof", N: 1 << 30})
		if rerr != nil {
			t.Fatalf("harness: reference fetch: %v", rerr)
		}
		c21Judge(t, r, dir, node, cs, ref, want)
		return
	}

	// reference payload and stream length per shape
	type refT struct {
		plain  []byte
		L      int // bytes of the whole server->client stream
		stream int // bytes of the backup stream proper
	}
	refs := map[c21Shape]refT{}
	node0 := c21NewNode(t, st, rec)
	for _, sh := range shapes {
		// a cut far beyond the end never fires; the stream is read through the decompressing path, which ends by itself
		plain, err, seen := c21Fetch(node0, c21Case{Shape: sh, Kind: "eof", N: 1 << 30})
		if err != nil {
			// an error is an allowed way to end a backup; without a complete reference the cuts of this shape cannot be judged
			r.Cap("shape %s: the uncut exchange itself ends in an error (%v); its cuts are not enumerated", sh, err)
			continue
		}
		wire, err := rec.get(st, func() *command.BackupRequest { b := sh.request(true); return b }())
		if err != nil {
			t.Fatalf("harness: %v", err)
		}
		// the local backup of the same shape, taken directly from the Store
		var local bytes.Buffer
		if err := st.Backup(context.Background(), sh.request(false), &local); err != nil {
			t.Fatalf("harness: local backup of %s: %v", sh, err)
		}
		r.Eval(1)
		if !bytes.Equal(local.Bytes(), plain) {
			lr, lerr := c21Rows(t, dir, sh, local.Bytes())
			pr, perr := c21Rows(t, dir, sh, plain)
			if lerr != nil || perr != nil || lr != pr {
				r.Violation("C21:remote:uncut-differs-from-local", fmt.Sprintf("%s: the uncut remote backup (%d bytes) and the local backup (%d bytes) differ: rows %q/%v vs %q/%v", sh, len(plain), local.Len(), pr, perr, lr, lerr), c21Case{Shape: sh, Kind: "eof", N: 1 << 30})
			}
		}
		got, err := c21Rows(t, dir, sh, plain)
		if err != nil || got != want {
			r.Violation("C21:remote:uncut-not-the-database", fmt.Sprintf("%s: the uncut remote backup restores to %q (%v), the database holds %q", sh, got, err, want), c21Case{Shape: sh, Kind: "eof", N: 1 << 30})
		}
		refs[sh] = refT{plain: plain, L: seen, stream: len(wire)}
		t.Logf("shape %s: payload %d bytes, backup stream %d bytes, server->client stream %d bytes", sh, len(plain), len(wire), seen)
		r.Set("stream_bytes_"+sh.String(), seen)
	}
	node0.cl()

	var cases []c21Case
	for _, sh := range shapes {
		ref, ok := refs[sh]
		if !ok {
			continue
		}
		for _, gz := range []bool{false, true} {
			cases = append(cases, c21Case{sh, gz, "uncut", 0})
			for n := 0; n <= ref.L; n++ {
				cases = append(cases, c21Case{sh, gz, "eof", n}, c21Case{sh, gz, "reset", n})
			}
			for n := 0; n < ref.stream; n++ {
				cases = append(cases, c21Case{sh, gz, "srcfail", n})
			}
		}
	}
	for i := range cases {
		r.SampleEvery(i, cases[i].String())
	}
	const workers = 8
	var wg sync.WaitGroup
	for w := 0; w < workers; w++ {
		wg.Add(1)
		go func(w int) {
			defer wg.Done()
			node := c21NewNode(t, st, rec)
			defer node.cl()
			for i := w; i < len(cases); i += workers {
				c21Judge(t, r, dir, node, cases[i], refs[cases[i].Shape].plain, want)
			}
		}(w)
	}
	wg.Wait()
	r.State(len(cases))
	c21RealSource(t, r, dir, nil)
}

// c21RealSource: the backup fails INSIDE the real Store (no re-serving wrapper in
// between), behind the real Service, fetched by the real Client.
//
//	realsrc-sqlcol  a table sorted after a healthy one has a column whose name
//	                contains a double quote: the real db.Dump emits the first table and
//	                then fails on the row query of the second (a real, deterministic
//	                mid-stream failure of the SQL dump)
//	realsrc-dbfile  the main database file cannot be read (its directory entry is
//	                replaced by one on which read(2) fails) while the Store copies it
//	                for a binary backup (a real failure of the file copy)
//
// Oracle: the local Store.Backup of the same request says whether the backup can
// be produced. If it cannot (non-nil error), Client.Backup must return an error;
// if it can, a nil return must have written the same backup.
func c21RealSource(t *testing.T, r *kit.Run, dir string, only *c21Case) {
	ln, err := net.Listen("tcp", "localhost:0")
	if err != nil {
		t.Fatal(err)
	}
	defer ln.Close()
	sdir := filepath.Join(dir, "badnode")
	st := store.New(&store.Config{DBConf: store.NewDBConfig(), Dir: sdir, ID: "c21bad"}, &c21Layer{ln})
	if err := st.Open(); err != nil {
		t.Fatalf("harness: open: %v", err)
	}
	defer st.Close(true)
	if err := st.Bootstrap(store.NewServer(st.ID(), st.Addr(), true)); err != nil {
		t.Fatalf("harness: bootstrap: %v", err)
	}
	if _, err := st.WaitForLeader(60 * time.Second); err != nil {
		t.Fatalf("harness: leader: %v", err)
	}
	er := &command.ExecuteRequest{Request: &command.Request{Transaction: true}}
	for _, q := range []string{
		`CREATE TABLE a_ok(id INTEGER PRIMARY KEY, v TEXT)`,
		`INSERT INTO a_ok VALUES(1,'one'),(2,'two'),(3,'three')`,
		`CREATE TABLE b_bad(id INTEGER PRIMARY KEY, "we""ird" TEXT)`,
		`INSERT INTO b_bad VALUES(1,'x')`,
	} {
		er.Request.Statements = append(er.Request.Statements, &command.Statement{Sql: q})
	}
	resp, _, err := st.Execute(context.Background(), er)
	if err != nil {
		t.Fatalf("harness: execute: %v", err)
	}
	for _, rr := range resp {
		if e := rr.GetError() + rr.GetE().GetError(); e != "" {
			t.Fatalf("harness: %s", e)
		}
	}
	// everything into the main file, WAL empty: a binary backup then copies the file without a snapshot
	if err := st.Snapshot(0); err != nil {
		t.Fatalf("harness: snapshot: %v", err)
	}

	lnm, mux := mustNewMux()
	go mux.Serve()
	svc := New(mux.Listen(1), st, mustNewMockManager(), mustNewMockCredentialStore())
	if err := svc.Open(); err != nil {
		t.Fatalf("harness: %v", err)
	}
	defer func() { svc.Close(); lnm.Close(); mux.Close() }()

	dbFile := filepath.Join(sdir, "db.sqlite")
	breakFile := func() func() {
		if err := os.Rename(dbFile, dbFile+".real"); err != nil {
			t.Fatalf("harness: %v", err)
		}
		if err := os.Symlink(sdir, dbFile); err != nil { // read(2) on a directory fails with EISDIR
			t.Fatalf("harness: %v", err)
		}
		return func() {
			os.Remove(dbFile)
			if err := os.Rename(dbFile+".real", dbFile); err != nil {
				t.Fatalf("harness: %v", err)
			}
		}
	}

	cases := []c21Case{}
	for _, gz := range []bool{false, true} {
		cases = append(cases,
			c21Case{c21Shape{"sql", false, ""}, gz, "realsrc-sqlcol", 0},
			c21Case{c21Shape{"sql", false, "a_ok,b_bad"}, gz, "realsrc-sqlcol", 0},
			c21Case{c21Shape{"sql", false, "a_ok"}, gz, "realsrc-sqlcol", 0}, // the healthy table alone: can be produced
			c21Case{c21Shape{"binary", false, ""}, gz, "realsrc-sqlcol", 0},  // the file copy does not care about names
			c21Case{c21Shape{"binary", false, ""}, gz, "realsrc-dbfile", 0},
		)
	}
	if only != nil {
		cases = []c21Case{*only}
	}
	for _, cs := range cases {
		restore := func() {}
		if cs.Kind == "realsrc-dbfile" {
			restore = breakFile()
		}
		var local bytes.Buffer
		lerr := st.Backup(context.Background(), cs.Shape.request(cs.Compress), &local)
		c := NewClient(mustNewDialer(1, false, false), 20*time.Second)
		var out bytes.Buffer
		rerr := c.Backup(context.Background(), cs.Shape.request(cs.Compress), svc.Addr(), nil, 20*time.Second, &out)
		restore()
		r.Eval(1)
		gz := "uncompressed"
		if cs.Compress {
			gz = "compressed"
		}
		lo := "local-ok"
		if lerr != nil {
			lo = "local-error"
		}
		if rerr != nil {
			r.Distinct(fmt.Sprintf("%s %s %s %s remote-error", cs.Shape, gz, cs.Kind, lo))
			t.Logf("real source %s: local err=%v; remote err=%v", cs, lerr, rerr)
			continue
		}
		got, lgot := out.Bytes(), local.Bytes()
		var gerr error
		if cs.Compress {
			if got, gerr = c21Gunzip(got); gerr == nil && lerr == nil {
				lgot, gerr = c21Gunzip(lgot)
			}
		}
		if lerr == nil && gerr == nil && bytes.Equal(got, lgot) {
			r.Distinct(fmt.Sprintf("%s %s %s %s remote-success-complete", cs.Shape, gz, cs.Kind, lo))
			continue
		}
		r.Distinct(fmt.Sprintf("%s %s %s %s remote-success-INCOMPLETE", cs.Shape, gz, cs.Kind, lo))
		show := got
		if len(show) > 160 {
			show = show[:160]
		}
		why := fmt.Sprintf("the Store cannot produce this backup (local Store.Backup: %v)", lerr)
		if lerr == nil {
			why = fmt.Sprintf("it differs from the local backup of %d bytes (gunzip: %v)", len(lgot), gerr)
		}
		r.Violation(fmt.Sprintf("C21:source-failure-reported-success:%s:remote:%s", cs.Shape.Format, gz),
			fmt.Sprintf("%s: Client.Backup returned nil with %d payload bytes %q, but %s", cs, len(got), show, why), cs)
	}
}

func c21Judge(t *testing.T, r *kit.Run, dir string, node *c21Node, cs c21Case, plain []byte, want string) {
	t0 := time.Now()
	out, err, seen := c21Fetch(node, cs)
	r.Eval(1)
	if cs.Kind == "uncut" {
		t.Logf("uncut exchange %s: err=%v, %d bytes written, took %s", cs, err, len(out), time.Since(t0).Round(100*time.Millisecond))
	}
	gz := "uncompressed"
	if cs.Compress {
		gz = "compressed"
	}
	if err != nil {
		e := err.Error()
		for _, k := range []string{"unexpected EOF", "EOF", "connection reset", "i/o timeout", "gzip: invalid", "flate: corrupt", "closed"} {
			if strings.Contains(e, k) {
				e = k
				break
			}
		}
		if len(e) > 40 {
			e = e[:40]
		}
		r.Distinct(fmt.Sprintf("%s %s %s error:%s", cs.Shape, gz, cs.Kind, e))
		return
	}
	got := out
	complete := true
	var why string
	if cs.Compress {
		p, gerr := c21Gunzip(out)
		if gerr != nil {
			complete = false
			why = fmt.Sprintf("the %d bytes written are not a complete gzip stream (%v)", len(out), gerr)
		}
		got = p
	}
	if complete && !bytes.Equal(got, plain) {
		complete = false
		why = fmt.Sprintf("the %d payload bytes written differ from the complete backup of %d bytes", len(got), len(plain))
	}
	if complete {
		r.Distinct(fmt.Sprintf("%s %s %s success-complete", cs.Shape, gz, cs.Kind))
		return
	}
	r.Distinct(fmt.Sprintf("%s %s %s success-INCOMPLETE", cs.Shape, gz, cs.Kind))
	key := fmt.Sprintf("C21:cut-stream-reported-success:%s:%s", gz, cs.Kind)
	r.Violation(key, fmt.Sprintf("%s: Client.Backup returned nil after the client had read %d bytes of the stream, but %s", cs, seen, why), cs)
}
