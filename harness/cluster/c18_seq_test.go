package cluster

import (
	"bufio"
	"bytes"
	"compress/gzip"
	"encoding/binary"
	"encoding/json"
	"fmt"
	"io"
	"net"
	"sort"
	"strings"
	"sync"
	"sync/atomic"
	"testing"
	"time"

	"github.com/rqlite/rqlite/v10/auth"
	"github.com/rqlite/rqlite/v10/cluster/proto"
	kit "github.com/rqlite/rqlite/v10/internal/verifkit"
	pb "google.golang.org/protobuf/proto"
)

// C18, part "cluster", SEQUENCES: several commands on ONE raw TCP connection
// (the cluster client pools connections, so this is what a node sees). Every
// command of a sequence is judged on its own credentials alone; anything the
// service remembers from an earlier command of the connection shows up as a
// decision that differs from the reference.
//
// Credentials file of a sequence over command types A, B (A's permission PA,
// B's permission PB): user u/p holds exactly PA, user v/q holds exactly PB (an
// unrelated permission when PA == PB). Presentations: u right password, u wrong
// password, no credentials, unknown user, v (a valid user lacking PA).

type c18SeqPres struct {
	Name, User, Pass string
	None             bool
}

var c18SeqPresentations = []c18SeqPres{
	{Name: "u-right-password", User: "u", Pass: "p"},
	{Name: "u-wrong-password", User: "u", Pass: "bad"},
	{Name: "no-credentials", None: true},
	{Name: "unknown-user", User: "x", Pass: "p"},
	{Name: "other-user-v", User: "v", Pass: "q"},
}

type c18SeqStep struct {
	Cmd  string `json:"command"`
	Pres string `json:"presentation"`
}

type c18SeqStepObs struct {
	Expected string `json:"expected"`
	Frame    bool   `json:"frame"`
	Err      string `json:"error"`
	Data     bool   `json:"data"`  // marker / non-error fields in this command's answer
	Calls    string `json:"calls"` // mock calls recorded while this command was served
}

type c18SeqCase struct {
	Steps    []c18SeqStep    `json:"steps"`
	Store    string          `json:"store"`
	Obs      []c18SeqStepObs `json:"observed"`
	Leftover int             `json:"bytes_after_last_answer"`
	LeftData bool            `json:"data_after_last_answer"`
}

func (c c18SeqCase) id() string {
	var p []string
	for _, s := range c.Steps {
		p = append(p, s.Cmd+"@"+s.Pres)
	}
	return strings.Join(p, " ; ")
}

// first permission of the (single-alternative) requirement of a command; sequences use
// commands whose requirement is one conjunction
func c18SeqStore(cmds []c18Cmd) (string, []c18Entry) {
	need := map[string]bool{}
	var firstPerms []string
	for _, p := range cmds[0].Need[0] {
		firstPerms = append(firstPerms, p)
		need[p] = true
	}
	var vPerms []string
	for _, c := range cmds[1:] {
		for _, p := range c.Need[0] {
			if !need[p] {
				need[p] = true
				vPerms = append(vPerms, p)
			}
		}
	}
	if len(vPerms) == 0 {
		vPerms = []string{auth.PermStatus} // unrelated
	}
	entries := []c18Entry{{User: "u", Pass: "p", Perms: firstPerms}, {User: "v", Pass: "q", Perms: vPerms}}
	b, _ := json.Marshal(entries)
	return string(b), entries
}

// c18ReadFrame reads one length-prefixed frame.
func c18ReadFrame(br *bufio.Reader) ([]byte, bool) {
	var l [8]byte
	if _, err := io.ReadFull(br, l[:]); err != nil {
		return nil, false
	}
	sz := binary.LittleEndian.Uint64(l[:])
	if sz > 1<<24 {
		return nil, false
	}
	body := make([]byte, sz)
	if _, err := io.ReadFull(br, body); err != nil {
		return nil, false
	}
	return body, true
}

func (n *c18Node) runSequence(t testing.TB, cmds []c18Cmd, pres []c18SeqPres, ref c18Model) ([]c18SeqStepObs, int, bool) {
	n.rec.take()
	conn, err := net.DialTimeout("tcp", n.ln.Addr().String(), 10*time.Second)
	if err != nil {
		t.Fatalf("dial: %v", err)
	}
	defer conn.Close()
	conn.SetDeadline(time.Now().Add(60 * time.Second))
	br := bufio.NewReader(conn)
	var out []c18SeqStepObs
	for i, cmd := range cmds {
		c := &proto.Command{Type: cmd.Type}
		cmd.build(c)
		u, pw := pres[i].User, pres[i].Pass
		if !pres[i].None {
			c.Credentials = &proto.Credentials{Username: u, Password: pw}
		} else {
			u, pw = "", ""
		}
		p, err := pb.Marshal(c)
		if err != nil {
			t.Fatalf("marshal: %v", err)
		}
		msg := make([]byte, 8, 8+len(p))
		binary.LittleEndian.PutUint64(msg, uint64(len(p)))
		msg = append(msg, p...)
		o := c18SeqStepObs{Expected: map[bool]string{true: "allow", false: "deny"}[ref.allowed(u, pw, cmd.Need)]}
		if _, err := conn.Write(msg); err != nil {
			out = append(out, o)
			continue
		}
		body, ok := c18ReadFrame(br)
		if ok {
			o.Frame = true
			o.Err, o.Data = c18Decode(cmd.Type, body)
			o.Data = o.Data || c18HasMarker(body)
			if cmd.Type == proto.Command_COMMAND_TYPE_BACKUP_STREAM && o.Err == "" {
				// the stream that follows: exactly one gzip member (bufio.Reader is a ByteReader,
				// so the decompressor does not read past it)
				if zr, err := gzip.NewReader(br); err == nil {
					zr.Multistream(false)
					img, _ := io.ReadAll(zr)
					o.Data = o.Data || bytes.Contains(img, []byte(c18Marker))
				}
			}
		}
		o.Calls = strings.Join(n.rec.take(), ",")
		out = append(out, o)
	}
	conn.(*net.TCPConn).CloseWrite()
	rest, _ := io.ReadAll(br)
	if late := n.rec.take(); len(late) > 0 && len(out) > 0 {
		out[len(out)-1].Calls = strings.Trim(out[len(out)-1].Calls+","+strings.Join(late, ","), ",")
	}
	return out, len(rest), c18HasMarker(rest)
}

func c18SeqJudge(c c18SeqCase) []c18Vio {
	var v []c18Vio
	anyDenied := false
	for i, o := range c.Obs {
		st := c.Steps[i]
		where := fmt.Sprintf("%s:%s:command-%d-of-%d", st.Cmd, st.Pres, i+1, len(c.Steps))
		if o.Expected == "deny" {
			anyDenied = true
			if o.Calls != "" {
				v = append(v, c18Vio{"C18:cluster:sequence:action-performed-although-denied:" + where, "performed " + o.Calls})
			}
			if o.Data {
				v = append(v, c18Vio{"C18:cluster:sequence:data-sent-although-denied:" + where, "database content in the answer"})
			}
			if o.Frame && o.Err == "" {
				v = append(v, c18Vio{"C18:cluster:sequence:no-error-although-denied:" + where, "the answer carries no error"})
			}
		} else if o.Err == "unauthorized" {
			v = append(v, c18Vio{"C18:cluster:sequence:refused-although-authorized:" + where, "answered \"unauthorized\""})
		}
	}
	if c.LeftData && anyDenied {
		v = append(v, c18Vio{"C18:cluster:sequence:data-sent-after-the-last-answer", fmt.Sprintf("%d bytes after the last answer carry database content", c.Leftover)})
	}
	return v
}

// c18Sequences enumerates and runs the sequences; returns how many were run.
func c18Sequences(t *testing.T, r *kit.Run, thorough bool, replayID string) int {
	all := c18Commands()
	byName := map[string]c18Cmd{}
	var judged []c18Cmd
	for _, c := range all {
		if c.Need != nil && len(c.Need) == 1 { // one conjunction: every judged command but JOIN/non-voter
			byName[c.name()] = c
			judged = append(judged, c)
		}
	}
	quickNames := []string{"EXECUTE", "QUERY", "REMOVE_NODE", "BACKUP_STREAM"}
	var quickSet []c18Cmd
	for _, n := range quickNames {
		c, ok := byName[n]
		if !ok {
			t.Fatalf("sequence alphabet: command %s not in the table", n)
		}
		quickSet = append(quickSet, c)
	}
	type seq struct{ cmds []c18Cmd }
	var seqs []seq
	pairSet := quickSet
	if thorough {
		pairSet = judged
	}
	for _, a := range pairSet {
		for _, b := range pairSet {
			seqs = append(seqs, seq{[]c18Cmd{a, b}})
		}
	}
	if thorough {
		for _, a := range quickSet {
			for _, b := range quickSet {
				for _, c := range quickSet {
					seqs = append(seqs, seq{[]c18Cmd{a, b, c}})
				}
			}
		}
	}
	type job struct {
		cmds []c18Cmd
		pres []c18SeqPres
	}
	var jobs []job
	for _, s := range seqs {
		var rec func(k int, cur []c18SeqPres)
		rec = func(k int, cur []c18SeqPres) {
			if k == len(s.cmds) {
				jobs = append(jobs, job{s.cmds, append([]c18SeqPres{}, cur...)})
				return
			}
			for _, p := range c18SeqPresentations {
				rec(k+1, append(cur, p))
			}
		}
		rec(0, nil)
	}
	results := make([]*c18SeqCase, len(jobs))
	var wg sync.WaitGroup
	var next atomic.Int64
	for w := 0; w < 8; w++ {
		wg.Add(1)
		go func() {
			defer wg.Done()
			n := c18NewNode(t)
			defer n.close()
			for {
				i := int(next.Add(1)) - 1
				if i >= len(jobs) {
					return
				}
				j := jobs[i]
				c := c18SeqCase{}
				for k := range j.cmds {
					c.Steps = append(c.Steps, c18SeqStep{j.cmds[k].name(), j.pres[k].Name})
				}
				if replayID != "" && c.id() != replayID {
					continue
				}
				var entries []c18Entry
				c.Store, entries = c18SeqStore(j.cmds)
				cs := auth.NewCredentialsStore()
				if err := cs.Load(strings.NewReader(c.Store)); err != nil {
					t.Errorf("credentials %s: %v", c.Store, err)
					return
				}
				n.creds.cur.Store(cs)
				c.Obs, c.Leftover, c.LeftData = n.runSequence(t, j.cmds, j.pres, c18Ref(entries))
				results[i] = &c
			}
		}()
	}
	wg.Wait()
	ran := 0
	outcomes := map[string]int{}
	for _, c := range results {
		if c == nil {
			continue
		}
		ran++
		var k []string
		for i, o := range c.Obs {
			e := o.Err
			if !o.Frame {
				e = "(no frame)"
			}
			k = append(k, fmt.Sprintf("%s %s: err=%q calls=[%s] data=%v", c.Steps[i].Cmd, o.Expected, e, o.Calls, o.Data))
		}
		key := "sequence | " + strings.Join(k, " ; ") + fmt.Sprintf(" | leftover-data=%v", c.LeftData)
		r.Distinct(key)
		var short []string
		for _, o := range c.Obs {
			s := o.Expected + "->"
			switch {
			case o.Calls != "":
				s += "acted"
			case o.Err != "":
				s += "error"
			default:
				s += "nothing"
			}
			short = append(short, s)
		}
		outcomes[strings.Join(short, " ; ")]++
		r.Eval(len(c.Steps))
		if ran == 2 { // one literal sequence for the evidence file (u right password, then u wrong password)
			r.Sample(*c)
		}
		for _, v := range c18SeqJudge(*c) {
			r.Violation(v.key, fmt.Sprintf("one connection, commands [%s], credentials file %s: %s", c.id(), c.Store, v.what),
				map[string]any{"sequence": c})
		}
	}
	if replayID == "" {
		var names []string
		for _, c := range pairSet {
			names = append(names, c.name())
		}
		sort.Strings(names)
		r.Set("sequences", map[string]any{"run": ran, "pair_alphabet": names, "triple_alphabet_thorough": quickNames, "outcomes_per_command": outcomes})
	}
	return ran
}
