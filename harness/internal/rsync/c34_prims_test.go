package rsync

import (
	"errors"
	"fmt"
	"os"
	"sort"
	"strings"
	"testing"
	"time"

	kit "github.com/rqlite/rqlite/v10/internal/verifkit"
	vs "github.com/rqlite/rqlite/v10/internal/verifvsched"
)

// C34: the real CheckAndSet, MultiRSW and ReadyTarget under the controlled
// scheduler. Each scenario is a handful of threads performing begin/end/try/
// blocking operations; every interleaving (unbounded deviations for the small
// scenarios, state-pruned) is executed and the invariants of the statement are
// evaluated inside the critical sections and at the end.

type c34Scn struct {
	name string
	body func(s *vs.Sched, vio func(key, f string, a ...any)) string
	devQ int // deviation bound, quick tier (-1 = unbounded)
	devT int // deviation bound, thorough tier
}

// ---- CheckAndSet ----

func c34CAS(nTry, nRetry int, hold time.Duration) func(*vs.Sched, func(string, string, ...any)) string {
	return c34CASLabel(nTry, nRetry, hold, "")
}

// c34CASLabel: with a non-empty label every thread presents the SAME owner string (rqlite's owner strings
// name the kind of operation - "backup", "snapshot" - not the caller, so two backups do): the gate must
// still admit one holder at a time.
func c34CASLabel(nTry, nRetry int, hold time.Duration, label string) func(*vs.Sched, func(string, string, ...any)) string {
	return func(s *vs.Sched, vio func(string, string, ...any)) string {
		c := NewCheckAndSet()
		holders := 0 // between successful Begin and the return of End
		inCS := 0
		var log []string
		own := func(name string) string { // the owner string a thread presents
			if label != "" {
				return label
			}
			return name
		}
		cs := func(name string) {
			inCS++
			if inCS != 1 {
				vio("C34:cas-two-holders", "%s entered while %d holder(s) inside", name, inCS-1)
			}
			vs.Point("cas:in-cs", "c34:cs")
			if hold > 0 {
				time.Sleep(hold)
			}
			if inCS != 1 {
				vio("C34:cas-two-holders", "%s inside with %d holders", name, inCS)
			}
			if o := c.Owner(); o != own(name) {
				vio("C34:cas-owner-wrong", "owner reported %q while %s holds the gate", o, name)
			}
			inCS--
		}
		for i := 0; i < nTry; i++ {
			name := fmt.Sprintf("try%d", i)
			s.Go(name, func() {
				err := c.Begin(own(name))
				if err != nil {
					if holders == 0 {
						vio("C34:cas-spurious-conflict", "%s: Begin failed (%v) although nobody held the gate", name, err)
					}
					if !errors.Is(err, ErrCASConflict) {
						vio("C34:cas-wrong-error", "%s: %v", name, err)
					}
					log = append(log, name+":conflict")
					return
				}
				holders++
				log = append(log, name+":in")
				cs(name)
				c.End()
				holders--
			})
		}
		for i := 0; i < nRetry; i++ {
			name := fmt.Sprintf("retry%d", i)
			s.Go(name, func() {
				t0 := time.Now()
				err := c.BeginWithRetry(own(name), time.Second, 100*time.Millisecond)
				if err != nil {
					if !errors.Is(err, ErrCASConflictTimeout) {
						vio("C34:cas-wrong-error", "%s: %v", name, err)
					}
					if time.Since(t0) < time.Second {
						vio("C34:cas-retry-gave-up-early", "%s: gave up after %v, limit 1s", name, time.Since(t0))
					}
					log = append(log, name+":timeout")
					return
				}
				holders++
				log = append(log, name+":in")
				cs(name)
				c.End()
				holders--
			})
		}
		if st := s.Run(); st != vs.Done {
			if st == vs.Redundant {
				return ""
			}
			vio("C34:cas-stuck", "execution ended %v: %v", st, s.Blocked())
			return "stuck"
		}
		if c.Owner() != "" || holders != 0 {
			vio("C34:cas-not-released", "owner %q holders %d after all threads ended", c.Owner(), holders)
		}
		if err := c.Begin("final"); err != nil {
			vio("C34:cas-not-released", "gate cannot be taken after all threads ended: %v", err)
		}
		return strings.Join(log, ",")
	}
}

// ---- MultiRSW ----

func c34MRSW(kinds []string) func(*vs.Sched, func(string, string, ...any)) string {
	return func(s *vs.Sched, vio func(string, string, ...any)) string {
		m := NewMultiRSW()
		readers, writers := 0, 0 // holders between acquire success and release return
		inR, inW := 0, 0
		qIn, nQ := 0, 0
		for _, k := range kinds {
			if k == "Q" {
				nQ++
			}
		}
		var log []string
		check := func(who string) {
			if inW > 1 || (inW > 0 && inR > 0) {
				vio("C34:mrsw-readers-and-writer", "%s: %d readers and %d writers inside together", who, inR, inW)
			}
		}
		rcs := func(who string) {
			inR++
			check(who)
			vs.Point("mrsw:in-read", "c34:cs")
			check(who)
			inR--
		}
		wcs := func(who string) {
			inW++
			check(who)
			vs.Point("mrsw:in-write", "c34:cs")
			check(who)
			inW--
		}
		for i, k := range kinds {
			name := fmt.Sprintf("%s%d", k, i)
			switch k {
			case "r": // try reader
				s.Go(name, func() {
					if err := m.BeginRead(); err != nil {
						if writers == 0 {
							vio("C34:mrsw-spurious-conflict", "%s: BeginRead failed (%v) with no writer", name, err)
						}
						log = append(log, name+":conflict")
						return
					}
					readers++
					log = append(log, name+":in")
					rcs(name)
					m.EndRead()
					readers--
				})
			case "R": // blocking reader
				s.Go(name, func() {
					m.BeginReadBlocking()
					readers++
					log = append(log, name+":in")
					rcs(name)
					m.EndRead()
					readers--
				})
			case "Q": // blocking reader that stays inside until every Q reader is inside: readers share the lock, so
				// once no writer holds it every parked reader must get in, not one per release
				s.Go(name, func() {
					m.BeginReadBlocking()
					readers++
					qIn++
					vs.Touch("c34:q")
					log = append(log, name+":in")
					vs.Block("all-readers-inside", func() bool { return qIn >= nQ }, "c34:q")
					rcs(name)
					m.EndRead()
					readers--
				})
			case "w":
				s.Go(name, func() {
					if err := m.BeginWrite(name); err != nil {
						if writers == 0 && readers == 0 {
							vio("C34:mrsw-spurious-conflict", "%s: BeginWrite failed (%v) with no holder", name, err)
						}
						log = append(log, name+":conflict")
						return
					}
					writers++
					log = append(log, name+":in")
					wcs(name)
					m.EndWrite()
					writers--
				})
			case "W":
				s.Go(name, func() {
					m.BeginWriteBlocking(name)
					writers++
					log = append(log, name+":in")
					wcs(name)
					m.EndWrite()
					writers--
				})
			case "u": // reader that tries to upgrade
				s.Go(name, func() {
					if err := m.BeginRead(); err != nil {
						if writers == 0 {
							vio("C34:mrsw-spurious-conflict", "%s: BeginRead failed (%v) with no writer", name, err)
						}
						log = append(log, name+":conflict")
						return
					}
					readers++
					rcs(name)
					if err := m.UpgradeToWriter(name); err != nil {
						if writers == 0 && readers <= 1 {
							vio("C34:mrsw-spurious-conflict", "%s: upgrade failed (%v) as the only reader", name, err)
						}
						log = append(log, name+":noupgrade")
						m.EndRead()
						readers--
						return
					}
					readers--
					writers++
					log = append(log, name+":upgraded")
					wcs(name)
					m.EndWrite()
					writers--
				})
			}
		}
		if st := s.Run(); st != vs.Done {
			if st == vs.Redundant {
				return ""
			}
			vio("C34:mrsw-blocked-forever", "execution ended %v with no holder able to release: %v (log %v)", st, s.Blocked(), log)
			return "stuck"
		}
		if err := m.BeginWrite("final"); err != nil {
			vio("C34:mrsw-not-released", "lock not free after all threads ended: %v", err)
		}
		return strings.Join(log, ",")
	}
}

// ---- ReadyTarget ----

func c34RT(targets []uint64, signals [][]uint64, unsub int) func(*vs.Sched, func(string, string, ...any)) string {
	return func(s *vs.Sched, vio func(string, string, ...any)) string {
		rt := NewReadyTarget[uint64]()
		var started, completed uint64 // max index for which Signal was called / has returned
		type sub struct {
			target     uint64
			ch         <-chan struct{}
			woke       bool
			startedAtW uint64
			unsub      bool
		}
		subs := make([]*sub, len(targets))
		quit := make(chan struct{})
		for i, tg := range targets {
			sb := &sub{target: tg}
			subs[i] = sb
			s.Go(fmt.Sprintf("sub%d", i), func() {
				sb.ch = rt.Subscribe(sb.target)
				vs.Touch("c34:subs")
				if i == unsub {
					vs.Point("rt:unsub", "c34:subs")
					rt.Unsubscribe(sb.ch)
					sb.unsub = true
					return
				}
				ch := sb.ch
				s.GoDaemon(fmt.Sprintf("wait%d", i), func() {
					vs.Point("rt:wait", ch)
					select {
					case <-ch:
						sb.woke = true
						sb.startedAtW = started
					case <-quit:
					}
				})
			})
		}
		for i, sg := range signals {
			s.Go(fmt.Sprintf("sig%d", i), func() {
				for _, x := range sg {
					if x > started {
						started = x
					}
					vs.Touch("c34:sig")
					rt.Signal(x)
					if x > completed {
						completed = x
					}
				}
			})
		}
		st := s.Run()
		if st == vs.Redundant {
			close(quit)
			return ""
		}
		if st != vs.Done {
			vio("C34:rt-stuck", "execution ended %v: %v", st, s.Blocked())
			close(quit)
			return "stuck"
		}
		var obs []string
		for i, sb := range subs {
			if sb.unsub {
				continue
			}
			// the waiter daemon may not have been scheduled yet: the channel state is the ground truth
			if !sb.woke {
				select {
				case <-sb.ch:
					sb.woke = true
					sb.startedAtW = started
				default:
				}
			}
			if sb.woke && sb.startedAtW < sb.target {
				vio("C34:rt-woken-early", "subscriber %d (target %d) woken when the largest index signalled was %d", i, sb.target, sb.startedAtW)
			}
			if !sb.woke && sb.target <= completed {
				vio("C34:rt-not-woken", "subscriber %d (target %d) still waiting after Signal(%d) returned", i, sb.target, completed)
			}
			if sb.woke && sb.target > completed {
				vio("C34:rt-woken-early", "subscriber %d (target %d) woken although only %d was reached", i, sb.target, completed)
			}
			obs = append(obs, fmt.Sprintf("%d:%v", i, sb.woke))
		}
		// a subscription made now for a reached target must come back closed
		select {
		case <-rt.Subscribe(completed):
		default:
			if completed > 0 {
				vio("C34:rt-not-woken", "Subscribe(%d) after it was reached is not closed", completed)
			}
		}
		close(quit)
		return strings.Join(obs, ",")
	}
}

// c34RTReset: an index target that is reset (the store does this when it is re-opened) must forget the
// indexes reached before the reset: a waiter for an index at or below the old mark is woken only when that
// index is signalled again.
func c34RTReset(before, target uint64) func(*vs.Sched, func(string, string, ...any)) string {
	return func(s *vs.Sched, vio func(string, string, ...any)) string {
		rt := NewReadyTarget[uint64]()
		var obs []string
		closed := func(ch <-chan struct{}) bool {
			select {
			case <-ch:
				return true
			default:
				return false
			}
		}
		// a bystander subscribed before the reset to an index never reached: never woken
		var by <-chan struct{}
		s.Go("bystander", func() { by = rt.Subscribe(before + 100) })
		s.Go("driver", func() {
			for x := uint64(1); x <= before; x++ {
				rt.Signal(x)
			}
			vs.Point("rt:reset", "c34:sig")
			rt.Reset()
			ch := rt.Subscribe(target)
			if closed(ch) {
				vio("C34:rt-woken-early", "Signal(1..%d), Reset, Subscribe(%d): the waiter is released although nothing has been signalled since the reset", before, target)
				obs = append(obs, "early-at-subscribe")
			}
			for x := uint64(1); x <= target; x++ {
				vs.Point("rt:resignal", "c34:sig")
				rt.Signal(x)
				if x < target && closed(ch) {
					vio("C34:rt-woken-early", "after a reset the waiter for %d is released when only %d has been signalled", target, x)
					obs = append(obs, fmt.Sprintf("early-at-%d", x))
				}
			}
			if !closed(ch) {
				vio("C34:rt-not-woken", "after a reset the waiter for %d is still waiting after Signal(%d) returned", target, target)
				obs = append(obs, "not-woken")
			}
		})
		if st := s.Run(); st != vs.Done {
			if st == vs.Redundant {
				return ""
			}
			vio("C34:rt-stuck", "execution ended %v: %v", st, s.Blocked())
			return "stuck"
		}
		if by != nil && closed(by) {
			vio("C34:rt-woken-early", "bystander waiting for %d woken although at most %d was signalled", before+100, before)
		}
		return strings.Join(obs, ",")
	}
}

func TestVerif_C34(t *testing.T) {
	r := kit.Start(t, "C34", "sched")
	defer r.Finish()
	r.Rule("E-SCHED on the real CheckAndSet, MultiRSW and ReadyTarget (cas.go, multir_singlew.go, ready_target.go instrumented from the current tree): per scenario of 2-4 threads every interleaving of their lock-protected steps (deviation bound -1 = unbounded, happens-before state pruning; larger scenarios bounded) with mutual exclusion / readers-xor-writer checked inside every critical section, spurious try-failures, blocked-forever terminal states (lost wake-ups), early or missing wake-ups of index waiters. distinct = distinct acquisition logs observed; states = distinct happens-before state keys at scheduling decisions, summed over the shard processes; traces_validated_against_impl = executions re-run from their recorded schedule (1 in 16, plus every violating one) that gave the same observation, the same choice points and the same state keys")
	scs := []c34Scn{
		{"cas-3try", c34CAS(3, 0, 0), -1, -1},
		{"cas-2try-1retry", c34CAS(2, 1, 50*time.Millisecond), -1, -1},
		{"cas-1try-2retry-longhold", c34CAS(1, 2, 700*time.Millisecond), 2, 3},
		{"mrsw-r-r-w", c34MRSW([]string{"r", "r", "w"}), -1, -1},
		{"mrsw-R-W-w", c34MRSW([]string{"R", "W", "w"}), -1, -1},
		{"mrsw-W-W-R", c34MRSW([]string{"W", "W", "R"}), -1, -1},
		{"mrsw-u-u-W", c34MRSW([]string{"u", "u", "W"}), -1, -1},
		{"mrsw-r-R-W-u", c34MRSW([]string{"r", "R", "W", "u"}), 3, -1},
		{"rt-2sub-1sig", c34RT([]uint64{1, 2}, [][]uint64{{1, 2}}, -1), -1, -1},
		{"rt-3sub-2sig", c34RT([]uint64{1, 2, 3}, [][]uint64{{2}, {1}}, -1), 2, 3},
		{"rt-unsub", c34RT([]uint64{2, 2}, [][]uint64{{1, 2}}, 0), -1, -1},
		{"cas-2try-1retry-same-owner-label", c34CASLabel(2, 1, 50*time.Millisecond, "backup"), -1, -1},
		{"mrsw-W-Q-Q", c34MRSW([]string{"W", "Q", "Q"}), -1, -1},
		{"mrsw-W-Q-Q-Q", c34MRSW([]string{"W", "Q", "Q", "Q"}), 3, 4},
		{"rt-reset-3-then-2", c34RTReset(3, 2), -1, -1},
		{"rt-reset-3-then-3", c34RTReset(3, 3), -1, -1},
	}
	if r.Thorough() {
		scs = append(scs,
			c34Scn{"mrsw-R-R-W-W", c34MRSW([]string{"R", "R", "W", "W"}), 3, 4},
			c34Scn{"mrsw-u-R-W-w-r", c34MRSW([]string{"u", "R", "W", "w", "r"}), 3, 3},
			c34Scn{"cas-3try-2retry", c34CAS(3, 2, 150*time.Millisecond), 2, 3},
			c34Scn{"rt-3sub-3sig", c34RT([]uint64{1, 3, 3}, [][]uint64{{1}, {3}, {2}}, 1), 3, 4},
		)
	}
	for i, sc := range scs {
		opts := vs.Options{Deadline: r.SliceDeadline(i, len(scs)), Deviations: r.Pick(sc.devQ, sc.devT), Preemptions: -1, SelectDevs: -1, TimeDevs: 1, MaxExecs: int64(r.Pick(1500000, 12000000))}
		opts.NoStatePruning = os.Getenv("VSCHED_NOPRUNE") != ""
		body := func(s *vs.Sched) vs.Outcome {
			var out vs.Outcome
			out.Obs = sc.body(s, func(key, f string, a ...any) {
				out.Violations = append(out.Violations, vs.Vio{Key: key, What: sc.name + ": " + fmt.Sprintf(f, a...)})
			})
			return out
		}
		st := vs.Explore(t, opts, body)
		r.Eval(int(st.Executions))
		r.Transition(int(st.ChoicePts))
		r.Validated(int(st.Replays))
		r.State(int(st.StatesSeen))
		r.Add("replays_with_different_hb_state_keys", st.KeyNoise)
		var oks []string
		for o := range st.Outcomes {
			r.Distinct(sc.name + ":" + o)
			oks = append(oks, o)
		}
		sort.Strings(oks)
		r.Sample(map[string]any{"scenario": sc.name, "executions": st.Executions, "hb_states": st.StatesSeen, "pruned_by_state": st.Pruned, "max_choice_depth": st.MaxDepth, "distinct_outcomes": len(st.Outcomes), "replayed": st.Replays, "deviation_bound": opts.Deviations})
		if st.Capped {
			r.Cap("scenario %s: stopped at its execution cap (%d, a quarter of that per shard process) or at its share of the time budget before completing deviation bound %d", sc.name, opts.MaxExecs, opts.Deviations)
		}
		for _, d := range st.Divergences {
			r.Violation("C34:harness-nondeterminism", d, nil)
		}
		for _, v := range st.Violations {
			r.Violation(v.Key, v.What, map[string]any{"scenario": sc.name, "schedule": v.Schedule, "events": v.Events, "reproduced": v.Repro})
		}
		t.Logf("%s: execs=%d outcomes=%d maxdepth=%d states=%d pruned=%d capped=%v", sc.name, st.Executions, len(st.Outcomes), st.MaxDepth, st.StatesSeen, st.Pruned, st.Capped)
	}
}
