package auth

import (
	"fmt"
	"strings"
	"sync"
	"testing"

	kit "github.com/rqlite/rqlite/v10/internal/verifkit"
)

// C19: every credentials file over a bounded universe x every (user, password, perm)
// query, against the rule in the property statement.

type c19Entry struct {
	user, pass string // "-" = field omitted
	perms      int    // index into c19Perms; 0 = omitted
}

var (
	c19Users = []string{"-", "", "a", "b", "*"}
	c19Pass  = []string{"-", "", "p", "q"}
	c19Perms = [][]string{nil, {}, {"x"}, {"all"}, {"x", "y"}}
)

func (e c19Entry) json() string {
	var f []string
	if e.user != "-" {
		f = append(f, fmt.Sprintf(`"username":%q`, e.user))
	}
	if e.pass != "-" {
		f = append(f, fmt.Sprintf(`"password":%q`, e.pass))
	}
	if e.perms != 0 {
		q := make([]string, len(c19Perms[e.perms]))
		for i, p := range c19Perms[e.perms] {
			q[i] = fmt.Sprintf("%q", p)
		}
		f = append(f, `"perms":[`+strings.Join(q, ",")+`]`)
	}
	return "{" + strings.Join(f, ",") + "}"
}

// reference model: last definition wins, omitted field = zero value.
type c19Model struct {
	pw    map[string]string
	perms map[string]map[string]bool
}

func c19Ref(entries []c19Entry) c19Model {
	m := c19Model{map[string]string{}, map[string]map[string]bool{}}
	for _, e := range entries {
		u, p := e.user, e.pass
		if u == "-" {
			u = ""
		}
		if p == "-" {
			p = ""
		}
		m.pw[u] = p
		m.perms[u] = map[string]bool{}
		for _, x := range c19Perms[e.perms] {
			m.perms[u][x] = true
		}
	}
	return m
}

func (m c19Model) authorized(user, pass, perm string) bool {
	if m.perms["*"][perm] || m.perms["*"]["all"] {
		return true
	}
	if user == "" {
		return false
	}
	sp, ok := m.pw[user]
	if !ok || sp != pass {
		return false
	}
	return m.perms[user][perm] || m.perms[user]["all"]
}

func TestVerif_C19(t *testing.T) {
	r := kit.Start(t, "C19", "enum")
	defer r.Finish()
	r.Rule("every credentials file of <=N entries over users {omitted,\"\",a,b,*} x passwords {omitted,\"\",p,q} x perms {omitted,[],[x],[all],[x,y]} (N=2 full alphabet + N=3 reduced alphabet quick; N=3 full thorough), each loaded by the real CredentialsStore.Load and asked every query in users{\"\",a,b,c,*} x passwords{\"\",p,q} x perms{x,y,z,all}; oracle = reference rule of the statement (last definition wins, omitted field = empty). distinct = distinct (loaded model, decision vector) pairs")
	var all []c19Entry
	for _, u := range c19Users {
		for _, p := range c19Pass {
			for pi := range c19Perms {
				all = append(all, c19Entry{u, p, pi})
			}
		}
	}
	var reduced []c19Entry
	for _, e := range all {
		if (e.user == "-" || e.user == "a" || e.user == "*") && (e.pass == "-" || e.pass == "p") && (e.perms == 0 || e.perms == 2 || e.perms == 3) {
			reduced = append(reduced, e)
		}
	}
	qUsers := []string{"", "a", "b", "c", "*"}
	qPass := []string{"", "p", "q"}
	qPerms := []string{"x", "y", "z", "all"}

	var files [][]c19Entry
	files = append(files, nil)
	gen := func(alpha []c19Entry, n int) {
		idx := make([]int, n)
		for {
			f := make([]c19Entry, n)
			for i, j := range idx {
				f[i] = alpha[j]
			}
			files = append(files, f)
			k := n - 1
			for k >= 0 {
				idx[k]++
				if idx[k] < len(alpha) {
					break
				}
				idx[k] = 0
				k--
			}
			if k < 0 {
				break
			}
		}
	}
	gen(all, 1)
	gen(all, 2)
	if r.Thorough() {
		gen(all, 3)
	} else {
		gen(reduced, 3)
	}

	var wg sync.WaitGroup
	nw := 16
	for w := 0; w < nw; w++ {
		wg.Add(1)
		go func(w int) {
			defer wg.Done()
			for i := w; i < len(files); i += nw {
				f := files[i]
				parts := make([]string, len(f))
				omitted := false
				for j, e := range f {
					parts[j] = e.json()
					if j > 0 && (e.user == "-" || e.pass == "-" || e.perms == 0) {
						omitted = true
					}
				}
				text := "[" + strings.Join(parts, ",") + "]"
				cs := NewCredentialsStore()
				if err := cs.Load(strings.NewReader(text)); err != nil {
					r.Violation("C19:load-error", "valid credentials file rejected: "+err.Error(), text)
					continue
				}
				ref := c19Ref(f)
				var vec strings.Builder
				n := 0
				for _, u := range qUsers {
					for _, p := range qPass {
						for _, perm := range qPerms {
							got := cs.AA(u, p, perm)
							want := ref.authorized(u, p, perm)
							n++
							if got {
								vec.WriteByte('1')
							} else {
								vec.WriteByte('0')
							}
							if got != want {
								key := "C19:decision-mismatch:explicit-fields"
								if omitted {
									key = "C19:decision-mismatch:entry-omitting-a-field-after-another-entry"
								}
								r.Violation(key, fmt.Sprintf("file %s: AA(%q,%q,%q)=%v, rule says %v", text, u, p, perm, got, want),
									map[string]any{"file": text, "user": u, "password": p, "perm": perm, "got": got, "want": want})
							}
						}
					}
				}
				r.Eval(n)
				r.Transition(n)
				r.Distinct(vec.String())
				r.SampleEvery(i, map[string]any{"file": text, "decisions(user x password x perm)": vec.String()})
			}
		}(w)
	}
	wg.Wait()
	r.State(len(files))
	r.Set("credential_files", len(files))
}
