package queue

import (
	"fmt"
	"os"
	"sort"
	"strconv"
	"strings"
	"testing"
	"time"

	kit "github.com/rqlite/rqlite/v10/internal/verifkit"
	vs "github.com/rqlite/rqlite/v10/internal/verifvsched"
)

// C24: the real Queue under the controlled scheduler. Writers, a flusher, a
// consumer and the batch timer are interleaved exhaustively within the
// deviation bounds; the oracle is the property statement.

type c24Write struct {
	writer, k int
	objs      []int // object id = writeIdx*10 + position
	fc        FlushChannel
	seq       int64
	err       error
	returned  bool
	want      []int // copy of objs taken before the write: what the queue must emit for it
}

type c24Scenario struct {
	name      string
	writers   [][]int // per writer: sizes of its writes (number of objects)
	flushes   int
	batchSize int
	timeout   time.Duration
	wantFC    bool
}

func c24Body(sc c24Scenario) vs.Body {
	return func(s *vs.Sched) vs.Outcome {
		var out vs.Outcome
		vio := func(key, f string, a ...any) {
			out.Violations = append(out.Violations, vs.Vio{Key: key, What: sc.name + ": " + fmt.Sprintf(f, a...)})
		}
		var q *Queue[int]
		s.Go("init", func() { q = New[int](16, sc.batchSize, sc.timeout) })
		if st := s.Run(); st != vs.Done {
			if st != vs.Redundant {
				vio("C24:init-stuck", "init ended %v", st)
			}
			return out
		}
		var writes []*c24Write
		total := 0
		for w, sizes := range sc.writers {
			var mine []*c24Write
			// a writer hands consecutive pieces of ONE slice to the queue, each piece its own Write (the
			// pieces share a backing array and have spare capacity): the queue must not write into storage
			// it was only given to read
			nAll := 0
			for _, n := range sizes {
				nAll += n
			}
			backing := make([]int, 0, nAll)
			for k, n := range sizes {
				wr := &c24Write{writer: w, k: k}
				idx := len(writes)
				off := len(backing)
				for p := 0; p < n; p++ {
					backing = append(backing, idx*10+p)
				}
				wr.objs = backing[off : off+n]
				wr.want = append([]int(nil), wr.objs...)
				if sc.wantFC {
					wr.fc = make(FlushChannel)
				}
				writes = append(writes, wr)
				mine = append(mine, wr)
				total += n
			}
			s.Go(fmt.Sprintf("writer%d", w), func() {
				for _, wr := range mine {
					wr.seq, wr.err = q.Write(wr.objs, wr.fc)
					wr.returned = true
					vs.Touch("c24:writes")
				}
			})
		}
		for f := 0; f < sc.flushes; f++ {
			s.Go("flusher", func() { q.Flush() })
		}
		if sc.timeout == 0 {
			// without a batch timeout a trailing partial batch needs a flush: issue one once all writes returned
			s.Go("final-flusher", func() {
				vs.Block("join-writers", func() bool {
					for _, wr := range writes {
						if !wr.returned {
							return false
						}
					}
					return true
				}, "c24:writes")
				q.Flush()
			})
		}
		type batch struct {
			seq  int64
			objs []int
		}
		var batches []batch
		fcOpen := func(c FlushChannel) bool {
			select {
			case <-c:
				return false
			default:
				return true
			}
		}
		quit := make(chan struct{})
		teardown := func() {
			close(quit)
			s.Abort()
			closed := make(chan struct{})
			go func() { q.Close(); close(closed) }()
			for {
				select {
				case <-q.C:
				case <-closed:
					return
				}
			}
		}
		s.Go("consumer", func() {
			got := 0
			for got < total {
				vs.Point("consumer:recv", q.C)
				var req *Request[int]
				select {
				case req = <-q.C:
				case <-quit:
					return
				}
				batches = append(batches, batch{req.SequenceNumber, append([]int(nil), req.Objects...)})
				got += len(req.Objects)
				// completion signals of the writes in this batch must still be pending ...
				for _, o := range req.Objects {
					if wr := writes[o/10]; wr.fc != nil && !fcOpen(wr.fc) {
						vio("C24:flush-channel-closed-before-batch-close", "write %d's channel closed before its batch was closed", o/10)
					}
				}
				vs.Point("consumer:close")
				req.Close()
				for _, o := range req.Objects {
					if wr := writes[o/10]; wr.fc != nil && fcOpen(wr.fc) {
						vio("C24:flush-channel-not-closed-by-batch-close", "write %d's channel still open after Close", o/10)
					}
				}
			}
		})
		st := s.Run()
		if st == vs.Redundant {
			teardown()
			return out
		}
		if st != vs.Done {
			vio("C24:stuck", "execution ended %v with threads %v; batches so far %v", st, s.Blocked(), batches)
			teardown()
			out.Obs = "stuck"
			return out
		}
		// ---- oracle ----
		var stream []int
		lastSeq := int64(-1 << 62)
		prevSeq := int64(-1 << 62)
		for bi, b := range batches {
			stream = append(stream, b.objs...)
			if b.seq <= lastSeq {
				vio("C24:batch-seq-not-increasing", "batch %d seq %d after %d", bi, b.seq, lastSeq)
			}
			lastSeq = b.seq
			// writes in the batch, contiguity and max seq
			seen := map[int]bool{}
			var order []int
			for _, o := range b.objs {
				if !seen[o/10] {
					seen[o/10] = true
					order = append(order, o/10)
				}
			}
			if len(order) > sc.batchSize {
				vio("C24:batch-exceeds-size", "batch %d holds %d writes, batch size %d", bi, len(order), sc.batchSize)
			}
			// membership by sequence number (this also places writes that carry no objects):
			// batch bi holds exactly the writes with prevSeq < seq <= b.seq
			var members []*c24Write
			for _, wr := range writes {
				if wr.returned && wr.err == nil && wr.seq > prevSeq && wr.seq <= b.seq {
					members = append(members, wr)
				}
			}
			sort.Slice(members, func(i, j int) bool { return members[i].seq < members[j].seq })
			if len(members) > sc.batchSize {
				vio("C24:batch-exceeds-size", "batch %d (seq %d, previous %d) holds %d writes, batch size %d", bi, b.seq, prevSeq, len(members), sc.batchSize)
			}
			var exp []int
			max := int64(-1 << 62)
			for _, wr := range members {
				exp = append(exp, wr.want...)
				if wr.seq > max {
					max = wr.seq
				}
			}
			if fmt.Sprint(exp) != fmt.Sprint(b.objs) {
				vio("C24:write-split-or-reordered-within-batch", "batch %d objects %v, expected whole writes %v", bi, b.objs, exp)
			}
			if b.seq != max {
				vio("C24:batch-seq-not-max", "batch %d carries seq %d, largest contained write seq %d", bi, b.seq, max)
			}
			prevSeq = b.seq
		}
		// exactly once
		cnt := map[int]int{}
		for _, o := range stream {
			cnt[o]++
		}
		for _, wr := range writes {
			if wr.err != nil || !wr.returned {
				vio("C24:write-failed", "write w%d.%d returned=%v err=%v", wr.writer, wr.k, wr.returned, wr.err)
			}
			if fmt.Sprint(wr.objs) != fmt.Sprint(wr.want) {
				vio("C24:producer-slice-modified", "write w%d.%d handed %v to the queue; its slice now reads %v", wr.writer, wr.k, wr.want, wr.objs)
			}
			for _, o := range wr.want {
				if cnt[o] != 1 {
					vio("C24:not-exactly-once", "object %d emitted %d times; stream %v", o, cnt[o], stream)
				}
			}
		}
		if len(stream) != total {
			vio("C24:not-exactly-once", "emitted %d objects, wrote %d", len(stream), total)
		}
		// write order: writes appear in the stream in increasing sequence number, and
		// sequence numbers respect each writer's program order
		var wo []int
		seenW := map[int]bool{}
		for _, o := range stream {
			if !seenW[o/10] {
				seenW[o/10] = true
				wo = append(wo, o/10)
			}
		}
		if !sort.SliceIsSorted(wo, func(i, j int) bool { return writes[wo[i]].seq < writes[wo[j]].seq }) {
			vio("C24:not-fifo", "stream order of writes %v is not sequence-number order", wo)
		}
		seqSeen := map[int64]bool{}
		for i, wr := range writes {
			if seqSeen[wr.seq] {
				vio("C24:duplicate-seq", "sequence number %d handed out twice", wr.seq)
			}
			seqSeen[wr.seq] = true
			if i > 0 && writes[i-1].writer == wr.writer && writes[i-1].seq >= wr.seq {
				vio("C24:seq-not-monotonic-per-writer", "writer %d got %d then %d", wr.writer, writes[i-1].seq, wr.seq)
			}
		}
		// observation: batch partition in terms of write indexes
		var ob []string
		for _, b := range batches {
			ob = append(ob, fmt.Sprint(b.objs))
		}
		out.Obs = strings.Join(ob, "|")
		// teardown
		s.Go("closer", func() { q.Close() })
		if st := s.Run(); st != vs.Done {
			if st != vs.Redundant {
				vio("C24:close-stuck", "Close did not finish: %v %v", st, s.Blocked())
			}
			teardown()
		}
		return out
	}
}

func TestVerif_C24(t *testing.T) {
	r := kit.Start(t, "C24", "sched")
	defer r.Finish()
	r.Rule("E-SCHED on the real queue.Queue (queue.go instrumented from the current tree): per scenario, every schedule of writers/flusher/consumer/queue goroutine/batch timer within the deviation bounds (preemptions P, select-order deviations S, early time advances T); oracle: exactly-once, FIFO by sequence number, no split write, writes per batch <= batch size, flush channel closed exactly by its batch's Close, batch seq strictly increasing and equal to the max contained. distinct = distinct batch partitions observed; states = distinct happens-before state keys at scheduling decisions, summed over the shard processes; traces_validated_against_impl = executions re-run from their recorded schedule (1 in 16, plus every violating one) that gave the same observation, the same choice points and the same state keys")
	scs := []c24Scenario{
		{"2w-1x1-b2-timeout", [][]int{{1}, {1}}, 0, 2, 100 * time.Millisecond, true},
		{"2w-2,1-b2-timeout", [][]int{{1, 2}, {1}}, 0, 2, 100 * time.Millisecond, true},
		{"2w-flush-b3-timeout", [][]int{{2}, {1}}, 1, 3, 100 * time.Millisecond, true},
		{"3w-b2-timeout", [][]int{{1}, {2}, {1}}, 0, 2, 50 * time.Millisecond, true},
		{"1w-3-b1", [][]int{{1, 1, 1}}, 1, 1, 10 * time.Millisecond, true},
		// writes that carry no objects and no completion channel (the queue accepts them): they must not
		// disturb the batching of the writes around them
		{"1w-empty,empty,1-b2-timeout", [][]int{{0, 0, 1}}, 0, 2, 100 * time.Millisecond, false},
		{"2w-empty|1-b3-timeout", [][]int{{0}, {1}}, 0, 3, 100 * time.Millisecond, false},
	}
	opts := vs.Options{Deviations: r.Pick(2, 3), Preemptions: -1, SelectDevs: -1, TimeDevs: 1, MaxExecs: int64(r.Pick(400000, 4000000))}
	if w, err := strconv.Atoi(os.Getenv("VSCHED_WORKERS")); err == nil {
		opts.Workers = w
	}
	opts.NoStatePruning = os.Getenv("VSCHED_NOPRUNE") != ""
	if n, err := strconv.Atoi(os.Getenv("VSCHED_REPLAY_EVERY")); err == nil {
		opts.ReplayEvery = n
	}
	r.Set("bounds", fmt.Sprintf("total deviations (preemptions + select-order deviations + early time advances)<=%d, early time advances<=%d", opts.Deviations, opts.TimeDevs))
	if r.Thorough() {
		scs = append(scs, c24Scenario{"2w-flush-b2-notimeout", [][]int{{1, 1}, {1}}, 1, 2, 0, false})
	}
	for i, sc := range scs {
		opts.Deadline = r.SliceDeadline(i, len(scs))
		st := vs.Explore(t, opts, c24Body(sc))
		r.Eval(int(st.Executions))
		r.Transition(int(st.ChoicePts))
		r.Validated(int(st.Replays))
		r.State(int(st.StatesSeen))
		r.Add("replays_with_different_hb_state_keys", st.KeyNoise)
		for o := range st.Outcomes {
			r.Distinct(sc.name + ":" + o)
		}
		r.Sample(map[string]any{"scenario": sc.name, "executions": st.Executions, "pruned_redundant": st.Redundant, "max_choice_depth": st.MaxDepth, "distinct_batchings": len(st.Outcomes), "replayed": st.Replays, "hb_states": st.StatesSeen, "pruned_by_state": st.Pruned})
		if st.Capped {
			r.Cap("scenario %s: stopped at its execution cap (%d, a quarter of that per shard process) or at its share of the time budget before completing deviation bound %d", sc.name, opts.MaxExecs, opts.Deviations)
		}
		for _, d := range st.Divergences {
			r.Violation("C24:harness-nondeterminism", d, nil)
		}
		for _, v := range st.Violations {
			r.Violation(v.Key, v.What, map[string]any{"scenario": sc.name, "schedule": v.Schedule, "events": v.Events, "reproduced": v.Repro})
		}
		var oks []string
		for o := range st.Outcomes {
			oks = append(oks, o)
		}
		sort.Strings(oks)
		t.Logf("%s: execs=%d redundant=%d outcomes=%d maxdepth=%d states=%d pruned=%d capped=%v outcomes: %v", sc.name, st.Executions, st.Redundant, len(st.Outcomes), st.MaxDepth, st.StatesSeen, st.Pruned, st.Capped, oks)
		t.Logf("%s: replays=%d divergences=%d replays with different state keys=%d", sc.name, st.Replays, len(st.Divergences), st.KeyNoise)
	}
}
