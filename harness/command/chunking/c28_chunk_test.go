package chunking

import (
	"bytes"
	"compress/gzip"
	"fmt"
	"io"
	"os"
	"sort"
	"strings"
	"sync"
	"testing"

	"github.com/rqlite/rqlite/v10/command/proto"
	kit "github.com/rqlite/rqlite/v10/internal/verifkit"
)

// C28: every byte string over a tiny alphabet x every chunk size x every
// reader short-read pattern, chunked by the real Chunker and reassembled by the
// real Dechunker; then every single mutation of the chunk sequence.
// Reference model: the input byte string itself.

// c28Dev is one deviation of the source reader from the "fill the buffer" reader.
type c28Dev struct {
	Call int    `json:"call"` // 0-based Read call index
	Kind string `json:"kind"` // "one": return 1 byte only; "less": return one byte fewer than possible; "zero": return (0,nil)
}

// c28Reader is a legal io.Reader over data. Without deviations it behaves like
// bytes.Reader: it fills p as far as data remain and reports io.EOF on the
// call after the last byte. eofWithData makes the call that drains the data
// return (n>0, io.EOF), which io.Reader explicitly allows.
type c28Reader struct {
	data        []byte
	pos         int
	calls       int
	devs        []c28Dev
	eofWithData bool
	effective   []bool // per deviation: did it change what the call returned
	sawEOF      bool
}

func (r *c28Reader) Read(p []byte) (int, error) {
	call := r.calls
	r.calls++
	if r.sawEOF {
		return 0, io.EOF
	}
	rem := len(r.data) - r.pos
	n := len(p)
	if n > rem {
		n = rem
	}
	for i, d := range r.devs {
		if d.Call != call {
			continue
		}
		switch d.Kind {
		case "zero":
			if len(p) > 0 && rem > 0 { // (0,nil) with data pending: legal, discouraged
				r.effective[i] = true
				return 0, nil
			}
		case "one":
			if n > 1 {
				n = 1
				r.effective[i] = true
			}
		case "less":
			if n > 2 { // n-1 differs from both n and "one"
				n--
				r.effective[i] = true
			}
		}
	}
	if rem == 0 {
		r.sawEOF = true
		return 0, io.EOF
	}
	copy(p, r.data[r.pos:r.pos+n])
	r.pos += n
	if r.pos == len(r.data) && r.eofWithData {
		r.sawEOF = true
		return n, io.EOF
	}
	return n, nil
}

type c28Case struct {
	Data        string   `json:"data"`
	Chunk       int      `json:"chunk_size"`
	Devs        []c28Dev `json:"reader_deviations"`
	EOFWithData bool     `json:"reader_returns_final_data_with_EOF"`
}

// The Chunker hands out Data slices that alias a buffer it has already returned
// to a package-level sync.Pool, so the next Next() call of ANY chunker in the
// process overwrites them (checked separately by c28Aliasing). The enumeration
// therefore copies each chunk the moment it is produced, and serialises
// Next()+copy across the worker goroutines, as a streaming sender that marshals
// each chunk before asking for the next one would.
var c28PoolMu sync.Mutex

func c28Next(ch *Chunker) (*proto.LoadChunkRequest, error) {
	c28PoolMu.Lock()
	defer c28PoolMu.Unlock()
	lc, err := ch.Next()
	if lc != nil {
		lc = &proto.LoadChunkRequest{StreamId: lc.StreamId, SequenceNum: lc.SequenceNum, IsLast: lc.IsLast, Abort: lc.Abort, Data: append([]byte(nil), lc.Data...)}
	}
	return lc, err
}

// c28Chunk runs the real Chunker to exhaustion. It returns the chunks, the number
// of Read calls the source saw, and which deviations took effect.
func c28Chunk(c c28Case) (chunks []*proto.LoadChunkRequest, calls int, eff []bool, err error) {
	rd := &c28Reader{data: []byte(c.Data), devs: c.Devs, eofWithData: c.EOFWithData, effective: make([]bool, len(c.Devs))}
	ch := NewChunker(rd, int64(c.Chunk))
	for i := 0; ; i++ {
		if i > 4*len(c.Data)+8 {
			return chunks, rd.calls, rd.effective, fmt.Errorf("chunker did not terminate after %d chunks", i)
		}
		lc, e := c28Next(ch)
		if e == io.EOF {
			// Once finished it must stay finished.
			if lc2, e2 := c28Next(ch); e2 != io.EOF || lc2 != nil {
				return chunks, rd.calls, rd.effective, fmt.Errorf("Next after io.EOF returned (%v,%v)", lc2, e2)
			}
			return chunks, rd.calls, rd.effective, nil
		}
		if e != nil {
			return chunks, rd.calls, rd.effective, e
		}
		if lc == nil {
			return chunks, rd.calls, rd.effective, fmt.Errorf("Next returned (nil,nil)")
		}
		chunks = append(chunks, lc)
	}
}

func c28List(dir string) []string {
	ents, err := os.ReadDir(dir)
	if err != nil {
		return []string{"<readdir error: " + err.Error() + ">"}
	}
	var n []string
	for _, e := range ents {
		n = append(n, e.Name())
	}
	sort.Strings(n)
	return n
}

// c28Feed gives the chunk sequence to a fresh real Dechunker in dir, stopping at the
// first error or at the first "last chunk" report, as the FSM does. It returns
// what the dechunker produced.
type c28Out struct {
	rejected int // chunks refused while feeding went on (goOn mode)
	err      error  // first WriteChunk error (rejection)
	errAt    int    // index of rejected chunk
	done     bool   // WriteChunk reported the last chunk
	doneAt   int    // index of that chunk
	doneID   string // stream id of that chunk
	bytes    []byte // file content after Close
	fed      int
	closeErr error
}

func c28Feed(dir string, seq []*proto.LoadChunkRequest) (c28Out, error) {
	return c28FeedMode(dir, seq, false)
}

// c28FeedMode with goOn=true keeps feeding after a rejected chunk, which is what the store's command
// processor does (a failed WriteChunk is answered with an error and the dechunker stays registered for
// its stream): a rejected chunk must have had no effect on what is reassembled afterwards.
func c28FeedMode(dir string, seq []*proto.LoadChunkRequest, goOn bool) (c28Out, error) {
	var o c28Out
	d, err := NewDechunker(dir)
	if err != nil {
		return o, err
	}
	for i, lc := range seq {
		o.fed++
		last, err := d.WriteChunk(lc)
		if err != nil {
			if goOn {
				o.rejected++
				continue
			}
			o.err, o.errAt = err, i
			break
		}
		if last {
			o.done, o.doneAt, o.doneID = true, i, lc.StreamId
			break
		}
	}
	p, err := d.Close()
	if err != nil {
		o.closeErr = err
		return o, nil
	}
	b, err := os.ReadFile(p)
	if err != nil {
		return o, err
	}
	o.bytes = b
	if err := os.Remove(p); err != nil {
		return o, err
	}
	return o, nil
}

func c28ChunkDesc(seq []*proto.LoadChunkRequest, ids map[string]string) string {
	var sb strings.Builder
	for i, lc := range seq {
		if i > 0 {
			sb.WriteByte(' ')
		}
		fmt.Fprintf(&sb, "%s%d", ids[lc.StreamId], lc.SequenceNum)
		if lc.IsLast {
			sb.WriteByte('L')
		}
		if lc.Data == nil {
			sb.WriteByte('e')
		}
	}
	return sb.String()
}

func c28Strings(alpha string, maxLen int) []string {
	out := []string{""}
	prev := []string{""}
	for l := 1; l <= maxLen; l++ {
		var cur []string
		for _, p := range prev {
			for i := 0; i < len(alpha); i++ {
				cur = append(cur, p+alpha[i:i+1])
			}
		}
		out = append(out, cur...)
		prev = cur
	}
	return out
}

func TestVerif_C28(t *testing.T) {
	r := kit.Start(t, "C28", "enum")
	defer r.Finish()
	alpha := "ab"
	maxC := 4
	lenOf := func(c int) int { return 2*c + 1 }
	if r.Thorough() {
		alpha = "abc"
		maxC = 6
		lenOf = func(c int) int {
			l := 3*c + 1
			if l > 8 { // 3^8: 9.8k strings per chunk size; longer lengths use the marker strings below
				l = 8
			}
			return l
		}
	}
	r.Rule("for chunk size c in 1..C: every byte string of length 0..L(c) over the alphabet (quick: {a,b}, C=4, L=2c+1; thorough: {a,b,c}, C=6, L=min(3c+1,8)), plus for every length L(c)+1..3c+1 the all-distinct-bytes string and a period-2 string (the chunker's control flow does not depend on content; distinct bytes reveal any loss, duplication or reordering), each x every source-reader behaviour with <=2 effective deviations (return 1 byte / one byte fewer / (0,nil) at a chosen Read call) x final data returned with or without io.EOF, chunked by the real Chunker and fed to a fresh real Dechunker: reassembled file must equal the input, IsLast exactly on the final chunk, sequence numbers 1..k, one stream id. Then for the plain reader: every swap of two chunks, every duplicate inserted at every position, every omission, and every chunk of a foreign stream (each byte +1) inserted at / substituted for every position: the dechunker must reject, or not report completion, or report completion with exactly the bytes of the stream it completed. distinct = (chunk size, length, reader class, chunk-sequence shape) and (mutation kind, outcome, chunk count)")
	base := kit.Scratch(t)

	type job struct {
		c    int
		data string
	}
	var jobs []job
	const marker = "0123456789ABCDEFGHIJKLMN"
	for c := 1; c <= maxC; c++ {
		for _, s := range c28Strings(alpha, lenOf(c)) {
			jobs = append(jobs, job{c, s})
		}
		for l := lenOf(c) + 1; l <= 3*c+1; l++ {
			jobs = append(jobs, job{c, marker[:l]}, job{c, strings.Repeat("xy", l)[:l]})
		}
	}
	r.Set("strings_x_chunk_sizes", len(jobs))

	// a different stream of the same length (so the foreign stream has the same shape).
	compl := func(s string) string {
		b := []byte(s)
		for i := range b {
			b[i]++
		}
		return string(b)
	}

	// before any concurrency: is a chunk still intact when the caller gets round to using it?
	for i, j := range jobs {
		if len(j.data) > 0 && len(j.data) <= 2*j.c+1 {
			c28Aliasing(r, j.data, compl(j.data), j.c, i)
		}
	}

	var wg sync.WaitGroup
	nw := 16
	var mu sync.Mutex
	next := 0
	for w := 0; w < nw; w++ {
		wg.Add(1)
		go func(w int) {
			defer wg.Done()
			dir := fmt.Sprintf("%s/w%d", base, w)
			if err := os.MkdirAll(dir, 0o755); err != nil {
				t.Errorf("mkdir: %v", err)
				return
			}
			for {
				mu.Lock()
				i := next
				next++
				mu.Unlock()
				if i >= len(jobs) {
					return
				}
				j := jobs[i]
				c28RoundTrips(r, dir, j.data, j.c, i)
				c28Mutations(r, dir, j.data, compl(j.data), j.c, i)
				if left := c28List(dir); len(left) != 0 {
					r.Violation("C28:file-left-behind:after-closed-streams", fmt.Sprintf("data %q c=%d: dechunker directory not empty after all streams were closed and removed: %v", j.data, j.c, left), j)
					for _, f := range left {
						os.Remove(dir + "/" + f)
					}
				}
			}
		}(w)
	}
	wg.Wait()
}

// c28RoundTrips enumerates all reader deviation patterns (<=2 effective
// deviations) for one (data, chunk size) and checks exact reassembly.
func c28RoundTrips(r *kit.Run, dir, data string, c, idx int) {
	kinds := []string{"one", "less", "zero"}
	var rec func(devs []c28Dev, eofWith bool)
	rec = func(devs []c28Dev, eofWith bool) {
		cs := c28Case{Data: data, Chunk: c, Devs: append([]c28Dev(nil), devs...), EOFWithData: eofWith}
		calls, ok := c28CheckOne(r, dir, cs, idx)
		if !ok || len(devs) >= 2 {
			return
		}
		from := 0
		if len(devs) > 0 {
			from = devs[len(devs)-1].Call + 1
		}
		for call := from; call < calls; call++ {
			for _, k := range kinds {
				rec(append(append([]c28Dev(nil), devs...), c28Dev{call, k}), eofWith)
			}
		}
	}
	rec(nil, false)
	if len(data) > 0 {
		rec(nil, true)
	}
}

func c28CheckOne(r *kit.Run, dir string, cs c28Case, idx int) (calls int, ok bool) {
	readerClass := "plain-reader"
	if len(cs.Devs) > 0 {
		readerClass = "short-reads"
	}
	if cs.EOFWithData {
		readerClass += "+data-with-EOF"
	}
	chunks, calls, eff, err := c28Chunk(cs)
	if err == nil && len(eff) > 0 && !eff[len(eff)-1] {
		return calls, false // newest deviation changed nothing: same behaviour as the parent pattern, not a new case
	}
	r.Eval(1)
	if err != nil {
		r.Violation("C28:chunker-error:"+readerClass, fmt.Sprintf("data %q c=%d devs=%v eofWithData=%v: chunker failed: %v", cs.Data, cs.Chunk, cs.Devs, cs.EOFWithData, err), cs)
		return calls, false
	}
	r.Transition(len(chunks))
	ids := map[string]string{}
	if len(chunks) > 0 {
		ids[chunks[0].StreamId] = "s"
	}
	desc := c28ChunkDesc(chunks, ids)

	// sequence numbers, stream id, IsLast.
	bad := ""
	for i, lc := range chunks {
		if lc.SequenceNum != int64(i+1) {
			bad = fmt.Sprintf("chunk %d has sequence number %d", i, lc.SequenceNum)
		}
		if lc.StreamId != chunks[0].StreamId || lc.StreamId == "" {
			bad = fmt.Sprintf("chunk %d has stream id %q, first has %q", i, lc.StreamId, chunks[0].StreamId)
		}
		if lc.Abort {
			bad = fmt.Sprintf("chunk %d has abort set", i)
		}
		if lc.IsLast && i != len(chunks)-1 {
			bad = fmt.Sprintf("chunk %d of %d is marked last", i, len(chunks))
		}
	}
	if bad != "" {
		r.Violation("C28:bad-chunk-numbering:"+readerClass, fmt.Sprintf("data %q c=%d devs=%v eofWithData=%v: %s (chunks: %s)", cs.Data, cs.Chunk, cs.Devs, cs.EOFWithData, bad, desc), cs)
	}
	if len(chunks) == 0 {
		if len(cs.Data) != 0 {
			r.Violation("C28:no-chunks-for-nonempty-stream:"+readerClass, fmt.Sprintf("data %q c=%d devs=%v: chunker produced no chunk", cs.Data, cs.Chunk, cs.Devs), cs)
			return calls, true
		}
	} else if !chunks[len(chunks)-1].IsLast {
		shape := "stream-shorter-than-chunk"
		if len(cs.Data)%cs.Chunk == 0 {
			shape = "length-multiple-of-chunk-size"
		} else if len(cs.Data) > cs.Chunk {
			shape = "final-read-overfills-chunk"
		}
		r.Violation("C28:no-last-chunk:"+readerClass+":"+shape, fmt.Sprintf("data %q c=%d devs=%v eofWithData=%v: chunker ended (io.EOF) without ever emitting a chunk marked last, so the receiver never completes the load (chunks: %s)", cs.Data, cs.Chunk, cs.Devs, cs.EOFWithData, desc), cs)
	}

	out, err := c28Feed(dir, chunks)
	if err != nil {
		r.Violation("C28:harness-io", "dechunker set-up failed: "+err.Error(), cs)
		return calls, false
	}
	switch {
	case out.err != nil:
		r.Violation("C28:genuine-stream-rejected:"+readerClass, fmt.Sprintf("data %q c=%d devs=%v eofWithData=%v: dechunker rejected chunk %d of the chunker's own output: %v (chunks: %s)", cs.Data, cs.Chunk, cs.Devs, cs.EOFWithData, out.errAt, out.err, desc), cs)
	case out.closeErr != nil:
		r.Violation("C28:close-error:"+readerClass, fmt.Sprintf("data %q c=%d: Close failed: %v", cs.Data, cs.Chunk, out.closeErr), cs)
	default:
		if !bytes.Equal(out.bytes, []byte(cs.Data)) {
			r.Violation("C28:reassembly-mismatch:"+readerClass, fmt.Sprintf("data %q c=%d devs=%v eofWithData=%v: reassembled %q (chunks: %s)", cs.Data, cs.Chunk, cs.Devs, cs.EOFWithData, out.bytes, desc), cs)
		}
		if out.done != (len(chunks) > 0 && chunks[len(chunks)-1].IsLast) || (out.done && out.doneAt != len(chunks)-1) {
			r.Violation("C28:last-flag-not-reported:"+readerClass, fmt.Sprintf("data %q c=%d: WriteChunk reported last=%v at %d for chunks %s", cs.Data, cs.Chunk, out.done, out.doneAt, desc), cs)
		}
	}
	// outcome shape: payload length per chunk is not observable without decoding;
	// use the chunk descriptor (count, last flag, empty final chunk) + reader class.
	r.Distinct(fmt.Sprintf("rt|c=%d|len=%d|%s|%s", cs.Chunk, len(cs.Data), readerClass, desc))
	r.SampleEvery(idx*7+len(cs.Devs), map[string]any{"case": cs, "chunks": desc, "reassembled": string(out.bytes)})
	return calls, true
}

// c28Mutations checks every single mutation of the chunk sequence of (data, c).
func c28Mutations(r *kit.Run, dir, data, foreign string, c, idx int) {
	own, _, _, err := c28Chunk(c28Case{Data: data, Chunk: c})
	if err != nil || len(own) == 0 {
		return // reported by the round trip / empty stream has no chunks to mutate
	}
	fch, _, _, err := c28Chunk(c28Case{Data: foreign, Chunk: c})
	if err != nil {
		return
	}
	ids := map[string]string{own[0].StreamId: "s"}
	orig := map[string]string{own[0].StreamId: data}
	if len(fch) > 0 {
		if fch[0].StreamId == own[0].StreamId {
			r.Violation("C28:stream-id-collision", fmt.Sprintf("two chunkers produced the same stream id %q", own[0].StreamId), nil)
			return
		}
		ids[fch[0].StreamId] = "f"
		orig[fch[0].StreamId] = foreign
	}
	type mut struct {
		kind string
		seq  []*proto.LoadChunkRequest
	}
	var muts []mut
	cp := func() []*proto.LoadChunkRequest { return append([]*proto.LoadChunkRequest(nil), own...) }
	for i := 0; i < len(own); i++ {
		for j := i + 1; j < len(own); j++ {
			s := cp()
			s[i], s[j] = s[j], s[i]
			muts = append(muts, mut{"swap", s})
		}
	}
	for i := 0; i < len(own); i++ { // duplicate of chunk i inserted at position p
		for p := 0; p <= len(own); p++ {
			s := append(append(append([]*proto.LoadChunkRequest(nil), own[:p]...), own[i]), own[p:]...)
			muts = append(muts, mut{"duplicate", s})
		}
	}
	for i := 0; i < len(own); i++ {
		s := append(append([]*proto.LoadChunkRequest(nil), own[:i]...), own[i+1:]...)
		muts = append(muts, mut{"omit", s})
	}
	for _, f := range fch {
		for p := 0; p <= len(own); p++ {
			s := append(append(append([]*proto.LoadChunkRequest(nil), own[:p]...), f), own[p:]...)
			muts = append(muts, mut{"foreign-insert", s})
		}
		for p := 0; p < len(own); p++ {
			s := cp()
			s[p] = f
			muts = append(muts, mut{"foreign-substitute", s})
		}
	}
	for _, m := range muts {
		r.Eval(1)
		r.Transition(len(m.seq))
		desc := c28ChunkDesc(m.seq, ids)
		rep := map[string]any{"data": data, "chunk_size": c, "foreign_data": foreign, "mutation": m.kind, "sequence(s=own,f=foreign;N=seq,L=last,e=empty)": desc}
		out, err := c28Feed(dir, m.seq)
		if err != nil {
			r.Violation("C28:harness-io", "dechunker set-up failed: "+err.Error(), rep)
			continue
		}
		outcome := ""
		switch {
		case out.err != nil:
			outcome = "rejected"
		case out.closeErr != nil:
			outcome = "close-error"
			r.Violation("C28:close-error:"+m.kind, fmt.Sprintf("data %q c=%d %s: Close failed: %v", data, c, desc, out.closeErr), rep)
		case !out.done:
			outcome = "incomplete"
			// no completion was reported, so no consumer uses the file; but what was
			// written so far must still be a prefix-consistent image of ONE stream.
		default:
			want := orig[out.doneID]
			if string(out.bytes) == want {
				outcome = "completed-exact"
			} else {
				outcome = "completed-wrong"
				r.Violation("C28:corrupt-stream-accepted:"+m.kind, fmt.Sprintf("data %q c=%d, sequence %s: dechunker reported completion without error but the file holds %q, stream %s is %q", data, c, desc, out.bytes, ids[out.doneID], want), rep)
			}
		}
		// A mutated sequence that differs from every genuine sequence must not be
		// accepted to completion unless the bytes are exact (checked above). Also
		// record when a sequence containing a foreign chunk is accepted at all.
		r.Distinct(fmt.Sprintf("mut|%s|%s|n=%d", m.kind, outcome, len(own)))
		r.SampleEvery(idx*3+len(m.seq), map[string]any{"mutation": rep, "outcome": outcome, "error": fmt.Sprint(out.err)})
		// the same sequence with feeding continued past every rejected chunk
		if out.err != nil {
			r.Eval(1)
			r.Transition(len(m.seq))
			out2, err := c28FeedMode(dir, m.seq, true)
			if err != nil {
				r.Violation("C28:harness-io", "dechunker set-up failed: "+err.Error(), rep)
				continue
			}
			oc2 := "incomplete"
			switch {
			case out2.closeErr != nil:
				oc2 = "close-error"
			case out2.done:
				want := orig[out2.doneID]
				if string(out2.bytes) == want {
					oc2 = "completed-exact"
				} else {
					oc2 = "completed-wrong"
					r.Violation("C28:rejected-chunk-had-an-effect:"+m.kind, fmt.Sprintf("data %q c=%d, sequence %s fed to the end with %d chunk(s) refused on the way: the dechunker then reported completion but the file holds %q, stream %s is %q", data, c, desc, out2.rejected, out2.bytes, ids[out2.doneID], want), rep)
				}
			}
			r.Distinct(fmt.Sprintf("mut-goon|%s|%s|n=%d", m.kind, oc2, len(own)))
		}
	}
}

func c28Gunzip(b []byte) string {
	if b == nil {
		return ""
	}
	zr, err := gzip.NewReader(bytes.NewReader(b))
	if err != nil {
		return "<not gzip: " + err.Error() + ">"
	}
	out, err := io.ReadAll(zr)
	if err != nil {
		return string(out) + "<gzip error: " + err.Error() + ">"
	}
	return string(out)
}

// c28Aliasing: a chunk returned by Next must still hold its bytes when it is
// used, (a) after a different Chunker (another load in the same process)
// produced a chunk, (b) after the same Chunker produced its next chunk.
// Single goroutine, no concurrency involved.
func c28Aliasing(r *kit.Run, data, other string, c, idx int) {
	for _, mode := range []string{"another-chunkers-next-call", "own-next-call"} {
		r.Eval(1)
		a := NewChunker(strings.NewReader(data), int64(c))
		b := NewChunker(strings.NewReader(other), int64(c))
		a1, err := a.Next()
		if err != nil || a1 == nil {
			continue
		}
		want := data
		if len(want) > c {
			want = want[:c]
		}
		if got := c28Gunzip(a1.Data); got != want {
			continue // reported by the round trip
		}
		if mode == "own-next-call" {
			a.Next()
		} else {
			b.Next()
		}
		got := c28Gunzip(a1.Data)
		r.Distinct(fmt.Sprintf("alias|%s|intact=%v", mode, got == want))
		if got != want {
			r.Violation("C28:chunk-data-aliases-pooled-buffer:overwritten-by-"+mode,
				fmt.Sprintf("data %q c=%d: first chunk decoded to %q right after Next returned it, but to %q after %s (other stream %q): LoadChunkRequest.Data points into a buffer already handed back to the package's sync.Pool", data, c, want, got, mode, other),
				map[string]any{"data": data, "chunk_size": c, "other_stream": other, "mode": mode})
		}
	}
}
