package sql

// C14: "Non-deterministic SQL is fully and faithfully rewritten".
//
// Bounded-exhaustive enumeration of a statement grammar (statement form/slot x
// call fragment x name case x spacing x expression wrapper, 0-2 call sites,
// plus syntactic decoys) run through the real, public Process() exactly as the
// HTTP execute path calls it (rwrand=true, rwtime=true), with differential
// oracles evaluated on a real in-memory SQLite (the go-sqlite3 build rqlite
// links):
//
//	O1  the text produced by Process, evaluated twice >= 1.1 s apart, gives equal
//	    results (no residual random()/randomblob()/now);
//	    a statement with a non-deterministic site that comes back byte-identical
//	    is by definition not rewritten;
//	O2  statements without a non-deterministic site: result of the processed text
//	    == result of the original text, and the text is byte-identical;
//	O3  the Rewriter with its unexported clock/random seams pinned (nowFn, randFn)
//	    produces a text whose result equals that of an independently built
//	    expected text (the generator fills each hole with the pinned julian day
//	    computed by SQLite itself / the pinned integer). The pinned instant is
//	    years away from the wall clock, so a residual date() shows up too.
//
// Verdict keys name the class (kind + the single grammar label that is
// individually sufficient to produce that kind, determined from the
// single-label cases of the same run).

import (
	"context"
	dsql "database/sql"
	"fmt"
	"sort"
	"strconv"
	"strings"
	"sync"
	"sync/atomic"
	"testing"
	"testing/synctest"
	"time"

	sqlite3 "github.com/mattn/go-sqlite3"
	"github.com/rqlite/rqlite/v10/command/proto"
	kit "github.com/rqlite/rqlite/v10/internal/verifkit"
	rsql "github.com/rqlite/sql"
)

// ---------------------------------------------------------------------------
// pins

type c14Pin struct {
	name string
	now  time.Time
	jd   string // julian day of now as computed by SQLite (independent of julianDay())
	rnd  int64
}

// ---------------------------------------------------------------------------
// call fragments

type c14Frag struct {
	name string   // lower-case function name
	args []string // argument texts
	form string   // form label ("" = the ordinary, test-covered form)
	nd   bool     // SQLite's result depends on the clock / the PRNG: must be concretised
	// conc returns the argument list of the expected concretised call (time
	// functions) for a julian-day literal; nil for random/randomblob/non-nd.
	conc     func(jd string) []string
	random   bool // random()
	blobLen  int  // randomblob: expected length (>0)
	needCols bool // references columns a/b of table t
	timeCall bool // one of the nine time functions
	// mayChange: the call mentions 'now' but its result is time-independent; the
	// text may therefore be rewritten, only the meaning must stay.
	mayChange bool
	// noTimeWrap: the call returns the string 'now'; as the time value of another
	// time function it would be a computed now, which is outside the property
	noTimeWrap bool
}

func c14Q(s string) string { return "'" + s + "'" }

const (
	c14Fixed  = "'2020-01-02 03:04:05'"
	c14Fixed2 = "'2021-06-07 08:09:10'"
)

func c14Frags() []c14Frag {
	var fs []c14Frag
	ins0 := func(rest ...string) func(string) []string {
		return func(jd string) []string { return append([]string{jd}, rest...) }
	}
	for _, f := range []string{"date", "time", "datetime", "julianday", "unixepoch"} {
		add := func(form string, nd bool, conc func(string) []string, args ...string) {
			fs = append(fs, c14Frag{name: f, args: args, form: form, nd: nd, conc: conc, timeCall: true})
		}
		add("", true, ins0(), "'now'")
		add("zero-arg-datetime", true, ins0())
		add("dq-now", true, ins0(), `"now"`)
		add("upper-now-literal", true, ins0(), "'NOW'")
		add("now+modifier", true, ins0("'+1 day'"), "'now'", "'+1 day'")
		add("now+two-modifiers", true, ins0("'start of month'", "'-36 hours'"), "'now'", "'start of month'", "'-36 hours'")
		add("now+subsec-modifier", true, ins0("'subsec'"), "'now'", "'subsec'")
		add("subsec-as-only-arg", true, ins0("'subsec'"), "'subsec'")
		add("fixed-literal-time", false, nil, c14Fixed)
		add("fixed-literal-time+modifier", false, nil, c14Fixed, "'+1 day'")
		add("numeric-time", false, nil, "2459000.5")
		add("numeric-time+unixepoch", false, nil, "1092941466", "'unixepoch'")
		add("hhmm-time", false, nil, "'12:34'")
		add("null-time", false, nil, "NULL")
		add("non-now-string", false, nil, "'nowhere'")
		add("padded-now-string", false, nil, "' now'")
		fs = append(fs, c14Frag{name: f, args: []string{"b"}, form: "column-time", timeCall: true, needCols: true})
		fs = append(fs, c14Frag{name: f, args: []string{"'now'", "'unixepoch'"}, form: "now-then-unixepoch-modifier", timeCall: true, mayChange: true})
	}
	st := func(form string, nd bool, conc func(string) []string, args ...string) {
		fs = append(fs, c14Frag{name: "strftime", args: args, form: form, nd: nd, conc: conc, timeCall: true})
	}
	ins1 := func(f string, rest ...string) func(string) []string {
		return func(jd string) []string { return append([]string{f, jd}, rest...) }
	}
	st("", true, ins1("'%Y-%m-%d %H:%M:%f'"), "'%Y-%m-%d %H:%M:%f'", "'now'")
	st("", true, ins1("'%s'"), "'%s'", "'now'")
	st("format-only-strftime", true, ins1("'%Y-%m-%d %H:%M:%S'"), "'%Y-%m-%d %H:%M:%S'")
	st("format-only-strftime", true, ins1("'%s'"), "'%s'")
	st("dq-now", true, ins1(`"%s"`), `"%s"`, `"now"`)
	st("upper-now-literal", true, ins1("'%J'"), "'%J'", "'Now'")
	st("now+modifier", true, ins1("'%s'", "'+1 day'"), "'%s'", "'now'", "'+1 day'")
	st("subsec-as-only-arg", true, ins1("'%s %f'", "'subsec'"), "'%s %f'", "'subsec'")
	st("fixed-literal-time", false, nil, "'%s'", c14Fixed)
	st("fixed-literal-time+modifier", false, nil, "'%Y %j'", c14Fixed, "'-1 month'")
	st("numeric-time", false, nil, "'%Y-%m-%d'", "2459000.5")
	st("strftime-format-is-now", false, nil, "'now'", c14Fixed)
	fs[len(fs)-1].noTimeWrap = true
	fs = append(fs, c14Frag{name: "strftime", args: []string{"'%s'", "b"}, form: "column-time", timeCall: true, needCols: true})
	td := func(form string, nd bool, conc func(string) []string, args ...string) {
		fs = append(fs, c14Frag{name: "timediff", args: args, form: form, nd: nd, conc: conc, timeCall: true})
	}
	td("", true, func(jd string) []string { return []string{jd, c14Fixed} }, "'now'", c14Fixed)
	td("timediff-now-second", true, func(jd string) []string { return []string{c14Fixed, jd} }, c14Fixed, "'now'")
	td("timediff-now-both", true, func(jd string) []string { return []string{jd, jd} }, "'now'", "'now'")
	td("dq-now", true, func(jd string) []string { return []string{jd, c14Fixed} }, `"now"`, c14Fixed)
	td("fixed-literal-time", false, nil, c14Fixed2, c14Fixed)
	fs = append(fs, c14Frag{name: "timediff", args: []string{"b", "'now'"}, form: "timediff-column-and-now", nd: true, timeCall: true, needCols: true,
		conc: func(jd string) []string { return []string{"b", jd} }})

	fs = append(fs, c14Frag{name: "random", nd: true, random: true})
	rb := func(form, arg string, n int) {
		fs = append(fs, c14Frag{name: "randomblob", args: []string{arg}, form: form, nd: true, blobLen: n})
	}
	rb("", "4", 4)
	rb("randomblob-0", "0", 1)
	rb("randomblob-1", "1", 1)
	rb("randomblob-16", "16", 16)
	rb("hex-randomblob-arg", "0x4", 4)
	rb("float-randomblob-arg", "4.0", 4)
	return fs
}

// ---------------------------------------------------------------------------
// name case, spacing, wrappers

type c14Case struct {
	label string
	f     func(string) string
}

var c14Cases = []c14Case{
	{"", func(s string) string { return s }},
	{"upper-case-name", strings.ToUpper},
	{"mixed-case-name", func(s string) string {
		b := []byte(s)
		for i := range b {
			if i%2 == 0 {
				b[i] = byte(strings.ToUpper(string(b[i]))[0])
			}
		}
		return string(b)
	}},
}

type c14Space struct {
	label string
	// render the call from the (case-adjusted) name and the joined args
	f func(name, args string) string
}

var c14Spaces = []c14Space{
	{"", func(n, a string) string { return n + "(" + a + ")" }},
	{"whitespace-before-paren", func(n, a string) string { return n + " (" + a + ")" }},
	{"whitespace-before-paren", func(n, a string) string { return n + "\t(" + a + ")" }},
	{"whitespace-before-paren", func(n, a string) string { return n + "\n(" + a + ")" }},
	{"comment-before-paren", func(n, a string) string { return n + "/**/(" + a + ")" }},
	{"space-inside-parens", func(n, a string) string { return n + "( " + a + " )" }},
	{"comment-inside-parens", func(n, a string) string { return n + "(/*x*/" + a + ")" }},
	{"quoted-function-name", func(n, a string) string { return `"` + n + `"(` + a + ")" }},
}

type c14Wrap struct {
	label    string
	f        func(string) string
	atomic   bool // result is a primary expression
	blobSafe bool // result does not depend on a blob's content
}

var c14Wraps = []c14Wrap{
	{"", func(x string) string { return x }, true, true},
	{"w-paren", func(x string) string { return "(" + x + ")" }, true, true},
	{"w-unary-minus", func(x string) string { return "-" + x }, false, false},
	{"w-func-arg", func(x string) string { return "abs(" + x + ")" }, true, false},
	{"w-nested-2", func(x string) string { return "lower(quote(" + x + "))" }, true, false},
	{"w-concat", func(x string) string { return x + " || '!'" }, false, false},
	{"w-arith-lhs", func(x string) string { return x + " + 1" }, false, false},
	{"w-arith-rhs", func(x string) string { return "1 - " + x }, false, false},
	{"w-cast", func(x string) string { return "CAST(" + x + " AS TEXT)" }, true, false},
	{"w-coalesce", func(x string) string { return "coalesce(NULL, " + x + ")" }, true, true},
	{"w-case", func(x string) string { return "CASE WHEN 1 THEN " + x + " ELSE 0 END" }, true, true},
	{"w-iif", func(x string) string { return "iif(0, 0, " + x + ")" }, true, true},
	{"w-typeof", func(x string) string { return "typeof(" + x + ")" }, true, true},
	{"w-length", func(x string) string { return "length(" + x + ")" }, true, true},
	{"w-null-test", func(x string) string { return x + " IS NULL" }, false, true},
	{"w-null-test", func(x string) string { return x + " NOTNULL" }, false, true},
	{"w-null-test", func(x string) string { return x + " IS NOT NULL" }, false, true},
	{"w-in-list", func(x string) string { return "1 IN (0, " + x + ")" }, false, false},
	{"w-between", func(x string) string { return "5 BETWEEN 0 AND " + x }, false, false},
	{"w-time-arg", func(x string) string { return "datetime(" + x + ", '+1 day')" }, true, false},
	{"w-strftime-arg", func(x string) string { return "strftime('%Y', " + x + ")" }, true, false},
	{"w-hex", func(x string) string { return "hex(" + x + ")" }, true, false},
	{"w-collate", func(x string) string { return x + " COLLATE NOCASE" }, false, false},
	{"w-not", func(x string) string { return "NOT " + x }, false, false},
	{"w-max2", func(x string) string { return "max(" + x + ", 0)" }, true, false},
}

// a call site: fragment + presentation
type c14Site struct {
	fr *c14Frag
	cs *c14Case
	sp *c14Space
	wr *c14Wrap
}

func (s c14Site) render() string {
	return s.wr.f(s.sp.f(s.cs.f(s.fr.name), strings.Join(s.fr.args, ",")))
}

// expected concretised text under a pin
func (s c14Site) expected(p *c14Pin) string {
	fr := s.fr
	switch {
	case !fr.nd:
		return s.wr.f(fr.name + "(" + strings.Join(fr.args, ",") + ")")
	case fr.random:
		return s.wr.f("(" + strconv.FormatInt(p.rnd, 10) + ")")
	case fr.blobLen > 0:
		return s.wr.f("zeroblob(" + strconv.Itoa(fr.blobLen) + ")")
	default:
		return s.wr.f(fr.name + "(" + strings.Join(fr.conc(p.jd), ",") + ")")
	}
}

// the text the AST printer would emit for this call if it were left as is
func (s c14Site) residual() string {
	return s.cs.f(s.fr.name) + "(" + strings.Join(s.fr.args, ", ") + ")"
}

func (s c14Site) labels() []string {
	var l []string
	for _, x := range []string{s.fr.form, s.sp.label, s.wr.label, s.cs.label} {
		if x != "" {
			l = append(l, x)
		}
	}
	return l
}

// ---------------------------------------------------------------------------
// statement templates

type c14Tmpl struct {
	text     string // {0}, {1} = call sites
	label    string
	rows     bool // evaluate with Query (SELECT / RETURNING)
	cols     bool // columns a,b of t are in scope at the sites
	timeOnly bool // sites must be time calls (inside ORDER BY: random excluded by the property)
	paren    bool // sites that are not primary expressions are parenthesised
	multiset bool // row order is not determined (ORDER BY random())
	time1    bool // site {1} must be a time call (it sits inside ORDER BY)
	nsites   int
}

func c14T(label, text string, flags string) c14Tmpl {
	t := c14Tmpl{text: text, label: label}
	t.rows = strings.Contains(flags, "r")
	t.cols = strings.Contains(flags, "c")
	t.timeOnly = strings.Contains(flags, "t")
	t.paren = strings.Contains(flags, "p")
	t.multiset = strings.Contains(flags, "m")
	t.time1 = strings.Contains(flags, "2")
	t.nsites = strings.Count(text, "{0}") + strings.Count(text, "{1}")
	return t
}

// single-site templates. Where the site is an operand of a predicate the
// user-defined REGEXP operator (registered by the harness, logs its pattern
// operand, returns 1) makes the operand's value observable without changing the
// shape of the expression tree (it is an ordinary binary operator).
func c14Tmpls1() []c14Tmpl {
	return []c14Tmpl{
		c14T("", "SELECT {0}", "r"),
		c14T("", "SELECT id, {0} FROM t", "rc"),
		c14T("select-alias", "SELECT {0} AS v FROM t WHERE id = 2", "rc"),
		c14T("where-operand", "SELECT id FROM t WHERE b REGEXP {0}", "rcp"),
		c14T("where-compare", "SELECT id FROM t WHERE a < {0} OR b >= {0}", "rcp"),
		c14T("where-and-or", "SELECT id FROM t WHERE id = 1 AND (b REGEXP {0} OR a = 2)", "rcp"),
		c14T("group-by", "SELECT count(*), min(id) FROM t GROUP BY b REGEXP {0}", "rcp"),
		c14T("having", "SELECT a, count(*) FROM t GROUP BY a HAVING a REGEXP {0}", "rcp"),
		c14T("join-on", "SELECT t.id FROM t JOIN t AS k ON k.b REGEXP {0} AND k.id = t.id", "rp"),
		c14T("from-subquery", "SELECT v FROM (SELECT {0} AS v)", "r"),
		c14T("inside-expression-subquery", "SELECT (SELECT {0})", "r"),
		c14T("inside-expression-subquery", "SELECT id, (SELECT {0}) FROM t", "r"),
		c14T("inside-expression-subquery", "SELECT id FROM t WHERE id IN (SELECT 2 WHERE 1 REGEXP {0})", "rp"),
		c14T("exists-subquery", "SELECT id FROM t WHERE EXISTS (SELECT 1 WHERE 1 REGEXP {0})", "rp"),
		c14T("compound-left", "SELECT {0} UNION ALL SELECT 0", "r"),
		c14T("compound-right", "SELECT 0 UNION ALL SELECT {0}", "r"),
		c14T("compound-third", "SELECT 0 UNION ALL SELECT 1 UNION ALL SELECT {0}", "r"),
		c14T("order-by-term", "SELECT id FROM t ORDER BY id REGEXP {0}, id", "rcpt"),
		c14T("order-by-term-desc", "SELECT id FROM t ORDER BY a DESC, id REGEXP {0} DESC, id", "rcpt"),
		c14T("limit-after-order-by", "SELECT id FROM t ORDER BY id LIMIT (1 REGEXP {0})", "rp"),
		c14T("offset-after-order-by", "SELECT id FROM t ORDER BY b DESC, id LIMIT 2 OFFSET (1 REGEXP {0})", "rp"),
		c14T("select-list-with-order-by", "SELECT id, {0} FROM t ORDER BY id DESC", "rc"),
		c14T("select-list-with-order-by-random", "SELECT {0} FROM t ORDER BY random()", "rcm"),
		c14T("subquery-after-order-by", "SELECT v FROM (SELECT id AS v FROM t ORDER BY id) WHERE v REGEXP {0}", "rp"),
		c14T("filter-clause", "SELECT count(*) FILTER (WHERE a REGEXP {0}) FROM t", "rcp"),
		c14T("window-partition", "SELECT sum(id) OVER (PARTITION BY b REGEXP {0} ORDER BY id) FROM t", "rcp"),
		c14T("window-order-by", "SELECT sum(id) OVER (ORDER BY id REGEXP {0}, id) FROM t", "rcpt"),
		c14T("distinct", "SELECT DISTINCT {0} FROM t", "rc"),
		c14T("aggregate-arg", "SELECT max({0}), count({0}) FROM t", "rc"),
		c14T("values-stmt", "VALUES (1, {0})", "r"),
		c14T("inside-cte", "WITH c(x) AS (SELECT {0}) SELECT x FROM c", "r"),
		c14T("inside-cte", "WITH c(x) AS (SELECT 1), d(y) AS (SELECT {0}) SELECT x, y FROM c, d", "r"),
		c14T("cte-main", "WITH c(x) AS (SELECT 1) SELECT x, {0} FROM c", "r"),
		c14T("cte-recursive-main", "WITH RECURSIVE c(x) AS (SELECT 1 UNION ALL SELECT x+1 FROM c WHERE x<2) SELECT x, {0} FROM c", "r"),
		c14T("inside-cte", "WITH RECURSIVE c(x,v) AS (SELECT 1, {0} UNION ALL SELECT x+1, v FROM c WHERE x<2) SELECT x, v FROM c", "r"),

		c14T("insert-values", "INSERT INTO t(a, b) VALUES(10, {0})", ""),
		c14T("insert-values-first-col", "INSERT INTO t(a, b) VALUES({0}, 'p')", ""),
		c14T("insert-values-no-collist", "INSERT INTO t VALUES(10, 20, {0})", ""),
		c14T("insert-values-second-row", "INSERT INTO t(a, b) VALUES(10, 'p'), (11, {0})", ""),
		c14T("insert-select", "INSERT INTO t(a, b) SELECT 10, {0}", ""),
		c14T("insert-select-where", "INSERT INTO t(a, b) SELECT id + 10, b FROM t WHERE b REGEXP {0}", "cp"),
		c14T("insert-or-replace", "INSERT OR REPLACE INTO t(id, a, b) VALUES(1, 10, {0})", ""),
		c14T("replace-into", "REPLACE INTO t(id, b) VALUES(2, {0})", ""),
		c14T("upsert-values", "INSERT INTO t(id, a, b) VALUES(1, 10, {0}) ON CONFLICT(id) DO UPDATE SET b = excluded.b", ""),
		c14T("upsert-set", "INSERT INTO t(id, a, b) VALUES(1, 10, 'p') ON CONFLICT(id) DO UPDATE SET b = {0}", "c"),
		c14T("upsert-set-second", "INSERT INTO t(id, a, b) VALUES(2, 10, 'p') ON CONFLICT(id) DO UPDATE SET a = excluded.a, b = {0}", "c"),
		c14T("upsert-where", "INSERT INTO t(id, a, b) VALUES(1, 10, 'p') ON CONFLICT(id) DO UPDATE SET b = excluded.b WHERE t.b REGEXP {0}", "p"),
		c14T("upsert-do-nothing", "INSERT INTO t(id, a, b) VALUES(1, 10, {0}) ON CONFLICT DO NOTHING", ""),
		c14T("upsert-no-conflict", "INSERT INTO t(id, a, b) VALUES(9, 10, {0}) ON CONFLICT(id) DO UPDATE SET b = 'q'", ""),
		c14T("insert-returning-expr", "INSERT INTO t(a, b) VALUES(10, 'p') RETURNING id, {0}", "rc"),
		c14T("insert-returning-star", "INSERT INTO t(a, b) VALUES(10, {0}) RETURNING *", "r"),
		c14T("upsert-returning", "INSERT INTO t(id, a, b) VALUES(1, 10, 'p') ON CONFLICT(id) DO UPDATE SET b = {0} RETURNING id, b", "rc"),
		c14T("inside-cte", "WITH c(x) AS (SELECT {0}) INSERT INTO t(a, b) SELECT 10, x FROM c", ""),
		c14T("cte-main-insert", "WITH c(x) AS (SELECT 10) INSERT INTO t(a, b) SELECT x, {0} FROM c", ""),

		c14T("update-set", "UPDATE t SET b = {0}", "c"),
		c14T("update-set-where-id", "UPDATE t SET b = {0} WHERE id = 1", "c"),
		c14T("update-set-second", "UPDATE t SET a = a + 1, b = {0} WHERE id <> 2", "c"),
		c14T("update-where", "UPDATE t SET a = 0 WHERE b REGEXP {0}", "cp"),
		c14T("update-set-tuple", "UPDATE t SET (a, b) = (5, {0}) WHERE id = 2", "c"),
		c14T("inside-expression-subquery", "UPDATE t SET b = (SELECT {0}) WHERE id = 2", "c"),
		c14T("update-from", "UPDATE t SET b = s.x FROM (SELECT {0} AS x) AS s WHERE t.id = 2", ""),
		c14T("update-or-ignore", "UPDATE OR IGNORE t SET b = {0}", "c"),
		c14T("update-delete-returning", "UPDATE t SET b = 'p' WHERE id = 1 RETURNING id, {0}", "rc"),
		c14T("update-delete-returning", "UPDATE t SET b = {0} WHERE id = 1 RETURNING id, b", "rc"),
		c14T("inside-cte", "WITH c(x) AS (SELECT {0}) UPDATE t SET b = (SELECT x FROM c) WHERE id = 3", ""),
		c14T("cte-main-update", "WITH c(x) AS (SELECT 3) UPDATE t SET b = {0} WHERE id IN (SELECT x FROM c)", "c"),

		c14T("delete-where", "DELETE FROM t WHERE id = 1 AND b REGEXP {0}", "cp"),
		c14T("inside-expression-subquery", "DELETE FROM t WHERE id IN (SELECT id FROM t WHERE id > 1 AND b REGEXP {0})", "cp"),
		c14T("update-delete-returning", "DELETE FROM t WHERE id = 1 RETURNING id, {0}", "rc"),
		c14T("update-delete-returning", "DELETE FROM t WHERE id = 2 AND b REGEXP {0} RETURNING id, b", "rcp"),
		c14T("inside-cte", "WITH c(x) AS (SELECT {0}) DELETE FROM t WHERE id = 3 AND b REGEXP (SELECT x FROM c)", ""),
		c14T("cte-main-delete", "WITH c(x) AS (SELECT 3) DELETE FROM t WHERE id IN (SELECT x FROM c) AND b REGEXP {0}", "cp"),
	}
}

// two-site templates
func c14Tmpls2() []c14Tmpl {
	return []c14Tmpl{
		c14T("p-select-two", "SELECT {0}, {1}", "r"),
		c14T("p-select-where", "SELECT {0} FROM t WHERE b REGEXP {1}", "rcp"),
		c14T("p-select-order-by", "SELECT id, {0} FROM t ORDER BY id REGEXP {1}, id", "rcp2"),
		c14T("p-insert-values", "INSERT INTO t(a, b) VALUES({0}, {1})", ""),
		c14T("p-insert-returning", "INSERT INTO t(a, b) VALUES(10, {0}) RETURNING id, {1}", "r"),
		c14T("p-upsert", "INSERT INTO t(id, a, b) VALUES(1, 10, {0}) ON CONFLICT(id) DO UPDATE SET b = {1}", ""),
		c14T("p-update-set-where", "UPDATE t SET b = {0} WHERE a REGEXP {1}", "cp"),
		c14T("p-update-two-sets", "UPDATE t SET a = {0}, b = {1} WHERE id = 2", "c"),
		c14T("p-delete-and", "DELETE FROM t WHERE a REGEXP {0} AND b REGEXP {1}", "cp"),
		c14T("inside-cte", "WITH c(x) AS (SELECT {0}) SELECT x, {1} FROM c", "r"),
		c14T("inside-expression-subquery", "SELECT (SELECT {0}), {1}", "r"),
		c14T("p-compound", "SELECT {0} UNION ALL SELECT {1}", "r"),
		c14T("p-nested-timediff", "SELECT timediff({0}, {1})", "r"),
		c14T("p-order-by-random-between", "SELECT {0}, id IN (SELECT id FROM t ORDER BY random()), {1} FROM t", "rc"),
	}
}

// ---------------------------------------------------------------------------
// decoy / context statements: {X} is filled with: no call (7), a fixed-time
// call, a now call, random().

type c14Ctx struct {
	label string
	text  string
	flags string // r rows, e exec (multi-statement), n no O1 (CURRENT_DATE: day-granular, not excluded from staying)
}

func c14Ctxs() []c14Ctx {
	return []c14Ctx{
		// the words inside string literals
		{"ctx-string-date-paren", "SELECT {X}, 'date(' || a FROM t", "r"},
		{"ctx-string-call-now", "SELECT {X}, 'it''s time(''now'') or datetime()' FROM t", "r"},
		{"ctx-string-random", "INSERT INTO t(a, b) VALUES('random()', {X})", ""},
		{"ctx-string-randomblob", "UPDATE t SET a = 'RANDOMBLOB(4)', b = {X} WHERE id = 1", ""},
		{"ctx-string-now", "SELECT {X}, 'now', 'NOW' FROM t WHERE b <> 'now'", "r"},
		{"ctx-string-returning", "INSERT INTO t(a, b) VALUES('returning fire', {X})", ""},
		{"ctx-dq-string-call", "INSERT INTO t(a, b) VALUES(\"time('now')\", {X})", ""},
		// as identifiers / column names
		{"ctx-dq-ident-time-paren", "SELECT {X}, \"time(\" FROM u", "r"},
		{"ctx-alias-random-paren", "SELECT {X} AS \"random(\", a AS \"date('now')\" FROM t", "r"},
		{"ctx-bracket-identifier", "SELECT {X}, [time(] FROM u", "r"},
		{"ctx-backtick-ident", "SELECT {X}, `time(` FROM u", "r"},
		{"ctx-column-named-now-qualified", "SELECT {X}, date(u.now), u.now FROM u", "rt"},
		{"ctx-table-alias-now", "SELECT {X}, now.a FROM t AS now", "r"},
		{"ctx-alias-named-random", "SELECT {X} AS random, a AS date FROM t", "r"},
		{"ctx-insert-into-column-now", "INSERT INTO u(id, now, c) VALUES(5, {X}, 1)", ""},
		{"ctx-update-column-now", "UPDATE u SET now = {X}, c = 2", ""},
		// an identifier that ENDS in a function name, written flush against "(", before the real call
		{"ctx-table-name-ends-in-time-paren", "INSERT INTO uptime(name, at) VALUES('a', {X})", ""},
		{"ctx-table-name-ends-in-date-paren", "INSERT INTO last_update(v) VALUES({X})", ""},
		{"ctx-table-name-ends-in-random-paren", "INSERT INTO myrandom(v) VALUES({X})", ""},
		// in comments
		{"ctx-block-comment", "SELECT {X} /* time('now') random() */ FROM t", "r"},
		{"ctx-leading-comment", "/* date() */ SELECT {X} FROM t", "r"},
		{"ctx-trailing-line-comment", "SELECT {X} FROM t -- random(), datetime('now')", "r"},
		{"ctx-line-comment-inside", "SELECT {X} -- time(\n FROM t", "r"},
		// a column actually called now: date(now) is a column reference, not the clock
		{"ctx-column-named-now", "SELECT {X}, date(now), strftime('%Y', now) FROM u", "rt"},
		{"ctx-column-named-now", "SELECT {X}, datetime(\"now\") FROM u", "rt"},
		{"ctx-column-named-now", "SELECT {X}, timediff(now, '2000-01-01') FROM u", "rt"},
		// excluded keyword (must simply be left alone)
		{"ctx-current-date", "SELECT {X}, CURRENT_DATE FROM t", "rn"},
		{"ctx-current-date", "INSERT INTO t(a, b) VALUES(CURRENT_DATE, {X})", "n"},
		// other syntax around the call
		{"ctx-double-minus", "SELECT {X}, - -a FROM t", "r"},
		{"ctx-minus-paren-minus", "SELECT {X}, -(-a), 1 - -1, +a, ~a FROM t", "r"},
		{"ctx-like-escape", "SELECT {X} FROM t WHERE b LIKE 'x!%' ESCAPE '!'", "r"},
		{"ctx-like-glob", "SELECT {X} FROM t WHERE b LIKE 'x%' OR b NOT LIKE 'y' OR b GLOB 'z*'", "r"},
		{"ctx-is-distinct-from", "SELECT {X}, a IS DISTINCT FROM id FROM t", "r"},
		{"ctx-is-not", "SELECT {X}, a IS NOT id, a IS id, a ISNULL, a NOTNULL, a NOT NULL, a IS NOT NULL FROM t", "r"},
		{"ctx-digit-separator", "SELECT {X}, 1_000 FROM t", "r"},
		{"ctx-number-forms", "SELECT {X}, 1.5e-3, 1E3, 0X1f, .5e1, 5., 9223372036854775807, -9223372036854775808 FROM t", "r"},
		{"ctx-blob-and-string-literals", "SELECT {X}, x'AB', X'cd', 'a''b', '' FROM t", "r"},
		{"ctx-dq-escaped-quote-alias", "SELECT {X} AS \"a\"\"b\" FROM t", "r"},
		{"ctx-bracket-identifier", "SELECT {X} AS [a b] FROM t", "r"},
		{"ctx-backtick-escaped-alias", "SELECT {X} AS `a``b` FROM t", "r"},
		{"ctx-operators", "SELECT {X}, a % 2, a << 1, a >> 1, a & 1, a | 1, a <> 1, a != 1, a == 1, a = 1, a <= 1, a >= 1, a || b FROM t", "r"},
		{"ctx-precedence", "SELECT {X}, 1 + 2 * 3, (1 + 2) * 3, 1 - (2 - 3), 8 / (4 / 2), NOT (a AND id), (NOT a) AND id, a AND (id OR a), 'a' || ('b' || 'c') FROM t", "r"},
		{"ctx-case-cast-collate", "SELECT {X}, CASE a WHEN 1 THEN 'one' ELSE 'other' END, CAST(a AS TEXT), CAST(b AS DECIMAL(10,2)), b COLLATE NOCASE = 'X' FROM t", "r"},
		{"ctx-json-arrows", "SELECT {X}, '{\"k\":[1,2]}' -> '$.k', '{\"k\":[1,2]}' ->> '$.k[1]' FROM t", "r"},
		{"ctx-in-between-exists", "SELECT {X} FROM t WHERE a IN (1, 2) AND a NOT IN (3) AND id BETWEEN 1 AND 3 AND id NOT BETWEEN 5 AND 6 AND EXISTS (SELECT 1) AND NOT EXISTS (SELECT 1 WHERE 0)", "r"},
		{"ctx-row-values", "SELECT {X}, (1, 2) < (1, 3), (id, a) = (1, 1) FROM t", "r"},
		{"ctx-bool-null-literals", "SELECT {X}, TRUE, false, NULL, null FROM t", "r"},
		{"ctx-aggregates", "SELECT {X}, count(*), count(DISTINCT a), group_concat(b, '-'), sum(a) FILTER (WHERE a > 1) FROM t", "r"},
		{"ctx-window", "SELECT {X}, row_number() OVER (PARTITION BY a ORDER BY id DESC NULLS LAST ROWS BETWEEN UNBOUNDED PRECEDING AND CURRENT ROW), sum(id) OVER w FROM t WINDOW w AS (ORDER BY id)", "r"},
		{"ctx-joins", "SELECT {X}, k.id FROM t LEFT OUTER JOIN t AS k ON k.id = t.id + 1 CROSS JOIN (SELECT 1) NATURAL JOIN u", "r"},
		{"ctx-join-using", "SELECT {X}, t.id FROM main.t AS t JOIN t AS k USING (id)", "r"},
		{"ctx-order-limit-offset", "SELECT {X}, id FROM t ORDER BY a DESC NULLS FIRST, b COLLATE NOCASE ASC LIMIT 2 OFFSET 1", "r"},
		{"ctx-limit-comma", "SELECT {X}, id FROM t ORDER BY id LIMIT 1, 2", "r"},
		{"ctx-group-having", "SELECT {X}, a, count(*) FROM t GROUP BY a HAVING count(*) > 0", "r"},
		{"ctx-compound-ops", "SELECT {X} UNION SELECT 1 EXCEPT SELECT 2 INTERSECT SELECT 1", "r"},
		{"ctx-indexed-by", "SELECT {X}, id FROM t INDEXED BY t_b WHERE b = 'x'", "r"},
		{"ctx-not-indexed", "SELECT {X}, id FROM t NOT INDEXED", "r"},
		{"ctx-rowid-names", "SELECT {X}, rowid, _rowid_, oid FROM t", "r"},
		{"ctx-keyword-alias", "SELECT {X} AS \"select\", a \"from\" FROM t AS \"where\"", "r"},
		{"ctx-order-by-random", "SELECT {X}, id FROM t ORDER BY random()", "rm"},
		{"ctx-order-by-random-subquery", "SELECT {X}, id IN (SELECT id FROM t ORDER BY random() LIMIT 3) FROM t", "r"},
		{"ctx-trailing-semicolon", "SELECT {X} FROM t;", "r"},
		{"ctx-insert-default-values-returning", "INSERT INTO t DEFAULT VALUES RETURNING id, {X}", "r"},
		{"ctx-insert-or-ignore-alias", "INSERT OR IGNORE INTO main.t AS tt (id, b) VALUES(1, {X}), (7, {X})", ""},
		{"ctx-two-on-conflict", "INSERT INTO t(id, b) VALUES(1, {X}) ON CONFLICT(id) DO NOTHING ON CONFLICT DO UPDATE SET b = 'q'", ""},
		{"ctx-update-indexed-alias", "UPDATE OR REPLACE main.t AS tt SET b = {X} WHERE tt.id = 1", ""},
		{"ctx-delete-alias-indexed", "DELETE FROM main.t AS tt INDEXED BY t_b WHERE tt.b = 'x' AND tt.id <> {X}", ""},
		{"ctx-multi-statement", "INSERT INTO t(a, b) VALUES(10, {X}); INSERT INTO t(a, b) VALUES(11, 'second')", "e"},
		{"ctx-multi-statement-first-plain", "INSERT INTO t(a, b) VALUES(10, 'first'); INSERT INTO t(a, b) VALUES(11, {X})", "e"},
	}
}

// ---------------------------------------------------------------------------
// a generated statement

type c14Stmt struct {
	orig     string
	sites    []c14Site
	tmplLab  string
	ctxLab   string
	rows     bool
	exec     bool
	multiset bool
	noO1     bool
	exp      func(p *c14Pin) string // expected concretised text
	labels   []string

	// results
	out      string
	perr     string
	parseErr string
	eOrig    string
	eOut1    string
	eOut2    string
	outB     string // Process output inside a synctest bubble (time.Now() is the bubble's fake clock)
	perrB    string
	ePinB    string
	eExpB    string
	hasRand  bool
	pinText  [2]string
	pinErr   [2]string
	ePin     [2]string
	eExp     [2]string
	nd       int
	blobUnsafe bool
	hasBlob  bool
	anyCall  bool
	timeArgs bool // some time call with a non-now explicit time value
	mayChg   bool
}

func (s *c14Stmt) finish() {
	var l []string
	if s.tmplLab != "" {
		l = append(l, s.tmplLab)
	}
	if s.ctxLab != "" {
		l = append(l, s.ctxLab)
	}
	for _, si := range s.sites {
		l = append(l, si.labels()...)
		s.anyCall = true
		if si.fr.nd {
			s.nd++
		}
		if si.fr.random {
			s.hasRand = true
		}
		if si.fr.blobLen > 0 {
			s.hasBlob = true
			if !si.wr.blobSafe {
				s.blobUnsafe = true
			}
		}
		if si.fr.timeCall && !si.fr.nd {
			s.timeArgs = true
		}
		if si.wr.label == "w-time-arg" || si.wr.label == "w-strftime-arg" {
			s.timeArgs = true
		}
		if si.fr.mayChange {
			s.mayChg = true
		}
	}
	sort.Strings(l)
	var u []string
	for i, x := range l {
		if i == 0 || l[i-1] != x {
			u = append(u, x)
		}
	}
	s.labels = u
}

func c14Fill(t *c14Tmpl, sites []c14Site, f func(c14Site) string) string {
	text := t.text
	for i, si := range sites {
		x := f(si)
		if t.paren && !si.wr.atomic {
			x = "(" + x + ")"
		}
		text = strings.ReplaceAll(text, "{"+strconv.Itoa(i)+"}", x)
	}
	return text
}

func c14Make(t *c14Tmpl, sites ...c14Site) *c14Stmt {
	for _, si := range sites {
		if si.fr.needCols && !t.cols {
			return nil
		}
		if t.timeOnly && !si.fr.timeCall {
			return nil
		}
		if si.fr.noTimeWrap && (si.wr.label == "w-time-arg" || si.wr.label == "w-strftime-arg" || t.label == "p-nested-timediff") {
			return nil
		}
	}
	if t.time1 && !sites[1].fr.timeCall {
		return nil
	}
	if t.label == "p-nested-timediff" {
		// the operands become time values of timediff(): only string-valued time calls make sense
		for _, si := range sites {
			if !si.fr.timeCall {
				return nil
			}
		}
	}
	ss := append([]c14Site(nil), sites...)
	tt := t
	s := &c14Stmt{orig: c14Fill(t, ss, c14Site.render), sites: ss, tmplLab: t.label, rows: t.rows, multiset: t.multiset}
	s.exp = func(p *c14Pin) string { return c14Fill(tt, ss, func(si c14Site) string { return si.expected(p) }) }
	s.finish()
	if t.label == "p-nested-timediff" {
		s.timeArgs = true
	}
	return s
}

// ---------------------------------------------------------------------------
// SQLite evaluation

type c14DB struct {
	conn     *dsql.Conn
	log      map[string]struct{}
	normBlob bool
}

var c14DrvN atomic.Int64

func c14Canon(v any, normBlob bool) string {
	switch x := v.(type) {
	case nil:
		return "NULL"
	case int64:
		return "i:" + strconv.FormatInt(x, 10)
	case float64:
		return "r:" + strconv.FormatFloat(x, 'g', -1, 64)
	case string:
		return "t:" + strconv.Quote(x)
	case []byte:
		if normBlob {
			return "b[" + strconv.Itoa(len(x)) + "]"
		}
		return fmt.Sprintf("b:%x", x)
	case bool:
		return fmt.Sprintf("bool:%v", x)
	case time.Time:
		return "time:" + x.UTC().Format(time.RFC3339Nano)
	default:
		return fmt.Sprintf("?%T:%v", v, v)
	}
}

const c14Schema = `
CREATE TABLE t(id INTEGER PRIMARY KEY, a, b);
CREATE INDEX t_b ON t(b);
INSERT INTO t VALUES(1, 1, 'x'), (2, 2, 'y'), (3, NULL, 'z');
CREATE TABLE u(id INTEGER PRIMARY KEY, now, "time(", c);
INSERT INTO u VALUES(1, '2001-02-03 04:05:06', 'tp', 5);
CREATE TABLE uptime(id INTEGER PRIMARY KEY, name, at);
CREATE TABLE last_update(id INTEGER PRIMARY KEY, v);
CREATE TABLE myrandom(id INTEGER PRIMARY KEY, v);
`

func c14Open(t *testing.T) *c14DB {
	d := &c14DB{log: map[string]struct{}{}}
	name := fmt.Sprintf("c14sqlite3_%d", c14DrvN.Add(1))
	dsql.Register(name, &sqlite3.SQLiteDriver{ConnectHook: func(c *sqlite3.SQLiteConn) error {
		return c.RegisterFunc("regexp", func(pat, val any) int64 {
			d.log[c14Canon(pat, d.normBlob)] = struct{}{}
			return 1
		}, false)
	}})
	db, err := dsql.Open(name, ":memory:")
	if err != nil {
		t.Fatalf("open: %v", err)
	}
	db.SetMaxOpenConns(1)
	conn, err := db.Conn(context.Background())
	if err != nil {
		t.Fatalf("conn: %v", err)
	}
	if _, err := conn.ExecContext(context.Background(), c14Schema); err != nil {
		t.Fatalf("schema: %v", err)
	}
	d.conn = conn
	t.Cleanup(func() { conn.Close(); db.Close() })
	return d
}

func (d *c14DB) query(q string, normBlob, multiset bool) (string, error) {
	ctx := context.Background()
	rows, err := d.conn.QueryContext(ctx, q)
	if err != nil {
		return "", err
	}
	defer rows.Close()
	cols, err := rows.Columns()
	if err != nil {
		return "", err
	}
	var out []string
	for rows.Next() {
		vals := make([]any, len(cols))
		ptr := make([]any, len(cols))
		for i := range vals {
			ptr[i] = &vals[i]
		}
		if err := rows.Scan(ptr...); err != nil {
			return "", err
		}
		p := make([]string, len(vals))
		for i, v := range vals {
			p[i] = c14Canon(v, normBlob)
		}
		out = append(out, strings.Join(p, ","))
	}
	if err := rows.Err(); err != nil {
		return "", err
	}
	if multiset {
		sort.Strings(out)
	}
	return fmt.Sprintf("%d cols[%s]", len(cols), strings.Join(out, ";")), nil
}

// eval runs one statement text on the fixture inside a transaction that is
// rolled back, and returns a canonical description of everything observable:
// rows returned (or error), contents of both tables, operands seen by REGEXP.
func (d *c14DB) eval(s *c14Stmt, text string, normBlob bool) string {
	ctx := context.Background()
	for k := range d.log {
		delete(d.log, k)
	}
	d.normBlob = normBlob
	if _, err := d.conn.ExecContext(ctx, "BEGIN"); err != nil {
		return "HARNESS-ERR begin: " + err.Error()
	}
	var res string
	if s.rows {
		r, err := d.query(text, normBlob, s.multiset)
		if err != nil {
			res = "ERR"
		} else {
			res = r
		}
	} else {
		if _, err := d.conn.ExecContext(ctx, text); err != nil {
			res = "ERR"
		} else {
			res = "ok"
		}
	}
	tt, err1 := d.query("SELECT id, a, b FROM t ORDER BY id", normBlob, false)
	tu, err2 := d.query("SELECT * FROM u ORDER BY id", normBlob, false)
	if err1 != nil || err2 != nil {
		tt = fmt.Sprintf("HARNESS-ERR dump: %v %v", err1, err2)
	}
	if _, err := d.conn.ExecContext(ctx, "ROLLBACK"); err != nil {
		return "HARNESS-ERR rollback: " + err.Error()
	}
	obs := make([]string, 0, len(d.log))
	for k := range d.log {
		obs = append(obs, k)
	}
	sort.Strings(obs)
	return res + " | t=" + tt + " | u=" + tu + " | regexp-operands=" + strings.Join(obs, ";")
}

// ---------------------------------------------------------------------------
// the code under test

// c14Process is the public path, called the way http/service.go calls it for
// /db/execute and /db/request when neither norwrandom nor norwtime is given.
func c14Process(text string) (string, string) {
	st := []*proto.Statement{{Sql: text}}
	if err := Process(st, true, true); err != nil {
		return st[0].Sql, err.Error()
	}
	return st[0].Sql, ""
}

// c14Pinned repeats what Process does after its substring pre-filter, with the
// Rewriter's unexported clock and random source pinned.
func c14Pinned(text string, now time.Time, rnd int64) (out string, errs string) {
	defer func() {
		if p := recover(); p != nil {
			out, errs = text, fmt.Sprintf("panic: %v", p)
		}
	}()
	parsed, err := rsql.NewParser(strings.NewReader(text)).ParseStatement()
	if err != nil {
		return text, "parse: " + err.Error()
	}
	rw := NewRewriter()
	rw.RewriteRand, rw.RewriteTime = true, true
	rw.nowFn = func() time.Time { return now }
	rw.randFn = func() int64 { return rnd }
	st, modified, _, err := rw.Do(parsed)
	if err != nil {
		return text, "rewrite: " + err.Error()
	}
	if modified {
		return st.String(), ""
	}
	return text, ""
}

// ---------------------------------------------------------------------------
// enumeration

func c14Enumerate(thorough bool) []*c14Stmt {
	frags := c14Frags()
	t1 := c14Tmpls1()
	t2 := c14Tmpls2()
	cs0, sp0, wr0 := &c14Cases[0], &c14Spaces[0], &c14Wraps[0]
	var out []*c14Stmt
	seen := map[string]bool{}
	add := func(s *c14Stmt) {
		if s == nil || seen[s.orig] {
			return
		}
		seen[s.orig] = true
		out = append(out, s)
	}
	// representative fragments: first fragment of every distinct (function family, form)
	var rep []*c14Frag
	{
		fam := func(f *c14Frag) string {
			switch f.name {
			case "date", "time", "datetime", "julianday", "unixepoch":
				return "f1"
			}
			return f.name
		}
		got := map[string]bool{}
		for i := range frags {
			k := fam(&frags[i]) + "/" + frags[i].form
			if !got[k] {
				got[k] = true
				rep = append(rep, &frags[i])
			}
		}
		// make sure every function name is represented in its ordinary form
		for i := range frags {
			if frags[i].form == "" && !got["n/"+frags[i].name] {
				got["n/"+frags[i].name] = true
				found := false
				for _, r := range rep {
					if r == &frags[i] {
						found = true
					}
				}
				if !found {
					rep = append(rep, &frags[i])
				}
			}
		}
	}
	// the small core used for pairs in the quick tier
	var core []*c14Frag
	for _, f := range rep {
		switch f.form {
		case "", "zero-arg-datetime", "format-only-strftime", "fixed-literal-time", "hex-randomblob-arg", "subsec-as-only-arg":
			core = append(core, f)
		}
	}

	slot := func(label string) int {
		for i := range t1 {
			if t1[i].label == label && (label != "" || t1[i].text == "SELECT {0}") {
				return i
			}
		}
		panic("no template " + label)
	}
	sSel, sSelFrom, sWhere, sIns, sUpd := slot(""), slot("")+1, slot("where-operand"), slot("insert-values"), slot("update-set")
	sSub, sCte := slot("inside-expression-subquery"), slot("inside-cte")
	allFr := make([]*c14Frag, len(frags))
	for i := range frags {
		allFr[i] = &frags[i]
	}
	allSlots := make([]int, len(t1))
	for i := range t1 {
		allSlots[i] = i
	}
	isMain := func(ti int) bool { return ti == sSel || ti == sSelFrom || ti == sWhere || ti == sIns || ti == sUpd }

	// A1: every template x every fragment, plain presentation
	for ti := range t1 {
		for _, f := range allFr {
			add(c14Make(&t1[ti], c14Site{f, cs0, sp0, wr0}))
		}
	}
	// A2: name case x spacing
	slotsA2 := []int{sSel, sSelFrom, sWhere, sIns, sUpd}
	if thorough {
		slotsA2 = allSlots
	}
	for _, ti := range slotsA2 {
		fl := rep
		if thorough && isMain(ti) {
			fl = allFr
		}
		for _, f := range fl {
			for ci := range c14Cases {
				for si := range c14Spaces {
					add(c14Make(&t1[ti], c14Site{f, &c14Cases[ci], &c14Spaces[si], wr0}))
				}
			}
		}
	}
	// A3: wrappers (nesting inside expressions)
	slotsA3 := []int{sSel, sSelFrom, sWhere, sIns, sUpd, sSub, sCte}
	if thorough {
		slotsA3 = allSlots
	}
	for _, ti := range slotsA3 {
		fl := rep
		if thorough && isMain(ti) {
			fl = allFr
		}
		for _, f := range fl {
			for wi := range c14Wraps {
				add(c14Make(&t1[ti], c14Site{f, cs0, sp0, &c14Wraps[wi]}))
				if thorough && (ti == sSelFrom || ti == sIns) {
					// wrapper x case x spacing
					for ci := range c14Cases {
						for si := range c14Spaces {
							add(c14Make(&t1[ti], c14Site{f, &c14Cases[ci], &c14Spaces[si], &c14Wraps[wi]}))
						}
					}
				}
			}
		}
	}
	// B: two sites
	pf := core
	if thorough {
		pf = rep
	}
	var second []*c14Frag
	for _, f := range core {
		if (f.name == "time" || f.name == "random" || f.name == "randomblob") && f.form == "" || (f.name == "date" && f.form == "fixed-literal-time") {
			second = append(second, f)
		}
	}
	for ti := range t2 {
		for _, f := range pf {
			for _, g := range pf {
				add(c14Make(&t2[ti], c14Site{f, cs0, sp0, wr0}, c14Site{g, cs0, sp0, wr0}))
			}
		}
		// presentation variants on one of the two sites (the pre-filter works on the whole statement)
		for _, f := range pf {
			for _, g := range second {
				for si := range c14Spaces {
					if !thorough && si != 1 && si != 4 && si != 7 {
						continue
					}
					add(c14Make(&t2[ti], c14Site{f, &c14Cases[1], &c14Spaces[si], wr0}, c14Site{g, cs0, sp0, wr0}))
					add(c14Make(&t2[ti], c14Site{g, cs0, sp0, wr0}, c14Site{f, &c14Cases[2], &c14Spaces[si], wr0}))
					add(c14Make(&t2[ti], c14Site{f, cs0, &c14Spaces[si], wr0}, c14Site{g, cs0, &c14Spaces[si], wr0}))
				}
			}
		}
		// wrappers on both sites
		for _, f := range second {
			for _, g := range second {
				for wi := range c14Wraps {
					if !thorough && wi%4 != 2 {
						continue
					}
					add(c14Make(&t2[ti], c14Site{f, cs0, sp0, &c14Wraps[wi]}, c14Site{g, cs0, sp0, &c14Wraps[(wi+5)%len(c14Wraps)]}))
				}
			}
		}
	}
	// C: decoys / contexts
	var plainNow, plainRand, plainFixed, zeroArg *c14Frag
	for i := range frags {
		f := &frags[i]
		switch {
		case f.name == "time" && f.form == "":
			plainNow = f
		case f.name == "random":
			plainRand = f
		case f.name == "date" && f.form == "fixed-literal-time":
			plainFixed = f
		case f.name == "datetime" && f.form == "zero-arg-datetime":
			zeroArg = f
		}
	}
	xs := []*c14Frag{nil, plainNow, plainRand, plainFixed, zeroArg}
	if thorough {
		for _, f := range rep {
			if !f.needCols {
				xs = append(xs, f)
			}
		}
	}
	for _, c := range c14Ctxs() {
		for _, f := range xs {
			cc := c
			s := &c14Stmt{ctxLab: c.label, rows: strings.Contains(c.flags, "r"), exec: strings.Contains(c.flags, "e"), noO1: strings.Contains(c.flags, "n"), multiset: strings.Contains(c.flags, "m")}
			if f == nil {
				s.orig = strings.ReplaceAll(c.text, "{X}", "7")
				s.exp = func(p *c14Pin) string { return strings.ReplaceAll(cc.text, "{X}", "7") }
			} else {
				si := c14Site{f, cs0, sp0, wr0}
				s.sites = []c14Site{si}
				s.orig = strings.ReplaceAll(c.text, "{X}", si.render())
				s.exp = func(p *c14Pin) string { return strings.ReplaceAll(cc.text, "{X}", si.expected(p)) }
			}
			s.finish()
			if strings.Contains(c.flags, "t") {
				s.timeArgs = true
			}
			add(s)
		}
	}
	return out
}

// ---------------------------------------------------------------------------

type c14Verdict struct {
	kind string
	s    *c14Stmt
	what string
}

func TestVerif_C14(t *testing.T) {
	r := kit.Start(t, "C14", "enum")
	defer r.Finish()
	r.Rule(fmt.Sprintf("every statement of the grammar {%d one-site + %d two-site statement forms over SELECT/INSERT/UPSERT/UPDATE/DELETE/RETURNING/CTE/compound/subquery/ORDER BY/LIMIT/window positions} x {%d call fragments: date/time/datetime/julianday/unixepoch/strftime/timediff in every arity (zero-arg, 'now', \"now\", 'NOW', now+modifiers, 'subsec' as only argument, format-only strftime, fixed literal / numeric / column / NULL / non-now string time values), random(), randomblob(0|1|4|16|0x4|4.0)} x {lower/UPPER/MiXeD name} x {%d spacings/quotings between name and '('} x {%d expression wrappers}, plus %d decoy statements (the words inside strings, identifiers, aliases, column names, comments, CURRENT_DATE, ORDER BY random(), multi-statement strings and other syntax around a call) each with no call / fixed-time call / now call / zero-arg call / random(); every statement goes through the public Process(stmts, true, true) (real clock, and again with time.Now() pinned by a synctest bubble) and through the Rewriter with pinned nowFn/randFn at one (quick) or two (thorough) further instants, and every text is evaluated on in-memory SQLite. Quick tier: every form x every fragment; case x spacing and wrappers on 5-7 forms with one representative fragment per (function family, arity form); pairs over a 17-fragment core. Thorough: case x spacing and wrappers over all forms (all fragments on the 5 main forms), wrapper x case x spacing on two forms, all representative pairs. distinct = distinct deterministic evaluation outcomes (result rows, table contents, REGEXP operands) of the expected statements. Finally the 7 ordinary now-valued time fragments x {SELECT, INSERT} x 5 time zones x 3 instants with the clock seam pinned to the instant expressed in that zone, and the public Process under time.Local = UTC/+05:30/-08:00 against the wall clock (1 h tolerance).", len(c14Tmpls1()), len(c14Tmpls2()), len(c14Frags()), len(c14Spaces), len(c14Wraps), len(c14Ctxs())))
	r.Assume("SQLite (the go-sqlite3 build linked by rqlite) is the reference for what a statement means and for the julian day of the pinned instants")
	r.Assume("excluded by the property and therefore not in the alphabet: RANDOM() inside ORDER BY (only present as fixed text, compared as a multiset), randomblob() with a non-literal argument, 'localtime'/'utc' modifiers, CURRENT_TIME/CURRENT_TIMESTAMP (CURRENT_DATE appears only as a decoy that must stay intact)")
	r.Note("O3 is skipped for randomblob sites under wrappers whose value depends on the blob content (internal/random.Bytes has no seam); O1 still covers them.")

	stmts := c14Enumerate(r.Thorough())

	// sanity of the harness itself: every label occurs alone in some case
	alone := map[string]bool{}
	all := map[string]bool{}
	for _, s := range stmts {
		for _, l := range s.labels {
			all[l] = true
		}
		if len(s.labels) == 1 {
			alone[s.labels[0]] = true
		}
	}
	for l := range all {
		if !alone[l] && !strings.HasPrefix(l, "p-") {
			t.Fatalf("harness: label %q never occurs alone; attribution would be unsound", l)
		}
	}

	// pins; julian days come from SQLite, not from the code under test
	setup := c14Open(t)
	pins := []*c14Pin{
		{name: "1999-12-31T22:30Z,rnd=-7", now: time.Date(1999, 12, 31, 22, 30, 0, 0, time.UTC), rnd: -7},
		{name: "2024-02-29T13:30Z,rnd=5", now: time.Date(2024, 2, 29, 13, 30, 0, 0, time.UTC), rnd: 5},
	}
	npins := r.Pick(1, 2) // quick: one seam-pinned instant (+ the synctest-pinned 2000-01-01T00:00Z), thorough: two
	for _, p := range pins {
		var jd float64
		row := setup.conn.QueryRowContext(context.Background(), "SELECT julianday(?)", p.now.UTC().Format("2006-01-02 15:04:05"))
		if err := row.Scan(&jd); err != nil {
			t.Fatalf("julianday: %v", err)
		}
		p.jd = strconv.FormatFloat(jd, 'f', -1, 64)
		if len(p.jd)-strings.IndexByte(p.jd, '.') > 7 {
			t.Fatalf("harness: pinned instant %s has a julian day %s not representable in 6 decimals", p.name, p.jd)
		}
	}

	nw := 16
	var wg sync.WaitGroup
	// phase 0: the public Process inside a synctest bubble: time.Now(), which
	// Process hands to the Rewriter, is the bubble's fake clock and does not
	// advance. This pins the clock of the public path without any seam.
	var pinB *c14Pin
	synctest.Test(t, func(t *testing.T) {
		pinB = &c14Pin{name: "bubble", now: time.Now().UTC(), rnd: 0}
		var bw sync.WaitGroup
		for w := 0; w < nw; w++ {
			bw.Add(1)
			go func(w int) {
				defer bw.Done()
				for i := w; i < len(stmts); i += nw {
					stmts[i].outB, stmts[i].perrB = c14Process(stmts[i].orig)
				}
			}(w)
		}
		bw.Wait()
		if !time.Now().UTC().Equal(pinB.now) {
			t.Fatalf("harness: bubble clock moved")
		}
	})
	pins = append(pins, pinB)
	{
		var jd float64
		if err := setup.conn.QueryRowContext(context.Background(), "SELECT julianday(?)", pinB.now.Format("2006-01-02 15:04:05")).Scan(&jd); err != nil {
			t.Fatalf("julianday: %v", err)
		}
		pinB.jd = strconv.FormatFloat(jd, 'f', -1, 64)
		if len(pinB.jd)-strings.IndexByte(pinB.jd, '.') > 7 || pinB.now.Nanosecond() != 0 {
			t.Fatalf("harness: bubble instant %v has a julian day %s not representable in 6 decimals", pinB.now, pinB.jd)
		}
	}
	pins = pins[:npins]
	dbs := make([]*c14DB, nw)
	for i := range dbs {
		dbs[i] = c14Open(t)
	}
	var bad atomic.Int64
	var badMu sync.Mutex
	var badEx, driftEx []string
	var drift atomic.Int64
	// phase 1
	for w := 0; w < nw; w++ {
		wg.Add(1)
		go func(w int) {
			defer wg.Done()
			d := dbs[w]
			for i := w; i < len(stmts); i += nw {
				s := stmts[i]
				s.eOrig = d.eval(s, s.orig, false)
				if strings.HasPrefix(s.eOrig, "ERR") || strings.Contains(s.eOrig, "HARNESS-ERR") {
					bad.Add(1)
					badMu.Lock()
					if len(badEx) < 10 {
						badEx = append(badEx, s.orig)
					}
					badMu.Unlock()
					continue
				}
				if _, err := rsql.NewParser(strings.NewReader(s.orig)).ParseStatement(); err != nil {
					s.parseErr = err.Error()
				}
				s.out, s.perr = c14Process(s.orig)
				if s.perr != "" {
					continue
				}
				s.eOut1 = d.eval(s, s.out, false)
				if s.nd > 0 && s.out != s.orig && !s.blobUnsafe {
					for k, p := range pins {
						s.pinText[k], s.pinErr[k] = c14Pinned(s.orig, p.now, p.rnd)
						s.ePin[k] = d.eval(s, s.pinText[k], s.hasBlob)
						s.eExp[k] = d.eval(s, s.exp(p), s.hasBlob)
					}
				}
				if s.nd > 0 && s.perrB == "" && s.outB != s.orig && !s.hasRand && !s.hasBlob {
					s.ePinB = d.eval(s, s.outB, false)
					s.eExpB = d.eval(s, s.exp(pinB), false)
					// the seam-pinned replica of Process must produce exactly what the real
					// Process produces under the same clock; otherwise the replica is stale
					if m, _ := c14Pinned(s.orig, pinB.now, 0); m != s.outB && !strings.Contains(strings.ToLower(s.orig), "random") {
						drift.Add(1)
						badMu.Lock()
						if len(driftEx) < 5 {
							driftEx = append(driftEx, fmt.Sprintf("%q: Process=%q replica=%q", s.orig, s.outB, m))
						}
						badMu.Unlock()
					}
				}
			}
		}(w)
	}
	wg.Wait()
	if bad.Load() > 0 {
		t.Fatalf("harness: %d alphabet statements are not valid SQLite on the fixture, e.g. %q", bad.Load(), badEx)
	}
	replicaStale := drift.Load() > 0
	if replicaStale {
		// never turn a stale replica into a verdict: fall back to the public-path oracles only
		r.Cap("c14Pinned (seam-pinned replica of Process) no longer produces the text Process produces under the same clock for %d statements, e.g. %q; the seam-pinned O3 comparisons are skipped, update the replica", drift.Load(), driftEx)
	}
	tPhase1 := time.Now()
	time.Sleep(1200 * time.Millisecond)
	// phase 2: every processed text again, > 1.1 s after its first evaluation
	for w := 0; w < nw; w++ {
		wg.Add(1)
		go func(w int) {
			defer wg.Done()
			d := dbs[w]
			for i := w; i < len(stmts); i += nw {
				s := stmts[i]
				if s.perr != "" {
					continue
				}
				s.eOut2 = d.eval(s, s.out, false)
				if s.nd == 0 && s.noO1 && s.eOut1 != s.eOrig {
					// CURRENT_DATE decoys: re-evaluate both back to back so that a
					// midnight crossing cannot produce a false alarm
					s.eOrig = d.eval(s, s.orig, false)
					s.eOut1 = d.eval(s, s.out, false)
				}
			}
		}(w)
	}
	wg.Wait()
	if time.Since(tPhase1) < 1100*time.Millisecond {
		t.Fatalf("harness: phases too close")
	}

	// verdicts
	var verdicts []c14Verdict
	nO1, nO2, nO3, nO3p := 0, 0, 0, 0
	for _, s := range stmts {
		v := func(kind, what string) { verdicts = append(verdicts, c14Verdict{kind, s, what}) }
		if s.perr != "" {
			v("process-error", "Process returned an error for a valid statement (the HTTP layer answers 500): "+s.perr)
			continue
		}
		nr := "not-rewritten"
		if s.parseErr != "" {
			nr = "not-rewritten:parser-rejects"
		}
		if strings.Count(s.out, "ORDER BY random()") != strings.Count(s.orig, "ORDER BY random()") {
			v("changed-meaning", "RANDOM() inside ORDER BY (excluded from rewriting: it asks for a random order) was replaced")
		}
		if s.nd == 0 {
			nO2++
			r.Distinct(s.eOrig)
			changed := s.eOut1 != s.eOrig
			if changed {
				v("changed-meaning", fmt.Sprintf("no non-deterministic call, but the processed text evaluates differently: original=> %s ; processed=> %s", s.eOrig, s.eOut1))
			}
			if !s.noO1 && s.eOut1 != s.eOut2 {
				v("made-nondeterministic", fmt.Sprintf("processed text of a deterministic statement evaluates differently 1.2 s later: %s vs %s", s.eOut1, s.eOut2))
			}
			if s.out != s.orig && !s.mayChg && !changed {
				if s.timeArgs {
					verdicts = append(verdicts, c14Verdict{"changed-text-without-nondeterminism:time-call-with-non-now-value", s, "statement has no non-deterministic call (only a date/time call with a fixed time value) but is not replicated unchanged"})
				} else {
					v("changed-text-without-nondeterminism", "statement has no non-deterministic call but is not replicated unchanged")
				}
			}
			continue
		}
		// nd > 0
		if s.out == s.orig {
			v(nr, "statement with a non-deterministic call comes back byte-identical")
			continue
		}
		kinds := map[string]string{}
		if strings.HasPrefix(s.eOut1, "ERR") {
			kinds["changed-meaning"] = "the processed text is rejected by SQLite, the original is not"
		} else if s.rows && strings.SplitN(s.eOut1, " ", 2)[0] != strings.SplitN(s.eOrig, " ", 2)[0] {
			kinds["changed-meaning"] = fmt.Sprintf("the processed text returns a different number of columns: original=> %s ; processed=> %s", s.eOrig, s.eOut1)
		}
		if s.ePinB != "" || s.eExpB != "" {
			nO3p++
			if strings.Contains(s.eExpB, "ERR") {
				t.Fatalf("harness: expected text does not evaluate: %q => %s", s.exp(pinB), s.eExpB)
			}
			if s.ePinB != s.eExpB {
				kind := "changed-meaning"
				for _, si := range s.sites {
					if si.fr.nd && strings.Count(s.outB, si.residual()) > strings.Count(s.exp(pinB), si.residual()) {
						kind = nr
					}
				}
				if _, dup := kinds[kind]; !dup {
					kinds[kind] = fmt.Sprintf("public Process with time.Now() pinned (synctest) at %s: processed text %q => %s ; expected text %q => %s", pinB.now.Format(time.RFC3339), s.outB, s.ePinB, s.exp(pinB), s.eExpB)
				}
			}
		}
		if !s.noO1 {
			nO1++
			if s.eOut1 != s.eOut2 {
				kinds[nr] = fmt.Sprintf("processed text evaluates differently 1.2 s later: %s vs %s", s.eOut1, s.eOut2)
			}
		}
		if !s.blobUnsafe && !replicaStale {
			nO3++
			r.Distinct(s.eExp[0])
			for k, p := range pins {
				if strings.Contains(s.eExp[k], "ERR") {
					t.Fatalf("harness: expected text does not evaluate: %q => %s", s.exp(p), s.eExp[k])
				}
				if s.ePin[k] == s.eExp[k] {
					continue
				}
				kind := "changed-meaning"
				for _, si := range s.sites {
					if si.fr.nd && strings.Count(s.pinText[k], si.residual()) > strings.Count(s.exp(p), si.residual()) {
						kind = nr
					}
				}
				if _, dup := kinds[kind]; !dup {
					kinds[kind] = fmt.Sprintf("pinned %s: rewriter text %q => %s ; expected text %q => %s", p.name, s.pinText[k], s.ePin[k], s.exp(p), s.eExp[k])
				}
			}
		}
		for k, w := range kinds {
			v(k, w)
		}
	}

	// attribution: a label is "sufficient" for a kind if the case carrying only that label shows the kind
	names := func(s *c14Stmt) []string {
		var n []string
		for _, si := range s.sites {
			if si.fr.nd || s.nd == 0 {
				n = append(n, si.fr.name)
			}
		}
		if len(n) == 0 {
			n = []string{"no-call"}
		}
		return n
	}
	// kinds shown by the plainest statements (no label at all), per function
	plainBad := map[string]map[string]bool{}
	for _, v := range verdicts {
		if len(v.s.labels) == 0 {
			if plainBad[v.kind] == nil {
				plainBad[v.kind] = map[string]bool{}
			}
			for _, n := range names(v.s) {
				plainBad[v.kind][n] = true
			}
		}
	}
	isPlainBad := func(v c14Verdict) string {
		for _, n := range names(v.s) {
			if plainBad[v.kind][n] {
				return n
			}
		}
		return ""
	}
	suff := map[string]map[string]bool{}
	for _, v := range verdicts {
		if len(v.s.labels) == 1 && isPlainBad(v) == "" {
			if suff[v.kind] == nil {
				suff[v.kind] = map[string]bool{}
			}
			suff[v.kind][v.s.labels[0]] = true
		}
	}
	prec := func(l string) int {
		switch {
		case strings.HasPrefix(l, "ctx-"):
			return 0
		case strings.HasPrefix(l, "w-"):
			return 4
		case strings.HasPrefix(l, "p-"):
			return 5
		case strings.HasSuffix(l, "-case-name"):
			return 6
		}
		for _, sp := range c14Spaces {
			if sp.label == l {
				return 2
			}
		}
		for _, f := range c14Frags() {
			if f.form == l {
				return 1
			}
		}
		return 3 // template / slot
	}
	keyCount := map[string]int{}
	for _, v := range verdicts {
		key := "C14:" + v.kind
		if pb := isPlainBad(v); pb != "" {
			key += ":plain:" + pb
		} else if !strings.Contains(v.kind, "time-call-with-non-now-value") {
			var cand []string
			for _, l := range v.s.labels {
				if suff[v.kind][l] {
					cand = append(cand, l)
				}
			}
			sort.SliceStable(cand, func(i, j int) bool { return prec(cand[i]) < prec(cand[j]) })
			switch {
			case len(cand) > 0:
				key += ":" + cand[0]
			case len(v.s.labels) == 0:
				key += ":plain"
			default:
				key += ":combination:" + strings.Join(v.s.labels, "+")
			}
		}
		keyCount[key]++
		r.Violation(key, fmt.Sprintf("%q -> %q: %s", v.s.orig, v.s.out, v.what),
			map[string]any{"sql": v.s.orig, "processed": v.s.out, "labels": v.s.labels, "parser_error": v.s.parseErr, "detail": v.what})
	}
	keys := make([]string, 0, len(keyCount))
	for k := range keyCount {
		keys = append(keys, k)
	}
	sort.Strings(keys)
	for _, k := range keys {
		t.Logf("%6d  %s", keyCount[k], k)
	}

	c14TZ(t, r)
	r.Eval(len(stmts))
	r.Validated(nO3 + nO3p)
	r.Set("statements", len(stmts))
	r.Set("o1_double_evaluations", nO1)
	r.Set("o2_faithfulness_comparisons", nO2)
	r.Set("o3_pinned_rewriter_comparisons", nO3*len(pins))
	r.Set("o3_pinned_public_process_comparisons", nO3p)
	for i, s := range stmts {
		r.SampleEvery(i, map[string]any{"sql": s.orig, "processed": s.out, "labels": s.labels})
	}
}

// c14TZ: the rewriter takes 'now' from time.Now(), i.e. in the server's local
// time zone. SQLite's 'now' is UTC. Checked (a) with the clock seam pinned to
// one instant expressed in several zones, (b) through the public Process with
// time.Local replaced (what a node started with TZ=... sees).
//
// every ordinary now-valued time fragment (7 functions) x {SELECT, INSERT} x 5
// zones (UTC, +05:30, -08:00, +14:00, -12:00) x 3 instants (incl. a day/year
// boundary in local time): rewriter pinned to the instant expressed in the
// zone; expected = statement with the julian day SQLite gives for the same
// instant. Plus the public Process under time.Local=+05:30/-08:00 compared with
// the wall clock (tolerance 1 h against an error of >= 5.5 h).
func c14TZ(t *testing.T, r *kit.Run) {
	d := c14Open(t)
	zones := []*time.Location{time.UTC, time.FixedZone("p0530", 5*3600+1800), time.FixedZone("m0800", -8*3600), time.FixedZone("p1400", 14*3600), time.FixedZone("m1200", -12*3600)}
	instants := []time.Time{
		time.Date(2024, 2, 29, 13, 30, 0, 0, time.UTC),
		time.Date(1999, 12, 31, 22, 30, 0, 0, time.UTC),
		time.Date(2025, 1, 1, 1, 30, 0, 0, time.UTC),
	}
	var frs []*c14Frag
	all := c14Frags()
	for i := range all {
		if all[i].nd && all[i].timeCall && all[i].form == "" {
			frs = append(frs, &all[i])
		}
	}
	tm := c14Tmpls1()
	iSel, iIns := -1, -1
	for i := range tm {
		if tm[i].text == "SELECT {0}" {
			iSel = i
		}
		if tm[i].label == "insert-values" {
			iIns = i
		}
	}
	n := 0
	for _, inst := range instants {
		var jd float64
		if err := d.conn.QueryRowContext(context.Background(), "SELECT julianday(?)", inst.Format("2006-01-02 15:04:05")).Scan(&jd); err != nil {
			t.Fatal(err)
		}
		p := &c14Pin{name: inst.Format(time.RFC3339), now: inst, jd: strconv.FormatFloat(jd, 'f', -1, 64), rnd: 1}
		for _, z := range zones {
			for _, fr := range frs {
				for _, ti := range []int{iSel, iIns} {
					s := c14Make(&tm[ti], c14Site{fr, &c14Cases[0], &c14Spaces[0], &c14Wraps[0]})
					txt, perr := c14Pinned(s.orig, inst.In(z), 1)
					got := d.eval(s, txt, false)
					want := d.eval(s, s.exp(p), false)
					n++
					r.Distinct(z.String() + "|" + fmt.Sprint(got == want))
					if perr != "" || got != want {
						key := "C14:changed-meaning:now-taken-in-local-time-zone"
						if z == time.UTC {
							key = "C14:changed-meaning:pinned-utc-instant"
						}
						r.Violation(key, fmt.Sprintf("clock = %s (zone %s): %q rewritten to %q => %s ; SQLite's 'now' at that instant would give %s", inst.In(z).Format(time.RFC3339), z, s.orig, txt, got, want),
							map[string]any{"sql": s.orig, "instant": inst.In(z).Format(time.RFC3339), "rewritten": txt, "got": got, "want": want})
					}
				}
			}
		}
	}
	// public path
	saved := time.Local
	defer func() { time.Local = saved }()
	for _, z := range zones[:3] {
		time.Local = z
		before := time.Now().Unix()
		out, perr := c14Process("SELECT unixepoch('now')")
		var got int64
		err := d.conn.QueryRowContext(context.Background(), out).Scan(&got)
		n++
		delta := got - before
		r.Distinct("public|" + z.String() + "|" + fmt.Sprint(delta > -3600 && delta < 3600))
		if perr != "" || err != nil || delta < -3600 || delta > 3600 {
			key := "C14:changed-meaning:now-taken-in-local-time-zone"
			if z == time.UTC {
				key = "C14:changed-meaning:public-utc-now"
			}
			r.Violation(key, fmt.Sprintf("with time.Local=%s Process rewrote SELECT unixepoch('now') to %q which evaluates to %d; the wall clock says %d (off by %d s) %v %v", z, out, got, before, delta, perr, err),
				map[string]any{"zone": z.String(), "processed": out, "got": got, "wall": before})
		}
	}
	time.Local = saved
	r.Eval(n)
	r.Validated(n)
	r.Set("time_zone_cases", n)
}
