package command

import (
	"bytes"
	"compress/gzip"
	"fmt"
	"io"
	"math"
	"strings"
	"sync"
	"testing"

	"github.com/rqlite/rqlite/v10/command/proto"
	kit "github.com/rqlite/rqlite/v10/internal/verifkit"
	pb "google.golang.org/protobuf/proto"
)

// C29: every request type the RequestMarshaler handles x statement counts
// around the batch threshold x statement sizes around the size threshold x
// text kinds x parameters of every kind x flags x force, encoded exactly as
// store.execute/query/request do (Marshal -> Command envelope -> Marshal) and
// decoded exactly as the FSM does (Unmarshal -> UnmarshalSubCommand) into fresh
// objects. Oracle: proto.Equal and byte-identical deterministic re-encoding;
// compressed => (forced or strictly smaller than the plain encoding).

type c29Cfg struct {
	Name  string `json:"thresholds"`
	Batch int    `json:"batch"`
	Size  int    `json:"size"`
}

type c29Spec struct {
	Type    string `json:"type"` // query | execute | execute-query
	Cfg     c29Cfg `json:"cfg"`
	N       int    `json:"statements"`
	LongLen int    `json:"long_statement_bytes"` // -1: none
	LongPos string `json:"long_statement_position"`
	Kind    string `json:"text"` // compressible | incompressible | utf8
	Params  string `json:"params"`
	Flags   string `json:"flags"`
	Force   bool   `json:"force_compression"`
	Prefix  int    `json:"random_prefix,omitempty"` // crossover sweep only
}

// deterministic xorshift ASCII text (never random at run time)
func c29Rand(seed uint64, n int) string {
	const al = "abcdefghijklmnopqrstuvwxyzABCDEFGHIJKLMNOPQRSTUVWXYZ0123456789 ,.()=<>*'\"_-+/%!?;:[]{}|~^&@#$"
	x := seed*2862933555777941757 + 3037000493
	b := make([]byte, n)
	for i := range b {
		x ^= x << 13
		x ^= x >> 7
		x ^= x << 17
		b[i] = al[x%uint64(len(al))]
	}
	return string(b)
}

func c29Text(kind string, seed uint64, n int) string {
	switch kind {
	case "compressible":
		return strings.Repeat("a", n)
	case "utf8":
		s := strings.Repeat("é", n/2)
		if n%2 == 1 {
			s += "a"
		}
		return s
	default:
		return c29Rand(seed, n)
	}
}

func c29AllParams() []*proto.Parameter {
	var ps []*proto.Parameter
	for _, v := range []int64{0, 1, -1, math.MaxInt64, math.MinInt64} {
		ps = append(ps, &proto.Parameter{Value: &proto.Parameter_I{I: v}})
	}
	for _, v := range []float64{0, math.Copysign(0, -1), 1.5, math.NaN(), math.Inf(1), math.Inf(-1), math.MaxFloat64, math.SmallestNonzeroFloat64} {
		ps = append(ps, &proto.Parameter{Value: &proto.Parameter_D{D: v}})
	}
	for _, v := range []bool{true, false} {
		ps = append(ps, &proto.Parameter{Value: &proto.Parameter_B{B: v}})
	}
	for _, v := range [][]byte{{}, {0}, {0xff, 0x00, 0x1f, 0x8b, 0x08}, bytes.Repeat([]byte{0xab}, 300)} {
		ps = append(ps, &proto.Parameter{Value: &proto.Parameter_Y{Y: v}})
	}
	for _, v := range []string{"", "x", "héllo ✓ \U0001F600", "with\x00nul", strings.Repeat("s", 200)} {
		ps = append(ps, &proto.Parameter{Value: &proto.Parameter_S{S: v}})
	}
	ps = append(ps, &proto.Parameter{}) // NULL
	return ps
}

func c29NamedParams() []*proto.Parameter {
	ps := c29AllParams()
	for i, p := range ps {
		p.Name = fmt.Sprintf("name%d", i)
	}
	ps = append(ps, &proto.Parameter{Name: "only_a_name"}, &proto.Parameter{Name: "", Value: &proto.Parameter_I{I: 7}})
	return ps
}

var c29FlagSets = []string{"none", "all", "transaction", "rollbackOnError", "qualifyColumns", "dbTimeoutMax", "dbTimeoutNeg",
	"timings", "levelWEAK", "levelSTRONG", "levelAUTO", "levelLINEARIZABLE", "freshnessMax", "freshnessStrict", "linearizableTimeout",
	"forceQuery", "forceStall", "sqlExplain"}

// c29Build constructs the request of a spec. ok=false if the flag set does not exist for the type.
func c29Build(sp c29Spec) (Requester, func() Requester, proto.Command_Type, bool) {
	on := func(f string) bool { return sp.Flags == f || sp.Flags == "all" }
	req := &proto.Request{}
	if sp.N == 0 && sp.Flags == "none" && sp.Params == "nil-request" {
		req = nil
	} else {
		req.Transaction = on("transaction")
		req.RollbackOnError = on("rollbackOnError")
		req.QualifyColumns = on("qualifyColumns")
		if on("dbTimeoutMax") {
			req.DbTimeout = math.MaxInt64
		}
		if sp.Flags == "dbTimeoutNeg" {
			req.DbTimeout = -1
		}
		for i := 0; i < sp.N; i++ {
			var sql string
			switch {
			case sp.LongLen >= 0 && ((sp.LongPos == "first" && i == 0) || (sp.LongPos == "last" && i == sp.N-1) || sp.LongPos == "every"):
				if sp.Kind == "sweep" {
					sql = c29Rand(99, sp.Prefix) + strings.Repeat("a", sp.LongLen-sp.Prefix)
				} else {
					sql = c29Text(sp.Kind, uint64(i)+1, sp.LongLen)
				}
			case sp.Kind == "incompressible":
				sql = c29Rand(uint64(i)+1000, 6)
			case sp.Kind == "utf8":
				sql = "SELECT 'é'"
			default:
				sql = "SELECT 1"
			}
			st := &proto.Statement{Sql: sql, ForceQuery: on("forceQuery"), ForceStall: on("forceStall"), SqlExplain: on("sqlExplain")}
			switch sp.Params {
			case "all-kinds-on-first":
				if i == 0 {
					st.Parameters = c29AllParams()
				}
			case "named-on-last":
				if i == sp.N-1 {
					st.Parameters = c29NamedParams()
				}
			}
			req.Statements = append(req.Statements, st)
		}
	}
	level := proto.ConsistencyLevel_NONE
	switch sp.Flags {
	case "levelWEAK":
		level = proto.ConsistencyLevel_WEAK
	case "levelSTRONG":
		level = proto.ConsistencyLevel_STRONG
	case "levelAUTO":
		level = proto.ConsistencyLevel_AUTO
	case "levelLINEARIZABLE", "all":
		level = proto.ConsistencyLevel_LINEARIZABLE
	}
	var fresh, lt int64
	if on("freshnessMax") {
		fresh = math.MaxInt64
	}
	if on("linearizableTimeout") {
		lt = math.MinInt64
	}
	queryOnly := strings.HasPrefix(sp.Flags, "level") || strings.HasPrefix(sp.Flags, "fresh") || sp.Flags == "linearizableTimeout"
	switch sp.Type {
	case "query":
		return &proto.QueryRequest{Request: req, Timings: on("timings"), Level: level, Freshness: fresh, FreshnessStrict: on("freshnessStrict"), LinearizableTimeout: lt},
			func() Requester { return &proto.QueryRequest{} }, proto.Command_COMMAND_TYPE_QUERY, true
	case "execute":
		if queryOnly {
			return nil, nil, 0, false
		}
		return &proto.ExecuteRequest{Request: req, Timings: on("timings")},
			func() Requester { return &proto.ExecuteRequest{} }, proto.Command_COMMAND_TYPE_EXECUTE, true
	default:
		return &proto.ExecuteQueryRequest{Request: req, Timings: on("timings"), Level: level, Freshness: fresh, FreshnessStrict: on("freshnessStrict"), LinearizableTimeout: lt},
			func() Requester { return &proto.ExecuteQueryRequest{} }, proto.Command_COMMAND_TYPE_EXECUTE_QUERY, true
	}
}

func c29Gunzip(b []byte) ([]byte, error) {
	zr, err := gzip.NewReader(bytes.NewReader(b))
	if err != nil {
		return nil, err
	}
	return io.ReadAll(zr)
}

func c29Det(m pb.Message) []byte {
	b, _ := pb.MarshalOptions{Deterministic: true}.Marshal(m)
	return b
}

// oracle-side gzip writers (same level as gzCompress), pooled to keep the harness cheap
var c29GzPool = sync.Pool{New: func() any { w, _ := gzip.NewWriterLevel(io.Discard, gzip.DefaultCompression); return w }}

type c29Res struct {
	exceeded, compressed, smaller, equalSize bool
}

func c29Check(r *kit.Run, sp c29Spec) (res c29Res, ran bool) {
	orig, fresh, ctype, ok := c29Build(sp)
	if !ok {
		return res, false
	}
	r.Eval(1)
	sizeClass := "below-thresholds"
	stmts := orig.GetRequest().GetStatements()
	if len(stmts) >= sp.Cfg.Batch {
		res.exceeded = true
		sizeClass = "batch-threshold-reached"
	}
	for _, s := range stmts {
		if len(s.Sql) >= sp.Cfg.Size {
			res.exceeded = true
			sizeClass = "size-threshold-reached"
		}
	}
	class := sp.Type + ":" + sizeClass
	if sp.Force {
		class += ":forced"
	}
	before := pb.Clone(orig)

	// encoding side: what store.execute / store.Query / store.Request do.
	m := NewRequestMarshaler()
	m.BatchThreshold, m.SizeThreshold, m.ForceCompression = sp.Cfg.Batch, sp.Cfg.Size, sp.Force
	sub, compressed, err := m.Marshal(orig)
	if err != nil {
		r.Violation("C29:marshal-error:"+class, fmt.Sprintf("%+v: Marshal failed: %v", sp, err), sp)
		return res, true
	}
	res.compressed = compressed
	if !pb.Equal(before, orig) || !bytes.Equal(c29Det(before), c29Det(orig)) {
		r.Violation("C29:request-mutated-by-marshal:"+class, fmt.Sprintf("%+v: Marshal changed the request it was given", sp), sp)
	}
	// The store shares one marshaler between all its writers: the bytes handed back for this request
	// must not change when the same marshaler encodes another request before they are used
	// (the interleaving Marshal(A), Marshal(B), use A).
	subBefore := append([]byte(nil), sub...)
	if _, _, err := m.Marshal(c29OtherRequest()); err != nil {
		r.Violation("C29:marshal-error:"+class, fmt.Sprintf("%+v: Marshal of a second request failed: %v", sp, err), sp)
	}
	if !bytes.Equal(sub, subBefore) {
		r.Violation("C29:marshaled-bytes-changed-by-a-later-marshal:"+class, fmt.Sprintf("%+v (compressed=%v): the %d bytes returned by Marshal were overwritten when the same marshaler encoded another request", sp, compressed, len(subBefore)), sp)
		return res, true
	}
	entry, err := Marshal(&proto.Command{Type: ctype, SubCommand: sub, Compressed: compressed})
	if err != nil {
		r.Violation("C29:marshal-error:"+class, fmt.Sprintf("%+v: command Marshal failed: %v", sp, err), sp)
		return res, true
	}

	// compression rule: used only when it makes the entry smaller or is forced.
	plain, perr := pb.Marshal(orig)
	if perr != nil {
		r.Violation("C29:marshal-error:"+class, "plain proto marshal failed: "+perr.Error(), sp)
		return res, true
	}
	if compressed {
		un, err := c29Gunzip(sub)
		if err != nil {
			r.Violation("C29:compressed-flag-on-non-gzip-data:"+class, fmt.Sprintf("%+v: compressed=true but payload is not gzip: %v", sp, err), sp)
		} else {
			res.smaller = len(sub) < len(un)
			res.equalSize = len(sub) == len(un)
			if !sp.Force && len(sub) >= len(un) {
				r.Violation("C29:compressed-but-not-smaller:"+class, fmt.Sprintf("%+v: entry stored compressed at %d bytes, uncompressed it is %d bytes, compression not forced", sp, len(sub), len(un)), sp)
			}
		}
	} else {
		// what compression would have given, to record the decision table
		var buf bytes.Buffer
		zw := c29GzPool.Get().(*gzip.Writer)
		zw.Reset(&buf)
		zw.Write(plain)
		zw.Close()
		c29GzPool.Put(zw)
		res.smaller = buf.Len() < len(plain)
		res.equalSize = buf.Len() == len(plain)
	}

	// decoding side, as another node's FSM: fresh objects, nothing shared.
	var cmd proto.Command
	if err := Unmarshal(entry, &cmd); err != nil {
		r.Violation("C29:decode-error:"+class, fmt.Sprintf("%+v: command Unmarshal failed: %v", sp, err), sp)
		return res, true
	}
	if cmd.Type != ctype || cmd.Compressed != compressed || !bytes.Equal(cmd.SubCommand, sub) {
		r.Violation("C29:envelope-mismatch:"+class, fmt.Sprintf("%+v: envelope decoded to type=%v compressed=%v (%d bytes), encoded type=%v compressed=%v (%d bytes)", sp, cmd.Type, cmd.Compressed, len(cmd.SubCommand), ctype, compressed, len(sub)), sp)
	}
	out := fresh()
	if err := UnmarshalSubCommand(&cmd, out); err != nil {
		cs := "plain"
		if compressed {
			cs = "compressed"
		}
		r.Violation("C29:decode-error:"+class+":"+cs, fmt.Sprintf("%+v: UnmarshalSubCommand failed: %v", sp, err), sp)
		return res, true
	}
	if !pb.Equal(before, out) || !bytes.Equal(c29Det(before), c29Det(out)) {
		cs := "plain"
		if compressed {
			cs = "compressed"
		}
		r.Violation("C29:roundtrip-mismatch:"+class+":"+cs, fmt.Sprintf("%+v: decoded request differs from the original: got %.300v", sp, out), sp)
	}
	r.Validated(1)
	return res, true
}

// c29OtherRequest is a request that every threshold setting used here compresses (one statement of
// 4200 compressible bytes: above the largest size threshold, 4096).
func c29OtherRequest() Requester {
	return &proto.ExecuteRequest{Request: &proto.Request{Statements: []*proto.Statement{
		{Sql: "INSERT INTO other(v) VALUES('" + strings.Repeat("z", 4200) + "')"}}}}
}

func c29Uniq(v []int) []int {
	var o []int
	seen := map[int]bool{}
	for _, x := range v {
		if x >= 0 && !seen[x] {
			seen[x] = true
			o = append(o, x)
		}
	}
	return o
}

func TestVerif_C29(t *testing.T) {
	r := kit.Start(t, "C29", "enum")
	defer r.Finish()
	r.Rule("full product of request type {query, execute, execute-query} x thresholds {(batch 4,size 64), (0,0), defaults (512,4096)} x statement count {0,1,b-1,b,b+1} x one statement (first / last / every) of exactly {t-1,t,t+1} bytes or none x text {compressible, incompressible ASCII, multi-byte UTF-8} x parameters {none, every kind incl. int64/float extremes, NaN, -0, empty/binary blobs, NUL-containing and non-ASCII strings, NULL on the first statement, the same all named on the last} x 18 flag sets (none, all, each request/statement/level/freshness flag alone) x force-compression {off,on} (quick: all 18 flag sets only with params 'none' on the small/zero thresholds, flag sets 'none' and 'all' otherwise; thorough: full product everywhere), plus a crossover sweep (random prefix 0,3..60 + 'a' x 0..120, always attempting compression) that lands on compressed size == plain size, plus nil inner Request. Each request is encoded as the store does (RequestMarshaler.Marshal -> Command{Type,SubCommand,Compressed} -> command.Marshal) and decoded as the FSM does (command.Unmarshal -> command.UnmarshalSubCommand) into fresh objects: proto.Equal and identical deterministic bytes; compressed => forced or strictly smaller. distinct = (type, thresholds reached?, would-be-smaller?, equal-size?, forced?, compressed?) decision-table rows")

	cfgs := []c29Cfg{{"small", 4, 64}, {"zero", 0, 0}, {"default", defaultBatchThreshold, defaultSizeThreshold}}
	var specs []c29Spec
	for _, typ := range []string{"query", "execute", "execute-query"} {
		for _, cfg := range cfgs {
			ns := c29Uniq([]int{0, 1, cfg.Batch - 1, cfg.Batch, cfg.Batch + 1, 2})
			longs := append([]int{-1}, c29Uniq([]int{cfg.Size - 1, cfg.Size, cfg.Size + 1})...)
			for _, n := range ns {
				for _, ll := range longs {
					poss := []string{"first", "last", "every"}
					if ll < 0 || n == 0 {
						poss = []string{""}
					}
					if n == 0 && ll >= 0 {
						continue
					}
					if n == 1 && ll >= 0 {
						poss = []string{"first"}
					}
					for _, pos := range poss {
						if pos == "every" && cfg.Name == "default" && n > 2 && !r.Thorough() {
							continue // 513 x 4 KiB statements: thorough only
						}
						for _, kind := range []string{"compressible", "incompressible", "utf8"} {
							for _, params := range []string{"none", "all-kinds-on-first", "named-on-last"} {
								if n == 0 && params != "none" {
									continue
								}
								for _, fl := range c29FlagSets {
									if !r.Thorough() && (cfg.Name == "default" || params != "none") && fl != "none" && fl != "all" {
										continue
									}
									for _, force := range []bool{false, true} {
										specs = append(specs, c29Spec{Type: typ, Cfg: cfg, N: n, LongLen: ll, LongPos: pos, Kind: kind, Params: params, Flags: fl, Force: force})
									}
								}
							}
						}
					}
				}
			}
			for _, force := range []bool{false, true} {
				specs = append(specs, c29Spec{Type: typ, Cfg: cfg, N: 0, LongLen: -1, Kind: "compressible", Params: "nil-request", Flags: "none", Force: force})
			}
		}
		// crossover sweep: compression always attempted, size of gzip output crosses the plain size
		sweep := c29Cfg{"always-attempt", 1000, 1}
		for pre := 0; pre <= 60; pre += 3 {
			for k := 0; k <= 120; k++ {
				if pre+k == 0 {
					continue
				}
				specs = append(specs, c29Spec{Type: typ, Cfg: sweep, N: 1, LongLen: pre + k, LongPos: "first", Kind: "sweep", Params: "none", Flags: "none", Prefix: pre})
			}
		}
	}
	r.Set("specs", len(specs))

	var mu sync.Mutex
	table := map[string]int{}
	equalHit := 0
	var wg sync.WaitGroup
	nw := 16
	for w := 0; w < nw; w++ {
		wg.Add(1)
		go func(w int) {
			defer wg.Done()
			for i := w; i < len(specs); i += nw {
				sp := specs[i]
				var res c29Res
				var ran bool
				r.Guard("C29:panic:"+sp.Type, sp, func() { res, ran = c29Check(r, sp) })
				if !ran {
					continue
				}
				row := fmt.Sprintf("%s|reached=%v|gzip-smaller=%v|gzip-equal=%v|forced=%v => compressed=%v", sp.Type, res.exceeded, res.smaller, res.equalSize, sp.Force, res.compressed)
				r.Distinct(row)
				mu.Lock()
				table[row[strings.Index(row, "|")+1:]]++
				if res.equalSize && res.exceeded {
					equalHit++
				}
				mu.Unlock()
				r.SampleEvery(i, map[string]any{"spec": sp, "observed": row})
			}
		}(w)
	}
	wg.Wait()
	r.Set("decision_table(observed)", table)
	r.Set("cases_with_gzip_size_equal_plain_size", equalHit)
	if equalHit == 0 {
		r.Note("no enumerated case had compressed size == plain size; a '>' vs '>=' change in the size comparison would not be noticed")
	}

	// the other log-entry payloads that pass through command/marshal.go
	c29Others(r)
}

func c29Others(r *kit.Run) {
	for _, n := range []int{0, 1, 63, 64, 65, 4095, 4096, 4097} {
		for _, kind := range []string{"zeros", "bytes"} {
			data := make([]byte, n)
			if kind == "bytes" {
				x := uint64(88172645463325252)
				for i := range data {
					x ^= x << 13
					x ^= x >> 7
					x ^= x << 17
					data[i] = byte(x)
				}
			}
			r.Eval(1)
			rep := map[string]any{"type": "load", "bytes": n, "content": kind}
			lr := &proto.LoadRequest{Data: data}
			b, err := MarshalLoadRequest(lr)
			if err != nil {
				r.Violation("C29:marshal-error:load", err.Error(), rep)
				continue
			}
			entry, _ := Marshal(&proto.Command{Type: proto.Command_COMMAND_TYPE_LOAD, SubCommand: b})
			var cmd proto.Command
			var out proto.LoadRequest
			if err := Unmarshal(entry, &cmd); err != nil {
				r.Violation("C29:decode-error:load", err.Error(), rep)
				continue
			}
			if err := UnmarshalLoadRequest(cmd.SubCommand, &out); err != nil {
				r.Violation("C29:decode-error:load", err.Error(), rep)
				continue
			}
			if !bytes.Equal(out.Data, data) {
				r.Violation("C29:roundtrip-mismatch:load", fmt.Sprintf("load request of %d %s decoded to %d bytes", n, kind, len(out.Data)), rep)
			}
			r.Validated(1)
			r.Distinct(fmt.Sprintf("load|%d|%s", n, kind))
		}
	}
	for _, lc := range []*proto.LoadChunkRequest{
		{}, {StreamId: "s", SequenceNum: 1, Data: []byte{0x1f, 0x8b}}, {StreamId: "s", SequenceNum: math.MaxInt64, IsLast: true},
		{StreamId: "s", Abort: true}, {StreamId: strings.Repeat("é", 40), SequenceNum: -1, IsLast: true, Abort: true, Data: bytes.Repeat([]byte{0}, 5000)}} {
		r.Eval(1)
		b, err := MarshalLoadChunkRequest(lc)
		if err != nil {
			r.Violation("C29:marshal-error:load-chunk", err.Error(), nil)
			continue
		}
		entry, _ := Marshal(&proto.Command{Type: proto.Command_COMMAND_TYPE_LOAD_CHUNK, SubCommand: b})
		var cmd proto.Command
		var out proto.LoadChunkRequest
		if err := Unmarshal(entry, &cmd); err != nil {
			r.Violation("C29:decode-error:load-chunk", err.Error(), nil)
			continue
		}
		if err := UnmarshalLoadChunkRequest(cmd.SubCommand, &out); err != nil {
			r.Violation("C29:decode-error:load-chunk", err.Error(), nil)
			continue
		}
		if !pb.Equal(lc, &out) {
			r.Violation("C29:roundtrip-mismatch:load-chunk", fmt.Sprintf("%v decoded to %v", lc, &out), nil)
		}
		r.Validated(1)
	}
	for _, id := range []string{"", "node-1", strings.Repeat("é", 300)} {
		r.Eval(1)
		b, err := MarshalNoop(&proto.Noop{Id: id})
		if err != nil {
			r.Violation("C29:marshal-error:noop", err.Error(), id)
			continue
		}
		entry, _ := Marshal(&proto.Command{Type: proto.Command_COMMAND_TYPE_NOOP, SubCommand: b})
		var cmd proto.Command
		var out proto.Noop
		if Unmarshal(entry, &cmd) != nil || UnmarshalNoop(cmd.SubCommand, &out) != nil || out.Id != id || cmd.Type != proto.Command_COMMAND_TYPE_NOOP {
			r.Violation("C29:roundtrip-mismatch:noop", fmt.Sprintf("noop %q decoded to %q", id, out.Id), id)
		}
		r.Validated(1)
	}
}
