package snapshot

// C11 "Open snapshot streams never race with reaping".
//
// E-SCHED on the real snapshot.Store: store.go, sink.go and
// internal/rsync/multir_singlew.go are instrumented from the current tree
// (sync -> vsync, scheduling points before channel operations, select, `go`,
// time.AfterFunc, and before the atomic flag / lastRead / underlying Read calls
// of the LockingStreamer). Every execution builds a private copy of a tiny real
// snapshot store (templates built once with the real sink code paths from real
// SQLite files, see common_shapes_test.go) in a synctest bubble, and runs
//
//   - reader threads   Store.Open(id), read in two chunks with a scheduling
//                      point between, Close - and the variants: double Close,
//                      slow reader (sleeps shorter than the idle timeout between
//                      reads, so the idle timer must be re-armed), reader that
//                      wakes exactly when the idle timer fires, stalled stream
//                      (never read, never closed), stalled stream that comes
//                      back after the force-close (Read must fail, Close is a
//                      second close),
//   - reaper threads   one explicit Store.Reap(), or Reap() retried with sleeps
//                      (what a caller of the public API does on an MRSW
//                      conflict), and/or the store's own background reapLoop
//                      (blocking writer) woken by
//   - a creator thread Store.Create + full or incremental sink write + Close,
//                      which signals the reaper,
//   - the idle-timeout timer of every stream: a fake-clock timer whose firing
//                      is a scheduler action (early "let time pass" deviations
//                      included).
//
// Oracle (the property statement, nothing more), on every explored schedule:
//   - the bytes a stream returned are exactly the content of the snapshot it
//     opened (computed from the template), or a proper prefix of it followed by
//     a read error that happened after the stream was force-closed; never other
//     bytes, never a short stream ending in EOF, never a read error while the
//     stream is open and not timed out;
//   - while a stream is open (Open returned, neither Close nor the idle timer
//     closed it) its data files exist under their paths with unchanged content:
//     checked at every reader step and - through a wrapper around the stream's
//     underlying reader - at the very moment the stream is closed by either
//     path, i.e. just before the hold is released; and when a reap that mutated
//     the directory completes (observer filter, runs inside the write lock) no
//     stream may be open;
//   - no panic (MultiRSW panics when the reader count goes negative), the
//     underlying reader of every stream is closed exactly once, and once all
//     threads are done a BeginWrite succeeds (reader count is zero: every hold
//     was released exactly once on every close path);
//   - a stream is force-closed only after a full idle timeout without a
//     successful read, and a stalled stream is force-closed so that a retried
//     or blocked reap proceeds: a terminal state with a blocked thread, or a
//     reaper that never gets the lock, is a violation.

import (
	"bytes"
	"encoding/json"
	"errors"
	"fmt"
	"io"
	"log"
	"os"
	"path/filepath"
	"runtime/debug"
	"sort"
	"strconv"
	"strings"
	"sync/atomic"
	"testing"
	"time"

	"github.com/rqlite/rqlite/v10/internal/rsync"
	kit "github.com/rqlite/rqlite/v10/internal/verifkit"
	vs "github.com/rqlite/rqlite/v10/internal/verifvsched"
)

const c11Timeout = 10 * time.Second // idle timeout given to the store (fake clock)

// ---------------------------------------------------------------------------
// templates

// c11Tmpl is an in-memory image of a store directory (plus what a creator
// thread needs), copied to a private directory for every execution.
type c11Tmpl struct {
	name   string
	files  map[string][]byte   // store-relative path -> content
	dirs   []string            // store-relative directories
	ids    []string            // snapshot ids, oldest first
	expect map[string][]byte   // id -> exact bytes of the stream Store.Open(id) must deliver
	held   map[string][]string // id -> store-relative data files the stream of id reads
	// creator input (optional)
	newIndex, newTerm uint64
	srcDB             []byte            // full creator: database file to install
	stage             map[string][]byte // incremental creator: files of the staging WAL directory
}

type c11Env struct {
	root  string
	seq   atomic.Uint64
	tmpls map[string]*c11Tmpl
}

func c11ReadTree(t *testing.T, dir string) (map[string][]byte, []string) {
	t.Helper()
	files := map[string][]byte{}
	var dirs []string
	err := filepath.Walk(dir, func(p string, fi os.FileInfo, err error) error {
		if err != nil {
			return err
		}
		rel, _ := filepath.Rel(dir, p)
		if rel == "." {
			return nil
		}
		if fi.IsDir() {
			dirs = append(dirs, rel)
			return nil
		}
		b, err := os.ReadFile(p)
		if err != nil {
			return err
		}
		files[rel] = b
		return nil
	})
	if err != nil {
		t.Fatalf("c11: reading template %s: %v", dir, err)
	}
	sort.Strings(dirs)
	return files, dirs
}

// c11BuildTemplates builds the store shapes once (outside any bubble, real code
// running natively) and derives the templates of all scenarios.
func c11BuildTemplates(t *testing.T, root string) map[string]*c11Tmpl {
	t.Helper()
	out := map[string]*c11Tmpl{}
	mk := func(name string, sh commonShape) (*c11Tmpl, *commonBuilt) {
		b := commonBuildStore(t, root, sh)
		tm := &c11Tmpl{name: name, expect: map[string][]byte{}, held: map[string][]string{}}
		tm.files, tm.dirs = c11ReadTree(t, b.Dir)
		// reference streams from a quiescent private clone, cross-checked against the files
		clone := filepath.Join(root, "ref-"+name)
		if err := b.Clone(clone); err != nil {
			t.Fatal(err)
		}
		st, err := NewStore(clone)
		if err != nil {
			t.Fatalf("c11: %v", err)
		}
		st.fatalFn = nil
		for i, sn := range b.Snaps {
			tm.ids = append(tm.ids, sn.ID)
			_, rc, err := st.Open(sn.ID)
			if err != nil {
				t.Fatalf("c11: reference open of %s/%s: %v", name, sn.ID, err)
			}
			ref, err := commonReadAll(rc)
			if err != nil {
				t.Fatalf("c11: reference read: %v", err)
			}
			dbRel, walRels := b.ResolvedFiles(i)
			var payload []byte
			rels := append([]string{dbRel}, walRels...)
			for _, r := range rels {
				c, ok := tm.files[r]
				if !ok {
					t.Fatalf("c11: template %s lacks %s", name, r)
				}
				payload = append(payload, c...)
			}
			if len(ref) <= len(payload) || !bytes.HasSuffix(ref, payload) {
				t.Fatalf("c11: reference stream of %s/%s (%d bytes) does not end in the %d bytes of its data files", name, sn.ID, len(ref), len(payload))
			}
			tm.expect[sn.ID] = ref
			tm.held[sn.ID] = rels
		}
		st.Close()
		os.RemoveAll(clone)
		return tm, b
	}
	older, ob := mk("older,full", commonShape{Name: "older,full", OlderFull: true})
	out[older.name] = older
	inc, ib := mk("full,inc1", commonShape{Name: "full,inc1", Incs: []int{1}})
	out[inc.name] = inc

	// "older" alone + a creator that installs the newest full snapshot through a sink.
	sub := func(tm *c11Tmpl, name, keepID string) *c11Tmpl {
		n := &c11Tmpl{name: name, files: map[string][]byte{}, expect: map[string][]byte{}, held: map[string][]string{}}
		for r, c := range tm.files {
			if strings.HasPrefix(r, keepID+string(filepath.Separator)) {
				n.files[r] = c
			}
		}
		n.dirs = []string{keepID}
		n.ids = []string{keepID}
		n.expect[keepID] = tm.expect[keepID]
		n.held[keepID] = tm.held[keepID]
		return n
	}
	oc := sub(older, "older+create-full", ob.Snaps[0].ID)
	oc.newIndex, oc.newTerm = ob.Snaps[1].Index, ob.Snaps[1].Term
	oc.srcDB = older.files[ob.Snaps[1].DBRel]
	out[oc.name] = oc
	// the full alone + a creator that adds the incremental snapshot from a staging directory.
	ic := sub(inc, "full+create-inc", ib.Snaps[0].ID)
	ic.newIndex, ic.newTerm = ib.Snaps[1].Index, ib.Snaps[1].Term
	ic.stage = map[string][]byte{}
	for _, w := range ib.Snaps[1].WALRels {
		ic.stage[filepath.Base(w)] = inc.files[w]
		ic.stage[filepath.Base(w)+crcSuffix] = inc.files[w+crcSuffix]
	}
	for r := range ic.files {
		if strings.HasSuffix(r, walfileSuffix) {
			t.Fatalf("c11: full snapshot of shape full,inc1 unexpectedly holds a WAL: %s", r)
		}
	}
	out[ic.name] = ic
	return out
}

// ---------------------------------------------------------------------------
// scenarios

type c11Reader struct {
	snap int    // index into the template's ids
	kind string // rc | rcc | slow | edge | stall | stall-late | read-stall | oc | occ
	then string // kind of a second stream the same consumer opens on the same snapshot once the first one is done ("" = none)
}

type c11Scn struct {
	name      string
	tmpl      string
	readers   []c11Reader
	reapers   []string // "once" | "retry"
	creator   string   // "" | "full" | "inc"
	threshold int      // background reaper threshold (0: background reaper never runs)
	noTimeout bool     // Store.SetReadTimeout(0): no idle timer exists, only Close releases a stream
	early     bool     // also explore "let time pass although a thread is enabled" (an idle timer firing at any point, at most once)
	devQ      int      // total deviation bound, quick tier (-2: not in the quick tier)
	devT      int      // thorough tier
}

func c11Scenarios() []c11Scn {
	return []c11Scn{
		// explicit reap that only removes the older snapshot; the reader streams that older snapshot
		{name: "remove/rc+reap", tmpl: "older,full", readers: []c11Reader{{snap: 0, kind: "rc"}}, reapers: []string{"once"}, early: true, devQ: 2, devT: 4},
		// explicit reap that checkpoints the WAL into the database file IN PLACE, rewrites meta, removes and renames
		{name: "rewrite/rc+reap", tmpl: "full,inc1", readers: []c11Reader{{snap: 1, kind: "rc"}}, reapers: []string{"once"}, early: true, devQ: 2, devT: 4},
		// double Close against a reap that is retried until it gets the lock
		{name: "remove/rcc+retry", tmpl: "older,full", readers: []c11Reader{{snap: 0, kind: "rcc"}}, reapers: []string{"retry"}, devQ: 3, devT: 5},
		// a stalled stream: only the idle timer can release the hold
		{name: "remove/stall+retry", tmpl: "older,full", readers: []c11Reader{{snap: 0, kind: "stall"}}, reapers: []string{"retry"}, devQ: 3, devT: 5},
		// the stalled consumer comes back after the force-close: Read must fail, Close is a second close
		{name: "rewrite/stall-late+retry", tmpl: "full,inc1", readers: []c11Reader{{snap: 1, kind: "stall-late"}}, reapers: []string{"retry"}, devQ: 3, devT: 5},
		// the reader's Close and the idle timer become runnable at the same instant
		{name: "remove/edge+retry", tmpl: "older,full", readers: []c11Reader{{snap: 0, kind: "edge"}}, reapers: []string{"retry"}, devQ: 3, devT: 4},
		// a slow but live reader: the timer must be re-armed, not fire
		{name: "remove/slow+retry", tmpl: "older,full", readers: []c11Reader{{snap: 0, kind: "slow"}}, reapers: []string{"retry"}, devQ: 3, devT: 5},
		// background reaper (blocking writer) woken by a full sink's Close
		{name: "bg-remove/create-full+rc", tmpl: "older+create-full", readers: []c11Reader{{snap: 0, kind: "rc"}}, creator: "full", threshold: 2, devQ: 2, devT: 4},
		// background reaper blocked behind a stalled stream
		{name: "bg-remove/create-full+stall", tmpl: "older+create-full", readers: []c11Reader{{snap: 0, kind: "stall"}}, creator: "full", threshold: 2, devQ: 2, devT: 4},
		// background reaper that rewrites the database the reader streams, woken by an incremental sink's Close
		{name: "bg-rewrite/create-inc+rc", tmpl: "full+create-inc", readers: []c11Reader{{snap: 0, kind: "rc"}}, creator: "inc", threshold: 2, devQ: 2, devT: 4},
		// a consumer that read once and then stalled: the idle timer's first expiry must re-arm it (explicit reap retried / background reaper blocked)
		{name: "remove/read-stall+retry", tmpl: "older,full", readers: []c11Reader{{snap: 0, kind: "read-stall"}}, reapers: []string{"retry"}, devQ: 3, devT: 5},
		{name: "bg-remove/create-full+read-stall", tmpl: "older+create-full", readers: []c11Reader{{snap: 0, kind: "read-stall"}}, creator: "full", threshold: 2, devQ: 2, devT: 4},
		// the background reaper is parked behind a first stream; its consumer closes it and opens a second one before the woken reaper has run
		{name: "bg-remove/create-full+oc,rc", tmpl: "older+create-full", readers: []c11Reader{{snap: 0, kind: "oc", then: "rc"}}, creator: "full", threshold: 2, devQ: 2, devT: 4},
		{name: "bg-rewrite/create-inc+oc,rc", tmpl: "full+create-inc", readers: []c11Reader{{snap: 0, kind: "oc", then: "rc"}}, creator: "inc", threshold: 2, devQ: 2, devT: 3},
		// idle timeout DISABLED (no timer is created; the once-flag alone makes Close idempotent):
		// a single stream closed twice against an explicit reap,
		{name: "t0/remove/rcc+reap", tmpl: "older,full", noTimeout: true, readers: []c11Reader{{snap: 0, kind: "rcc"}}, reapers: []string{"once"}, devQ: 3, devT: 5},
		// stream A open and reading while stream B is opened and closed twice, explicit reap retried (B's second Close must not release A's hold),
		{name: "t0/rewrite/rc+occ+retry", tmpl: "full,inc1", noTimeout: true, readers: []c11Reader{{snap: 1, kind: "rc"}, {snap: 1, kind: "occ"}}, reapers: []string{"retry"}, devQ: 2, devT: 4},
		// and the same against the background reaper woken by a sink's Close
		{name: "t0/bg-remove/create-full+rc+occ", tmpl: "older+create-full", noTimeout: true, readers: []c11Reader{{snap: 0, kind: "rc"}, {snap: 0, kind: "occ"}}, creator: "full", threshold: 2, devQ: 1, devT: 2},
		// two streams (reader count 2 -> 0), one of them stalled, explicit reap retried
		{name: "remove/rc+stall+retry", tmpl: "older,full", readers: []c11Reader{{snap: 0, kind: "rc"}, {snap: 0, kind: "stall"}}, reapers: []string{"retry"}, devQ: 2, devT: 4},
		// background and explicit reaper together against one reader
		{name: "bg-remove/create-full+rc+reap", tmpl: "older+create-full", readers: []c11Reader{{snap: 0, kind: "rc"}}, reapers: []string{"once"}, creator: "full", threshold: 2, devQ: 1, devT: 2},
	}
}

// ---------------------------------------------------------------------------
// one execution

type c11Stream struct {
	idx      int
	id       string
	kind     string
	ls       *LockingStreamer
	wrap     *c11Wrap
	opened   bool
	openErr  error
	got      []byte
	eof      bool
	readErr  error
	errForce bool // the stream was force-closed (or marked timed out) when readErr was returned
	activity []time.Time
	closes   int  // Close calls on the underlying reader (by Close or by the idle timer)
	forced   bool // the underlying reader was closed by the idle timer
	userCls  []error
	done     bool
}

type c11Exec struct {
	sc       *c11Scn
	tm       *c11Tmpl
	s        *vs.Sched
	out      *vs.Outcome
	dir      string // private directory of this execution
	storeDir string
	store    *Store
	streams  []*c11Stream
	mutReaps int // reaps that changed the directory, completed
	reapLog  []string
	notes    []string
}

func (x *c11Exec) vio(key, f string, a ...any) {
	for _, v := range x.out.Violations {
		if v.Key == key {
			return // one per class and execution is enough
		}
	}
	x.out.Violations = append(x.out.Violations, vs.Vio{Key: key, What: x.sc.name + ": " + fmt.Sprintf(f, a...)})
}

// c11Wrap sits between the LockingStreamer and the real SnapshotStreamer. Both
// close paths (Close and checkIdle) close the underlying reader before they
// release the store's read lock, so Close here is the last moment of the hold.
type c11Wrap struct {
	inner io.ReadCloser
	st    *c11Stream
	x     *c11Exec
}

func (w *c11Wrap) Read(p []byte) (int, error) {
	vs.Touch("c11:fs")
	return w.inner.Read(p)
}

func (w *c11Wrap) Close() error {
	vs.Touch("c11:fs")
	st, x := w.st, w.x
	st.closes++
	if st.closes == 1 {
		x.checkFiles(st, "when the stream was closed")
		if st.ls.timedOut.Is() {
			st.forced = true
			// force-closed: a full idle timeout must have passed since the last
			// activity that completed at an EARLIER instant (activity at this very
			// instant may legitimately race with the timer's decision).
			now := time.Now()
			for i := len(st.activity) - 1; i >= 0; i-- {
				if a := st.activity[i]; a.Before(now) {
					if idle := now.Sub(a); idle < c11Timeout {
						x.vio("C11:force-closed-before-idle-timeout", "stream %d (%s) force-closed after only %v of inactivity (timeout %v)", st.idx, st.kind, idle, c11Timeout)
					}
					break
				}
			}
		}
	} else {
		x.vio("C11:stream-closed-more-than-once", "stream %d (%s): underlying reader closed %d times", st.idx, st.kind, st.closes)
	}
	return w.inner.Close()
}

// checkFiles: the data files of an open stream must exist with unchanged content.
func (x *c11Exec) checkFiles(st *c11Stream, when string) {
	for _, rel := range x.tm.held[st.id] {
		got, err := os.ReadFile(filepath.Join(x.storeDir, rel))
		if err != nil {
			x.vio("C11:files-removed-while-stream-open", "stream %d (%s) of %s: %s is gone %s (%v); reaps so far %v", st.idx, st.kind, st.id, rel, when, err, x.reapLog)
			return
		}
		if !bytes.Equal(got, x.tm.files[rel]) {
			x.vio("C11:files-rewritten-while-stream-open", "stream %d (%s) of %s: %s has different content %s; reaps so far %v", st.idx, st.kind, st.id, rel, when, x.reapLog)
			return
		}
	}
}

// held reports whether the stream must be holding the store's read lock now.
func (st *c11Stream) held() bool {
	return st.opened && st.closes == 0 && !st.ls.timedOut.Is()
}

func (x *c11Exec) step(st *c11Stream, when string) {
	vs.Touch("c11:fs")
	if st.held() {
		x.checkFiles(st, when)
	}
}

// read reads n more bytes (n<0: up to the snapshot's size, as raft's CopyN does);
// false when the stream ended or failed.
func (x *c11Exec) read(st *c11Stream, n int) bool {
	buf := make([]byte, 4096)
	if n < 0 {
		n = len(x.tm.expect[st.id]) - len(st.got)
	}
	for n > 0 {
		want := len(buf)
		if n > 0 && n < want {
			want = n
		}
		k, err := st.ls.Read(buf[:want])
		if k > 0 {
			st.got = append(st.got, buf[:k]...)
			st.activity = append(st.activity, time.Now())
			n -= k
		}
		if err == io.EOF {
			st.eof = true
			return false
		}
		if err != nil {
			st.readErr = err
			st.errForce = st.closes > 0 || st.ls.timedOut.Is()
			return false
		}
	}
	return true
}

func (x *c11Exec) closeStream(st *c11Stream) {
	err := st.ls.Close()
	st.userCls = append(st.userCls, err)
}

func (x *c11Exec) reader(st *c11Stream) {
	defer func() { st.done = true }()
	_, rc, err := x.store.Open(st.id)
	vs.Touch("c11:fs")
	if err != nil {
		st.openErr = err
		return
	}
	ls, ok := rc.(*LockingStreamer)
	if !ok {
		x.vio("C11:harness:unexpected-stream-type", "Open returned %T", rc)
		rc.Close()
		return
	}
	st.ls = ls
	st.wrap = &c11Wrap{inner: ls.ReadCloser, st: st, x: x}
	ls.ReadCloser = st.wrap
	st.opened = true
	st.activity = append(st.activity, time.Now())
	x.step(st, "right after Open")
	half := len(x.tm.expect[st.id]) / 2
	switch st.kind {
	case "rc", "rcc":
		if x.read(st, half) {
			vs.Point("c11:reader:between-chunks", "c11:fs")
			x.step(st, "between the chunks")
			x.read(st, -1)
		}
		x.step(st, "before Close")
		x.closeStream(st)
		if st.kind == "rcc" {
			vs.Point("c11:reader:second-close", "c11:fs")
			x.closeStream(st)
		}
	case "slow":
		time.Sleep(c11Timeout * 6 / 10)
		vs.Point("c11:reader:woke", "c11:fs")
		if x.read(st, half) {
			x.step(st, "between the chunks")
			time.Sleep(c11Timeout * 6 / 10)
			vs.Point("c11:reader:woke", "c11:fs")
			x.read(st, -1)
		}
		x.step(st, "before Close")
		x.closeStream(st)
	case "edge":
		if x.read(st, half) {
			time.Sleep(c11Timeout) // wakes at the instant the idle timer fires
			vs.Point("c11:reader:woke", "c11:fs")
			x.step(st, "between the chunks")
			x.read(st, -1)
		}
		x.step(st, "before Close")
		x.closeStream(st)
	case "stall":
		// never read, never closed
	case "read-stall":
		// reads once inside the first idle window, then stalls for good: the first
		// timer expiry finds idle < timeout, so the force-close depends on the re-arm
		time.Sleep(c11Timeout * 3 / 10)
		vs.Point("c11:reader:woke", "c11:fs")
		x.read(st, half)
		x.step(st, "after the only read")
	case "oc":
		// opened and closed at once (the consumer's first stream; see c11Reader.then)
		x.closeStream(st)
	case "occ":
		// opened, closed, and closed again (explicit Close + deferred Close), nothing read
		x.closeStream(st)
		vs.Point("c11:reader:second-close", "c11:fs")
		x.closeStream(st)
	case "stall-late":
		time.Sleep(c11Timeout * 3 / 2)
		vs.Point("c11:reader:woke", "c11:fs")
		x.step(st, "back after the stall")
		x.read(st, -1)
		x.closeStream(st)
	}
}

func (x *c11Exec) reaper(kind string) {
	tries := 1
	if kind == "retry" {
		tries = 8
	}
	for i := 0; i < tries; i++ {
		if i > 0 {
			time.Sleep(c11Timeout / 2)
		}
		n, c, err := x.store.Reap()
		vs.Touch("c11:fs")
		var conflict *rsync.ErrMRSWConflict
		switch {
		case err == nil:
			x.reapLog = append(x.reapLog, fmt.Sprintf("explicit:ok(%d,%d)", n, c))
			return
		case errors.As(err, &conflict):
			x.reapLog = append(x.reapLog, "explicit:conflict")
		default:
			x.reapLog = append(x.reapLog, "explicit:error")
			x.vio("C11:reap-failed", "Reap returned %v", err)
			return
		}
	}
	if kind == "retry" {
		x.vio("C11:reap-never-proceeds", "Reap still refused after %d tries spread over %v (idle timeout %v); streams: %s", tries, time.Duration(tries-1)*c11Timeout/2, c11Timeout, x.streamStates())
	}
}

func (x *c11Exec) creator() {
	fail := func(what string, err error) {
		x.vio("C11:harness:creator-failed", "%s: %v", what, err)
	}
	rs, err := x.store.Create(1, x.tm.newIndex, x.tm.newTerm, makeTestConfiguration("1", "localhost:1"), 1, nil)
	if err != nil {
		fail("Create", err)
		return
	}
	sink := rs.(*Sink)
	sink.fatalFn = nil
	sink.logger = log.New(io.Discard, "", 0)
	switch x.sc.creator {
	case "full":
		str, err := NewSnapshotStreamer(filepath.Join(x.dir, "src.db"))
		if err == nil {
			err = str.Open()
		}
		if err != nil {
			fail("source streamer", err)
			sink.Cancel()
			return
		}
		_, err = io.Copy(sink, str)
		str.Close()
		if err != nil {
			fail("writing full snapshot", err)
			sink.Cancel()
			return
		}
	case "inc":
		str, err := NewSnapshotPathStreamer(filepath.Join(x.dir, "stage"))
		if err != nil {
			fail("path streamer", err)
			sink.Cancel()
			return
		}
		if _, err := io.Copy(sink, str); err != nil {
			fail("writing incremental header", err)
			sink.Cancel()
			return
		}
	}
	vs.Touch("c11:fs")
	if err := sink.Close(); err != nil {
		fail("sink Close", err)
		return
	}
	vs.Touch("c11:fs")
	x.notes = append(x.notes, "created")
}

func (x *c11Exec) streamStates() string {
	var sb []string
	for _, st := range x.streams {
		to := false
		if st.ls != nil {
			to = st.ls.timedOut.Is()
		}
		sb = append(sb, fmt.Sprintf("#%d %s opened=%v closes=%d timedOut=%v read=%d eof=%v err=%v", st.idx, st.kind, st.opened, st.closes, to, len(st.got), st.eof, st.readErr))
	}
	return strings.Join(sb, "; ")
}

func (x *c11Exec) populate() error {
	x.storeDir = filepath.Join(x.dir, "store")
	if err := os.MkdirAll(x.storeDir, 0o755); err != nil {
		return err
	}
	for _, d := range x.tm.dirs {
		if err := os.Mkdir(filepath.Join(x.storeDir, d), 0o755); err != nil {
			return err
		}
	}
	for rel, c := range x.tm.files {
		if err := os.WriteFile(filepath.Join(x.storeDir, rel), c, 0o644); err != nil {
			return err
		}
	}
	if x.tm.srcDB != nil {
		if err := os.WriteFile(filepath.Join(x.dir, "src.db"), x.tm.srcDB, 0o644); err != nil {
			return err
		}
	}
	if x.tm.stage != nil {
		sd := filepath.Join(x.dir, "stage")
		if err := os.Mkdir(sd, 0o755); err != nil {
			return err
		}
		for n, c := range x.tm.stage {
			if err := os.WriteFile(filepath.Join(sd, n), c, 0o644); err != nil {
				return err
			}
		}
	}
	return nil
}

// teardown makes sure no goroutine of the bubble stays blocked.
func (x *c11Exec) teardown() {
	x.s.Abort()
	if x.store != nil {
		func() {
			defer func() { recover() }() // already closed by the final thread
			close(x.store.reapDoneCh)
		}()
	}
	for _, st := range x.streams {
		if st.wrap != nil && st.closes == 0 {
			st.wrap.inner.Close()
		}
		if st.ls != nil && st.ls.timer != nil {
			st.ls.timer.Stop()
		}
	}
}

func c11Body(sc *c11Scn, env *c11Env) vs.Body {
	tm := env.tmpls[sc.tmpl]
	return func(s *vs.Sched) vs.Outcome {
		var out vs.Outcome
		x := &c11Exec{sc: sc, tm: tm, s: s, out: &out}
		x.dir = filepath.Join(env.root, fmt.Sprintf("x%d", env.seq.Add(1)))
		defer os.RemoveAll(x.dir)
		if err := x.populate(); err != nil {
			x.vio("C11:harness:setup", "populate: %v", err)
			return out
		}
		var initErr error
		s.Go("init", func() {
			st, err := NewStore(x.storeDir)
			if err != nil {
				initErr = err
				return
			}
			st.fatalFn = nil
			st.logger = log.New(io.Discard, "", 0)
			if sc.noTimeout {
				st.SetReadTimeout(0)
			} else {
				st.SetReadTimeout(c11Timeout)
			}
			st.SetNoVerifyDB(true) // the post-checkpoint integrity_check is not part of this property (C05/C12)
			if sc.threshold > 0 {
				st.SetReapThreshold(sc.threshold)
			} else {
				st.SetReapThreshold(1 << 20)
			}
			// The filter runs synchronously inside reap(), i.e. while the write lock is held.
			st.RegisterObserver(NewObserver(make(chan ReapObservation, 1), func(o *ReapObservation) bool {
				vs.Touch("c11:fs", "c11:reapdone")
				if o.SnapshotsReaped+o.WALsReaped == 0 {
					return false
				}
				x.reapLog = append(x.reapLog, fmt.Sprintf("reaped(%d,%d)", o.SnapshotsReaped, o.WALsReaped))
				for _, st := range x.streams {
					if st.held() {
						x.vio("C11:reap-while-stream-open", "a reap that removed %d snapshot(s) and checkpointed %d WAL(s) completed while stream %d (%s) of %s is open and not timed out", o.SnapshotsReaped, o.WALsReaped, st.idx, st.kind, st.id)
					}
				}
				x.mutReaps++
				return false
			}))
			x.store = st
			// let the reaper goroutine reach its select before the threads start
			time.Sleep(time.Millisecond)
		})
		if st := s.Run(); st != vs.Done || initErr != nil || x.store == nil {
			if st != vs.Redundant {
				x.vio("C11:harness:setup", "init ended %v err %v: %v", st, initErr, s.Blocked())
			}
			x.teardown()
			return out
		}
		for i, rd := range sc.readers {
			st := &c11Stream{idx: len(x.streams), id: tm.ids[rd.snap], kind: rd.kind}
			x.streams = append(x.streams, st)
			var st2 *c11Stream
			if rd.then != "" {
				st2 = &c11Stream{idx: len(x.streams), id: st.id, kind: rd.then}
				x.streams = append(x.streams, st2)
			}
			s.Go(fmt.Sprintf("reader%d:%s", i, rd.kind+rd.then), func() {
				x.reader(st)
				if st2 != nil {
					// no scheduling point between the Close of the first stream and the
					// Open of the second: a writer woken by that Close has not run yet
					x.reader(st2)
				}
			})
		}
		for i, k := range sc.reapers {
			s.Go(fmt.Sprintf("reaper%d:%s", i, k), func() { x.reaper(k) })
		}
		if sc.creator != "" {
			s.Go("creator:"+sc.creator, x.creator)
		}
		if sc.threshold > 0 {
			// The background reaper is a daemon: something must wait for its reap.
			s.Go("wait-bg-reap", func() {
				vs.Block("c11:wait-bg-reap", func() bool { return x.mutReaps > 0 }, "c11:reapdone")
				// ... and for the reaper to leave its critical section
				x.store.mrsw.BeginWriteBlocking("c11-wait")
				x.store.mrsw.EndWrite()
			})
		}
		st := s.Run()
		if st == vs.Redundant {
			x.teardown()
			return out
		}
		panics := s.Panics()
		for _, p := range panics {
			first := strings.SplitN(p, "\n", 2)[0]
			switch {
			case strings.Contains(first, "reader count went negative"):
				x.vio("C11:panic:reader-count-negative", "%s | streams: %s", p, x.streamStates())
			default:
				x.vio("C11:panic:other", "%s", p)
			}
		}
		if st != vs.Done {
			x.vio("C11:stuck", "execution ended %v with threads %v; streams: %s; reaps %v", st, s.Blocked(), x.streamStates(), x.reapLog)
			x.oracle(false)
			x.teardown()
			out.Obs = "stuck"
			return out
		}
		// A stream that is still open and has not yet been idle for a full timeout
		// holds the lock legitimately (not the case in the scenarios above, where a
		// reaper or waiter always outlasts every stream): let its timeout pass.
		var until time.Time
		for _, st := range x.streams {
			if st.held() && len(st.activity) > 0 && !sc.noTimeout {
				if u := st.activity[len(st.activity)-1].Add(c11Timeout + time.Second); u.After(until) {
					until = u
				}
			}
		}
		if !until.IsZero() {
			s.Go("drain", func() { time.Sleep(time.Until(until)) })
			if st := s.Run(); st != vs.Done {
				if st != vs.Redundant {
					x.vio("C11:stuck", "waiting for the idle timeout of the open streams ended %v: %v; streams: %s", st, s.Blocked(), x.streamStates())
				}
				x.teardown()
				return out
			}
		}
		x.oracle(true)
		// Every hold released: the write lock can be taken. All harness threads are
		// done, so this normally runs natively on the root goroutine (no further
		// choice points). If it is refused, the background reaper (a daemon thread)
		// may still be inside a reap of its own: then wait for the lock like a
		// blocking writer does - only a read hold that is never released keeps
		// that from succeeding.
		if err := x.store.mrsw.BeginWrite("c11-final"); err == nil {
			x.store.mrsw.EndWrite()
		} else {
			s.Go("final-wait", func() {
				x.store.mrsw.BeginWriteBlocking("c11-final")
				x.store.mrsw.EndWrite()
			})
			if st := s.Run(); st == vs.Redundant {
				x.teardown()
				return out
			} else if st != vs.Done {
				x.vio("C11:hold-not-released", "after every thread ended BeginWrite fails (%v) and a blocking writer never gets the lock (%v: %v); streams: %s", err, st, s.Blocked(), x.streamStates())
			}
			for _, p := range s.Panics()[len(panics):] {
				x.vio("C11:panic:other", "%s", p)
			}
		}
		x.teardown()
		out.Obs = x.obs()
		return out
	}
}

// oracle evaluates the per-stream part of the statement. complete = all threads finished.
func (x *c11Exec) oracle(complete bool) {
	for _, st := range x.streams {
		if !st.opened {
			continue
		}
		exp := x.tm.expect[st.id]
		switch {
		case !bytes.HasPrefix(exp, st.got):
			d := 0
			for d < len(st.got) && d < len(exp) && st.got[d] == exp[d] {
				d++
			}
			x.vio("C11:stream-bytes-differ", "stream %d (%s) of %s returned %d bytes that differ from the snapshot content at offset %d (content %d bytes; eof=%v err=%v forced=%v); reaps %v", st.idx, st.kind, st.id, len(st.got), d, len(exp), st.eof, st.readErr, st.forced, x.reapLog)
		case st.eof && len(st.got) != len(exp):
			x.vio("C11:stream-short-without-error", "stream %d (%s) of %s ended with EOF after %d of %d bytes", st.idx, st.kind, st.id, len(st.got), len(exp))
		}
		if st.readErr != nil && !st.errForce {
			x.vio("C11:read-error-while-open", "stream %d (%s) of %s: Read failed with %v although the stream was neither closed nor timed out", st.idx, st.kind, st.id, st.readErr)
		}
		if !complete {
			continue
		}
		if st.closes == 0 {
			x.vio("C11:stream-never-closed", "stream %d (%s) of %s: neither Close nor the idle timer closed it", st.idx, st.kind, st.id)
		}
	}
}

func (x *c11Exec) obs() string {
	var sb []string
	for _, st := range x.streams {
		switch {
		case st.openErr != nil:
			var conflict *rsync.ErrMRSWConflict
			switch {
			case errors.As(st.openErr, &conflict):
				sb = append(sb, "open:conflict")
			case errors.Is(st.openErr, ErrSnapshotNotFound):
				sb = append(sb, "open:notfound")
			default:
				sb = append(sb, "open:err")
			}
		default:
			r := "part"
			if len(st.got) == len(x.tm.expect[st.id]) {
				r = "all"
			}
			if len(st.got) == 0 {
				r = "none"
			}
			e := ""
			if st.readErr != nil {
				e = "+err"
				if errors.Is(st.readErr, ErrSnapshotReaderTimeout) {
					e = "+timeout"
				}
			}
			f := "closed"
			if st.forced {
				f = "forced"
			}
			sb = append(sb, fmt.Sprintf("%s%s/%s/%d", r, e, f, len(st.userCls)))
		}
	}
	return strings.Join(sb, ",") + " | " + strings.Join(x.reapLog, ",") + strings.Join(x.notes, ",")
}

// ---------------------------------------------------------------------------

func TestVerif_C11(t *testing.T) {
	r := kit.Start(t, "C11", "sched")
	defer r.Finish()
	r.Rule("E-SCHED on the real snapshot.Store (store.go, sink.go, internal/rsync/multir_singlew.go instrumented from the current tree): per scenario (a private copy of a tiny real store; reader / reaper / creator threads, the store's reapLoop and every stream's idle timer on a fake clock) every schedule within the scenario's total deviation bound D (preemptions + select-order deviations + early 'let time pass' choices <= D; an early time advance, i.e. an idle timer firing while threads are runnable, at most once and only in the two rc+reap scenarios - elsewhere time passes through the threads' own sleeps), plain bounded DFS without state pruning; oracle on every execution: stream bytes == snapshot content or a prefix followed by an error after a force-close, data files of an open stream present and unchanged at every reader step and at the moment of close, no completed mutating reap while a stream is open, no panic / reader count never negative, underlying reader closed exactly once, BeginWrite succeeds at the end, force-close only after a full idle timeout, no blocked terminal state. distinct = distinct (stream outcome, reap log) vectors; traces_validated_against_impl = executions re-run from their recorded schedule (1 in 16 and every violating one) that reproduced the same observation and choice points")
	restore := commonQuietLogs()
	defer restore()
	defer debug.SetGCPercent(debug.SetGCPercent(400)) // many short-lived stores: collect less often
	root := commonScratchRoot(t)
	env := &c11Env{root: root}
	func() {
		// The templates' reference streams come from one quiescent Open/read/Close
		// per snapshot on the real code: a panic there (reader count negative after
		// a single sequential open and close) is a finding, not a harness crash.
		defer func() {
			if p := recover(); p != nil {
				key := "C11:panic:other"
				if strings.Contains(fmt.Sprint(p), "reader count went negative") {
					key = "C11:panic:reader-count-negative"
				}
				r.Violation(key, fmt.Sprintf("sequential Open, read to EOF, Close on a quiescent store panicked: %v", p), map[string]any{"phase": "reference streams"})
			}
		}()
		env.tmpls = c11BuildTemplates(t, root)
	}()
	if env.tmpls == nil {
		return
	}
	var fp []string
	for _, n := range []string{"older,full", "full,inc1", "older+create-full", "full+create-inc"} {
		tm := env.tmpls[n]
		sz := 0
		for _, c := range tm.files {
			sz += len(c)
		}
		fp = append(fp, fmt.Sprintf("%s: %d snapshot(s), %d files, %d bytes", n, len(tm.ids), len(tm.files), sz))
	}
	r.Set("templates", fp)

	if rp := kit.Replay(); rp != nil {
		var in struct {
			Scenario string      `json:"scenario"`
			Schedule []vs.Choice `json:"schedule"`
		}
		if err := json.Unmarshal(rp, &in); err != nil {
			t.Fatalf("c11: bad replay: %v", err)
		}
		for _, sc := range c11Scenarios() {
			if sc.name != in.Scenario {
				continue
			}
			td := 0
			if sc.early {
				td = 1
			}
			out, events, div := vs.Replay(t, vs.Options{TimeDevs: td, MaxTimeAdv: 60}, in.Schedule, c11Body(&sc, env))
			r.Eval(1)
			for _, e := range events {
				t.Log(e)
			}
			t.Logf("replay of %s: obs %q divergence %q", sc.name, out.Obs, div)
			if div != "" {
				r.Violation("C11:harness-nondeterminism", "replay diverged: "+div, in)
			}
			for _, v := range out.Violations {
				r.Violation(v.Key, v.What, in)
			}
		}
		return
	}

	var scs []c11Scn
	for _, sc := range c11Scenarios() {
		if r.Pick(sc.devQ, sc.devT) >= 0 {
			scs = append(scs, sc)
		}
	}
	only := os.Getenv("C11_ONLY")
	for i, sc := range scs {
		if only != "" && !strings.Contains(sc.name, only) {
			continue
		}
		timeDevs := 0
		if sc.early {
			timeDevs = 1
		}
		opts := vs.Options{Deviations: r.Pick(sc.devQ, sc.devT), Preemptions: -1, SelectDevs: -1, TimeDevs: timeDevs,
			MaxExecs: int64(r.Pick(400000, 3000000)), Deadline: r.SliceDeadline(i, len(scs)), NoStatePruning: true, MaxTimeAdv: 60}
		if d, err := strconv.Atoi(os.Getenv("C11_DEV")); err == nil {
			opts.Deviations = d
		}
		if w, err := strconv.Atoi(os.Getenv("VSCHED_WORKERS")); err == nil {
			opts.Workers = w
		}
		if os.Getenv("C11_PRUNE") != "" {
			opts.NoStatePruning = false
		}
		t0 := time.Now()
		st := vs.Explore(t, opts, c11Body(&sc, env))
		r.Eval(int(st.Executions))
		r.Transition(int(st.ChoicePts))
		r.Validated(int(st.Replays))
		r.State(int(st.StatesSeen))
		var oks []string
		for o := range st.Outcomes {
			r.Distinct(sc.name + ":" + o)
			oks = append(oks, o)
		}
		sort.Strings(oks)
		r.Sample(map[string]any{"scenario": sc.name, "deviation_bound": opts.Deviations, "executions": st.Executions, "pruned_redundant": st.Redundant, "max_choice_depth": st.MaxDepth, "distinct_outcomes": len(st.Outcomes), "replayed": st.Replays})
		if st.Capped {
			r.Cap("scenario %s: stopped at its execution cap (%d, a quarter of that per shard process) or at its share of the time budget before completing deviation bound %d", sc.name, opts.MaxExecs, opts.Deviations)
		}
		for _, d := range st.Divergences {
			r.Violation("C11:harness-nondeterminism", sc.name+": "+d, nil)
		}
		for _, v := range st.Violations {
			key := v.Key
			if key == "panic" {
				key = "C11:panic:body"
			}
			r.Violation(key, v.What, map[string]any{"scenario": sc.name, "schedule": v.Schedule, "events": v.Events, "reproduced": v.Repro})
		}
		t.Logf("%s: dev<=%d execs=%d redundant=%d outcomes=%d maxdepth=%d capped=%v replays=%d divergences=%d wall=%.1fs", sc.name, opts.Deviations, st.Executions, st.Redundant, len(st.Outcomes), st.MaxDepth, st.Capped, st.Replays, len(st.Divergences), time.Since(t0).Seconds())
		if os.Getenv("C11_VERBOSE") != "" {
			for _, o := range oks {
				t.Logf("    %6d  %s", st.Outcomes[o], o)
			}
		}
	}
}
