package snapshot

// Shared builders of tiny snapshot stores for the /verif harnesses of the
// snapshot package (C07, C09, C10, C11, C12). Files whose name starts with
// "common" are injected for every property that uses this package, so every
// identifier here is prefixed "common" and nothing here depends on a particular
// property.
//
// What it offers
//
//   - commonShape: a description of a store layout: an optional older full
//     snapshot, the newest full snapshot holding 0..2 WAL segments in its own
//     directory (what an installed db+WAL snapshot looks like), followed by 0..3
//     incremental snapshots of 1..2 WAL segments each.
//   - commonBuildStore: materialises a shape in a directory using the REAL store
//     code paths (Sink / FullSink / SnapshotPathStreamer, through the package's
//     own createSnapshotInStore test helper), from a real SQLite database with
//     512-byte pages (3-4 pages) whose every segment writes DISTINCT content, so
//     that a stale, reordered or mixed-up file is visible in the result.
//   - For every snapshot the database state it represents: the bytes of the
//     database file after SQLite itself checkpointed all WAL segments up to that
//     snapshot (taken from the generator database), and a logical dump.
//     commonReplayWithSQLite recomputes that state from raw db+WAL bytes using
//     plain SQLite (database/sql), never rqlite code; the builder cross-checks
//     the two so that a broken generator fails the set-up, not a property.
//   - (*commonBuilt).Clone: a cheap per-case private copy of the store directory.
//   - commonDumpDB / commonSameDB: logical comparison of database files.
//
// The template directory returned by commonBuildStore must never be mutated by a
// case: always Clone it.

import (
	"bytes"
	"crypto/sha256"
	"database/sql"
	"encoding/binary"
	"fmt"
	"io"
	"log"
	"os"
	"path/filepath"
	"sort"
	"strings"
	"sync/atomic"
	"testing"
	"time"

	kit "github.com/rqlite/rqlite/v10/internal/verifkit"
)

// commonShape describes a store layout.
type commonShape struct {
	Name string
	// OlderFull adds a full snapshot (no WALs) older than the newest full one.
	OlderFull bool
	// FullWALs is the number of WAL segments stored inside the newest full
	// snapshot's directory (0..2), as after installing a db+WALs stream.
	FullWALs int
	// Incs has one entry per incremental snapshot following the newest full
	// snapshot; the value is the number of WAL segments in it (1..2).
	Incs []int
	// StartIdx shifts the Raft indexes of the snapshots (they are StartIdx+10, +20, ...): with 80 the
	// directory names cross a digit boundary (1-90-.., 1-100-..), so name order and index order differ.
	StartIdx uint64
}

// commonShapes returns the standard shape list: full only; full + 1..2 WALs;
// full followed by 1..3 incremental snapshots of 1-2 WAL segments; one chain
// rooted at a full that itself carries a WAL. withOlder additionally yields
// variants preceded by an older full snapshot (used by reap-oriented checks).
func commonShapes(withOlder bool) []commonShape {
	shapes := []commonShape{
		{Name: "full"},
		{Name: "full+1wal", FullWALs: 1},
		{Name: "full+2wal", FullWALs: 2},
		{Name: "full,inc1", Incs: []int{1}},
		{Name: "full,inc2", Incs: []int{2}},
		{Name: "full,inc1,inc1", Incs: []int{1, 1}},
		{Name: "full,inc2,inc1", Incs: []int{2, 1}},
		{Name: "full,inc1,inc2,inc1", Incs: []int{1, 2, 1}},
		{Name: "full+1wal,inc1", FullWALs: 1, Incs: []int{1}},
	}
	if withOlder {
		shapes = append(shapes,
			commonShape{Name: "older,full", OlderFull: true},
			commonShape{Name: "older,full+1wal", OlderFull: true, FullWALs: 1},
			commonShape{Name: "older,full,inc1,inc1", OlderFull: true, Incs: []int{1, 1}},
		)
	}
	return shapes
}

// commonState is the database a snapshot represents.
type commonState struct {
	DB   []byte // database file as SQLite left it after checkpointing every segment up to here
	Dump string // logical dump (schema + all rows + integrity_check), see commonDumpDB
}

// commonSnap is one snapshot of a built store.
type commonSnap struct {
	ID          string
	Index, Term uint64
	Full        bool
	DBRel       string   // path of data.db relative to the store dir ("" for incremental)
	WALRels     []string // WAL files of THIS snapshot directory, in apply order
	State       *commonState
}

// commonDataFile is one data file of a built store together with its checksum sidecar.
type commonDataFile struct {
	Rel     string // relative path of the data file
	Sidecar string // relative path of its .crc32 sidecar
	Kind    string // "db" | "full-wal" | "inc-wal"
	Snap    int    // index into commonBuilt.Snaps
}

// commonBuilt is a materialised shape.
type commonBuilt struct {
	Shape commonShape
	Dir   string       // template store directory (read-only for cases)
	Snaps []commonSnap // oldest -> newest
}

// Newest returns the newest snapshot.
func (b *commonBuilt) Newest() *commonSnap { return &b.Snaps[len(b.Snaps)-1] }

// ResolvedFiles returns, for snapshot i, the database file and the ordered WAL
// files a reader of that snapshot must apply (what SnapshotSet.ResolveFiles is
// specified to return), as paths relative to the store directory.
func (b *commonBuilt) ResolvedFiles(i int) (dbRel string, walRels []string) {
	f := i
	for f >= 0 && !b.Snaps[f].Full {
		f--
	}
	if f < 0 {
		return "", nil
	}
	for k := f; k <= i; k++ {
		walRels = append(walRels, b.Snaps[k].WALRels...)
	}
	return b.Snaps[f].DBRel, walRels
}

// DataFiles lists every data file (with its sidecar) of the store.
func (b *commonBuilt) DataFiles() []commonDataFile {
	var out []commonDataFile
	for i, s := range b.Snaps {
		if s.DBRel != "" {
			out = append(out, commonDataFile{Rel: s.DBRel, Sidecar: s.DBRel + crcSuffix, Kind: "db", Snap: i})
		}
		for _, w := range s.WALRels {
			k := "inc-wal"
			if s.Full {
				k = "full-wal"
			}
			out = append(out, commonDataFile{Rel: w, Sidecar: w + crcSuffix, Kind: k, Snap: i})
		}
	}
	return out
}

// Clone copies the template store directory to dst (which must not exist).
func (b *commonBuilt) Clone(dst string) error { return commonCopyDir(b.Dir, dst) }

// CloneLinked is a cheaper Clone for cases that only READ the store: every file
// is hard-linked to the template except the files named in copyRels (paths
// relative to the store directory), which are real copies and may be modified.
// Use it only when the code under test does not write any existing file in place
// (Open, Restore, verification, streaming; NOT Reap); guard the template with
// Fingerprint before/after the enumeration.
func (b *commonBuilt) CloneLinked(dst string, copyRels ...string) error {
	cp := map[string]bool{}
	for _, r := range copyRels {
		cp[filepath.Clean(r)] = true
	}
	return commonLinkDir(b.Dir, dst, "", cp)
}

func commonLinkDir(src, dst, rel string, cp map[string]bool) error {
	ents, err := os.ReadDir(src)
	if err != nil {
		return err
	}
	if err := os.Mkdir(dst, 0o755); err != nil {
		return err
	}
	for _, e := range ents {
		s, d, r := filepath.Join(src, e.Name()), filepath.Join(dst, e.Name()), filepath.Join(rel, e.Name())
		switch {
		case e.IsDir():
			if err := commonLinkDir(s, d, r, cp); err != nil {
				return err
			}
		case cp[r]:
			b, err := os.ReadFile(s)
			if err != nil {
				return err
			}
			if err := os.WriteFile(d, b, 0o644); err != nil {
				return err
			}
		default:
			if err := os.Link(s, d); err != nil {
				return err
			}
		}
	}
	return nil
}

// Fingerprint returns a digest of every file (path and content) of the template
// directory; compare before and after an enumeration to prove no case wrote to it.
func (b *commonBuilt) Fingerprint() (string, error) {
	h := sha256.New()
	err := filepath.Walk(b.Dir, func(p string, fi os.FileInfo, err error) error {
		if err != nil {
			return err
		}
		rel, _ := filepath.Rel(b.Dir, p)
		fmt.Fprintf(h, "%s|%v|", rel, fi.IsDir())
		if !fi.IsDir() {
			c, err := os.ReadFile(p)
			if err != nil {
				return err
			}
			fmt.Fprintf(h, "%d|", len(c))
			h.Write(c)
		}
		return nil
	})
	return fmt.Sprintf("%x", h.Sum(nil)), err
}

// commonCopyDir copies a directory tree of regular files.
func commonCopyDir(src, dst string) error {
	ents, err := os.ReadDir(src)
	if err != nil {
		return err
	}
	if err := os.MkdirAll(dst, 0o755); err != nil {
		return err
	}
	for _, e := range ents {
		s, d := filepath.Join(src, e.Name()), filepath.Join(dst, e.Name())
		if e.IsDir() {
			if err := commonCopyDir(s, d); err != nil {
				return err
			}
			continue
		}
		b, err := os.ReadFile(s)
		if err != nil {
			return err
		}
		if err := os.WriteFile(d, b, 0o644); err != nil {
			return err
		}
	}
	return nil
}

// commonScratchRoot returns a scratch directory for an enumeration that creates
// and destroys a private store per case. The properties served here are about
// CONTENT, not durability, while the code under test fsyncs every file it
// writes; on a disk that makes fsync the dominant cost by two orders of
// magnitude. So a memory-backed directory (/dev/shm) is preferred when it is
// writable (set VERIF_NO_SHM=1 to force the regular kit.Scratch location). The
// directory is removed when the test ends; leftovers of killed runs older than
// two hours are swept. Cases must use their own sub-directory of the root.
func commonScratchRoot(t *testing.T) string {
	t.Helper()
	const shm = "/dev/shm"
	if os.Getenv("VERIF_NO_SHM") == "" {
		if st, err := os.Stat(shm); err == nil && st.IsDir() {
			if old, _ := filepath.Glob(filepath.Join(shm, "verif-snapshot-*")); len(old) > 0 {
				for _, o := range old {
					if fi, err := os.Stat(o); err == nil && time.Since(fi.ModTime()) > 2*time.Hour {
						os.RemoveAll(o)
					}
				}
			}
			if d, err := os.MkdirTemp(shm, "verif-snapshot-"); err == nil {
				t.Cleanup(func() { os.RemoveAll(d) })
				return d
			}
		}
	}
	return kit.Scratch(t)
}

// commonQuietLogs silences the package's loggers (they write to os.Stderr and to
// the standard logger) for the duration of an enumeration; the returned function
// restores them. Runtime panics still reach the real stderr.
func commonQuietLogs() func() {
	oldErr := os.Stderr
	oldW := log.Writer()
	if f, err := os.OpenFile(os.DevNull, os.O_WRONLY, 0); err == nil {
		os.Stderr = f
	}
	log.SetOutput(io.Discard)
	return func() {
		if os.Stderr != oldErr {
			os.Stderr.Close()
		}
		os.Stderr = oldErr
		log.SetOutput(oldW)
	}
}

// ---------------------------------------------------------------------------
// generator: a live SQLite database in WAL mode with 512-byte pages

type commonGen struct {
	t    *testing.T
	path string
	db   *sql.DB
	seg  int
	tag  string
}

func commonNewGen(t *testing.T, dir, tag string) *commonGen {
	t.Helper()
	g := &commonGen{t: t, path: filepath.Join(dir, "live.db"), tag: tag}
	d, err := sql.Open("sqlite3", g.path)
	if err != nil {
		t.Fatalf("common: open generator db: %v", err)
	}
	d.SetMaxOpenConns(1)
	g.db = d
	for _, q := range []string{
		"PRAGMA page_size=512",
		"PRAGMA journal_mode=WAL",
		"PRAGMA wal_autocheckpoint=0",
		"PRAGMA synchronous=OFF",
		"CREATE TABLE t(id INTEGER PRIMARY KEY, v TEXT)",
		"CREATE TABLE u(id INTEGER PRIMARY KEY, v TEXT)",
		fmt.Sprintf("INSERT INTO t(v) VALUES('%s/base/t')", tag),
		fmt.Sprintf("INSERT INTO u(v) VALUES('%s/base/u')", tag),
	} {
		g.exec(q)
	}
	g.checkpoint()
	return g
}

func (g *commonGen) exec(q string) {
	g.t.Helper()
	if strings.HasPrefix(q, "PRAGMA") {
		// PRAGMAs may return a row.
		rows, err := g.db.Query(q)
		if err != nil {
			g.t.Fatalf("common: %s: %v", q, err)
		}
		for rows.Next() {
		}
		rows.Close()
		return
	}
	if _, err := g.db.Exec(q); err != nil {
		g.t.Fatalf("common: %s: %v", q, err)
	}
}

// checkpoint moves the whole WAL into the database file and truncates the WAL
// (so the next write starts a fresh WAL file = the next segment).
func (g *commonGen) checkpoint() {
	g.t.Helper()
	var busy, nlog, nckpt int
	if err := g.db.QueryRow("PRAGMA wal_checkpoint(TRUNCATE)").Scan(&busy, &nlog, &nckpt); err != nil {
		g.t.Fatalf("common: checkpoint: %v", err)
	}
	if busy != 0 {
		g.t.Fatalf("common: checkpoint busy")
	}
}

// write performs the next distinct write. The content names the shape and the
// segment number; every second segment also rewrites a row of the second table
// (two frames), and segment 2 creates a table (schema page changes, file grows).
func (g *commonGen) write() {
	g.seg++
	n := g.seg
	g.exec(fmt.Sprintf("INSERT INTO t(v) VALUES('%s/seg%d/t')", g.tag, n))
	if n%2 == 0 {
		g.exec(fmt.Sprintf("UPDATE u SET v='%s/seg%d/u' WHERE id=1", g.tag, n))
	}
	if n == 2 {
		g.exec("CREATE TABLE w(id INTEGER PRIMARY KEY, v TEXT)")
		g.exec(fmt.Sprintf("INSERT INTO w(v) VALUES('%s/seg%d/w')", g.tag, n))
	}
}

// commonNormalizeWAL returns a copy of the WAL image w with its two salt values
// replaced by the given ones and every checksum (header and cumulative frame
// checksums) recomputed, following the SQLite WAL format. SQLite draws the
// salts at random, which would make the generated files (hence CRCs, stream
// headers and the set of enumerated byte values) differ from run to run; with
// fixed salts every run enumerates exactly the same bytes. The builder proves
// the normalised files are still accepted by SQLite (replay cross-check).
func commonNormalizeWAL(w []byte, salt1, salt2 uint32) ([]byte, error) {
	if len(w) < 32 {
		return nil, fmt.Errorf("WAL image too short: %d", len(w))
	}
	out := append([]byte{}, w...)
	var bo binary.ByteOrder
	switch binary.BigEndian.Uint32(out[0:4]) {
	case 0x377f0682:
		bo = binary.LittleEndian
	case 0x377f0683:
		bo = binary.BigEndian
	default:
		return nil, fmt.Errorf("not a WAL image")
	}
	pageSize := int(binary.BigEndian.Uint32(out[8:12]))
	if (len(out)-32)%(24+pageSize) != 0 {
		return nil, fmt.Errorf("WAL image of %d bytes is not a whole number of %d-byte-page frames", len(out), pageSize)
	}
	sum := func(s0, s1 uint32, b []byte) (uint32, uint32) {
		for i := 0; i+8 <= len(b); i += 8 {
			s0 += bo.Uint32(b[i:]) + s1
			s1 += bo.Uint32(b[i+4:]) + s0
		}
		return s0, s1
	}
	binary.BigEndian.PutUint32(out[16:], salt1)
	binary.BigEndian.PutUint32(out[20:], salt2)
	s0, s1 := sum(0, 0, out[0:24])
	binary.BigEndian.PutUint32(out[24:], s0)
	binary.BigEndian.PutUint32(out[28:], s1)
	for off := 32; off < len(out); off += 24 + pageSize {
		binary.BigEndian.PutUint32(out[off+8:], salt1)
		binary.BigEndian.PutUint32(out[off+12:], salt2)
		s0, s1 = sum(s0, s1, out[off:off+8])
		s0, s1 = sum(s0, s1, out[off+24:off+24+pageSize])
		binary.BigEndian.PutUint32(out[off+16:], s0)
		binary.BigEndian.PutUint32(out[off+20:], s1)
	}
	return out, nil
}

// segment performs the next write, saves the resulting WAL file (with
// normalised salts, see commonNormalizeWAL) to dst, then checkpoints and
// returns the state of the database after the segment.
func (g *commonGen) segment(dst string) *commonState {
	g.t.Helper()
	g.write()
	w, err := os.ReadFile(g.path + "-wal")
	if err != nil || len(w) == 0 {
		g.t.Fatalf("common: reading generator WAL: %v (len %d)", err, len(w))
	}
	w, err = commonNormalizeWAL(w, 0x51000000+uint32(g.seg), 0x9e3779b9*uint32(g.seg+1))
	if err != nil {
		g.t.Fatalf("common: %v", err)
	}
	if err := os.WriteFile(dst, w, 0o644); err != nil {
		g.t.Fatalf("common: %v", err)
	}
	g.checkpoint()
	return g.state()
}

// state returns the current (fully checkpointed) database file and its dump.
func (g *commonGen) state() *commonState {
	g.t.Helper()
	b, err := os.ReadFile(g.path)
	if err != nil {
		g.t.Fatalf("common: %v", err)
	}
	if len(b) < 100 || b[16] != 0x02 || b[17] != 0x00 {
		g.t.Fatalf("common: generator database does not have 512-byte pages")
	}
	dump, err := commonDumpBytes(b, filepath.Dir(g.path))
	if err != nil {
		g.t.Fatalf("common: dumping generator database: %v", err)
	}
	return &commonState{DB: b, Dump: dump}
}

func (g *commonGen) close() { g.db.Close() }

// ---------------------------------------------------------------------------
// builder

var commonBuildSeq atomic.Uint64

// commonBuildStore materialises shape sh as a snapshot store in a new
// directory under root and returns its description. It fails the test (set-up
// failure) if anything goes wrong, including a mismatch between the generator's
// own checkpointed states and an independent replay of the produced files.
func commonBuildStore(t *testing.T, root string, sh commonShape) *commonBuilt {
	t.Helper()
	seq := commonBuildSeq.Add(1)
	work := filepath.Join(root, fmt.Sprintf("gen-%d", seq))
	dir := filepath.Join(root, fmt.Sprintf("store-%d", seq))
	if err := os.MkdirAll(work, 0o755); err != nil {
		t.Fatal(err)
	}
	b := &commonBuilt{Shape: sh, Dir: dir}

	g := commonNewGen(t, work, sh.Name)
	defer g.close()

	store, err := NewStore(dir)
	if err != nil {
		t.Fatalf("common: NewStore: %v", err)
	}
	store.fatalFn = nil
	defer store.Close()

	idx := sh.StartIdx
	nextID := func(term uint64) (string, uint64) {
		idx += 10
		return fmt.Sprintf("%d-%d-%013d", term, idx, seq*1000+idx), idx
	}
	saveDB := func(st *commonState, name string) string {
		p := filepath.Join(work, name)
		if err := os.WriteFile(p, st.DB, 0o644); err != nil {
			t.Fatal(err)
		}
		return p
	}

	if sh.OlderFull {
		st := g.state()
		id, i := nextID(1)
		createSnapshotInStore(t, store, id, i, 1, 1, saveDB(st, "older.db"))
		b.Snaps = append(b.Snaps, commonSnap{ID: id, Index: i, Term: 1, Full: true,
			DBRel: filepath.Join(id, dbfileName), State: st})
		// Advance the database so the newest full differs from the older one.
		g.write()
		g.checkpoint()
	}

	// Newest full snapshot: database + FullWALs segments.
	base := g.state()
	basePath := saveDB(base, "base.db")
	var fullWALs []string
	st := base
	for w := 0; w < sh.FullWALs; w++ {
		p := filepath.Join(work, fmt.Sprintf("full-seg-%d.wal", w))
		st = g.segment(p)
		fullWALs = append(fullWALs, p)
	}
	fullTerm := uint64(1)
	id, i := nextID(fullTerm)
	createSnapshotInStore(t, store, id, i, fullTerm, 1, basePath, fullWALs...)
	fs := commonSnap{ID: id, Index: i, Term: fullTerm, Full: true, DBRel: filepath.Join(id, dbfileName), State: st}
	for w := range fullWALs {
		fs.WALRels = append(fs.WALRels, filepath.Join(id, fmt.Sprintf("data-%08d.wal", w)))
	}
	b.Snaps = append(b.Snaps, fs)

	// Incremental snapshots. The term changes half-way so ordering by (term,index) matters.
	for k, nw := range sh.Incs {
		term := uint64(1)
		if k >= 1 {
			term = 2
		}
		var wals []string
		for w := 0; w < nw; w++ {
			p := filepath.Join(work, fmt.Sprintf("inc%d-seg-%d.wal", k, w))
			st = g.segment(p)
			wals = append(wals, p)
		}
		id, i := nextID(term)
		commonCreateIncremental(t, store, id, i, term, filepath.Join(work, fmt.Sprintf("wal-dir-%d", k)), wals)
		is := commonSnap{ID: id, Index: i, Term: term, State: st}
		for w := range wals {
			is.WALRels = append(is.WALRels, filepath.Join(id, fmt.Sprintf("%020d.wal", w+1)))
		}
		b.Snaps = append(b.Snaps, is)
	}

	// Cross-checks of the set-up (all failures here are harness faults).
	metas, err := store.ListAll()
	if err != nil || len(metas) != len(b.Snaps) {
		t.Fatalf("common: built store lists %d snapshots (err %v), want %d", len(metas), err, len(b.Snaps))
	}
	for k := range metas { // ListAll is newest first
		if want := b.Snaps[len(b.Snaps)-1-k].ID; metas[k].ID != want {
			t.Fatalf("common: built store order: got %s want %s", metas[k].ID, want)
		}
	}
	if err := store.Verify(); err != nil {
		t.Fatalf("common: built store does not verify: %v", err)
	}
	for _, f := range b.DataFiles() {
		for _, rel := range []string{f.Rel, f.Sidecar} {
			if _, err := os.Stat(filepath.Join(dir, rel)); err != nil {
				t.Fatalf("common: expected file missing in built store: %v", err)
			}
		}
	}
	seen := map[string]int{}
	for k := range b.Snaps {
		dbRel, walRels := b.ResolvedFiles(k)
		dbb, err := os.ReadFile(filepath.Join(dir, dbRel))
		if err != nil {
			t.Fatal(err)
		}
		var wb [][]byte
		for _, w := range walRels {
			x, err := os.ReadFile(filepath.Join(dir, w))
			if err != nil {
				t.Fatal(err)
			}
			wb = append(wb, x)
		}
		got, err := commonReplayWithSQLite(dbb, wb, work)
		if err != nil {
			t.Fatalf("common: replaying snapshot %d with SQLite: %v", k, err)
		}
		if got.Dump != b.Snaps[k].State.Dump {
			t.Fatalf("common: generator state and SQLite replay of the stored files differ for snapshot %d of %s:\n%s\n--- vs ---\n%s",
				k, sh.Name, got.Dump, b.Snaps[k].State.Dump)
		}
		if prev, dup := seen[got.Dump]; dup {
			t.Fatalf("common: snapshots %d and %d of %s have the same content; shapes must be distinguishable", prev, k, sh.Name)
		}
		seen[got.Dump] = k
	}
	return b
}

// commonCreateIncremental adds an incremental snapshot to store the way the node
// does: the WAL segments (with sidecars) sit in a staging directory, a
// SnapshotPathStreamer header naming that directory is written to a real Sink,
// and Close moves the files in. It is the incremental half of the package's
// createSnapshotInStore helper, except that the staging directory is walDir
// (which must be on the same file system as the store; the helper's t.TempDir()
// need not be) and that a failing Close is reported instead of exiting.
func commonCreateIncremental(t *testing.T, store *Store, id string, index, term uint64, walDir string, walFiles []string) {
	t.Helper()
	if err := os.MkdirAll(walDir, 0o755); err != nil {
		t.Fatal(err)
	}
	for i, src := range walFiles {
		dst := filepath.Join(walDir, fmt.Sprintf("%020d.wal", i+1))
		mustCopyFile(t, src, dst)
		mustWriteCRC32File(t, dst)
	}
	sink := NewSink(store.Dir(), makeRaftMeta(id, index, term, 1), store, nil)
	sink.fatalFn = nil
	if err := sink.Open(); err != nil {
		t.Fatalf("common: opening sink: %v", err)
	}
	streamer, err := NewSnapshotPathStreamer(walDir)
	if err != nil {
		t.Fatalf("common: %v", err)
	}
	defer streamer.Close()
	if _, err := io.Copy(sink, streamer); err != nil {
		t.Fatalf("common: writing incremental header: %v", err)
	}
	if err := sink.Close(); err != nil {
		t.Fatalf("common: closing incremental sink: %v", err)
	}
}

// ---------------------------------------------------------------------------
// independent SQLite oracle

var commonTmpSeq atomic.Uint64

// commonReplayWithSQLite applies the WAL images to the database image using
// SQLite itself (plain database/sql connection; no rqlite code): each WAL is
// placed next to a private copy of the database as its "-wal" file and
// checkpointed with PRAGMA wal_checkpoint(TRUNCATE). It returns the resulting
// database bytes and logical dump. scratch is a directory for temporary files.
func commonReplayWithSQLite(dbImg []byte, wals [][]byte, scratch string) (*commonState, error) {
	d := filepath.Join(scratch, fmt.Sprintf("replay-%d", commonTmpSeq.Add(1)))
	if err := os.MkdirAll(d, 0o755); err != nil {
		return nil, err
	}
	defer os.RemoveAll(d)
	p := filepath.Join(d, "x.db")
	if err := os.WriteFile(p, dbImg, 0o644); err != nil {
		return nil, err
	}
	for _, w := range wals {
		if err := os.WriteFile(p+"-wal", w, 0o644); err != nil {
			return nil, err
		}
		c, err := sql.Open("sqlite3", p)
		if err != nil {
			return nil, err
		}
		c.SetMaxOpenConns(1)
		var busy, nlog, nckpt int
		err = c.QueryRow("PRAGMA wal_checkpoint(TRUNCATE)").Scan(&busy, &nlog, &nckpt)
		c.Close()
		if err != nil {
			return nil, fmt.Errorf("sqlite checkpoint: %w", err)
		}
		os.Remove(p + "-wal")
		os.Remove(p + "-shm")
	}
	out, err := os.ReadFile(p)
	if err != nil {
		return nil, err
	}
	dump, err := commonDumpBytes(out, d)
	if err != nil {
		return nil, err
	}
	return &commonState{DB: out, Dump: dump}, nil
}

// commonDumpBytes dumps a database image (see commonDumpDB).
func commonDumpBytes(img []byte, scratch string) (string, error) {
	p := filepath.Join(scratch, fmt.Sprintf("dump-%d.db", commonTmpSeq.Add(1)))
	if err := os.WriteFile(p, img, 0o644); err != nil {
		return "", err
	}
	defer func() {
		os.Remove(p)
		os.Remove(p + "-wal")
		os.Remove(p + "-shm")
	}()
	return commonDumpPrivate(p)
}

// commonDumpDB returns a logical dump of the database file at path: the
// integrity_check result, the schema, and every row of every table, in a
// canonical order. The file is copied to scratch first, so the original (and
// its directory) is never touched. An error means SQLite cannot read it.
func commonDumpDB(path, scratch string) (string, error) {
	b, err := os.ReadFile(path)
	if err != nil {
		return "", err
	}
	return commonDumpBytes(b, scratch)
}

func commonDumpPrivate(p string) (string, error) {
	c, err := sql.Open("sqlite3", p)
	if err != nil {
		return "", err
	}
	defer c.Close()
	c.SetMaxOpenConns(1)
	var sb strings.Builder
	q := func(title, query string) error {
		rows, err := c.Query(query)
		if err != nil {
			return fmt.Errorf("%s: %w", title, err)
		}
		defer rows.Close()
		cols, err := rows.Columns()
		if err != nil {
			return err
		}
		fmt.Fprintf(&sb, "## %s (%s)\n", title, strings.Join(cols, ","))
		for rows.Next() {
			vals := make([]any, len(cols))
			ptrs := make([]any, len(cols))
			for i := range vals {
				ptrs[i] = &vals[i]
			}
			if err := rows.Scan(ptrs...); err != nil {
				return fmt.Errorf("%s: %w", title, err)
			}
			for i, v := range vals {
				if i > 0 {
					sb.WriteByte('|')
				}
				switch x := v.(type) {
				case []byte:
					fmt.Fprintf(&sb, "x%x", x)
				case string:
					fmt.Fprintf(&sb, "%q", x)
				default:
					fmt.Fprintf(&sb, "%v", x)
				}
			}
			sb.WriteByte('\n')
		}
		return rows.Err()
	}
	if err := q("integrity", "PRAGMA integrity_check"); err != nil {
		return "", err
	}
	if err := q("schema", "SELECT type,name,tbl_name,sql FROM sqlite_master ORDER BY type,name"); err != nil {
		return "", err
	}
	rows, err := c.Query("SELECT name FROM sqlite_master WHERE type='table' ORDER BY name")
	if err != nil {
		return "", err
	}
	var tables []string
	for rows.Next() {
		var n string
		if err := rows.Scan(&n); err != nil {
			rows.Close()
			return "", err
		}
		tables = append(tables, n)
	}
	rows.Close()
	sort.Strings(tables)
	for _, tb := range tables {
		if err := q("table "+tb, fmt.Sprintf(`SELECT rowid,* FROM "%s" ORDER BY rowid`, tb)); err != nil {
			return "", err
		}
	}
	return sb.String(), nil
}

// commonSameDB reports whether the database file at path holds exactly the
// content of want: byte-identical, or logically identical (same dump). how is
// "bytes", "logical" or a description of the difference.
func commonSameDB(path string, want *commonState, scratch string) (same bool, how string) {
	got, err := os.ReadFile(path)
	if err != nil {
		return false, "unreadable: " + err.Error()
	}
	if bytes.Equal(got, want.DB) {
		return true, "bytes"
	}
	dump, err := commonDumpBytes(got, scratch)
	if err != nil {
		return false, "not readable by SQLite: " + err.Error()
	}
	if dump == want.Dump {
		return true, "logical"
	}
	return false, "content differs: got\n" + dump + "want\n" + want.Dump
}

// commonReadAll reads rc to the end and closes it.
func commonReadAll(rc io.ReadCloser) ([]byte, error) {
	defer rc.Close()
	return io.ReadAll(rc)
}
