package snapshot

// C08 "Upgrading old snapshot formats is crash-safe".
//
// E-CRASH (DESIGN.md 1.4). For every generated old-format snapshot directory
// (v7: gzip-compressed state.bin + meta.json per snapshot directory; v8:
// <id>.db + <id>/meta.json; 1..3 snapshots, every snapshot a tiny SQLite
// database with DISTINCT content) the EXACT sequence Store.Open runs
// (store/store.go: Upgrade7To8(raft/snapshots, raft/rsnapshots) ->
// Upgrade8To10(raft/rsnapshots, raft/wsnapshots) -> NewStore(raft/wsnapshots))
// is executed on the real code with the crash recorder installed: an image of
// the whole raft directory is taken at every instrumented point at which the
// directory content changed (every statement containing a call in
// upgrader.go, plan/executor.go, plan/plan.go, fsutil.go, sidecar.go, sink.go,
// store.go). Two kinds of "operation in flight, cut" variants are added: for
// every image in which a database file grew in place since the previous image,
// that file cut to half its length (an interrupted copy); for every image in
// which a directory vanished since the previous image (one os.RemoveAll), the
// states with only its files, only its sub-directories, or all its entries
// removed. On top of these, engine/vfs TornVariants derives for every step that
// wrote exactly one regular file (plan file, meta.json, checksum sidecar, database
// copy) the file with 0 / half / all but one of its new bytes, and for every step
// that only removed entries the first half of the files gone and all files gone
// with the directories still present.
//
// Every image is then recovered: the same sequence is run again on a copy of
// the image ("the next node start"). Oracle, exactly the statement:
//   - all three steps succeed (the upgrade completes, the store opens);
//   - the store's newest snapshot has the index and term of the newest
//     ORIGINAL snapshot;
//   - Restore of that snapshot yields the same database as the newest original
//     (logical dump; the byte comparison is recorded as an outcome only);
//   - if anything of the old formats is left behind (old directories, tmp
//     directories, plan file) it must be harmless: one more start succeeds
//     with the same result.
// Thorough tier: repeated crashes - the recorder is installed around the
// recovery run of every new distinct image and the images of that run are
// recovered in turn, level by level, until a level brings no new image content
// (the set is then closed under crash+recovery: any number of further crashes
// only revisits recovered states) or depth 6.

import (
	"bytes"
	"compress/gzip"
	"database/sql"
	"encoding/binary"
	"encoding/json"
	"fmt"
	"io"
	"log"
	"os"
	"path/filepath"
	"runtime"
	"sort"
	"strconv"
	"strings"
	"sync"
	"testing"

	"github.com/hashicorp/raft"
	kit "github.com/rqlite/rqlite/v10/internal/verifkit"
	vfs "github.com/rqlite/rqlite/v10/internal/verifvfs"
)

// ---------------------------------------------------------------------------
// shapes

type c08Snap struct {
	Term, Index uint64
	TS          uint64
	NoData      bool // v7: directory holds only meta.json (what 7.x left of reaped snapshots)
	EmptyState  bool // v7: state.bin holds the 16-byte header only ("no database data")
}

func (s c08Snap) id() string { return fmt.Sprintf("%d-%d-%d", s.Term, s.Index, s.TS) }

type c08Shape struct {
	Name   string
	Format string // "v7" | "v8"
	Snaps  []c08Snap
	Extra  bool // v8: also the empty <id>/<id>.data file 8.x/9.x kept next to meta.json
}

func c08Shapes() []c08Shape {
	return []c08Shape{
		{Name: "v7-1", Format: "v7", Snaps: []c08Snap{{2, 18, 1686659761026, false, false}}},
		// lexical directory order ("2-20-" < "2-9-") differs from the numeric order
		{Name: "v7-2", Format: "v7", Snaps: []c08Snap{{2, 9, 1686659756627, false, false}, {2, 20, 1686659761026, false, false}}},
		{Name: "v7-2-older-meta-only", Format: "v7", Snaps: []c08Snap{{2, 8, 1686659756627, true, false}, {2, 18, 1686659761026, false, false}}},
		// the term decides before the index
		{Name: "v7-3", Format: "v7", Snaps: []c08Snap{{1, 30, 1686659750000, false, false}, {2, 10, 1686659756627, false, false}, {2, 20, 1686659761026, false, false}}},
		{Name: "v7-1-empty", Format: "v7", Snaps: []c08Snap{{2, 18, 1686659761026, false, true}}},
		{Name: "v8-1", Format: "v8", Snaps: []c08Snap{{2, 9, 1771175155788, false, false}}, Extra: true},
		{Name: "v8-2", Format: "v8", Snaps: []c08Snap{{2, 9, 1771175155788, false, false}, {2, 20, 1771175158000, false, false}}},
		{Name: "v8-3", Format: "v8", Snaps: []c08Snap{{1, 30, 1771175150000, false, false}, {2, 10, 1771175155788, false, false}, {2, 20, 1771175158000, false, false}}, Extra: true},
	}
}

type c08Expect struct {
	Index, Term uint64
	ID          string
	Dump        string
	DB          []byte
}

func c08Newest(sh c08Shape) c08Snap {
	ss := append([]c08Snap(nil), sh.Snaps...)
	sort.Slice(ss, func(i, j int) bool {
		if ss[i].Term != ss[j].Term {
			return ss[i].Term < ss[j].Term
		}
		if ss[i].Index != ss[j].Index {
			return ss[i].Index < ss[j].Index
		}
		return ss[i].id() < ss[j].id()
	})
	return ss[len(ss)-1]
}

// c08MakeDB creates a tiny SQLite database with content naming tag and returns its bytes.
func c08MakeDB(t *testing.T, scratch, tag string, wal bool, rows int) []byte {
	t.Helper()
	p := filepath.Join(scratch, "gen-"+strings.ReplaceAll(tag, "/", "_")+".db")
	os.Remove(p)
	d, err := sql.Open("sqlite3", p)
	if err != nil {
		t.Fatalf("c08: open generator db: %v", err)
	}
	d.SetMaxOpenConns(1)
	mode := "DELETE"
	if wal {
		mode = "WAL"
	}
	qs := []string{"PRAGMA page_size=512", "PRAGMA journal_mode=" + mode,
		"CREATE TABLE t(id INTEGER PRIMARY KEY, v TEXT)",
		"CREATE TABLE c(n INTEGER)", "INSERT INTO c(n) VALUES(" + fmt.Sprint(rows) + ")"}
	for i := 0; i < rows; i++ {
		qs = append(qs, fmt.Sprintf("INSERT INTO t(v) VALUES('%s/row%d/%s')", tag, i, strings.Repeat("x", 40+i)))
	}
	for _, q := range qs {
		if strings.HasPrefix(q, "PRAGMA") {
			rs, err := d.Query(q)
			if err != nil {
				t.Fatalf("c08: %s: %v", q, err)
			}
			rs.Close()
			continue
		}
		if _, err := d.Exec(q); err != nil {
			t.Fatalf("c08: %s: %v", q, err)
		}
	}
	if err := d.Close(); err != nil {
		t.Fatalf("c08: close generator db: %v", err)
	}
	b, err := os.ReadFile(p)
	if err != nil {
		t.Fatalf("c08: %v", err)
	}
	if _, err := os.Stat(p + "-wal"); err == nil {
		t.Fatalf("c08: generator left a WAL file behind")
	}
	os.Remove(p)
	return b
}

func c08Meta(s c08Snap, size int64) []byte {
	m := &raft.SnapshotMeta{Version: 1, ID: s.id(), Index: s.Index, Term: s.Term,
		Configuration:      raft.Configuration{Servers: []raft.Server{{Suffrage: raft.Voter, ID: "node1", Address: "localhost:4002"}}},
		ConfigurationIndex: 1, Size: size}
	b, err := json.Marshal(m)
	if err != nil {
		panic(err)
	}
	return append(b, '\n')
}

// c08Build materialises sh under raftDir and returns what the upgraded store must hold.
func c08Build(t *testing.T, scratch, raftDir string, sh c08Shape) *c08Expect {
	t.Helper()
	newest := c08Newest(sh)
	var exp *c08Expect
	must := func(err error) {
		if err != nil {
			t.Fatalf("c08: build %s: %v", sh.Name, err)
		}
	}
	must(os.MkdirAll(raftDir, 0o755))
	for i, s := range sh.Snaps {
		var dbb []byte
		if !s.NoData && !s.EmptyState {
			dbb = c08MakeDB(t, scratch, fmt.Sprintf("%s/%s", sh.Name, s.id()), sh.Format == "v8", 3+2*i)
		}
		switch sh.Format {
		case "v7":
			d := filepath.Join(raftDir, "snapshots", s.id())
			must(os.MkdirAll(d, 0o755))
			must(os.WriteFile(filepath.Join(d, metaFileName), c08Meta(s, int64(len(dbb))), 0o644))
			if s.NoData {
				break
			}
			var st bytes.Buffer
			st.Write(bytes.Repeat([]byte{0xff}, 8))
			var z bytes.Buffer
			if !s.EmptyState {
				zw := gzip.NewWriter(&z)
				zw.Write(dbb)
				must(zw.Close())
			}
			var ln [8]byte
			binary.LittleEndian.PutUint64(ln[:], uint64(z.Len()))
			st.Write(ln[:])
			st.Write(z.Bytes())
			must(os.WriteFile(filepath.Join(d, v7StateFile), st.Bytes(), 0o644))
		case "v8":
			root := filepath.Join(raftDir, "rsnapshots")
			d := filepath.Join(root, s.id())
			must(os.MkdirAll(d, 0o755))
			must(os.WriteFile(filepath.Join(d, metaFileName), c08Meta(s, int64(len(dbb))), 0o644))
			if sh.Extra {
				must(os.WriteFile(filepath.Join(d, s.id()+".data"), nil, 0o644))
			}
			must(os.WriteFile(filepath.Join(root, s.id()+".db"), dbb, 0o644))
		}
		if s == newest {
			exp = &c08Expect{Index: s.Index, Term: s.Term, ID: s.id(), DB: dbb}
			if len(dbb) == 0 {
				exp.Dump, _ = commonDumpBytes(nil, scratch) // the empty database
			} else {
				dump, err := commonDumpBytes(dbb, scratch)
				must(err)
				exp.Dump = dump
			}
		}
	}
	if exp == nil || exp.Dump == "" {
		t.Fatalf("c08: build %s: no expectation", sh.Name)
	}
	return exp
}

// ---------------------------------------------------------------------------
// the start-up sequence of store.Store.Open (store/store.go, "Upgrade any
// preexisting snapshots" ... "Create store for the Snapshots")

var c08Logger = log.New(io.Discard, "", 0)

func c08Start(raftDir string) (st *Store, stage string, err error) {
	old7 := filepath.Join(raftDir, "snapshots")
	old8 := filepath.Join(raftDir, "rsnapshots")
	new10 := filepath.Join(raftDir, "wsnapshots")
	if err := Upgrade7To8(old7, old8, c08Logger); err != nil {
		return nil, "7to8", err
	}
	if err := Upgrade8To10(old8, new10, c08Logger); err != nil {
		return nil, "8to10", err
	}
	st, err = NewStore(new10)
	if err != nil {
		return nil, "newstore", err
	}
	st.fatalFn = nil // corruption found by the store is returned instead of exiting the process
	return st, "", nil
}

// c08Sig names which upgrade artefacts exist in raftDir (the class of a crash state).
func c08Sig(raftDir string) string {
	var parts []string
	ex := func(p string) bool { _, err := os.Lstat(filepath.Join(raftDir, p)); return err == nil }
	dirState := func(name, p string, complete func(string) bool) {
		if !ex(p) {
			return
		}
		if complete(filepath.Join(raftDir, p)) {
			parts = append(parts, name)
		} else {
			parts = append(parts, name+"(partial)")
		}
	}
	dirState("v7", "snapshots", func(d string) bool {
		m, _ := filepath.Glob(filepath.Join(d, "*", v7StateFile))
		return len(m) > 0
	})
	if ex("rsnapshots.tmp") {
		parts = append(parts, "v8tmp")
	}
	dirState("v8", "rsnapshots", func(d string) bool {
		dbs, _ := filepath.Glob(filepath.Join(d, "*.db"))
		for _, f := range dbs {
			id := strings.TrimSuffix(filepath.Base(f), ".db")
			if _, err := os.Stat(filepath.Join(d, id, metaFileName)); err == nil {
				return true
			}
		}
		return false
	})
	if ex(upgrade8To10Plan + ".tmp") {
		parts = append(parts, "plantmp")
	}
	if ex(upgrade8To10Plan) {
		parts = append(parts, "plan")
	}
	if ex("wsnapshots.tmp") {
		parts = append(parts, "v10tmp")
	}
	if ex("wsnapshots") {
		parts = append(parts, "v10")
	}
	if len(parts) == 0 {
		return "nothing"
	}
	return strings.Join(parts, "+")
}

func c08Leftovers(raftDir string) []string {
	var l []string
	for _, p := range []string{"snapshots", "snapshots.tmp", "rsnapshots", "rsnapshots.tmp", "wsnapshots.tmp", upgrade8To10Plan, upgrade8To10Plan + ".tmp"} {
		if _, err := os.Lstat(filepath.Join(raftDir, p)); err == nil {
			l = append(l, p)
		}
	}
	return l
}

// c08Relocate copies image directory img to dst and rewrites the absolute
// paths held by a persisted plan from root to dst (a node restarts in the
// directory it crashed in; the copy stands for that directory).
func c08Relocate(img, root, dst string) error {
	if err := vfs.CopyTree(img, dst); err != nil {
		return err
	}
	if root == dst {
		return nil
	}
	for _, p := range []string{upgrade8To10Plan, upgrade8To10Plan + ".tmp"} {
		fp := filepath.Join(dst, p)
		b, err := os.ReadFile(fp)
		if err != nil {
			continue
		}
		nb := bytes.ReplaceAll(b, []byte(root+"/"), []byte(dst+"/"))
		if err := os.WriteFile(fp, nb, 0o644); err != nil {
			return err
		}
	}
	return nil
}

type c08Result struct {
	ok     bool
	kind   string // failure kind (class)
	detail string
	how    string // outcome key when ok
}

// c08Observe runs one node start on raftDir and compares the store with exp.
func c08Observe(raftDir, scratch string, exp *c08Expect) c08Result {
	st, stage, err := c08Start(raftDir)
	if err != nil {
		return c08Result{kind: "start-fails-" + stage, detail: fmt.Sprintf("%s: %v", stage, err)}
	}
	defer st.Close()
	metas, err := st.List()
	if err != nil {
		return c08Result{kind: "list-fails", detail: err.Error()}
	}
	if len(metas) == 0 {
		return c08Result{kind: "no-snapshot", detail: "the opened store holds no snapshot"}
	}
	all, _ := st.ListAll()
	m := metas[0]
	if m.Index != exp.Index || m.Term != exp.Term {
		return c08Result{kind: "wrong-index-term", detail: fmt.Sprintf("newest snapshot %s has index %d term %d, newest original has index %d term %d", m.ID, m.Index, m.Term, exp.Index, exp.Term)}
	}
	_, rc, err := st.Open(m.ID)
	if err != nil {
		return c08Result{kind: "open-snapshot-fails", detail: err.Error()}
	}
	out := filepath.Join(scratch, "restored.db")
	os.Remove(out)
	_, err = Restore(rc, out)
	rc.Close()
	if err != nil {
		return c08Result{kind: "restore-fails", detail: err.Error()}
	}
	got, err := os.ReadFile(out)
	if err != nil {
		return c08Result{kind: "restore-fails", detail: err.Error()}
	}
	defer os.Remove(out)
	how := "bytes-equal"
	if !bytes.Equal(got, exp.DB) {
		how = "logical-equal"
		dump, err := commonDumpBytes(got, scratch)
		if err != nil {
			return c08Result{kind: "restored-db-unreadable", detail: err.Error()}
		}
		if dump != exp.Dump {
			return c08Result{kind: "wrong-database", detail: "restored database differs from the newest original: got\n" + dump + "want\n" + exp.Dump}
		}
	}
	idk := "id-kept"
	if m.ID != exp.ID {
		idk = "id-changed"
	}
	return c08Result{ok: true, how: fmt.Sprintf("%s/%s/%d-snapshots", how, idk, len(all))}
}

// ---------------------------------------------------------------------------
// images

type c08Image struct {
	Path []string // crash points: "label#hit" (+ "~torn:<rel>") per depth
	Dir  string
	Hash string
}

// c08Record runs one node start on root (already populated) with the recorder
// installed and returns the images (plus torn variants), the points reached
// and the labels.
func c08Record(t *testing.T, root, imgDir string, prefix []string) ([]c08Image, int64, []string) {
	t.Helper()
	// SQLite's wal-index ("-shm") carries random salts and is rebuilt by the first
	// connection after a crash: it is copied into images but its bytes do not
	// make two images different
	rec := &vfs.Recorder{Root: root, ImgDir: imgDir, HashNameOnly: func(rel string) bool { return strings.HasSuffix(rel, "-shm") }}
	vfs.Install(rec)
	rec.Snap("start")
	st, _, _ := c08Start(root)
	rec.Snap("after-start")
	vfs.Install(nil)
	if st != nil {
		st.Close()
	}
	if errs := rec.Errors(); len(errs) > 0 {
		t.Fatalf("c08: recorder: %v", errs)
	}
	var out []c08Image
	imgs := rec.Images()
	for i, im := range imgs {
		step := fmt.Sprintf("%s#%d", im.Label, im.Hits)
		out = append(out, c08Image{Path: append(append([]string(nil), prefix...), step), Dir: im.Dir, Hash: im.Hash})
		if i == 0 {
			continue
		}
		// torn variants: a database file that grew in place since the previous image
		for _, rel := range c08Grown(imgs[i-1].Dir, im.Dir) {
			td := fmt.Sprintf("%s-torn-%s", im.Dir, strings.ReplaceAll(rel, "/", "_"))
			if err := vfs.CopyTree(im.Dir, td); err != nil {
				t.Fatalf("c08: %v", err)
			}
			fi, _ := os.Stat(filepath.Join(td, rel))
			if err := os.Truncate(filepath.Join(td, rel), fi.Size()/2); err != nil {
				t.Fatalf("c08: %v", err)
			}
			h, err := rec.HashOf(td)
			if err != nil {
				t.Fatalf("c08: %v", err)
			}
			out = append(out, c08Image{Path: append(append([]string(nil), prefix...), step+"~torn:"+rel), Dir: td, Hash: h})
		}
		// cut removals: a top-level directory that vanished since the previous image
		// was removed by one os.RemoveAll, i.e. entry by entry; the states in which
		// only its files, only its sub-directories, or all its entries are gone
		for _, rel := range c08Vanished(imgs[i-1].Dir, im.Dir) {
			for _, mode := range []string{"files", "dirs", "all"} {
				td := fmt.Sprintf("%s-rm-%s-%s", im.Dir, rel, mode)
				if err := vfs.CopyTree(imgs[i-1].Dir, td); err != nil {
					t.Fatalf("c08: %v", err)
				}
				ents, _ := os.ReadDir(filepath.Join(td, rel))
				for _, e := range ents {
					if mode == "all" || (mode == "files") != e.IsDir() {
						os.RemoveAll(filepath.Join(td, rel, e.Name()))
					}
				}
				h, err := rec.HashOf(td)
				if err != nil {
					t.Fatalf("c08: %v", err)
				}
				out = append(out, c08Image{Path: append(append([]string(nil), prefix...), step+"~cut-remove:"+rel+":"+mode), Dir: td, Hash: h})
			}
		}
	}
	// the generic in-call cuts (engine/vfs TornVariants): for every step that wrote exactly
	// one regular file - a plan file, meta.json, a checksum sidecar, a database copy - the
	// file holding 0 / half / all but one of its new bytes (and, for a rewrite in place, the
	// new prefix over the old bytes); for every step that only removed entries, the first
	// half of the files gone, and all files gone with the directories still present
	for _, im := range imgs {
		vars, kind, err := rec.TornVariants(im, vfs.TornOptions{Overlay: true, Removals: true})
		if err != nil {
			t.Fatalf("c08: torn variants of %s: %v", im.Label, err)
		}
		c08TornMu.Lock()
		if strings.HasPrefix(kind, "multi:") {
			c08TornKinds["multi (not decomposed)"]++
		} else {
			c08TornKinds[strings.SplitN(kind, ":", 2)[0]]++
		}
		c08TornMu.Unlock()
		step := fmt.Sprintf("%s#%d", im.Label, im.Hits)
		for _, v := range vars {
			// re-writing a file that an earlier crash of this sequence already left cut
			// shows up as an "extension" of the cut file, and cutting that again only
			// yields one more prefix length of the same file (a halving chain that
			// never ends): prefixes of 0, half and all-but-one bytes of that file have
			// been recovered at the level where it was first cut
			if i := strings.Index(v.Torn, " extended by "); i > 0 {
				again := false
				for _, p := range prefix {
					if strings.Contains(p, "~cut{"+v.Torn[:i]+" ") {
						again = true
					}
				}
				if again {
					c08TornMu.Lock()
					c08TornKinds["re-cut of an already cut file (skipped)"]++
					c08TornMu.Unlock()
					continue
				}
			}
			out = append(out, c08Image{Path: append(append([]string(nil), prefix...), step+"~cut{"+v.Torn+"}"), Dir: v.Dir, Hash: v.Hash})
		}
	}
	n, labels := rec.Points()
	return out, n, labels
}

var (
	c08TornMu    sync.Mutex
	c08TornKinds = map[string]int{}
)

// c08Grown lists the *.db files of cur that exist, smaller, at the same place in
// prev (a file being filled in place; a file that merely moved with a renamed
// directory was complete before the rename).
func c08Grown(prev, cur string) []string {
	var out []string
	filepath.Walk(cur, func(p string, fi os.FileInfo, err error) error {
		if err != nil || !fi.Mode().IsRegular() || !strings.HasSuffix(p, ".db") || fi.Size() < 2 {
			return nil
		}
		rel, _ := filepath.Rel(cur, p)
		if pf, err := os.Stat(filepath.Join(prev, rel)); err == nil && pf.Size() < fi.Size() {
			out = append(out, rel)
		}
		return nil
	})
	sort.Strings(out)
	return out
}

// c08Vanished lists the top-level directories of prev that cur no longer has.
func c08Vanished(prev, cur string) []string {
	var out []string
	ents, _ := os.ReadDir(prev)
	for _, e := range ents {
		if !e.IsDir() {
			continue
		}
		if _, err := os.Lstat(filepath.Join(cur, e.Name())); err != nil {
			// a rename moves the directory: the same content shows up under another name
			moved := false
			cents, _ := os.ReadDir(cur)
			ph, _ := vfs.HashTree(filepath.Join(prev, e.Name()))
			for _, c := range cents {
				if _, err := os.Lstat(filepath.Join(prev, c.Name())); err != nil && c.IsDir() {
					if ch, _ := vfs.HashTree(filepath.Join(cur, c.Name())); ch == ph {
						moved = true
					}
				}
			}
			if !moved {
				out = append(out, e.Name())
			}
		}
	}
	sort.Strings(out)
	return out
}

type c08Replay struct {
	Shape string   `json:"shape"`
	Path  []string `json:"path"`
	State string   `json:"state"`
}

// ---------------------------------------------------------------------------

func TestVerif_C08(t *testing.T) {
	r := kit.Start(t, "C08", "upgrade")
	defer r.Finish()
	r.Rule("shapes {v7 x 1,2,3 snapshots (+older meta-only, +empty state), v8 x 1,2,3 snapshots} x every crash image of the start-up sequence Upgrade7To8 -> Upgrade8To10 -> NewStore (one image per instrumented point at which the raft directory changed, + a half-written variant per database file growing in place + three partly-removed variants per directory removed + the in-call cuts of engine/vfs TornVariants: every single-file write cut at 0/half/all-but-one bytes, every removal cut after half of the files and after all files with the directories still present; a file already cut earlier in the same crash sequence is not cut again at further prefix lengths) [thorough: x every crash image of the recovery run of each new distinct image, repeated until no new image content appears or depth 6]; each image is recovered by the same start-up sequence on a copy. Distinct = (input format, crash-state class, outcome); states = distinct image content hashes")
	r.Assume("process-crash model: completed file-system calls are kept, the call in flight is cut; SQLite's own journal-mode change (db.EnsureWALMode) is atomic")
	r.Assume("a persisted plan's absolute paths are rewritten when an image is recovered in a copy of the directory it was taken in")
	restore := commonQuietLogs()
	defer restore()

	scratch := commonScratchRoot(t)
	var replay *c08Replay
	if raw := kit.Replay(); raw != nil {
		replay = &c08Replay{}
		if err := json.Unmarshal(raw, replay); err != nil {
			t.Fatalf("c08: bad replay: %v", err)
		}
	}
	depth := r.Pick(1, 6)
	maxDepthSeen, closedShapes := 0, 0
	var openShapes []string
	levelSizes := map[string][]int{}
	if replay != nil {
		depth = len(replay.Path)
	} else if n, err := strconv.Atoi(os.Getenv("C08_DEPTH")); err == nil && n > 0 {
		depth = n // debugging aid
	}
	workers := runtime.GOMAXPROCS(0)
	if workers > 12 {
		workers = 12
	}

	var totalPoints int64
	labelSet := map[string]bool{}
	var rawImages, distinctImages int
	var mu sync.Mutex

	// check recovers the images in parallel (no recorder is installed meanwhile)
	check := func(sh c08Shape, root string, exp *c08Expect, imgs []c08Image) {
		var wg sync.WaitGroup
		ch := make(chan c08Image)
		for w := 0; w < workers; w++ {
			wg.Add(1)
			go func(w int) {
				defer wg.Done()
				wdir := filepath.Join(scratch, fmt.Sprintf("w%d", w))
				os.MkdirAll(wdir, 0o755)
				for im := range ch {
					raftDir := filepath.Join(wdir, "raft")
					os.RemoveAll(raftDir)
					if err := c08Relocate(im.Dir, root, raftDir); err != nil {
						t.Errorf("c08: relocate: %v", err)
						continue
					}
					sig := c08Sig(raftDir)
					rp := c08Replay{Shape: sh.Name, Path: im.Path, State: sig}
					res := c08Observe(raftDir, wdir, exp)
					r.Eval(1)
					if !res.ok {
						r.Violation(fmt.Sprintf("C08:%s:%s:state=%s", sh.Format, res.kind, sig),
							fmt.Sprintf("shape %s, crash at %s (state %s): next start: %s", sh.Name, strings.Join(im.Path, " then "), sig, res.detail), rp)
						continue
					}
					out := res.how
					if left := c08Leftovers(raftDir); len(left) > 0 {
						// what is left behind must be harmless: one more start, same result
						res2 := c08Observe(raftDir, wdir, exp)
						if !res2.ok {
							r.Violation(fmt.Sprintf("C08:%s:leftover-breaks-later-start:%s:state=%s", sh.Format, res2.kind, sig),
								fmt.Sprintf("shape %s, crash at %s (state %s): the next start succeeded but left %v behind and the start after it: %s", sh.Name, strings.Join(im.Path, " then "), sig, left, res2.detail), rp)
							continue
						}
						out += "/left:" + strings.Join(left, ",")
					}
					r.Distinct(fmt.Sprintf("%s|%s|%s", sh.Format, sig, out))
					if len(im.Path) == 1 && strings.HasPrefix(im.Path[0], "start#") {
						r.Sample(map[string]any{"shape": sh.Name, "crash_at": im.Path, "state": sig, "outcome": out})
					}
				}
			}(w)
		}
		for _, im := range imgs {
			ch <- im
		}
		close(ch)
		wg.Wait()
	}

	for _, sh := range c08Shapes() {
		if replay != nil && replay.Shape != sh.Name {
			continue
		}
		if only := os.Getenv("C08_SHAPE"); only != "" && only != sh.Name {
			continue
		}
		if r.OverBudget() {
			r.Cap("budget used up before shape %s", sh.Name)
			break
		}
		sdir := filepath.Join(scratch, "shape-"+sh.Name)
		root := filepath.Join(sdir, "raft") // every recording of this shape happens here
		os.MkdirAll(sdir+"-gen", 0o755)
		exp := c08Build(t, sdir+"-gen", root, sh)
		seen := map[string]bool{}
		keep := func(imgs []c08Image) []c08Image {
			var out []c08Image
			for _, im := range imgs {
				mu.Lock()
				rawImages++
				dup := seen[im.Hash]
				seen[im.Hash] = true
				if !dup {
					distinctImages++
				}
				mu.Unlock()
				if !dup {
					out = append(out, im)
				}
			}
			return out
		}
		match := func(imgs []c08Image, d int) []c08Image {
			if replay == nil {
				return imgs
			}
			var out []c08Image
			for _, im := range imgs {
				if im.Path[d] == replay.Path[d] {
					out = append(out, im)
				}
			}
			return out
		}
		// level 1: the images of the first start; level d+1: the images of the
		// recovery runs of the distinct new images of level d. When a level adds no
		// new image content the set is closed under crash+recovery: every deeper
		// sequence of crashes only revisits states already recovered.
		var frontier []c08Image
		closed := false
		for d := 1; d <= depth; d++ {
			var level []c08Image
			if d == 1 {
				imgs, n, labels := c08Record(t, root, filepath.Join(sdir, "d1"), nil)
				totalPoints += n
				for _, l := range labels {
					labelSet[l] = true
				}
				level = imgs
				if replay == nil {
					level = keep(level)
				}
				level = match(level, 0)
			} else {
				for i, im := range frontier {
					// record the recovery run of im in the shape's own root
					os.RemoveAll(root)
					if err := vfs.CopyTree(im.Dir, root); err != nil {
						t.Fatalf("c08: %v", err)
					}
					imgs, n, labels := c08Record(t, root, filepath.Join(sdir, fmt.Sprintf("d%d-%d", d, i)), im.Path)
					totalPoints += n
					for _, l := range labels {
						labelSet[l] = true
					}
					if replay == nil {
						imgs = keep(imgs)
					}
					level = append(level, match(imgs, d-1)...)
				}
			}
			if replay != nil && len(level) == 0 {
				t.Fatalf("c08: replay: crash point %s not reached", replay.Path[d-1])
			}
			if replay == nil || d == depth {
				check(sh, root, exp, level)
			}
			if d > maxDepthSeen && len(level) > 0 {
				maxDepthSeen = d
			}
			levelSizes[sh.Name] = append(levelSizes[sh.Name], len(level))
			if os.Getenv("C08_DEBUG") != "" && len(level) > 0 {
				fmt.Printf("C08_DEBUG %s level %d: %d new images, e.g. %v [%s]\n", sh.Name, d, len(level), level[len(level)-1].Path, c08Sig(level[len(level)-1].Dir))
			}
			frontier = level
			if len(level) == 0 {
				closed = true
				break
			}
		}
		if replay == nil {
			if closed {
				closedShapes++
			} else if r.Thorough() {
				openShapes = append(openShapes, sh.Name)
			}
		}
		os.RemoveAll(sdir)
		os.RemoveAll(sdir + "-gen")
	}
	r.State(distinctImages)
	r.Set("crash_points_reached", totalPoints)
	r.Set("crash_labels", len(labelSet))
	r.Set("images_taken", rawImages)
	r.Set("images_distinct", distinctImages)
	r.Set("depth_bound", depth)
	r.Set("steps_by_kind_for_in_call_cuts", c08TornKinds)
	r.Set("new_images_per_level", levelSizes)
	r.Set("deepest_level_with_new_images", maxDepthSeen)
	r.Set("shapes_closed_under_crash_recovery", closedShapes)
	if len(openShapes) > 0 {
		r.Cap("image set not closed under crash+recovery at depth %d for shapes %v", depth, openShapes)
	}
	var ls []string
	for l := range labelSet {
		ls = append(ls, l)
	}
	sort.Strings(ls)
	r.Set("labels", strings.Join(ls, " "))
	r.Note("depth bound %d (new image content up to level %d; %d shapes closed under crash+recovery): %d points reached over %d labels, %d images taken, %d distinct by content recovered", depth, maxDepthSeen, closedShapes, totalPoints, len(labelSet), rawImages, distinctImages)
}
