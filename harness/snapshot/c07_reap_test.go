package snapshot

// C07 "Reaping snapshots is crash-safe" (E-CRASH, fault enumeration).
//
// For every store shape (optional older full snapshot x newest full snapshot
// holding 0..1 (thorough 0..2) WAL segments x every sequence of 0..3
// incremental snapshots of 1..2 WAL segments; tiny databases with distinct
// content per segment, built by common_shapes_test.go with the real sink code)
// a private copy of the store is opened and Store.Reap() runs with the crash
// recorder installed (engine/vfs; snapshot/store.go, snapshot/plan/*.go,
// internal/fsutil, snapshot/sidecar and db/state.go carry a crash point in
// front of every statement that contains a call). Every distinct directory
// image the recorder takes is the state a process killed at that point leaves
// behind. EVERY image is then put back at the original path (the reap plan
// names absolute paths) and recovered by the real start-up path:
//
//	NewStore(dir)                         must succeed   (runs check(): resume/abandon)
//	List()                                newest index and term equal the pre-reap newest
//	Open(newest) + Restore                database equals the pre-reap newest content
//	Reap()                                must succeed, and the three checks hold again
//	Close, NewStore(dir)                  must succeed, and the three checks hold again
//
// Repeated crashes: the recovery NewStore of an image is itself recorded and
// every image it yields that has not been seen for this shape is recovered the
// same way, recursively (quick: a second crash; thorough: until no new image
// appears, i.e. every state reachable by any number of crashes during
// recovery). Images are identified by the content hash of the directory tree.
//
// The background path (reapLoop -> reap) is recorded as well for a few shapes
// with the process-global recorder; it runs the same reap() and must yield the
// same crash-point labels.

import (
	"encoding/json"
	"fmt"
	"os"
	"path/filepath"
	"regexp"
	"runtime"
	"sort"
	"strings"
	"sync"
	"testing"
	"time"

	kit "github.com/rqlite/rqlite/v10/internal/verifkit"
	vfs "github.com/rqlite/rqlite/v10/internal/verifvfs"
)

// c07Shapes enumerates all shape combinations.
func c07Shapes(maxFullWALs int) []commonShape {
	var incSeqs [][]int
	incSeqs = append(incSeqs, nil)
	for n := 1; n <= 3; n++ {
		for m := 0; m < 1<<n; m++ {
			var s []int
			for k := 0; k < n; k++ {
				s = append(s, 1+(m>>k)&1)
			}
			incSeqs = append(incSeqs, s)
		}
	}
	var out []commonShape
	for _, older := range []bool{false, true} {
		for fw := 0; fw <= maxFullWALs; fw++ {
			for _, incs := range incSeqs {
				name := "full"
				if older {
					name = "older,full"
				}
				if fw > 0 {
					name += fmt.Sprintf("+%dwal", fw)
				}
				for _, n := range incs {
					name += fmt.Sprintf(",inc%d", n)
				}
				out = append(out, commonShape{Name: name, OlderFull: older, FullWALs: fw, Incs: incs})
			}
		}
	}
	return out
}

// c07Layout is what the harness knows about the pre-reap store of a shape.
type c07Layout struct {
	fullID   string
	incIDs   []string
	olderIDs []string
	wals     []string // all WAL files reap has to consolidate, relative paths, in order
	fullMeta []byte   // original meta.json of the newest full snapshot
}

func c07LayoutOf(b *commonBuilt) (*c07Layout, error) {
	l := &c07Layout{}
	fi := -1
	for i, s := range b.Snaps {
		if s.Full {
			fi = i
		}
	}
	if fi < 0 {
		return nil, fmt.Errorf("no full snapshot")
	}
	l.fullID = b.Snaps[fi].ID
	for i, s := range b.Snaps {
		switch {
		case i < fi:
			l.olderIDs = append(l.olderIDs, s.ID)
		case i > fi:
			l.incIDs = append(l.incIDs, s.ID)
		}
		if i >= fi {
			l.wals = append(l.wals, s.WALRels...)
		}
	}
	m, err := os.ReadFile(filepath.Join(b.Dir, l.fullID, metaFileName))
	if err != nil {
		return nil, err
	}
	l.fullMeta = m
	return l, nil
}

// c07Stage classifies a crash image by what it contains: how far the reap got.
// fine is the full vector, coarse one of a few named stages (used in violation
// class keys and for the coverage requirements of the property text).
func c07Stage(dir string, l *c07Layout) (coarse, fine string) {
	exists := func(rel string) bool { _, err := os.Lstat(filepath.Join(dir, rel)); return err == nil }
	plan := exists(reapPlanFile)
	planTmp := exists(reapPlanFile + tmpSuffix)
	fullHere := exists(l.fullID)
	walsLeft := 0
	for _, w := range l.wals {
		if exists(w) {
			walsLeft++
		}
	}
	walsGone := len(l.wals) - walsLeft
	inPlace := false
	shm := false
	incLeft, olderLeft := 0, 0
	for _, id := range l.incIDs {
		if exists(id) {
			incLeft++
		}
	}
	for _, id := range l.olderIDs {
		if exists(id) {
			olderLeft++
		}
	}
	metaNew := false
	other := 0 // directories that are none of the original ones (the renamed result)
	if ents, err := os.ReadDir(dir); err == nil {
		known := map[string]bool{l.fullID: true}
		for _, id := range l.incIDs {
			known[id] = true
		}
		for _, id := range l.olderIDs {
			known[id] = true
		}
		for _, e := range ents {
			if e.IsDir() && !known[e.Name()] {
				other++
			}
		}
	}
	if fullHere {
		if fi, err := os.Stat(filepath.Join(dir, l.fullID, dbfileName+"-wal")); err == nil {
			inPlace = true
			_ = fi
		}
		shm = exists(filepath.Join(l.fullID, dbfileName+"-shm"))
		if m, err := os.ReadFile(filepath.Join(dir, l.fullID, metaFileName)); err == nil && string(m) != string(l.fullMeta) {
			metaNew = true
		}
	}
	renamed := !fullHere && other > 0
	fine = fmt.Sprintf("plan=%v tmp=%v wals-consumed=%d/%d wal-in-place=%v shm=%v incs-removed=%d/%d older-removed=%d/%d meta-rewritten=%v renamed=%v",
		plan, planTmp, walsGone, len(l.wals), inPlace, shm, len(l.incIDs)-incLeft, len(l.incIDs), len(l.olderIDs)-olderLeft, len(l.olderIDs), metaNew, renamed)

	dirsTotal := len(l.incIDs) + len(l.olderIDs)
	dirsGone := dirsTotal - incLeft - olderLeft
	switch {
	case !plan && !renamed && walsGone == 0 && dirsGone == 0 && !metaNew:
		if planTmp {
			return "plan-being-written", fine
		}
		return "before-plan", fine
	case !plan && dirsGone == dirsTotal && (renamed || len(l.wals) == 0):
		return "completed", fine
	case !plan:
		return "plan-missing-midway", fine // never expected on the unchanged tree
	case renamed:
		return "renamed-plan-present", fine
	case metaNew:
		return "meta-rewritten-not-renamed", fine
	case dirsGone == dirsTotal && dirsTotal > 0 && (walsGone == len(l.wals)):
		return "all-dirs-removed", fine
	case dirsGone > 0:
		return "between-dir-removals", fine
	case inPlace:
		return "wal-moved-in-place-not-checkpointed", fine
	case walsGone > 0 && walsGone < len(l.wals):
		return "between-wal-checkpoints", fine
	case walsGone == len(l.wals) && len(l.wals) > 0:
		return "all-wals-checkpointed", fine
	default:
		return "plan-written-nothing-done", fine
	}
}

var c07NumRe = regexp.MustCompile(`(/[^ :]+)|"[^"]*"|(0x)?[0-9a-f]*[0-9][0-9a-f]*`)

func c07ErrClass(err error) string {
	s := c07NumRe.ReplaceAllString(err.Error(), "#")
	if len(s) > 100 {
		s = s[:100]
	}
	return s
}

// c07Env is the per-run context.
type c07Env struct {
	r        *kit.Run
	t        *testing.T
	root     string
	maxDepth int

	mu            sync.Mutex
	labelCounts   map[string]int
	stageLabels   map[string]map[string]int // coarse stage -> label -> images
	hashes        int
	deduped       int
	byDepth       map[int]int
	points        int64
	th            bool
	tornRecovered map[string]int // class -> variants recovered
	tornKinds     map[string]int // steps by kind (write, rename, removal, none, first)
	tornSkipped   map[string]int // steps that changed several entries at once (not decomposed)
	shapeImgs     map[string]int
}

// c07Case is the recovery of the images of one recorded reap of one shape.
type c07Case struct {
	e      *c07Env
	b      *commonBuilt
	l      *c07Layout
	via    string // "Reap" | "reapLoop"
	work   string // the store directory (fixed: the plan holds absolute paths)
	tmp    string // scratch for images and restored databases
	seen   map[string]bool
	imgSeq int
	depth  int // crash depth for this case (recoveries below it are recorded)
}

func (c *c07Case) replay(chain []string) map[string]any {
	return map[string]any{"shape": c.b.Shape.Name, "via": c.via, "crash_chain": chain,
		"how": "VERIF_C07_SHAPE='" + c.b.Shape.Name + "' ./check C07  (re-records the reap of this shape and recovers every image)"}
}

// place puts image img at the store path.
func (c *c07Case) place(imgDir string) error {
	if err := os.RemoveAll(c.work); err != nil {
		return err
	}
	return vfs.CopyTree(imgDir, c.work)
}

// verify checks the three observable demands on an open store. phase names the moment.
func (c *c07Case) verify(s *Store, phase, coarse string, chain []string) bool {
	want := c.b.Newest()
	vio := func(what, detail string) bool {
		c.e.r.Violation(fmt.Sprintf("C07:%s:%s:crash-at:%s", what, phase, coarse),
			fmt.Sprintf("shape %q via %s, crash chain %v: %s", c.b.Shape.Name, c.via, chain, detail), c.replay(chain))
		return false
	}
	metas, err := s.List()
	if err != nil {
		return vio("list-fails", "List: "+err.Error())
	}
	if len(metas) != 1 {
		return vio("no-newest", fmt.Sprintf("List returned %d snapshots", len(metas)))
	}
	if metas[0].Index != want.Index || metas[0].Term != want.Term {
		return vio("newest-index-term-changed", fmt.Sprintf("newest is (index %d, term %d) id %s, before the reap it was (index %d, term %d)",
			metas[0].Index, metas[0].Term, metas[0].ID, want.Index, want.Term))
	}
	all, err := s.ListAll()
	if err != nil || len(all) == 0 || all[0].ID != metas[0].ID {
		return vio("list-fails", fmt.Sprintf("ListAll: %v (%d entries)", err, len(all)))
	}
	_, rc, err := s.Open(metas[0].ID)
	if err != nil {
		return vio("open-snapshot-fails", "Open(newest): "+err.Error())
	}
	dst := filepath.Join(c.tmp, "restored.db")
	os.Remove(dst)
	_, err = Restore(rc, dst)
	rc.Close()
	if err != nil {
		return vio("restore-fails", "Restore(newest): "+err.Error())
	}
	same, how := commonSameDB(dst, want.State, c.tmp)
	os.Remove(dst)
	if !same {
		if len(how) > 600 {
			how = how[:600] + "..."
		}
		return vio("content-differs", "database restored from the newest snapshot is not the pre-reap newest content: "+how)
	}
	return true
}

// recover runs the start-up path on the image placed at c.work and checks the
// property; at depth < maxDepth the start-up is recorded and new images are
// recovered recursively.
func (c *c07Case) recover(img vfs.Image, depth int, chain []string) {
	e := c.e
	stage, fine := c07Stage(img.Dir, c.l)
	coarse := stage // used in violation class keys: the reap stage, plus the kind of torn call for derived images
	if img.Torn != "" {
		coarse += ":" + c07TornClass(img.Torn)
		fine += " | torn: " + c07Short(img.Torn)
		chain = append(append([]string{}, chain...), fmt.Sprintf("inside the call before %s#%d{%s: %s}", img.Label, img.Hits, stage, c07Short(img.Torn)))
		e.mu.Lock()
		e.tornRecovered[c07TornClass(img.Torn)]++
		e.mu.Unlock()
	} else {
		chain = append(append([]string{}, chain...), fmt.Sprintf("%s#%d{%s}", img.Label, img.Hits, stage))
	}
	if err := c.place(img.Dir); err != nil {
		e.t.Errorf("c07: placing image: %v", err)
		return
	}
	e.r.Eval(1)
	e.mu.Lock()
	e.byDepth[depth]++
	if img.Torn == "" {
		if e.stageLabels[stage] == nil {
			e.stageLabels[stage] = map[string]int{}
		}
		e.stageLabels[stage][img.Label]++
	}
	e.mu.Unlock()

	var rec *vfs.Recorder
	var un func()
	if depth < c.depth && (img.Torn == "" || e.th) { // quick tier: the recovery of a torn variant is not recorded again

		c.imgSeq++
		rec = &vfs.Recorder{Root: c.work, ImgDir: filepath.Join(c.tmp, fmt.Sprintf("imgs-%d", c.imgSeq)), HashNameOnly: c07IsShm}
		un = vfs.InstallLocal(rec)
	}
	s, err := NewStore(c.work)
	if rec != nil {
		rec.Snap("after-recovery")
		un()
	}
	outcome := "?"
	func() {
		if err != nil {
			outcome = "open-fails"
			e.r.Violation(fmt.Sprintf("C07:open-fails:crash-at:%s", coarse),
				fmt.Sprintf("shape %q via %s, crash chain %v (%s): NewStore on the crash image fails: %v", c.b.Shape.Name, c.via, chain, fine, err),
				c.replay(chain))
			return
		}
		s.fatalFn = nil
		defer func() {
			if s != nil {
				s.Close()
			}
		}()
		n := s.Len()
		switch {
		case fsutilFileExistsC07(filepath.Join(c.work, reapPlanFile)):
			outcome = "plan-left-behind"
		case n == 1:
			outcome = "consolidated"
		default:
			outcome = fmt.Sprintf("abandoned(%d snapshots)", n)
		}
		if !c.verify(s, "after-recovery", coarse, chain) {
			outcome += ",bad"
			return
		}
		if _, _, err := s.Reap(); err != nil {
			outcome += ",reap-fails"
			e.r.Violation(fmt.Sprintf("C07:reap-after-recovery-fails:crash-at:%s", coarse),
				fmt.Sprintf("shape %q via %s, crash chain %v: Reap on the recovered store fails: %v", c.b.Shape.Name, c.via, chain, err), c.replay(chain))
			return
		}
		if !c.verify(s, "after-recovery+reap", coarse, chain) {
			outcome += ",bad-after-reap"
			return
		}
		s.Close()
		s = nil
		s2, err := NewStore(c.work)
		if err != nil {
			outcome += ",reopen-fails"
			e.r.Violation(fmt.Sprintf("C07:reopen-fails:crash-at:%s", coarse),
				fmt.Sprintf("shape %q via %s, crash chain %v: second NewStore after recovery and Reap fails: %v", c.b.Shape.Name, c.via, chain, err), c.replay(chain))
			return
		}
		s2.fatalFn = nil
		s = s2
		if !c.verify(s, "after-recovery+reap+reopen", coarse, chain) {
			outcome += ",bad-after-reopen"
		}
	}()
	e.r.Distinct(fmt.Sprintf("%s|%s|depth%d|%s", img.Label, coarse, min(depth, 2), outcome))
	// byte counts of a torn plan depend on the length of the scratch path: not in the (reproducible) samples
	scrub := func(x string) string { return c07BytesRe.ReplaceAllString(x, "a prefix of the bytes") }
	sc := make([]string, len(chain))
	for i, x := range chain {
		sc[i] = scrub(x)
	}
	e.r.Sample(map[string]any{"shape": c.b.Shape.Name, "crash_chain": sc, "image": scrub(fine), "recovery": outcome})

	if rec == nil {
		return
	}
	if errs := rec.Errors(); len(errs) > 0 {
		e.t.Errorf("c07: recorder errors: %v", errs)
	}
	np, _ := rec.Points()
	e.mu.Lock()
	e.points += np
	for l, k := range rec.LabelCounts() {
		e.labelCounts["recovery:"+l] += k
	}
	e.mu.Unlock()
	for _, im := range rec.Images() {
		if c.seen[im.Hash] {
			e.mu.Lock()
			e.deduped++
			e.mu.Unlock()
			continue
		}
		c.seen[im.Hash] = true
		e.mu.Lock()
		e.hashes++
		e.mu.Unlock()
		c.recover(im, depth+1, chain)
		if e.th {
			c.torn(rec, im, depth+1, chain)
		}
	}
	os.RemoveAll(rec.ImgDir)
}

// torn derives the images a process killed INSIDE the call that produced im can
// leave (engine/vfs TornVariants) and recovers every one not yet seen.
func (c *c07Case) torn(rec *vfs.Recorder, im vfs.Image, depth int, chain []string) {
	e := c.e
	vars, kind, err := rec.TornVariants(im, vfs.TornOptions{Overlay: true, Removals: true})
	if err != nil {
		e.t.Errorf("c07: deriving torn variants: %v", err)
		return
	}
	e.mu.Lock()
	switch {
	case strings.HasPrefix(kind, "multi:"):
		e.tornSkipped[c07IDRe.ReplaceAllString(kind, "<snap>")]++
	default:
		e.tornKinds[strings.SplitN(kind, ":", 2)[0]]++
	}
	e.mu.Unlock()
	for _, v := range vars {
		if c.seen[v.Hash] {
			e.mu.Lock()
			e.deduped++
			e.mu.Unlock()
			continue
		}
		c.seen[v.Hash] = true
		e.mu.Lock()
		e.hashes++
		e.mu.Unlock()
		c.recover(v, depth, chain)
	}
}

var c07BytesRe = regexp.MustCompile(`[0-9]+ of [0-9]+ (new )?bytes( written| over the old [0-9]+)?`)

var c07IDRe = regexp.MustCompile(`[0-9]+-[0-9]+-[0-9]{10,}`)

// c07TornClass names the class of a torn call: the kind and the file's base name.
func c07TornClass(desc string) string {
	if strings.HasPrefix(desc, "removal") {
		return "torn-removal"
	}
	f := desc
	if i := strings.Index(f, " "); i > 0 {
		f = f[:i]
	}
	kind := "torn-write"
	if strings.Contains(desc, "in place") {
		kind = "torn-overwrite"
	}
	return kind + "(" + filepath.Base(f) + ")"
}

func c07Short(desc string) string { return c07IDRe.ReplaceAllString(desc, "<snap>") }

// c07IsShm: the content of SQLite's wal-index file does not take part in image
// identity (its bytes vary from run to run; the first connection after a crash
// truncates it, see unixOpenSharedMemory / unixLockSharedMemory in SQLite's os_unix.c).
func c07IsShm(rel string) bool { return strings.HasSuffix(rel, "-shm") }

// c07SrcFiles are the instrumented files (relative to the repository root); used
// only to quote the statement a crash-point label stands in front of.
var c07SrcFiles = []string{"snapshot/store.go", "snapshot/plan/plan.go", "snapshot/plan/executor.go", "snapshot/plan/checker.go",
	"snapshot/sidecar/sidecar.go", "internal/fsutil/fsutil.go", "db/state.go"}

var (
	c07SrcOnce  sync.Once
	c07SrcLines map[string][]string
)

// c07Annotate turns "executor.go:104" into "executor.go:104 `<statement>`"
// (the test runs with the package directory as working directory).
func c07Annotate(label string) string {
	c07SrcOnce.Do(func() {
		c07SrcLines = map[string][]string{}
		for _, f := range c07SrcFiles {
			if b, err := os.ReadFile(filepath.Join("..", f)); err == nil {
				c07SrcLines[filepath.Base(f)] = strings.Split(string(b), "\n")
			}
		}
	})
	i := strings.LastIndex(label, ":")
	if i < 0 {
		return label
	}
	var n int
	if _, err := fmt.Sscanf(label[i+1:], "%d", &n); err != nil {
		return label
	}
	ls := c07SrcLines[label[:i]]
	if n < 1 || n > len(ls) {
		return label
	}
	return label + " `" + strings.TrimSpace(ls[n-1]) + "`"
}

func fsutilFileExistsC07(p string) bool { fi, err := os.Stat(p); return err == nil && !fi.IsDir() }

// run records one reap of the shape and recovers every image.
func (c *c07Case) run(global bool) {
	e := c.e
	if err := c.b.Clone(c.work); err != nil {
		e.t.Errorf("c07: clone: %v", err)
		return
	}
	s, err := NewStore(c.work)
	if err != nil {
		e.t.Errorf("c07: NewStore on a pristine clone of %s: %v", c.b.Shape.Name, err)
		return
	}
	s.fatalFn = nil
	metas, err := s.List()
	if err != nil || len(metas) != 1 || metas[0].Index != c.b.Newest().Index || metas[0].Term != c.b.Newest().Term {
		e.t.Errorf("c07: pristine clone of %s lists %v (%v)", c.b.Shape.Name, metas, err)
		s.Close()
		return
	}
	rec := &vfs.Recorder{Root: c.work, ImgDir: filepath.Join(c.tmp, "imgs-0"), HashNameOnly: c07IsShm}
	var rerr error
	if !global {
		un := vfs.InstallLocal(rec)
		_, _, rerr = s.Reap()
		rec.Snap("after-reap")
		un()
	} else {
		// background path: the reaper goroutine does the work; wait for its observation
		ch := make(chan ReapObservation, 4)
		obs := NewObserver(ch, nil)
		s.RegisterObserver(obs)
		s.SetReapThreshold(1)
		errs0 := stats.Get(reapErrors).String()
		vfs.Install(rec)
		s.signalReap()
		deadline := time.Now().Add(120 * time.Second)
	wait:
		for {
			select {
			case <-ch:
				break wait
			case <-time.After(5 * time.Millisecond):
				if stats.Get(reapErrors).String() != errs0 {
					rerr = fmt.Errorf("background reap failed (reap_errors %s -> %s)", errs0, stats.Get(reapErrors).String())
					break wait
				}
				if time.Now().After(deadline) {
					rerr = fmt.Errorf("background reap did not report within 120 s")
					break wait
				}
			}
		}
		// let the loop return to its select (its bookkeeping has no file-system effect)
		s.Close()
		rec.Snap("after-reap")
		vfs.Install(nil)
		s.DeregisterObserver(obs)
	}
	if !global {
		s.Close()
	}
	if rerr != nil {
		e.t.Errorf("c07: uninterrupted reap of %s (%s) failed: %v", c.b.Shape.Name, c.via, rerr)
		return
	}
	if errs := rec.Errors(); len(errs) > 0 {
		e.t.Errorf("c07: recorder errors: %v", errs)
	}
	np, _ := rec.Points()
	imgs := rec.Images()
	e.mu.Lock()
	e.points += np
	for l, k := range rec.LabelCounts() {
		e.labelCounts[c.via+":"+l] += k
	}
	e.shapeImgs[c.b.Shape.Name+"/"+c.via] = len(imgs)
	e.mu.Unlock()
	for _, im := range imgs {
		c.seen[im.Hash] = true
	}
	e.mu.Lock()
	e.hashes += len(imgs)
	e.mu.Unlock()
	for _, im := range imgs {
		c.recover(im, 1, nil)
		c.torn(rec, im, 1, nil)
	}
}

func TestVerif_C07(t *testing.T) {
	r := kit.Start(t, "C07", "reap")
	defer r.Finish()
	th := r.Thorough()
	maxFullWALs := r.Pick(1, 2)
	maxDepth := r.Pick(2, 8)
	r.Rule(fmt.Sprintf("shapes = {no older full, one older full} x {newest full with 0..%d WAL segments in its directory} x {every sequence of 0..3 incremental snapshots of 1..2 WAL segments} (512-byte-page databases, distinct content per segment, built with the real sink code); for each shape Store.Reap() runs on a private copy with the crash recorder installed (a crash point in front of every call statement of snapshot/store.go, snapshot/plan/{plan,executor,checker}.go, internal/fsutil/fsutil.go, snapshot/sidecar/sidecar.go, db/state.go); every distinct directory image (content hash) is placed back at the original path and recovered by NewStore; the recovery itself is recorded and every image not yet seen for the shape is recovered in turn, to crash depth %d (quick: depth 2 on the shapes with up to two incremental snapshots, depth 1 on the others; thorough: until no new image appears); in addition, for every step that changed exactly one regular file or only removed entries, the torn states of that call (see the note on torn calls) are derived and recovered the same way. evaluations = images recovered (recorded + derived); states = distinct images; distinct = (crash-point label, reap stage of the image, depth class, recovery outcome)", maxFullWALs, maxDepth))
	r.Assume("process-crash model at statement granularity: every completed file-system call is in the image, the call in flight is not; plus, inside a call that writes one file or removes a directory tree, the torn states derived by engine/vfs TornVariants; a crash inside SQLite's own checkpoint is not enumerated (its atomicity is trusted, DESIGN 5); os.Rename is atomic; no power-loss (un-fsynced data) model")
	r.Assume("two images that differ only in the bytes of a SQLite -shm (wal-index) file are the same crash state: the first connection opened after a crash holds the DMS lock alone and resets the file (SQLite os_unix.c); the file's presence still counts")
	r.Assume("Store.fatalFn is set to nil (the seam of the package's own tests) so that a detected checksum mismatch is an observable error instead of a process exit")

	restoreLogs := commonQuietLogs()
	defer restoreLogs()
	root := commonScratchRoot(t)

	shapes := c07Shapes(maxFullWALs)
	only := os.Getenv("VERIF_C07_SHAPE")
	if rp := kit.Replay(); rp != nil {
		var x struct {
			Shape string `json:"shape"`
		}
		if json.Unmarshal(rp, &x) == nil && x.Shape != "" {
			only = x.Shape
		}
	}
	if only != "" {
		var f []commonShape
		for _, sh := range shapes {
			if sh.Name == only {
				f = append(f, sh)
			}
		}
		shapes = f
	}

	// Build the templates (parallel; a failure is a set-up fault).
	builts := make([]*commonBuilt, len(shapes))
	{
		var wg sync.WaitGroup
		sem := make(chan struct{}, runtime.GOMAXPROCS(0))
		for i := range shapes {
			wg.Add(1)
			go func(i int) {
				defer wg.Done()
				sem <- struct{}{}
				defer func() { <-sem }()
				builts[i] = commonBuildStore(t, root, shapes[i])
			}(i)
		}
		wg.Wait()
		if t.Failed() {
			return
		}
	}

	e := &c07Env{r: r, t: t, root: root, maxDepth: maxDepth, th: th, tornRecovered: map[string]int{}, tornKinds: map[string]int{}, tornSkipped: map[string]int{}, labelCounts: map[string]int{},
		stageLabels: map[string]map[string]int{}, byDepth: map[int]int{}, shapeImgs: map[string]int{}}
	mk := func(b *commonBuilt, via string, n int) *c07Case {
		l, err := c07LayoutOf(b)
		if err != nil {
			t.Fatalf("c07: %v", err)
		}
		base := filepath.Join(root, "c07", fmt.Sprintf("%s-%d", via, n))
		if err := os.MkdirAll(filepath.Join(base, "tmp"), 0o755); err != nil {
			t.Fatal(err)
		}
		depth := maxDepth
		if !th && len(b.Shape.Incs) > 2 {
			depth = 1 // quick tier: a second crash only on the shapes with up to two incremental snapshots
		}
		if via == "reapLoop" {
			depth = 1 // crashes during the recovery of these images are covered by the Reap() path (same states)
		}
		return &c07Case{e: e, b: b, l: l, via: via, work: filepath.Join(base, "store"), tmp: filepath.Join(base, "tmp"), seen: map[string]bool{}, depth: depth}
	}

	// Phase 0: the background path (process-global recorder; nothing else runs).
	bgShapes := map[string]bool{"full,inc1,inc2": true, "older,full+1wal,inc2,inc1": true, "older,full": true}
	nbg := 0
	for i, b := range builts {
		if !bgShapes[b.Shape.Name] {
			continue
		}
		c := mk(b, "reapLoop", i)
		c.run(true)
		os.RemoveAll(filepath.Dir(c.work))
		nbg++
	}

	// Phase 1: Store.Reap() of every shape, goroutine-local recorders, in parallel.
	nw := runtime.GOMAXPROCS(0)
	if nw > 16 {
		nw = 16
	}
	ch := make(chan int, len(builts))
	for i := range builts {
		ch <- i
	}
	close(ch)
	var wg sync.WaitGroup
	var capMu sync.Mutex
	capped := false
	for w := 0; w < nw; w++ {
		wg.Add(1)
		go func() {
			defer wg.Done()
			for i := range ch {
				if r.OverBudget() {
					capMu.Lock()
					if !capped {
						capped = true
						r.Cap("time budget exhausted before shape %q", builts[i].Shape.Name)
					}
					capMu.Unlock()
					continue
				}
				c := mk(builts[i], "Reap", i)
				r.Guard("C07:panic:"+builts[i].Shape.Name, c.replay(nil), func() { c.run(false) })
				os.RemoveAll(filepath.Dir(c.work))
			}
		}()
	}
	wg.Wait()

	// Evidence.
	r.State(e.hashes)
	r.Set("shapes", len(builts))
	r.Set("background_path_shapes", nbg)
	r.Set("crash_points_reached", e.points)
	r.Set("images_equal_to_an_earlier_image_of_the_shape", e.deduped)
	for d, n := range e.byDepth {
		r.Set(fmt.Sprintf("images_recovered_at_crash_depth_%d", d), n)
	}
	{
		var tr, tk, ts []string
		ntorn := 0
		for k, n := range e.tornRecovered {
			tr = append(tr, fmt.Sprintf("%s x%d", k, n))
			ntorn += n
		}
		for k, n := range e.tornKinds {
			tk = append(tk, fmt.Sprintf("%s x%d", k, n))
		}
		for k, n := range e.tornSkipped {
			ts = append(ts, fmt.Sprintf("%s x%d", k, n))
		}
		sort.Strings(tr)
		sort.Strings(tk)
		sort.Strings(ts)
		r.Set("torn_variants_recovered", ntorn)
		r.Set("torn_variants_by_class", tr)
		r.Set("steps_by_kind", tk)
		r.Set("steps_not_decomposed", ts)
		r.Note("Torn calls: for every step between an image and its predecessor state that changed exactly one regular file, the states a process killed inside that write leaves (file created/rewritten with 0, half, all-but-one bytes of the new content; the same prefixes laid over the old bytes; an extension cut half way and one byte short) and, for a step that only removed entries (os.RemoveAll), two partial removals, are derived and recovered like recorded images (%d variants; quick: for the recorded reap, thorough: also for every recorded recovery). Renames have no partial state. Steps that changed several entries at once happen inside SQLite's checkpoint (database + WAL + wal-index), which carries no crash points and is trusted: %v.", ntorn, ts)
	}
	var labels []string
	for l, n := range e.labelCounts {
		labels = append(labels, fmt.Sprintf("%s x%d", l, n))
	}
	sort.Strings(labels)
	r.Set("labels", labels)
	r.Set("distinct_labels", len(labels))
	r.Note("An image labelled L is the directory on arrival at statement L: everything before L has completed, L has not started; the same state holds at every later crash point up to the next file-system mutation, so one image stands for all of them (%d crash points reached, %d distinct images).", e.points, e.hashes)
	var stages []string
	for st := range e.stageLabels {
		stages = append(stages, st)
	}
	sort.Strings(stages)
	for _, st := range stages {
		var ls []string
		tot := 0
		for l, n := range e.stageLabels[st] {
			ls = append(ls, c07Annotate(l))
			tot += n
		}
		sort.Strings(ls)
		r.Note("reap stage %q: %d images recovered, first seen on arrival at %s.", st, tot, strings.Join(ls, ", "))
	}
	if only == "" {
		for _, need := range []string{"between-wal-checkpoints", "wal-moved-in-place-not-checkpointed", "between-dir-removals",
			"all-dirs-removed", "meta-rewritten-not-renamed", "renamed-plan-present", "plan-written-nothing-done", "before-plan", "completed"} {
			if len(e.stageLabels[need]) == 0 {
				r.Cap("no crash image in reap stage %q was produced: the crash points the property names are not all covered", need)
			}
		}
	}
	if th {
		r.Note("Crash depth: recursion stopped because no new image appeared (deepest chain %d) unless a cap is listed.", len(e.byDepth))
		if e.byDepth[maxDepth] > 0 {
			r.Cap("images at crash depth %d were not recorded further", maxDepth)
		}
	}
}
