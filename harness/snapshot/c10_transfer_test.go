package snapshot

// C10 "Snapshot transfer installs exactly the source data or nothing".
//
// For every store shape (common_shapes_test.go) the REAL stream of the newest
// snapshot (Store.Open -> LockingStreamer, i.e. what Raft ships) is
//   (a) written into a second store's sink (store2.Create -> Write* -> Close,
//       Cancel on a write error, as hashicorp/raft's installSnapshot does), and
//   (b) fed to Restore,
// each without and with the transport compression pair of store/transport.go
// (zstd.NewCompressor on the sender, zstd.NewDecompressor over the wire bytes on
// the receiver; how that pair sits on raft's real NetworkTransport is checked on
// the real transport by part "transport", harness/store/c10_transport_test.go), under
//   - every split of the delivery into <=3 writes/reads,
//   - every truncation, single-byte flip, drop, insert, trailing extension,
//   - every header field mutation (decoded proto, re-encoded, correct prefix).
//
// Oracle: an unmutated delivery must succeed with content identical to the
// source. A mutated delivery must fail, or install/restore content identical to
// the source (byte-identical files / database, else logically identical after
// SQLite checkpoints it). A failed install must not be listed by the second
// store. Close()==nil while nothing is listed counts as "nothing installed"
// (allowed, recorded as an outcome).

import (
	"bytes"
	"crypto/sha256"
	"encoding/binary"
	"fmt"
	"io"
	"math/rand"
	"os"
	"path/filepath"
	"regexp"
	"runtime"
	"runtime/debug"
	"sort"
	"sync"
	"sync/atomic"
	"testing"

	"database/sql"

	"github.com/hashicorp/raft"
	rzstd "github.com/rqlite/rqlite/v10/internal/rarchive/zstd"
	kit "github.com/rqlite/rqlite/v10/internal/verifkit"
	"github.com/rqlite/rqlite/v10/snapshot/proto"
	pb "google.golang.org/protobuf/proto"
)

// c10Src is one source: a built store and the real stream of its newest snapshot.
type c10Src struct {
	name   string
	meta   *raft.SnapshotMeta
	stream []byte   // real LockingStreamer output
	wire   []byte   // real Compressor output for stream
	hdr    *proto.SnapshotHeader
	hdrEnd int      // offset of the first data byte
	files  [][]byte // db, wal0, wal1, ... exactly as they appear in the stream
	want   *commonState
	big    bool // large incompressible source: clean transfers only
}

// region names the structural class of plain-stream offset p (used in violation keys).
func (s *c10Src) region(p int) string {
	switch {
	case p < HeaderSizeLen:
		return "len-prefix"
	case p < s.hdrEnd:
		return "header"
	}
	off := p - s.hdrEnd
	for i, f := range s.files {
		if off < len(f) {
			if i == 0 {
				if off < 100 {
					return "db-header"
				}
				return "db-page"
			}
			if off < 32 {
				return "wal-header"
			}
			if (off-32)%(24+512) < 24 {
				return "wal-frame-header"
			}
			return "wal-frame-payload"
		}
		off -= len(f)
	}
	return "past-end"
}

// wireRegion names the class of wire offset p.
func (s *c10Src) wireRegion(p int) string {
	switch {
	case p < 8:
		return "zsize-prefix"
	case p < 12:
		return "zstd-magic"
	case p >= len(s.wire)-4:
		return "zstd-tail"
	}
	return "zstd-body"
}

// boundaries returns the structurally interesting offsets of the plain stream:
// around the prefix, the header end, every file start/end, every database page
// boundary, every WAL header end, every WAL frame start and frame-header end.
func (s *c10Src) boundaries() []int {
	n := len(s.stream)
	set := map[int]bool{}
	add := func(p int) {
		for _, q := range []int{p - 1, p, p + 1} {
			if q >= 1 && q <= n-1 {
				set[q] = true
			}
		}
	}
	add(1)
	add(HeaderSizeLen)
	add(s.hdrEnd)
	add(s.hdrEnd + 3)
	off := s.hdrEnd
	for i, f := range s.files {
		add(off)
		if i == 0 {
			add(off + 16)
			add(off + 100)
			for pg := 512; pg < len(f); pg += 512 {
				add(off + pg)
			}
		} else {
			add(off + 8)
			add(off + 32)
			for fr := 32; fr < len(f); fr += 24 + 512 {
				add(off + fr)
				add(off + fr + 24)
			}
		}
		off += len(f)
	}
	add(n - 1)
	return c10Sorted(set)
}

// coreBoundaries is the reduced set used for 3-way splits in the quick tier:
// prefix end, header end, every file start and middle, last byte.
func (s *c10Src) coreBoundaries() []int {
	n := len(s.stream)
	set := map[int]bool{HeaderSizeLen: true, s.hdrEnd: true, n - 1: true}
	off := s.hdrEnd
	for _, f := range s.files {
		set[off] = true
		set[off+len(f)/2] = true
		off += len(f)
	}
	return c10Sorted(set)
}

func (s *c10Src) wireBoundaries() []int {
	n := len(s.wire)
	set := map[int]bool{}
	for _, p := range []int{1, 2, 7, 8, 9, 11, 12, 13, 14, 15, 16, 17, 18, 20, 24, 32, n / 2, n - 5, n - 4, n - 3, n - 2, n - 1} {
		if p >= 1 && p <= n-1 {
			set[p] = true
		}
	}
	return c10Sorted(set)
}

func c10Sorted(set map[int]bool) []int {
	out := make([]int, 0, len(set))
	for p := range set {
		out = append(out, p)
	}
	sort.Ints(out)
	return out
}

// c10Case is one delivery.
type c10Case struct {
	src     *c10Src
	install bool // else restore
	zstd    bool
	kind    string // split | trunc | flip | drop | insert | extend | header
	class   string // region / header-mutation class (part of the violation key)
	desc    string
	data    []byte // bytes delivered: plain stream, or wire bytes when zstd
	cuts    []int  // delivery is split at these offsets of data
	mutated bool
	deep    bool // clean delivery additionally checked by restoring from the second store
}

func (c *c10Case) target() string {
	if c.install {
		return "install"
	}
	return "restore"
}
func (c *c10Case) mode() string {
	if c.zstd {
		return "compressed"
	}
	return "plain"
}
func (c *c10Case) replay() map[string]any {
	return map[string]any{"shape": c.src.name, "target": c.target(), "mode": c.mode(), "mutation": c.kind,
		"class": c.class, "detail": c.desc, "cuts": c.cuts, "delivered_len": len(c.data), "stream_len": len(c.src.stream)}
}

// c10ChunkReader returns data in pieces ending at the given cut offsets.
type c10ChunkReader struct {
	data []byte
	cuts []int
	pos  int
}

func (r *c10ChunkReader) Read(p []byte) (int, error) {
	if r.pos >= len(r.data) {
		return 0, io.EOF
	}
	end := len(r.data)
	for _, c := range r.cuts {
		if c > r.pos {
			if c < end {
				end = c
			}
			break
		}
	}
	n := copy(p, r.data[r.pos:end])
	r.pos += n
	return n, nil
}

// c10BigAlloc serialises cases whose (possibly corrupted) header length prefix
// makes Restore allocate a very large header buffer, so that 16 workers do not
// do so at once. It does not change any verdict.
var c10BigAlloc sync.Mutex

// c10PrefixGuard watches the first 4 bytes passing through; if they announce a
// header of >= 16 MiB it takes c10BigAlloc before handing them to the consumer.
type c10PrefixGuard struct {
	r      io.Reader
	seen   []byte
	locked bool
}

func (g *c10PrefixGuard) Read(p []byte) (int, error) {
	n, err := g.r.Read(p)
	if len(g.seen) < 4 && n > 0 {
		k := 4 - len(g.seen)
		if k > n {
			k = n
		}
		g.seen = append(g.seen, p[:k]...)
		if len(g.seen) == 4 && binary.BigEndian.Uint32(g.seen) >= 16<<20 && !g.locked {
			c10BigAlloc.Lock()
			g.locked = true
		}
	}
	return n, err
}

func (g *c10PrefixGuard) release() {
	if g.locked {
		g.locked = false
		debug.FreeOSMemory()
		c10BigAlloc.Unlock()
	}
}

var c10NumRe = regexp.MustCompile(`(/[^ :]+)|(0x)?[0-9a-f]*[0-9][0-9a-f]*`)

// c10ErrClass strips paths and numbers from an error text.
func c10ErrClass(err error) string {
	if err == nil {
		return "ok"
	}
	return c10NumRe.ReplaceAllString(err.Error(), "#")
}

type c10Env struct {
	r    *kit.Run
	root string
	seq  atomic.Uint64
}

// caseDir creates the private directory of one case under the worker's own
// parent (separate parents avoid contending on one directory lock).
func (e *c10Env) caseDir(w int) string {
	d := filepath.Join(e.root, fmt.Sprintf("w%d", w), fmt.Sprintf("c%d", e.seq.Add(1)))
	if err := os.MkdirAll(d, 0o755); err != nil {
		panic(err)
	}
	return d
}

// reader builds the receiver-side reader for a case: the chunked delivery, for
// compressed mode wrapped in the real Decompressor (as NodeTransport.Consumer does).
func (c *c10Case) reader() io.Reader {
	var rd io.Reader = &c10ChunkReader{data: c.data, cuts: c.cuts}
	if c.zstd {
		rd = rzstd.NewDecompressor(rd)
	}
	return rd
}

func (e *c10Env) run(w int, c *c10Case) {
	dir := e.caseDir(w)
	defer os.RemoveAll(dir)
	e.r.Eval(1)
	key := func(what string) string {
		return fmt.Sprintf("C10:%s:%s:%s:%s", what, c.target(), c.class, c.mode())
	}
	e.r.Guard(key("panic-"+c.kind), c.replay(), func() {
		if c.install {
			e.runInstall(c, dir, key)
		} else {
			e.runRestore(c, dir, key)
		}
	})
}

func (e *c10Env) outcome(c *c10Case, o string) {
	e.r.Distinct(fmt.Sprintf("%s|%s|%s|%s -> %s", c.target(), c.mode(), c.kind, c.class, o))
}

func (e *c10Env) runRestore(c *c10Case, dir string, key func(string) string) {
	dst := filepath.Join(dir, "restored.db")
	g := &c10PrefixGuard{r: c.reader()}
	_, err := Restore(g, dst)
	g.release()
	if err != nil {
		if !c.mutated {
			e.r.Violation(key("clean-transfer-rejected"), fmt.Sprintf("%s: Restore of the unmodified stream failed (%s): %v", c.src.name, c.desc, err), c.replay())
			return
		}
		e.outcome(c, "error: "+c10ErrClass(err))
		return
	}
	same, how := commonSameDB(dst, c.src.want, dir)
	if same {
		e.outcome(c, "restored identical ("+how+")")
		return
	}
	what := "clean-transfer-altered"
	if c.mutated {
		what = c.kind + "-accepted"
	}
	e.r.Violation(key(what), fmt.Sprintf("%s: Restore returned nil for %s %s but the database differs from the source: %s", c.src.name, c.kind, c.desc, c10Short(how)), c.replay())
}

func c10Short(s string) string {
	if len(s) > 600 {
		return s[:600] + "..."
	}
	return s
}

func (e *c10Env) runInstall(c *c10Case, dir string, key func(string) string) {
	s2dir := filepath.Join(dir, "s2")
	s2, err := NewStore(s2dir)
	if err != nil {
		panic(fmt.Sprintf("harness: NewStore: %v", err))
	}
	s2.fatalFn = nil
	defer s2.Close()
	m := c.src.meta
	rsink, err := s2.Create(m.Version, m.Index, m.Term, m.Configuration, m.ConfigurationIndex, nil)
	if err != nil {
		panic(fmt.Sprintf("harness: Create: %v", err))
	}
	sink := rsink.(*Sink)
	// Seam used by the package's own tests: without it a failing incremental-file
	// close would exit the process instead of returning the error.
	sink.fatalFn = nil

	var werr error
	if c.zstd {
		_, werr = io.Copy(sink, c.reader())
	} else {
		prev := 0
		for _, cut := range append(append([]int{}, c.cuts...), len(c.data)) {
			if cut > len(c.data) {
				cut = len(c.data)
			}
			if cut <= prev {
				continue
			}
			n, err := sink.Write(c.data[prev:cut])
			if err == nil && n != cut-prev {
				err = io.ErrShortWrite
			}
			if err != nil {
				werr = err
				break
			}
			prev = cut
		}
	}
	var failed error
	if werr != nil {
		sink.Cancel()
		failed = fmt.Errorf("write: %w", werr)
	} else if err := sink.Close(); err != nil {
		failed = fmt.Errorf("close: %w", err)
	}

	metas, lerr := s2.ListAll()
	if lerr != nil {
		// The second store's catalog became unreadable: worse than listing it.
		e.r.Violation(key("catalog-broken-after-"+c.kind), fmt.Sprintf("%s: second store cannot list after %s %s: %v", c.src.name, c.kind, c.desc, lerr), c.replay())
		return
	}
	if failed != nil {
		if len(metas) != 0 {
			e.r.Violation(key("failed-install-listed"), fmt.Sprintf("%s: install failed (%v) but the second store lists %d snapshot(s)", c.src.name, failed, len(metas)), c.replay())
			return
		}
		if !c.mutated {
			e.r.Violation(key("clean-transfer-rejected"), fmt.Sprintf("%s: install of the unmodified stream failed (%s): %v", c.src.name, c.desc, failed), c.replay())
			return
		}
		e.outcome(c, "error: "+c10ErrClass(failed))
		return
	}
	if len(metas) == 0 {
		if !c.mutated {
			e.r.Violation(key("clean-transfer-rejected"), fmt.Sprintf("%s: sink Close()==nil for the unmodified stream (%s) but nothing is installed", c.src.name, c.desc), c.replay())
			return
		}
		e.r.Add("install_close_nil_but_nothing_installed", 1)
		e.outcome(c, "close nil, nothing installed")
		return
	}
	what := "clean-transfer-altered"
	if c.mutated {
		what = c.kind + "-accepted"
	}
	if len(metas) != 1 || metas[0].ID != sink.ID() || metas[0].Index != m.Index || metas[0].Term != m.Term {
		e.r.Violation(key(what), fmt.Sprintf("%s: after %s %s the second store lists %d snapshots / wrong meta", c.src.name, c.kind, c.desc, len(metas)), c.replay())
		return
	}
	// Installed files byte-identical to the source files and sidecars consistent?
	idir := filepath.Join(s2dir, sink.ID())
	identical := true
	for i, f := range c.src.files {
		p := filepath.Join(idir, dbfileName)
		if i > 0 {
			p = filepath.Join(idir, fmt.Sprintf("data-%08d.wal", i-1))
		}
		got, err := os.ReadFile(p)
		if err != nil || !bytes.Equal(got, f) {
			identical = false
			break
		}
	}
	if ents, err := filepath.Glob(filepath.Join(idir, "*"+walfileSuffix)); err != nil || len(ents) != len(c.src.files)-1 {
		identical = false
	}
	verr := s2.Verify()
	if identical && verr == nil && !c.deep {
		e.outcome(c, "installed identical (bytes)")
		return
	}
	// Otherwise (and for a sample of clean deliveries) decide by what a node would
	// restore from the installed snapshot.
	_, rc, err := s2.Open(sink.ID())
	if err != nil {
		e.r.Violation(key(what), fmt.Sprintf("%s: install after %s %s reported success but the snapshot cannot be opened: %v (verify: %v)", c.src.name, c.kind, c.desc, err, verr), c.replay())
		return
	}
	dst := filepath.Join(dir, "from-s2.db")
	_, err = Restore(rc, dst)
	rc.Close()
	if err != nil {
		e.r.Violation(key(what), fmt.Sprintf("%s: install after %s %s reported success but the installed snapshot does not restore: %v", c.src.name, c.kind, c.desc, err), c.replay())
		return
	}
	e.r.Validated(1)
	if same, how := commonSameDB(dst, c.src.want, dir); !same {
		e.r.Violation(key(what), fmt.Sprintf("%s: install after %s %s reported success but the installed database differs from the source: %s", c.src.name, c.kind, c.desc, c10Short(how)), c.replay())
		return
	} else if identical {
		e.outcome(c, "installed identical (bytes, restore checked)")
	} else {
		e.outcome(c, "installed identical ("+how+")")
	}
}

// ---------------------------------------------------------------------------
// sources

func c10OpenSource(t *testing.T, name, storeDir, id string, want *commonState, big bool) *c10Src {
	t.Helper()
	s, err := NewStore(storeDir)
	if err != nil {
		t.Fatal(err)
	}
	s.fatalFn = nil
	defer s.Close()
	meta, rc, err := s.Open(id)
	if err != nil {
		t.Fatalf("c10: opening source snapshot: %v", err)
	}
	stream, err := commonReadAll(rc)
	if err != nil {
		t.Fatal(err)
	}
	if int64(len(stream)) != meta.Size {
		t.Fatalf("c10: stream is %d bytes but meta.Size=%d", len(stream), meta.Size)
	}
	src := &c10Src{name: name, meta: meta, stream: stream, want: want, big: big}
	hl := int(binary.BigEndian.Uint32(stream[:4]))
	src.hdrEnd = 4 + hl
	src.hdr, err = UnmarshalSnapshotHeader(stream[4:src.hdrEnd])
	if err != nil {
		t.Fatal(err)
	}
	full := src.hdr.GetFull()
	off := src.hdrEnd
	for _, h := range append([]*proto.Header{full.DbHeader}, full.WalHeaders...) {
		src.files = append(src.files, stream[off:off+int(h.SizeBytes)])
		off += int(h.SizeBytes)
	}
	if off != len(stream) {
		t.Fatalf("c10: header sizes do not add up")
	}
	// The sender side of store/transport.go: Compressor over the stream with Size.
	comp, err := rzstd.NewCompressor(bytes.NewReader(stream), meta.Size, rzstd.DefaultBufferSize)
	if err != nil {
		t.Fatal(err)
	}
	src.wire, err = io.ReadAll(comp)
	comp.Close()
	if err != nil {
		t.Fatal(err)
	}
	return src
}

// c10BuildIncompressible builds a full-only store whose database (512-byte
// pages) is dominated by a 64 KiB pseudo-random blob, so that zstd cannot shrink
// it: the compressed representation is a few bytes LONGER than the stream.
func c10BuildIncompressible(t *testing.T, root string) *c10Src {
	t.Helper()
	work := filepath.Join(root, "gen-incompressible")
	if err := os.MkdirAll(work, 0o755); err != nil {
		t.Fatal(err)
	}
	p := filepath.Join(work, "big.db")
	d, err := sql.Open("sqlite3", p)
	if err != nil {
		t.Fatal(err)
	}
	d.SetMaxOpenConns(1)
	blob := make([]byte, 64<<10)
	rand.New(rand.NewSource(10)).Read(blob)
	for _, q := range []string{"PRAGMA page_size=512", "CREATE TABLE b(id INTEGER PRIMARY KEY, v BLOB)"} {
		if _, err := d.Exec(q); err != nil {
			t.Fatal(err)
		}
	}
	if _, err := d.Exec("INSERT INTO b(v) VALUES(?)", blob); err != nil {
		t.Fatal(err)
	}
	d.Close()
	img, err := os.ReadFile(p)
	if err != nil {
		t.Fatal(err)
	}
	dump, err := commonDumpBytes(img, work)
	if err != nil {
		t.Fatal(err)
	}
	dir := filepath.Join(root, "store-incompressible")
	st, err := NewStore(dir)
	if err != nil {
		t.Fatal(err)
	}
	id := "1-10-0000000000010"
	createSnapshotInStore(t, st, id, 10, 1, 1, p)
	st.Close()
	return c10OpenSource(t, "full-incompressible-64KiB", dir, id, &commonState{DB: img, Dump: dump}, true)
}

// ---------------------------------------------------------------------------
// header mutations

type c10HdrMut struct {
	class, desc string
	hdrBytes    []byte
}

func c10HeaderMutations(src *c10Src) []c10HdrMut {
	var out []c10HdrMut
	add := func(class, desc string, f func(h *proto.SnapshotHeader)) {
		h := pb.Clone(src.hdr).(*proto.SnapshotHeader)
		f(h)
		b, err := pb.Marshal(h)
		if err != nil {
			panic(err)
		}
		out = append(out, c10HdrMut{class, desc, b})
	}
	raw := func(class, desc string, b []byte) { out = append(out, c10HdrMut{class, desc, b}) }
	orig, _ := pb.Marshal(src.hdr)

	for _, v := range []uint32{0, 2, 1 << 31} {
		add("format-version", fmt.Sprintf("format_version=%d", v), func(h *proto.SnapshotHeader) { h.FormatVersion = v })
	}
	nw := len(src.hdr.GetFull().WalHeaders)
	sizes := func(cur uint64, others ...uint64) []uint64 {
		s := []uint64{0, 1, cur - 1, cur + 1, cur - 512, cur + 512, cur / 2, 1 << 40, 1<<63 - 1, 1 << 63, ^uint64(0)}
		return append(s, others...)
	}
	crcs := func(cur uint32) []uint32 { return []uint32{0, cur + 1, cur - 1, cur ^ 1, cur ^ (1 << 31), ^cur} }
	dbh := src.hdr.GetFull().DbHeader
	var absorb []uint64
	if nw > 0 {
		absorb = append(absorb, dbh.SizeBytes+src.hdr.GetFull().WalHeaders[0].SizeBytes, uint64(len(src.stream)-src.hdrEnd))
	}
	for _, v := range sizes(dbh.SizeBytes, absorb...) {
		add("db-size", fmt.Sprintf("db size_bytes=%d (was %d)", v, dbh.SizeBytes), func(h *proto.SnapshotHeader) { h.GetFull().DbHeader.SizeBytes = v })
	}
	for _, v := range crcs(dbh.Crc32) {
		add("db-crc", fmt.Sprintf("db crc32=%08x (was %08x)", v, dbh.Crc32), func(h *proto.SnapshotHeader) { h.GetFull().DbHeader.Crc32 = v })
	}
	add("no-db-header", "db_header removed", func(h *proto.SnapshotHeader) { h.GetFull().DbHeader = nil })
	add("no-db-header", "db_header empty", func(h *proto.SnapshotHeader) { h.GetFull().DbHeader = &proto.Header{} })
	for i := 0; i < nw; i++ {
		wh := src.hdr.GetFull().WalHeaders[i]
		for _, v := range sizes(wh.SizeBytes) {
			add("wal-size", fmt.Sprintf("wal[%d] size_bytes=%d (was %d)", i, v, wh.SizeBytes), func(h *proto.SnapshotHeader) { h.GetFull().WalHeaders[i].SizeBytes = v })
		}
		for _, v := range crcs(wh.Crc32) {
			add("wal-crc", fmt.Sprintf("wal[%d] crc32=%08x (was %08x)", i, v, wh.Crc32), func(h *proto.SnapshotHeader) { h.GetFull().WalHeaders[i].Crc32 = v })
		}
		cls := "drop-inner-wal-header"
		if i == nw-1 {
			cls = "drop-trailing-wal-headers"
		}
		add(cls, fmt.Sprintf("wal_headers[%d] removed", i), func(h *proto.SnapshotHeader) {
			f := h.GetFull()
			f.WalHeaders = append(f.WalHeaders[:i:i], f.WalHeaders[i+1:]...)
		})
		if i < nw-1 && i > 0 {
			add("drop-trailing-wal-headers", fmt.Sprintf("wal_headers[%d:] removed", i), func(h *proto.SnapshotHeader) { h.GetFull().WalHeaders = h.GetFull().WalHeaders[:i] })
		}
		add("dup-wal-header", fmt.Sprintf("wal_headers[%d] duplicated", i), func(h *proto.SnapshotHeader) {
			f := h.GetFull()
			w := append([]*proto.Header{}, f.WalHeaders[:i+1]...)
			w = append(w, pb.Clone(f.WalHeaders[i]).(*proto.Header))
			f.WalHeaders = append(w, f.WalHeaders[i+1:]...)
		})
		if i+1 < nw {
			add("swap-wal-headers", fmt.Sprintf("wal_headers[%d] and [%d] swapped", i, i+1), func(h *proto.SnapshotHeader) {
				f := h.GetFull()
				f.WalHeaders[i], f.WalHeaders[i+1] = f.WalHeaders[i+1], f.WalHeaders[i]
			})
		}
	}
	if nw > 0 {
		add("drop-trailing-wal-headers", "all wal_headers removed", func(h *proto.SnapshotHeader) { h.GetFull().WalHeaders = nil })
	}
	add("add-wal-header", "extra wal header {0,0} appended", func(h *proto.SnapshotHeader) {
		h.GetFull().WalHeaders = append(h.GetFull().WalHeaders, &proto.Header{})
	})
	add("add-wal-header", "extra wal header {size 32, crc 0} appended", func(h *proto.SnapshotHeader) {
		h.GetFull().WalHeaders = append(h.GetFull().WalHeaders, &proto.Header{SizeBytes: 32})
	})
	add("payload-kind", "payload removed", func(h *proto.SnapshotHeader) { h.Payload = nil })
	add("no-db-header", "payload full{} (empty)", func(h *proto.SnapshotHeader) { h.Payload = &proto.SnapshotHeader_Full{Full: &proto.FullSnapshot{}} })
	add("payload-kind", "payload = incremental_file{nonexistent dir}", func(h *proto.SnapshotHeader) {
		h.Payload = &proto.SnapshotHeader_IncrementalFile{IncrementalFile: &proto.IncrementalFileSnapshot{WalDirPath: "/nonexistent/verif-c10"}}
	})
	add("payload-kind", "payload = incremental_file{empty path}", func(h *proto.SnapshotHeader) {
		h.Payload = &proto.SnapshotHeader_IncrementalFile{IncrementalFile: &proto.IncrementalFileSnapshot{}}
	})
	raw("unknown-field", "unknown varint field 15 appended", append(append([]byte{}, orig...), 0x78, 0x01))
	raw("empty-header", "zero-length header", nil)
	return out
}

// c10WithHeader replaces the framed header of the stream.
func c10WithHeader(src *c10Src, hdrBytes []byte) []byte {
	out := make([]byte, 4, 4+len(hdrBytes)+len(src.stream)-src.hdrEnd)
	binary.BigEndian.PutUint32(out, uint32(len(hdrBytes)))
	out = append(out, hdrBytes...)
	return append(out, src.stream[src.hdrEnd:]...)
}

// c10Ragged returns cut offsets with growing chunk sizes (1,2,3,5,8,...).
func c10Ragged(n int) []int {
	var cuts []int
	a, b, p := 1, 2, 0
	for p+a < n {
		p += a
		cuts = append(cuts, p)
		a, b = b, a+b
	}
	return cuts
}

// ---------------------------------------------------------------------------

func TestVerif_C10(t *testing.T) {
	r := kit.Start(t, "C10", "transfer")
	defer r.Finish()
	th := r.Thorough()
	r.Rule("sources = real Store.Open stream of the newest snapshot of 9 store shapes (512-byte-page databases, distinct content per snapshot) + one full snapshot holding a 64 KiB pseudo-random blob, which zstd cannot shrink (clean deliveries only). targets {second store sink as raft drives it, Restore} x modes {plain, real zstd Compressor -> wire -> real Decompressor}. Clean deliveries (must succeed, identical): every 2-way split at every byte (quick: on the smallest shape, structural boundary offsets +-1 elsewhere; thorough: all shapes), 3-way splits (quick: all pairs of boundary offsets on the smallest shape, all pairs of core offsets = prefix end, header end, file starts and middles, last byte, elsewhere; thorough: all pairs of ALL offsets on the smallest shape, enumerated last, and all pairs of boundary offsets elsewhere). Mutations (must fail or yield identical content; applied to the wire bytes in compressed mode): every truncation length, every byte: flip (quick bit p%8; thorough all 8 bits), drop, insert (copy of the byte; thorough also 0xFF), 5 trailing extensions, and every header field mutation (format version, each size/crc to 6-13 values, remove/duplicate/swap/append WAL headers, payload kind, unknown field), delivered whole and in ragged chunks (quick: alternating by position). distinct = (target, mode, mutation, region, normalised outcome)")
	r.Assume("SQLite (go-sqlite3) is trusted as the content oracle; klauspost zstd is exercised, not modelled")
	r.Assume("raft's own Size check (n != req.Size -> Cancel) is NOT applied, so the sink and Restore are judged on their own; raft's limiting of the wire reader to Size bytes is exercised on the real transport in part 'transport'")

	restoreLogs := commonQuietLogs()
	defer restoreLogs()

	root := commonScratchRoot(t)
	var srcs []*c10Src
	// plus chains whose directory names do not sort like their Raft indexes (90 -> 100): the stream must
	// carry the WAL segments in index order, not in name order
	c10Shapes := append(commonShapes(false),
		commonShape{Name: "full+1wal,inc1,inc1@90..110", FullWALs: 1, Incs: []int{1, 1}, StartIdx: 80},
		commonShape{Name: "full,inc1,inc2@100..120", Incs: []int{1, 2}, StartIdx: 90})
	for _, sh := range c10Shapes {
		if only := os.Getenv("VERIF_C10_SHAPE"); only != "" && only != sh.Name { // debugging aid
			continue
		}
		b := commonBuildStore(t, root, sh)
		srcs = append(srcs, c10OpenSource(t, sh.Name, b.Dir, b.Newest().ID, b.Newest().State, false))
	}
	srcs = append(srcs, c10BuildIncompressible(t, root))
	for _, s := range srcs {
		r.Note("source %s: stream %d bytes (sha256 %x), compressed %d bytes, %d files", s.name, len(s.stream), sha256.Sum256(s.stream), len(s.wire), len(s.files))
	}

	env := &c10Env{r: r, root: filepath.Join(root, "cases")}
	nw := runtime.GOMAXPROCS(0)
	if nw > 16 {
		nw = 16
	}
	ch := make(chan *c10Case, 256)
	var wg sync.WaitGroup
	for w := 0; w < nw; w++ {
		wg.Add(1)
		go func(w int) {
			defer wg.Done()
			for c := range ch {
				env.run(w, c)
			}
		}(w)
	}
	stop := false
	emit := func(c *c10Case) {
		if stop {
			return
		}
		if r.OverBudget() {
			stop = true
			r.Cap("time budget exhausted while enumerating %s", c.src.name)
			return
		}
		ch <- c
	}

	var late []func()
	for si, src := range srcs {
		smallest := si == 0
		for _, install := range []bool{true, false} {
			for _, z := range []bool{false, true} {
				base := src.stream
				bounds := src.boundaries()
				core := src.coreBoundaries()
				regionOf := src.region
				if z {
					base = src.wire
					bounds = src.wireBoundaries()
					core = []int{4, 8, 12, len(base) / 2, len(base) - 4, len(base) - 1}
					regionOf = src.wireRegion
				}
				n := len(base)
				mk := func(kind, class, desc string, data []byte, cuts []int, mutated bool) {
					emit(&c10Case{src: src, install: install, zstd: z, kind: kind, class: class, desc: desc, data: data, cuts: cuts, mutated: mutated})
				}

				// ---- clean deliveries
				emit(&c10Case{src: src, install: install, zstd: z, kind: "split", class: "whole", desc: "single delivery", data: base, deep: true})
				emit(&c10Case{src: src, install: install, zstd: z, kind: "split", class: "ragged", desc: "ragged chunks", data: base, cuts: c10Ragged(n), deep: true})
				if src.big {
					for _, p := range []int{1, 4, src.hdrEnd - 1, src.hdrEnd, src.hdrEnd + 1, src.hdrEnd + 512, n / 2, n - 1} {
						mk("split", "2-way", fmt.Sprintf("cut at %d", p), base, []int{p}, false)
					}
					continue
				}
				if smallest || th {
					for p := 1; p < n; p++ {
						mk("split", "2-way", fmt.Sprintf("cut at %d", p), base, []int{p}, false)
					}
				} else {
					for _, p := range bounds {
						mk("split", "2-way", fmt.Sprintf("cut at %d", p), base, []int{p}, false)
					}
				}
				if smallest && th {
					// every pair of offsets: by far the largest group, enumerated last
					late = append(late, func() {
						for p := 1; p < n; p++ {
							for q := p + 1; q < n; q++ {
								mk("split", "3-way", fmt.Sprintf("cuts at %d,%d", p, q), base, []int{p, q}, false)
							}
						}
					})
				} else {
					pairs := bounds
					if !th && !smallest {
						pairs = core
					}
					for i, p := range pairs {
						for _, q := range pairs[i+1:] {
							mk("split", "3-way", fmt.Sprintf("cuts at %d,%d", p, q), base, []int{p, q}, false)
						}
					}
				}

				// ---- mutations of the delivered bytes
				deliveries := func(p int) [][]int {
					if th {
						return [][]int{nil, c10Ragged(n)}
					}
					if p%2 == 0 {
						return [][]int{nil}
					}
					return [][]int{c10Ragged(n)}
				}
				for L := 0; L < n; L++ {
					where := "end"
					if L < n {
						where = regionOf(L)
					}
					for _, cuts := range deliveries(L) {
						mk("trunc", where, fmt.Sprintf("truncated to %d of %d bytes", L, n), base[:L:L], cuts, true)
					}
				}
				for p := 0; p < n; p++ {
					bits := []int{p % 8}
					if th {
						bits = []int{0, 1, 2, 3, 4, 5, 6, 7}
					}
					for _, bit := range bits {
						d := append([]byte{}, base...)
						d[p] ^= 1 << bit
						for _, cuts := range deliveries(p) {
							mk("flip", regionOf(p), fmt.Sprintf("byte %d bit %d", p, bit), d, cuts, true)
						}
					}
					d := append(append([]byte{}, base[:p]...), base[p+1:]...)
					for _, cuts := range deliveries(p) {
						mk("drop", regionOf(p), fmt.Sprintf("byte %d dropped", p), d, cuts, true)
					}
				}
				for p := 0; p <= n; p++ {
					vals := []byte{0}
					if p < n {
						vals[0] = base[p]
					}
					if th {
						vals = append(vals, 0xFF)
					}
					where := "end"
					if p < n {
						where = regionOf(p)
					}
					for _, v := range vals {
						d := append(append(append([]byte{}, base[:p]...), v), base[p:]...)
						for _, cuts := range deliveries(p) {
							mk("insert", where, fmt.Sprintf("byte 0x%02x inserted at %d", v, p), d, cuts, true)
						}
					}
				}
				exts := map[string][]byte{
					"1 zero byte":        {0},
					"1 page of zeros":    make([]byte, 512),
					"copy of last file":  src.files[len(src.files)-1],
					"copy of the stream": base,
					"a WAL header":       {0x37, 0x7f, 0x06, 0x82, 0x00, 0x2d, 0xe2, 0x18, 0, 0, 2, 0, 0, 0, 0, 0, 0, 0, 0, 0, 0, 0, 0, 0, 0, 0, 0, 0, 0, 0, 0, 0},
				}
				var extNames []string
				for k := range exts {
					extNames = append(extNames, k)
				}
				sort.Strings(extNames)
				for _, name := range extNames {
					d := append(append([]byte{}, base...), exts[name]...)
					for _, cuts := range [][]int{nil, c10Ragged(len(d)), {n}} {
						mk("extend", "end", "appended "+name, d, cuts, true)
					}
				}

				// ---- header field mutations (on the plain stream; compressed mode re-compresses
				// the mutated stream with its own length as Size, i.e. a sender shipping it)
				for _, hm := range c10HeaderMutations(src) {
					d := c10WithHeader(src, hm.hdrBytes)
					size := int64(len(d))
					if z {
						comp, err := rzstd.NewCompressor(bytes.NewReader(d), size, rzstd.DefaultBufferSize)
						if err != nil {
							t.Fatal(err)
						}
						d, err = io.ReadAll(comp)
						comp.Close()
						if err != nil {
							t.Fatal(err)
						}
					}
					for _, cuts := range [][]int{nil, c10Ragged(len(d))} {
						emit(&c10Case{src: src, install: install, zstd: z, kind: "header", class: hm.class, desc: hm.desc, data: d, cuts: cuts, mutated: true})
					}
				}
			}
		}
	}
	for _, f := range late {
		f()
	}
	close(ch)
	wg.Wait()
	r.State(len(srcs))
}
