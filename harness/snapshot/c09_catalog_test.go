package snapshot

// C09 "Snapshot catalog stays well-formed and full-needed is honoured"
// (E-SEQ explicit-state search + E-CRASH images of sink close).
//
// A state is an operation list; it is materialised by replaying the list on a
// fresh directory with the REAL snapshot.Store (the Store object lives across
// the operations of a list; it is only re-created by the reopen and crash
// operations). A small Go model (ordered list of (kind, #WALs, index, term,
// data position), the full-needed flag) is stepped alongside and compared with
// the store in every state reached. Search is breadth-first over the alphabet
// below, simplest operation first; states are merged on a canonical key.
//
// Data: one generator database (512-byte pages) produces a base state S0 and a
// chain of WAL segments seg1..segN with the states S1..SN SQLite itself reaches
// after each. A full snapshot taken when the newest snapshot is at position q
// carries the database S(q+1); an incremental of n segments carries
// seg(q+1)..seg(q+n). So every well-formed catalog resolves to exactly one
// known state per snapshot and any mixed-up, missing, duplicated or reordered
// file shows in the restored content.
//
// Alphabet
//
//	full            Create, write header+database, Close           -> if Close succeeds: listed, full-needed cleared
//	                                                                  (an error without cause is tolerated: then not listed, flag unchanged)
//	full+wal        same with one WAL segment in the stream (an installed db+WAL snapshot)
//	full-cancel     Create, write half of the stream, Cancel       -> nothing installed, flag unchanged
//	full-short      Create, write all but the last byte, Close     -> Close must fail, nothing installed, flag unchanged
//	full-badcrc     Create, stream whose header CRC is wrong, Close-> Close must fail, nothing installed (thorough)
//	inc1 / inc2     stage 1 / 2 WAL segments, Create, write the path header, Close
//	                 - if a full snapshot is required (flag set or store empty): the header Write must be
//	                   rejected (then Cancel, as raft does), nothing installed, flag unchanged
//	                 - otherwise: installed if Close succeeds (a refusal is tolerated: then not listed)
//	inc-cancel      stage 1 segment, header accepted, Cancel       -> nothing installed
//	inc-straddle    stage 1 segment, header accepted, SetDueNext(Full), Close
//	                 -> the incremental must not be installed and the flag must stay set
//	set-full-needed SetDueNext(Full)
//	reap            Reap()                                          -> model consolidates (on an error: catalog must be unchanged)
//	reopen          Close, NewStore on the same directory           -> must succeed; no *.tmp entry left
//	crash@i         (for full, full+wal, inc1, inc2) the operation runs with the crash recorder installed from
//	                Create to the end of Close; image i is what a killed process leaves; the store directory
//	                is replaced by the image and reopened. Allowed outcomes: the new snapshot is absent and
//	                the flag is unchanged, or it is present (complete) and the flag is unchanged or cleared.
//
// Oracle in every state: ListAll/List/LatestIndexTerm/Len equal the model
// (newest first); kind and WAL count of every snapshot equal the model;
// ResolveFiles of every snapshot is the data.db of the nearest older-or-equal
// full snapshot followed by exactly the WAL files of the chain in order; the
// stream returned by Open restores (Restore) to the model's state for that
// snapshot (restores are memoised on the stream bytes); the flag file and
// DueNext equal the model; the store directory holds nothing but the listed
// snapshot directories, the flag file and (only before a reopen) the *.tmp
// directory of a failed Close.

import (
	"bytes"
	"crypto/sha256"
	"encoding/binary"
	"encoding/json"
	"fmt"
	"io"
	"os"
	"path/filepath"
	"regexp"
	"runtime"
	"sort"
	"strings"
	"sync"
	"testing"

	"github.com/hashicorp/raft"
	kit "github.com/rqlite/rqlite/v10/internal/verifkit"
	vfs "github.com/rqlite/rqlite/v10/internal/verifvfs"
	pb "google.golang.org/protobuf/proto"
)

// ---------------------------------------------------------------------------
// data

type c09Data struct {
	dir    string
	states []*commonState // S0..SN
	dbPath []string       // file holding states[k].DB
	segs   []string       // segs[k] = file of segment k (1-based; segs[0] unused)

	mu      sync.Mutex
	streams map[string][]byte
}

func c09NewData(t *testing.T, root string, n int) *c09Data {
	d := &c09Data{dir: filepath.Join(root, "c09-data"), streams: map[string][]byte{}}
	if err := os.MkdirAll(d.dir, 0o755); err != nil {
		t.Fatal(err)
	}
	g := commonNewGen(t, d.dir, "c09")
	defer g.close()
	save := func(k int, st *commonState) {
		p := filepath.Join(d.dir, fmt.Sprintf("S%d.db", k))
		if err := os.WriteFile(p, st.DB, 0o644); err != nil {
			t.Fatal(err)
		}
		d.states = append(d.states, st)
		d.dbPath = append(d.dbPath, p)
	}
	save(0, g.state())
	d.segs = append(d.segs, "")
	seen := map[string]int{d.states[0].Dump: 0}
	for k := 1; k <= n; k++ {
		p := filepath.Join(d.dir, fmt.Sprintf("seg%d.wal", k))
		st := g.segment(p)
		d.segs = append(d.segs, p)
		save(k, st)
		if j, dup := seen[st.Dump]; dup {
			t.Fatalf("c09: generator states %d and %d are equal", j, k)
		}
		seen[st.Dump] = k
	}
	// cross-check the chain with SQLite itself: S(k-1) + seg k == S(k)
	for k := 1; k <= n; k++ {
		w, err := os.ReadFile(d.segs[k])
		if err != nil {
			t.Fatal(err)
		}
		got, err := commonReplayWithSQLite(d.states[k-1].DB, [][]byte{w}, d.dir)
		if err != nil || got.Dump != d.states[k].Dump {
			t.Fatalf("c09: generator chain broken at segment %d: %v", k, err)
		}
	}
	return d
}

// fullStream returns the snapshot stream (header + database S(pos-nwal) + nwal
// segments) of a full snapshot that represents position pos.
func (d *c09Data) fullStream(pos, nwal int) ([]byte, error) {
	key := fmt.Sprintf("%d/%d", pos, nwal)
	d.mu.Lock()
	defer d.mu.Unlock()
	if b, ok := d.streams[key]; ok {
		return b, nil
	}
	var wals []string
	for k := pos - nwal + 1; k <= pos; k++ {
		wals = append(wals, d.segs[k])
	}
	st, err := NewSnapshotStreamer(d.dbPath[pos-nwal], wals...)
	if err != nil {
		return nil, err
	}
	if err := st.Open(); err != nil {
		return nil, err
	}
	b, err := io.ReadAll(st)
	st.Close()
	if err != nil {
		return nil, err
	}
	d.streams[key] = b
	return b, nil
}

// badCRC returns stream with the database CRC32 in its header changed.
func c09BadCRC(stream []byte) ([]byte, error) {
	n := int(binary.BigEndian.Uint32(stream[:HeaderSizeLen]))
	hdr, err := UnmarshalSnapshotHeader(stream[HeaderSizeLen : HeaderSizeLen+n])
	if err != nil {
		return nil, err
	}
	f := hdr.GetFull()
	if f == nil || f.DbHeader == nil {
		return nil, fmt.Errorf("not a full header")
	}
	f.DbHeader.Crc32 ^= 0x00010000
	hb, err := pb.Marshal(hdr)
	if err != nil {
		return nil, err
	}
	out := make([]byte, HeaderSizeLen, len(stream)+8)
	binary.BigEndian.PutUint32(out, uint32(len(hb)))
	out = append(out, hb...)
	out = append(out, stream[HeaderSizeLen+n:]...)
	return out, nil
}

// ---------------------------------------------------------------------------
// model

type c09Snap struct {
	Full        bool
	NWal        int
	Index, Term uint64
	Pos         int
}

type c09Model struct {
	Cat        []c09Snap // oldest -> newest
	FullNeeded bool
	Creates    int // Create calls so far: drives index and term of the next snapshot
	Tmp        int // *.tmp directories a failed Close left behind (removed by the next start)
}

func (m c09Model) clone() c09Model {
	m.Cat = append([]c09Snap(nil), m.Cat...)
	return m
}

func (m *c09Model) pos() int {
	if len(m.Cat) == 0 {
		return 0
	}
	return m.Cat[len(m.Cat)-1].Pos
}

func (m *c09Model) fullDue() bool { return m.FullNeeded || len(m.Cat) == 0 }

// c09IndexTerm: indexes 8,9,10,11,.. and terms 9,9,9,10,10,.. so that the order
// of the snapshot IDs as strings ("9-10-.." < "9-9-..", "10-11-.." < "9-..")
// disagrees with the (term, index) order at both digit boundaries.
func c09IndexTerm(k int) (uint64, uint64) {
	term := uint64(9)
	if k >= 3 {
		term = 10
	}
	return uint64(8 + k), term
}

func (m *c09Model) key() string {
	var sb strings.Builder
	for _, s := range m.Cat {
		if s.Full {
			fmt.Fprintf(&sb, "F%d ", s.NWal)
		} else {
			fmt.Fprintf(&sb, "I%d ", s.NWal)
		}
	}
	fmt.Fprintf(&sb, "| full-needed=%v creates=%d tmp=%d", m.FullNeeded, m.Creates, m.Tmp)
	return sb.String()
}

func (m *c09Model) reap() {
	if len(m.Cat) <= 1 {
		return
	}
	fi := -1
	for i := len(m.Cat) - 1; i >= 0; i-- {
		if m.Cat[i].Full {
			fi = i
			break
		}
	}
	if fi < 0 {
		return
	}
	nw := 0
	for _, s := range m.Cat[fi:] {
		nw += s.NWal
	}
	if fi == len(m.Cat)-1 && nw == 0 {
		m.Cat = []c09Snap{m.Cat[fi]}
		return
	}
	newest := m.Cat[len(m.Cat)-1]
	m.Cat = []c09Snap{{Full: true, NWal: 0, Index: newest.Index, Term: newest.Term, Pos: newest.Pos}}
}

// ---------------------------------------------------------------------------
// operations

type c09Op struct {
	Kind  string `json:"op"`
	Img   int    `json:"image,omitempty"`        // crash: ordinal of the image taken (1-based)
	Label string `json:"label,omitempty"`        // crash: the crash point that produced the image
	Var   int    `json:"torn_variant,omitempty"` // crash inside the call that led to the image: ordinal of the derived torn state (1-based)
	Torn  string `json:"torn,omitempty"`
}

// c09TornOpts: torn states of single-file writes and of multi-entry removals.
var c09TornOpts = vfs.TornOptions{Overlay: true, Removals: true}

// c09Pick returns the image (or derived torn image) a crash operation names.
func c09Pick(rec *vfs.Recorder, imgs []vfs.Image, op c09Op) (vfs.Image, error) {
	if op.Img < 1 || op.Img > len(imgs) || imgs[op.Img-1].Label != op.Label {
		return vfs.Image{}, fmt.Errorf("image %d is not at %s (%d images)", op.Img, op.Label, len(imgs))
	}
	im := imgs[op.Img-1]
	if op.Var == 0 {
		return im, nil
	}
	vars, _, err := rec.TornVariants(im, c09TornOpts)
	if err != nil {
		return vfs.Image{}, err
	}
	if op.Var > len(vars) {
		return vfs.Image{}, fmt.Errorf("image %d has %d torn variants, want %d", op.Img, len(vars), op.Var)
	}
	return vars[op.Var-1], nil
}

func (o c09Op) String() string {
	if o.Var > 0 {
		return fmt.Sprintf("%s@inside-the-call-before-%d(%s)[%s]", o.Kind, o.Img, o.Label, o.Torn)
	}
	if o.Img > 0 {
		return fmt.Sprintf("%s@%d(%s)", o.Kind, o.Img, o.Label)
	}
	return o.Kind
}

func c09OpsString(ops []c09Op) string {
	var s []string
	for _, o := range ops {
		s = append(s, o.String())
	}
	return strings.Join(s, " ; ")
}

// crashable operations (the part after "crash:")
var c09Crashable = map[string]bool{"full": true, "full+wal": true, "inc1": true, "inc2": true}

func c09Alphabet(th bool) []string {
	a := []string{"reopen", "set-full-needed", "reap", "full", "inc1", "inc2", "full-short", "full-cancel", "inc-cancel", "full+wal", "inc-straddle"}
	if th {
		a = append(a, "full-badcrc")
	}
	return a
}

// ---------------------------------------------------------------------------
// live state

type c09Env struct {
	r    *kit.Run
	t    *testing.T
	d    *c09Data
	root string

	seq      sync.Mutex
	caseSeq  int
	verified sync.Map // sha256(stream) -> pos it restores to (memo of successful restores)

	mu          sync.Mutex
	labelCounts map[string]int
	crashImgs   int
	tornImgs    int
	outcomes    map[string]int
	refusals    map[string]int
	restores    int
}

type c09Live struct {
	e    *c09Env
	root string // contains store/ and the staging directories
	s    *Store
	m    c09Model
	ops  []c09Op
	nrec int
	// countOutcome: this crash successor is being evaluated (not replayed as a prefix)
	countOutcome bool
	vio          bool // a violation was recorded in this state (do not expand)
	fault        bool // harness fault
}

func (e *c09Env) newRoot() string {
	e.seq.Lock()
	e.caseSeq++
	n := e.caseSeq
	e.seq.Unlock()
	return filepath.Join(e.root, fmt.Sprintf("case-%d", n))
}

func (l *c09Live) storeDir() string { return filepath.Join(l.root, "store") }

func (l *c09Live) open() error {
	s, err := NewStore(l.storeDir())
	if err != nil {
		return err
	}
	s.fatalFn = nil
	s.reapDisabled.Set() // reaping is an explicit operation of the alphabet
	l.s = s
	return nil
}

func (l *c09Live) close() {
	if l.s != nil {
		l.s.Close()
		l.s = nil
	}
}

func (l *c09Live) violation(key, what string) {
	l.vio = true
	l.e.r.Violation(key, fmt.Sprintf("after [%s]: %s", c09OpsString(l.ops), what), map[string]any{"ops": l.ops})
}

func (l *c09Live) create() (*Sink, uint64, uint64, error) {
	idx, term := c09IndexTerm(l.m.Creates)
	l.m.Creates++
	rs, err := l.s.Create(raft.SnapshotVersion(1), idx, term, makeTestConfiguration("1", "localhost:1"), 1, nil)
	if err != nil {
		return nil, 0, 0, err
	}
	sink := rs.(*Sink)
	sink.fatalFn = nil
	return sink, idx, term, nil
}

// stage creates the staging directory of an incremental snapshot of n segments.
func (l *c09Live) stage(n int) (string, error) {
	dir := filepath.Join(l.root, fmt.Sprintf("stage-%d", l.m.Creates))
	if err := os.MkdirAll(dir, 0o755); err != nil {
		return "", err
	}
	q := l.m.pos()
	for i := 1; i <= n; i++ {
		b, err := os.ReadFile(l.e.d.segs[q+i])
		if err != nil {
			return "", err
		}
		sd := NewStagingDir(dir)
		w, _, err := sd.CreateWAL() // the producer side the node uses: timestamped name + sidecar
		if err != nil {
			return "", err
		}
		if _, err := w.Write(b); err != nil {
			return "", err
		}
		if err := w.Close(); err != nil {
			return "", err
		}
	}
	return dir, nil
}

func c09PathHeader(dir string) ([]byte, error) {
	st, err := NewSnapshotPathStreamer(dir)
	if err != nil {
		return nil, err
	}
	return io.ReadAll(st)
}

func c09WriteChunks(w io.Writer, b []byte) error {
	cut := 7
	if cut > len(b) {
		cut = len(b)
	}
	if _, err := w.Write(b[:cut]); err != nil {
		return err
	}
	if len(b) > cut {
		_, err := w.Write(b[cut:])
		return err
	}
	return nil
}

// apply executes one (non-crash) operation on the live store, steps the model
// and records a violation if the operation's own contract is broken. It
// returns false if the state must not be used further.
func (l *c09Live) apply(kind string) bool {
	e := l.e
	l.ops = append(l.ops, c09Op{Kind: kind})
	fail := func(err error) bool {
		l.violation("C09:restart-fails:"+kind, fmt.Sprintf("the store cannot be opened: %v", err))
		return false
	}
	fault := func(err error) bool {
		l.fault = true
		e.t.Errorf("c09: harness fault in %s after [%s]: %v", kind, c09OpsString(l.ops), err)
		return false
	}
	// refused: a creation (or reap) that returns an error although nothing is wrong
	// with it. The statement does not demand that it succeeds, only that a failed
	// creation is not listed and does not touch the flag; the model takes the
	// "nothing installed" branch and the state oracle decides. Counted in the evidence.
	refused := func(err error) bool {
		e.r.Distinct(kind + " -> refused without cause: " + c09ErrClass(err))
		e.mu.Lock()
		e.refusals[kind]++
		e.mu.Unlock()
		l.syncTmp()
		return true
	}
	switch kind {
	case "reopen":
		l.close()
		if err := l.open(); err != nil {
			return fail(err)
		}
		l.m.Tmp = 0

	case "set-full-needed":
		if err := l.s.SetDueNext(Full); err != nil {
			l.m.FullNeeded = l.m.FullNeeded || fsutilFileExistsC09(filepath.Join(l.storeDir(), fullNeededFile))
			return refused(err)
		}
		l.m.FullNeeded = true

	case "reap":
		if _, _, err := l.s.Reap(); err != nil {
			return refused(err) // the catalog must still be the unconsolidated one and well-formed
		}
		l.m.reap()

	case "full", "full+wal", "full-short", "full-cancel", "full-badcrc":
		nwal := 0
		if kind == "full+wal" {
			nwal = 1
		}
		pos := l.m.pos() + 1 + nwal
		stream, err := e.d.fullStream(pos, nwal)
		if err != nil {
			return fault(err)
		}
		sink, idx, term, err := l.create()
		if err != nil {
			return refused(err)
		}
		switch kind {
		case "full", "full+wal":
			if err := c09WriteChunks(sink, stream); err != nil {
				sink.Cancel()
				return refused(err)
			}
			if err := sink.Close(); err != nil {
				return refused(err)
			}
			l.m.Cat = append(l.m.Cat, c09Snap{Full: true, NWal: nwal, Index: idx, Term: term, Pos: pos})
			l.m.FullNeeded = false
		case "full-cancel":
			if err := c09WriteChunks(sink, stream[:len(stream)/2]); err != nil {
				sink.Cancel()
				return refused(err)
			}
			sink.Cancel() // its result is not the property's business (raft ignores it)
			l.syncTmp()
		case "full-short":
			if err := c09WriteChunks(sink, stream[:len(stream)-1]); err != nil {
				sink.Cancel()
				return refused(err)
			}
			if err := sink.Close(); err == nil {
				l.violation("C09:incomplete-snapshot-accepted:full-short", "Close of a full snapshot whose stream lacks its last byte succeeded")
				return false
			}
			l.syncTmp()
		case "full-badcrc":
			bad, err := c09BadCRC(stream)
			if err != nil {
				return fault(err)
			}
			if err := c09WriteChunks(sink, bad); err != nil {
				sink.Cancel()
				return refused(err)
			}
			if err := sink.Close(); err == nil {
				l.violation("C09:incomplete-snapshot-accepted:full-badcrc", "Close of a full snapshot whose header CRC32 does not match the data succeeded")
				return false
			}
			l.syncTmp()
		}

	case "inc1", "inc2", "inc-cancel", "inc-straddle":
		n := 1
		if kind == "inc2" {
			n = 2
		}
		due := l.m.fullDue()
		pos := l.m.pos() + n
		dir, err := l.stage(n)
		if err != nil {
			return fault(err)
		}
		hdr, err := c09PathHeader(dir)
		if err != nil {
			return fault(err)
		}
		sink, idx, term, err := l.create()
		if err != nil {
			os.RemoveAll(dir)
			return refused(err)
		}
		werr := c09WriteChunks(sink, hdr)
		if due {
			// a full snapshot is required: the incremental must be refused
			if werr == nil {
				cerr := sink.Close()
				l.violation("C09:incremental-accepted-while-full-needed:"+kind,
					fmt.Sprintf("the header of an incremental snapshot was accepted although a full snapshot is required (full-needed flag %v, %d snapshots); Close returned %v", l.m.FullNeeded, len(l.m.Cat), cerr))
				return false
			}
			sink.Cancel() // what raft does after a failed Persist
			os.RemoveAll(dir)
			l.syncTmp()
			break
		}
		if werr != nil {
			sink.Cancel()
			os.RemoveAll(dir)
			return refused(werr)
		}
		switch kind {
		case "inc-cancel":
			sink.Cancel()
			os.RemoveAll(dir)
			l.syncTmp()
		case "inc-straddle":
			if err := l.s.SetDueNext(Full); err != nil {
				sink.Cancel()
				os.RemoveAll(dir)
				l.m.FullNeeded = l.m.FullNeeded || fsutilFileExistsC09(filepath.Join(l.storeDir(), fullNeededFile))
				return refused(err)
			}
			l.m.FullNeeded = true
			cerr := sink.Close()
			os.RemoveAll(dir)
			l.syncTmp()
			if cerr == nil {
				flag := fsutilFileExistsC09(filepath.Join(l.storeDir(), fullNeededFile))
				l.violation("C09:incremental-installed-while-full-needed:flag-set-between-header-and-close",
					fmt.Sprintf("an incremental snapshot whose header was accepted before SetDueNext(Full) was installed by Close after it; full-needed flag afterwards present=%v", flag))
				return false
			}
			// refused: the state oracle checks that it is not listed and the flag is still set
		default:
			if err := sink.Close(); err != nil {
				os.RemoveAll(dir)
				return refused(err)
			}
			l.m.Cat = append(l.m.Cat, c09Snap{Full: false, NWal: n, Index: idx, Term: term, Pos: pos})
		}

	default:
		return fault(fmt.Errorf("unknown op %q", kind))
	}
	return true
}

// syncTmp: an operation that fails or is cancelled may leave its *.tmp directory
// behind until the next start (the property allows that); the model takes the
// observed number.
func (l *c09Live) syncTmp() {
	_, tmps, _ := l.storeEntries()
	l.m.Tmp = len(tmps)
}

// storeEntries lists the store directory: snapshot directories, tmp entries, other.
func (l *c09Live) storeEntries() (dirs, tmps, other []string) {
	ents, _ := os.ReadDir(l.storeDir())
	for _, en := range ents {
		switch {
		case isTmpName(en.Name()):
			tmps = append(tmps, en.Name())
		case en.IsDir():
			dirs = append(dirs, en.Name())
		case en.Name() == fullNeededFile:
		default:
			other = append(other, en.Name())
		}
	}
	return
}

// check evaluates the state oracle. op names the last operation (for class keys).
func (l *c09Live) check(op string) bool {
	e := l.e
	m := &l.m
	bad := func(what, detail string) bool {
		l.violation("C09:"+what+":after-"+op, detail)
		return false
	}
	all, err := l.s.ListAll()
	if err != nil {
		return bad("list-fails", "ListAll: "+err.Error())
	}
	want := make([]string, 0, len(m.Cat))
	for i := len(m.Cat) - 1; i >= 0; i-- {
		want = append(want, fmt.Sprintf("(t%d,i%d)", m.Cat[i].Term, m.Cat[i].Index))
	}
	got := make([]string, 0, len(all))
	for _, a := range all {
		got = append(got, fmt.Sprintf("(t%d,i%d)", a.Term, a.Index))
	}
	if strings.Join(got, "") != strings.Join(want, "") {
		what := "catalog-differs"
		gs, ws := append([]string{}, got...), append([]string{}, want...)
		sort.Strings(gs)
		sort.Strings(ws)
		if strings.Join(gs, "") == strings.Join(ws, "") {
			what = "catalog-order-differs"
		}
		return bad(what, fmt.Sprintf("ListAll (newest first) = %v, model = %v", got, want))
	}
	lst, err := l.s.List()
	if err != nil {
		return bad("list-fails", "List: "+err.Error())
	}
	if len(m.Cat) == 0 && len(lst) != 0 || len(m.Cat) > 0 && (len(lst) != 1 || lst[0].ID != all[0].ID) {
		return bad("catalog-differs", fmt.Sprintf("List returned %d entries, ListAll %d", len(lst), len(all)))
	}
	if n := l.s.Len(); n != len(m.Cat) {
		return bad("catalog-differs", fmt.Sprintf("Len() = %d, model %d", n, len(m.Cat)))
	}
	li, lt, lerr := l.s.LatestIndexTerm()
	if len(m.Cat) == 0 {
		if lerr == nil {
			return bad("catalog-differs", "LatestIndexTerm succeeded on an empty catalog")
		}
	} else if nw := m.Cat[len(m.Cat)-1]; lerr != nil || li != nw.Index || lt != nw.Term {
		return bad("catalog-differs", fmt.Sprintf("LatestIndexTerm = (%d,%d,%v), model newest (%d,%d)", li, lt, lerr, nw.Index, nw.Term))
	}

	// the flag
	flag := fsutilFileExistsC09(filepath.Join(l.storeDir(), fullNeededFile))
	if flag != m.FullNeeded {
		if m.FullNeeded {
			return bad("full-needed-wrongly-cleared", "the full-needed flag is gone although no full snapshot was installed since it was set")
		}
		return bad("full-needed-wrongly-set", "the full-needed flag is present although the model has it cleared")
	}
	// only the dangerous direction is a violation: a full snapshot is required but the store says incremental
	if due, err := l.s.DueNext(); m.fullDue() && (err != nil || due != Full) {
		return bad("due-next-incremental-while-full-needed", fmt.Sprintf("DueNext = %v (%v) although a full snapshot is required (flag %v, %d snapshots)", due, err, m.FullNeeded, len(m.Cat)))
	}

	// directory content
	dirs, tmps, other := l.storeEntries()
	if len(dirs) != len(m.Cat) || len(other) > 0 {
		return bad("unexpected-directory-entries", fmt.Sprintf("store directory holds snapshot dirs %v and other entries %v; %d snapshots are listed", dirs, other, len(m.Cat)))
	}
	if len(tmps) != m.Tmp {
		if op == "reopen" || strings.HasPrefix(op, "crash") {
			return bad("tmp-left-after-restart", fmt.Sprintf("temporary entries %v are present after a restart", tmps))
		}
		return bad("unexpected-tmp-entries", fmt.Sprintf("temporary entries %v, expected %d", tmps, m.Tmp))
	}

	// kinds, resolution, content
	set, err := l.s.getSnapshots()
	if err != nil {
		return bad("list-fails", "Scan: "+err.Error())
	}
	items := set.All()
	for i, sn := range items { // oldest -> newest, same order as the model
		ms := m.Cat[i]
		if sn.typ.IsFull() != ms.Full || len(sn.walFiles) != ms.NWal {
			return bad("kind-or-wal-count-differs", fmt.Sprintf("snapshot %s is %v with %d WAL files, model: full=%v with %d", sn.id, sn.typ, len(sn.walFiles), ms.Full, ms.NWal))
		}
		// expected resolution
		f := i
		for f >= 0 && !m.Cat[f].Full {
			f--
		}
		if f < 0 {
			return bad("no-full-below-incremental", fmt.Sprintf("model has no full snapshot at or below position %d", i))
		}
		var wantW []string
		for k := f; k <= i; k++ {
			for _, w := range items[k].walFiles {
				wantW = append(wantW, w.Path)
			}
		}
		dbf, wfs, err := set.ResolveFiles(sn.id)
		if err != nil {
			return bad("resolve-fails", fmt.Sprintf("ResolveFiles(%s): %v", sn.id, err))
		}
		var gotW []string
		for _, w := range wfs {
			gotW = append(gotW, w.Path)
		}
		if dbf == nil || dbf.Path != filepath.Join(items[f].path, dbfileName) || strings.Join(gotW, "|") != strings.Join(wantW, "|") {
			return bad("resolution-differs", fmt.Sprintf("ResolveFiles(%s) = %v + %v, expected %s + %v", sn.id, dbf, gotW, filepath.Join(items[f].path, dbfileName), wantW))
		}
		// Open + Restore
		meta, rc, err := l.s.Open(sn.id)
		if err != nil {
			return bad("open-fails", fmt.Sprintf("Open(%s): %v", sn.id, err))
		}
		stream, err := io.ReadAll(rc)
		rc.Close()
		if err != nil {
			return bad("open-fails", fmt.Sprintf("reading the stream of %s: %v", sn.id, err))
		}
		if meta.Index != ms.Index || meta.Term != ms.Term || meta.Size != int64(len(stream)) {
			return bad("open-meta-differs", fmt.Sprintf("Open(%s) meta index %d term %d size %d; model (%d,%d), stream %d bytes", sn.id, meta.Index, meta.Term, meta.Size, ms.Index, ms.Term, len(stream)))
		}
		h := sha256.Sum256(stream)
		if v, ok := e.verified.Load(h); ok && v.(int) == ms.Pos {
			continue
		}
		dst := filepath.Join(l.root, "restored.db")
		os.Remove(dst)
		_, err = Restore(bytes.NewReader(stream), dst)
		if err != nil {
			return bad("restore-fails", fmt.Sprintf("Restore of snapshot %s (%d of %d): %v", sn.id, i+1, len(items), err))
		}
		same, how := commonSameDB(dst, e.d.states[ms.Pos], l.root)
		os.Remove(dst)
		e.mu.Lock()
		e.restores++
		e.mu.Unlock()
		if !same {
			if len(how) > 500 {
				how = how[:500] + "..."
			}
			return bad("content-differs", fmt.Sprintf("snapshot %s (%d of %d, full=%v) does not restore to the state it was taken at (S%d): %s", sn.id, i+1, len(items), ms.Full, ms.Pos, how))
		}
		e.verified.Store(h, ms.Pos)
	}
	return true
}

func fsutilFileExistsC09(p string) bool { fi, err := os.Stat(p); return err == nil && !fi.IsDir() }

// materialise replays ops on a fresh directory. check is not evaluated for the
// prefix (every prefix state was checked when it was first reached).
func (e *c09Env) materialise(ops []c09Op) *c09Live {
	l := &c09Live{e: e, root: e.newRoot()}
	if err := os.MkdirAll(l.root, 0o755); err != nil {
		e.t.Errorf("c09: %v", err)
		l.fault = true
		return l
	}
	if err := l.open(); err != nil {
		e.t.Errorf("c09: NewStore on an empty directory: %v", err)
		l.fault = true
		return l
	}
	for _, op := range ops {
		if op.Img == 0 {
			if !l.apply(op.Kind) {
				if !l.fault {
					e.t.Errorf("c09: replay of [%s] diverged at %s (not deterministic?)", c09OpsString(ops), op)
					l.fault = true
				}
				return l
			}
			continue
		}
		// crash operation in a prefix: record again, take the same image
		pre := l.m.clone()
		imgs, rec := l.record(strings.TrimPrefix(op.Kind, "crash:"))
		if l.fault {
			return l
		}
		im, err := c09Pick(rec, imgs, op)
		if err != nil {
			e.t.Errorf("c09: replay of [%s]: %v", c09OpsString(ops), err)
			l.fault = true
			return l
		}
		l.ops = l.ops[:len(l.ops)-1] // the completed operation is replaced by its crash variant
		if !l.crashInto(im, pre, op) {
			return l
		}
	}
	return l
}

// record runs a crashable operation with the recorder installed and returns
// the images; l is left in the state after the completed operation.
func (l *c09Live) record(kind string) ([]vfs.Image, *vfs.Recorder) {
	l.nrec++
	os.RemoveAll(l.root + "-imgs") // images of an earlier recording of this list are no longer needed
	rec := &vfs.Recorder{Root: l.root, ImgDir: filepath.Join(l.root+"-imgs", fmt.Sprintf("r%d", l.nrec))}
	un := vfs.InstallLocal(rec)
	ok := l.apply(kind)
	rec.Snap("after-close")
	un()
	if !ok && !l.vio {
		l.fault = true
	}
	if errs := rec.Errors(); len(errs) > 0 {
		l.e.t.Errorf("c09: recorder errors: %v", errs)
		l.fault = true
	}
	return rec.Images(), rec
}

// crashInto replaces the directory by image img (taken while the operation of
// op ran from model state pre), restarts the store and derives the model from
// the allowed outcomes. It returns false (after recording a violation) if the
// observed outcome is not allowed.
func (l *c09Live) crashInto(img vfs.Image, pre c09Model, op c09Op) bool {
	kind := strings.TrimPrefix(op.Kind, "crash:")
	post := l.m // the model after the completed operation
	l.close()
	if err := os.RemoveAll(l.root); err != nil {
		l.fault = true
		l.e.t.Errorf("c09: %v", err)
		return false
	}
	if err := vfs.CopyTree(img.Dir, l.root); err != nil {
		l.fault = true
		l.e.t.Errorf("c09: %v", err)
		return false
	}
	// staging directories belong to the node above the store; it removes them at start-up
	if ents, err := os.ReadDir(l.root); err == nil {
		for _, en := range ents {
			if strings.HasPrefix(en.Name(), "stage-") {
				os.RemoveAll(filepath.Join(l.root, en.Name()))
			}
		}
	}
	l.ops = append(l.ops, op)
	if err := l.open(); err != nil {
		l.violation("C09:crash:"+kind+":restart-fails", fmt.Sprintf("NewStore on the crash image taken at %s fails: %v", img.Label, err))
		return false
	}
	// Which outcome is it?
	all, err := l.s.ListAll()
	if err != nil {
		l.violation("C09:crash:"+kind+":list-fails", fmt.Sprintf("ListAll after restart from the crash image taken at %s: %v", img.Label, err))
		return false
	}
	installed := len(post.Cat) > len(pre.Cat) && len(all) == len(post.Cat)
	flag := fsutilFileExistsC09(filepath.Join(l.storeDir(), fullNeededFile))
	var m c09Model
	if installed {
		m = post.clone()
		m.FullNeeded = pre.FullNeeded
		if !flag {
			m.FullNeeded = false // cleared by the installed snapshot: allowed
		}
	} else {
		m = pre.clone()
		m.Creates = post.Creates
		if flag != pre.FullNeeded && !flag {
			l.m = m
			l.violation("C09:crash:"+kind+":full-needed-cleared-without-install",
				fmt.Sprintf("crash at %s: the new snapshot is not listed after restart but the full-needed flag is gone", img.Label))
			return false
		}
	}
	m.Tmp = 0
	l.m = m
	if l.countOutcome {
		l.e.mu.Lock()
		l.e.outcomes[fmt.Sprintf("%s: installed=%v flag %v->%v", kind, installed, pre.FullNeeded, flag)]++
		l.e.mu.Unlock()
	}
	return true
}

// ---------------------------------------------------------------------------

type c09Node struct {
	ops []c09Op
	m   c09Model
}

func TestVerif_C09(t *testing.T) {
	r := kit.Start(t, "C09", "catalog")
	defer r.Finish()
	th := r.Thorough()
	maxDepth := r.Pick(4, 6)
	if v := os.Getenv("VERIF_C09_DEPTH"); v != "" {
		fmt.Sscanf(v, "%d", &maxDepth)
	}
	alphabet := c09Alphabet(th)
	r.Rule(fmt.Sprintf("breadth-first search over operation lists of length <= %d on the real snapshot.Store (each list replayed on a fresh directory; the Store object lives across the operations and is re-created only by reopen/crash), alphabet {%s} plus, for full, full+wal, inc1, inc2, one 'crash' successor per distinct directory image the crash recorder takes between Create and the end of Close and per torn state of a single-file write or multi-entry removal between two images (engine/vfs TornVariants; quick: for the first two operations of a list, thorough: everywhere) (sink.go, sink_full.go, staging.go, store.go, sidecar.go, fsutil.go instrumented), followed by a restart; states merged on the key (kind and WAL count of every snapshot oldest to newest, full-needed flag, number of Create calls so far, leftover tmp directories); a Go catalog model is stepped alongside and the state oracle (ListAll/List/Len/LatestIndexTerm, kinds, ResolveFiles, Open+Restore content of EVERY listed snapshot, flag file, DueNext, directory entries) is evaluated after every transition. evaluations = transitions executed and checked; states = distinct keys; distinct = (operation, normalised outcome)", maxDepth, strings.Join(alphabet, ", ")))
	r.Note("Why the key is sufficient: the store keeps no persistent state other than the snapshot directories, the FULL_NEEDED file, REAP_PLAN (absent between operations: checked) and *.tmp directories (counted in the key); its only in-memory state that outlives an operation is the verify-once verdict, which is 'verified' or 'not yet' and always passes here because no file is corrupted. Index and term of the next snapshot depend only on the number of Create calls (in the key). Content differs between merged histories (data positions), which the store does not interpret; each snapshot's content is still checked on every path before merging. Staged WAL directories are created by the incremental operations themselves and never survive an operation (moved into the snapshot, or removed by the harness as the node does), so the staged-WAL count of the state is always 0 and is not part of the key.")
	r.Assume("Sink.fatalFn / Store.fatalFn are nil (the seam of the package's tests): the production reaction 'exit the process' to a failed incremental Close is observed as the returned error; automatic reaping is disabled (reapDisabled) so that reaping happens only as the explicit operation")
	r.Assume("the store does not interpret database content: histories that differ only in which generator state a snapshot carries are merged")

	restoreLogs := commonQuietLogs()
	defer restoreLogs()
	root := commonScratchRoot(t)
	d := c09NewData(t, root, 2*maxDepth+2)
	e := &c09Env{r: r, t: t, d: d, root: filepath.Join(root, "c09"), labelCounts: map[string]int{}, outcomes: map[string]int{}, refusals: map[string]int{}}

	// replay of one op list
	if rp := kit.Replay(); rp != nil {
		var x struct {
			Ops []c09Op `json:"ops"`
		}
		if err := json.Unmarshal(rp, &x); err != nil {
			t.Fatalf("c09: bad replay: %v", err)
		}
		c09Replay(e, x.Ops)
		return
	}

	seen := map[string]bool{}
	var seenMu sync.Mutex
	rootModel := c09Model{}
	seen[rootModel.key()] = true
	r.State(1)
	frontier := []c09Node{{}}
	nw := runtime.GOMAXPROCS(0)
	if nw > 16 {
		nw = 16
	}
	completed := 0
	for depth := 1; depth <= maxDepth && len(frontier) > 0; depth++ {
		if r.OverBudget() {
			r.Cap("time budget exhausted: depth %d fully explored, depth %d not started", completed, depth)
			break
		}
		type succ struct {
			node c09Node
			key  string
			ord  int
		}
		var next []succ
		var nmu sync.Mutex
		type job struct {
			ni   int
			node c09Node
			oi   int
			op   string
		}
		jobs := make(chan job, 64)
		var wg sync.WaitGroup
		stopped := false
		for w := 0; w < nw; w++ {
			wg.Add(1)
			go func() {
				defer wg.Done()
				for j := range jobs {
					add := func(l *c09Live, sub int) {
						k := l.m.key()
						nmu.Lock()
						next = append(next, succ{node: c09Node{ops: append([]c09Op(nil), l.ops...), m: l.m.clone()}, key: k, ord: (j.ni*64+j.oi)*4096 + sub})
						nmu.Unlock()
					}
					r.Guard("C09:panic:"+j.op, map[string]any{"ops": append(append([]c09Op(nil), j.node.ops...), c09Op{Kind: j.op})}, func() {
						l := e.materialise(j.node.ops)
						defer func() { l.close(); os.RemoveAll(l.root); os.RemoveAll(l.root + "-imgs") }()
						if l.fault || l.vio {
							return
						}
						if !c09Crashable[j.op] {
							ok := l.apply(j.op)
							r.Eval(1)
							r.Transition(1)
							if !ok {
								r.Distinct(j.op + " -> rejected by the operation contract")
								return
							}
							if l.check(j.op) {
								r.Distinct(fmt.Sprintf("%s -> ok (full-needed %v, tmp %d)", j.op, l.m.FullNeeded, l.m.Tmp))
								add(l, 0)
							}
							return
						}
						// crashable: one recorded run gives the completed successor and the crash successors
						pre := l.m.clone()
						preOps := append([]c09Op(nil), l.ops...)
						imgs, rec := l.record(j.op)
						r.Eval(1)
						r.Transition(1)
						if l.fault {
							return
						}
						np, _ := rec.Points()
						e.mu.Lock()
						for lb, n := range rec.LabelCounts() {
							e.labelCounts[lb] += n
						}
						_ = np
						e.mu.Unlock()
						if l.vio {
							return
						}
						if l.check(j.op) {
							r.Distinct(fmt.Sprintf("%s -> ok (full-needed %v, tmp %d)", j.op, l.m.FullNeeded, l.m.Tmp))
							add(l, 0)
						}
						post := l.m.clone()
						crashSucc := func(im vfs.Image, cop c09Op, sub int) {
							cl := &c09Live{e: e, root: e.newRoot(), m: post.clone(), ops: append([]c09Op(nil), preOps...), countOutcome: true}
							r.Eval(1)
							r.Transition(1)
							e.mu.Lock()
							if cop.Var > 0 {
								e.tornImgs++
							} else {
								e.crashImgs++
							}
							e.mu.Unlock()
							opName := "crash:" + j.op
							if cop.Var > 0 {
								opName += ":torn-call"
							}
							if cl.crashInto(im, pre, cop) && cl.check(opName) {
								what := "at " + im.Label
								if cop.Var > 0 {
									what = "inside a call (" + c09TornClass(im.Torn) + ")"
								}
								r.Distinct(fmt.Sprintf("crash:%s %s -> %d listed, full-needed %v", j.op, what, len(cl.m.Cat), cl.m.FullNeeded))
								add(cl, sub)
							}
							cl.close()
							os.RemoveAll(cl.root)
						}
						for i, im := range imgs {
							crashSucc(im, c09Op{Kind: "crash:" + j.op, Img: i + 1, Label: im.Label}, (i+1)*16)
							if !th && len(preOps) >= 2 {
								continue // quick tier: torn calls only for the first two operations of a list
							}
							vars, _, err := rec.TornVariants(im, c09TornOpts)
							if err != nil {
								t.Errorf("c09: deriving torn variants: %v", err)
								continue
							}
							seenVar := map[string]bool{}
							for v, tv := range vars {
								if seenVar[tv.Hash] || v >= 14 {
									continue
								}
								seenVar[tv.Hash] = true
								crashSucc(tv, c09Op{Kind: "crash:" + j.op, Img: i + 1, Label: im.Label, Var: v + 1, Torn: c09IDRe.ReplaceAllString(tv.Torn, "<snap>")}, (i+1)*16+v+1)
							}
						}
					})
				}
			}()
		}
		for ni, n := range frontier {
			for oi, op := range alphabet {
				if op == "set-full-needed" && n.m.FullNeeded {
					continue // idempotent
				}
				if (op == "inc-straddle" || op == "inc-cancel") && n.m.fullDue() {
					continue // same as inc1 in this state (the header is refused)
				}
				if r.OverBudget() {
					stopped = true
					break
				}
				jobs <- job{ni: ni, node: n, oi: oi, op: op}
			}
			if stopped {
				break
			}
		}
		close(jobs)
		wg.Wait()
		if stopped {
			r.Cap("time budget exhausted inside depth %d (depth %d fully explored)", depth, completed)
			break
		}
		completed = depth
		// deterministic merge: successors in (node, op, image) order; first one wins
		sort.Slice(next, func(a, b int) bool { return next[a].ord < next[b].ord })
		frontier = frontier[:0]
		seenMu.Lock()
		for _, s := range next {
			if seen[s.key] {
				continue
			}
			seen[s.key] = true
			r.State(1)
			r.SampleEvery(len(seen), map[string]any{"ops": c09OpsString(s.node.ops), "state": s.key})
			frontier = append(frontier, s.node)
		}
		seenMu.Unlock()
		r.Set(fmt.Sprintf("new_states_at_depth_%d", depth), len(frontier))
	}
	r.Set("max_depth_completed", completed)
	r.Set("crash_images_recovered", e.crashImgs)
	r.Set("torn_call_images_recovered", e.tornImgs)
	r.Set("restores_executed", e.restores)
	var labels []string
	for l, n := range e.labelCounts {
		labels = append(labels, fmt.Sprintf("%s x%d", l, n))
	}
	sort.Strings(labels)
	r.Set("crash_labels", labels)
	var oc []string
	for k, n := range e.outcomes {
		oc = append(oc, fmt.Sprintf("%s x%d", k, n))
	}
	sort.Strings(oc)
	r.Set("crash_outcomes", oc)
	nref := 0
	for k, n := range e.refusals {
		nref += n
		r.Note("operation %q returned an error without cause %d times (not a violation of the statement; the failed creation was checked to be unlisted and to leave the flag alone)", k, n)
	}
	r.Set("operations_refused_without_cause", nref)
}

var c09IDRe = regexp.MustCompile(`[0-9]+-[0-9]+-[0-9]{10,}|[0-9]{20,}-[0-9]+`)

// c09TornClass: kind of torn call and the file's base name (IDs and timestamps removed).
func c09TornClass(desc string) string {
	if strings.HasPrefix(desc, "removal") {
		return "torn-removal"
	}
	f := desc
	if i := strings.Index(f, " "); i > 0 {
		f = f[:i]
	}
	kind := "torn-write"
	if strings.Contains(desc, "in place") {
		kind = "torn-overwrite"
	}
	return kind + "(" + c09IDRe.ReplaceAllString(filepath.Base(f), "<id>") + ")"
}

var c09NumRe = regexp.MustCompile(`(/[^ :]+)|"[^"]*"|(0x)?[0-9a-f]*[0-9][0-9a-f]*`)

func c09ErrClass(err error) string {
	s := c09NumRe.ReplaceAllString(err.Error(), "#")
	if len(s) > 100 {
		s = s[:100]
	}
	return s
}

// c09Replay runs one operation list and checks the state after every step.
func c09Replay(e *c09Env, ops []c09Op) {
	for n := 1; n <= len(ops); n++ {
		l := e.materialise(ops[:n-1])
		if l.fault || l.vio {
			l.close()
			return
		}
		op := ops[n-1]
		e.r.Eval(1)
		if op.Img == 0 {
			if l.apply(op.Kind) {
				l.check(op.Kind)
			}
		} else {
			pre := l.m.clone()
			kind := strings.TrimPrefix(op.Kind, "crash:")
			imgs, rec := l.record(kind)
			if im, err := c09Pick(rec, imgs, op); !l.fault && err == nil {
				l.ops = l.ops[:len(l.ops)-1]
				if l.crashInto(im, pre, op) {
					l.check(op.Kind)
				}
			}
		}
		l.close()
		os.RemoveAll(l.root)
		os.RemoveAll(l.root + "-imgs")
		if l.vio {
			return
		}
	}
}
