package snapshot

// C12 "Corrupt snapshot data is detected before it is used".
//
// For every store shape (common_shapes_test.go) x every data file (data.db, WAL
// segments) and every checksum sidecar x every byte position (flip) and every
// truncation-length class x timing {corruption present before the store is
// opened; corruption applied after the store's first successful verification}
// x consumer:
//
//   startup-restore : the sequence store.Store.Open runs on a node that restores
//                     from its snapshot store: NewStore, List, Len, EnsureVerify,
//                     then (raft.NewRaft) List, Open(newest), Restore
//   open-restore    : Open(newest) -> Restore            (restore without the explicit start-up verify)
//   open-install    : Open(newest) -> stream -> sink of a second store -> Close
//   reap-restore    : Reap() -> List -> Open(newest) -> Restore
//
// Oracle: some step of the consumer returns an error (Store.fatalFn / Sink.fatalFn
// are set to nil, the seam the package's own tests use, so that the production
// "exit the process" reaction is observable as an error), or the bytes the
// consumer produced (restored database / database restored from the installed
// snapshot) equal the ORIGINAL, uncorrupted content of the newest snapshot.

import (
	"errors"
	"fmt"
	"io"
	"os"
	"path/filepath"
	"regexp"
	"runtime"
	"sort"
	"strings"
	"sync"
	"sync/atomic"
	"testing"
	"time"

	kit "github.com/rqlite/rqlite/v10/internal/verifkit"
)

type c12Mut struct {
	file    commonDataFile
	sidecar bool   // mutate the sidecar instead of the data file
	kind    string // "flip" | "trunc"
	pos     int    // flip: byte offset; trunc: new length
	mask    byte   // flip mask
	where   string // structural class of the position
	core    bool   // member of the sparse position set (see c12Positions density 0)
}

func (m *c12Mut) rel() string {
	if m.sidecar {
		return m.file.Sidecar
	}
	return m.file.Rel
}

func (m *c12Mut) fileKind() string {
	if m.sidecar {
		return m.file.Kind + "-crc"
	}
	return m.file.Kind
}

func (m *c12Mut) String() string {
	if m.kind == "flip" {
		return fmt.Sprintf("%s (%s) byte %d ^= 0x%02x [%s]", m.rel(), m.fileKind(), m.pos, m.mask, m.where)
	}
	return fmt.Sprintf("%s (%s) truncated to %d bytes [%s]", m.rel(), m.fileKind(), m.pos, m.where)
}

func (m *c12Mut) apply(storeDir string) error {
	p := filepath.Join(storeDir, m.rel())
	b, err := os.ReadFile(p)
	if err != nil {
		return err
	}
	if m.kind == "flip" {
		if m.pos >= len(b) {
			return fmt.Errorf("flip position %d beyond %d", m.pos, len(b))
		}
		b[m.pos] ^= m.mask
	} else {
		if m.pos > len(b) {
			return fmt.Errorf("trunc length %d beyond %d", m.pos, len(b))
		}
		b = b[:m.pos]
	}
	return os.WriteFile(p, b, 0o644)
}

// c12Where names the structural class of offset p in a data file.
func c12Where(kind string, p int) string {
	if kind == "db" {
		switch {
		case p < 16:
			return "db-magic"
		case p < 100:
			return "db-header"
		case p < 512:
			return "db-page1"
		}
		return "db-page"
	}
	switch {
	case p < 8:
		return "wal-magic"
	case p < 32:
		return "wal-header"
	case (p-32)%(24+512) < 24:
		return "wal-frame-header"
	}
	return "wal-frame-payload"
}

// c12Positions returns the flip offsets for a data file of n bytes.
// density 2: every byte. density 1 ("dense"): every header byte, every
// page/frame boundary with the structure header that follows, stride 13
// elsewhere. density 0 ("sparse"): the same boundaries but only the first and
// last header bytes of each structure and stride 101 elsewhere.
func c12Positions(kind string, n int, density int) []int {
	set := map[int]bool{}
	add := func(p int) {
		if p >= 0 && p < n {
			set[p] = true
		}
	}
	if density == 2 {
		for p := 0; p < n; p++ {
			add(p)
		}
	} else if density == 0 {
		for p := 0; p < n; p += 101 {
			add(p)
		}
		add(n - 1)
		if kind == "db" {
			for _, p := range []int{0, 15, 16, 17, 18, 21, 24, 28, 44, 56, 92, 96, 99, 100, 105} {
				add(p)
			}
			for pg := 512; pg <= n; pg += 512 {
				for _, d := range []int{-1, 0, 1, 3, 5, 8} {
					add(pg + d)
				}
			}
		} else {
			for _, p := range []int{0, 3, 4, 7, 8, 11, 12, 16, 20, 24, 28, 31} {
				add(p)
			}
			for fr := 32; fr < n; fr += 24 + 512 {
				for _, d := range []int{-1, 0, 3, 4, 7, 8, 12, 16, 20, 23, 24, 25, 24 + 100} {
					add(fr + d)
				}
			}
		}
	} else {
		for p := 0; p < n; p += 13 {
			add(p)
		}
		add(n - 1)
		add(n - 2)
		if kind == "db" {
			for p := 0; p < 100; p++ {
				add(p)
			}
			for pg := 512; pg <= n; pg += 512 {
				for d := -2; d <= 9; d++ { // page end and the b-tree page header that follows
					add(pg + d)
				}
			}
		} else {
			for p := 0; p < 32; p++ {
				add(p)
			}
			for fr := 32; fr < n; fr += 24 + 512 {
				for d := -2; d < 24+9; d++ { // frame header and the first bytes of the page image
					add(fr + d)
				}
			}
		}
	}
	out := make([]int, 0, len(set))
	for p := range set {
		out = append(out, p)
	}
	sort.Ints(out)
	return out
}

// c12TruncLens returns the truncation-length classes for a data file.
func c12TruncLens(kind string, n int) []int {
	set := map[int]bool{0: true, 1: true, n - 1: true, n - 2: true, n / 2: true}
	if kind == "db" {
		for _, p := range []int{15, 16, 17, 99, 100, 101} {
			set[p] = true
		}
		for pg := 512; pg < n; pg += 512 {
			set[pg-1], set[pg], set[pg+1] = true, true, true
		}
	} else {
		for _, p := range []int{7, 8, 9, 31, 32, 33} {
			set[p] = true
		}
		for fr := 32; fr < n; fr += 24 + 512 {
			set[fr-1], set[fr], set[fr+1] = true, true, true
			set[fr+23], set[fr+24], set[fr+25] = true, true, true
		}
	}
	var out []int
	for p := range set {
		if p >= 0 && p < n {
			out = append(out, p)
		}
	}
	sort.Ints(out)
	return out
}

type c12Case struct {
	b        *commonBuilt
	mut      *c12Mut
	after    bool   // corruption applied after the first successful verification
	consumer string // startup-restore | open-restore | open-install | reap-restore
}

func (c *c12Case) timing() string {
	if c.after {
		return "after-verify"
	}
	return "before-open"
}

func (c *c12Case) replay() map[string]any {
	return map[string]any{"shape": c.b.Shape.Name, "file": c.mut.rel(), "file_kind": c.mut.fileKind(), "mutation": c.mut.kind,
		"pos_or_len": c.mut.pos, "mask": c.mut.mask, "where": c.mut.where, "timing": c.timing(), "consumer": c.consumer}
}

var c12NumRe = regexp.MustCompile(`(/[^ :]+)|"[^"]*"|(0x)?[0-9a-f]*[0-9][0-9a-f]*`)

func c12ErrClass(err error) string {
	s := c12NumRe.ReplaceAllString(err.Error(), "#")
	if len(s) > 120 {
		s = s[:120]
	}
	return s
}

type c12Env struct {
	r    *kit.Run
	t    *testing.T
	root string
	seq  atomic.Uint64
}

var errC12Setup = errors.New("c12 harness set-up failure")

// run executes one case. It returns the step that detected the corruption
// ("" if none did) and the produced database path ("" if an error ended the case).
func (e *c12Env) run(w int, c *c12Case) {
	dir := filepath.Join(e.root, fmt.Sprintf("w%d", w), fmt.Sprintf("c%d", e.seq.Add(1)))
	if err := os.MkdirAll(dir, 0o755); err != nil {
		e.t.Errorf("c12: %v", err)
		return
	}
	defer os.RemoveAll(dir)
	e.r.Eval(1)
	key := fmt.Sprintf("C12:undetected:%s:%s:%s:%s", c.mut.fileKind(), c.timing(), c.consumer, c.mut.kind)
	pkey := fmt.Sprintf("C12:panic:%s:%s:%s:%s", c.mut.fileKind(), c.timing(), c.consumer, c.mut.kind)
	e.r.Guard(pkey, c.replay(), func() {
		t0 := time.Now()
		step, produced, err := e.exec(c, dir)
		e.r.Add("busy_us."+c.timing()+"."+c.consumer, time.Since(t0).Microseconds())
		e.r.Add("cases."+c.timing()+"."+c.consumer, 1)
		if errors.Is(err, errC12Setup) {
			e.t.Errorf("c12: %s/%s/%s/%s: %v", c.b.Shape.Name, c.mut, c.timing(), c.consumer, err)
			return
		}
		oc := fmt.Sprintf("%s|%s|%s|%s|%s -> ", c.mut.fileKind(), c.mut.where, c.mut.kind, c.timing(), c.consumer)
		if err != nil {
			e.r.Distinct(oc + "detected at " + step + ": " + c12ErrClass(err))
			return
		}
		same, how := commonSameDB(produced, c.b.Newest().State, dir)
		if same {
			e.r.Distinct(oc + "no error, content equals the original (" + how + ")")
			e.r.Add("undetected_but_content_original", 1)
			return
		}
		if len(how) > 700 {
			how = how[:700] + "..."
		}
		e.r.Violation(key, fmt.Sprintf("%s: %s, %s, consumer %s: no step reported an error but the produced database is not the original: %s",
			c.b.Shape.Name, c.mut, c.timing(), c.consumer, how), c.replay())
	})
}

// exec runs the consumer. A non-nil error (other than errC12Setup) is a detection.
func (e *c12Env) exec(c *c12Case, dir string) (step, produced string, err error) {
	sdir := filepath.Join(dir, "store")
	// Reap rewrites files in place, so it gets a full copy; every other consumer
	// only reads the store: hard links, except for the file to corrupt.
	var err0 error
	if c.consumer == "reap-restore" {
		err0 = c.b.Clone(sdir)
	} else {
		err0 = c.b.CloneLinked(sdir, c.mut.rel())
	}
	if err0 != nil {
		return "", "", fmt.Errorf("%w: clone: %v", errC12Setup, err0)
	}
	if !c.after {
		if err := c.mut.apply(sdir); err != nil {
			return "", "", fmt.Errorf("%w: %v", errC12Setup, err)
		}
	}
	s, err := NewStore(sdir)
	if err != nil {
		if c.after {
			return "", "", fmt.Errorf("%w: NewStore on a pristine clone: %v", errC12Setup, err)
		}
		return "NewStore", "", err
	}
	s.fatalFn = nil // seam: corruption becomes a returned error instead of a process exit
	defer s.Close()

	if c.after {
		// The node started on intact data and ran its start-up verification.
		if _, err := s.List(); err != nil {
			return "", "", fmt.Errorf("%w: List on a pristine clone: %v", errC12Setup, err)
		}
		if err := s.EnsureVerify(); err != nil {
			return "", "", fmt.Errorf("%w: EnsureVerify on a pristine clone: %v", errC12Setup, err)
		}
		if err := c.mut.apply(sdir); err != nil {
			return "", "", fmt.Errorf("%w: %v", errC12Setup, err)
		}
	}

	newest := func() (string, error) {
		metas, err := s.List()
		if err != nil {
			return "", err
		}
		if len(metas) == 0 {
			return "", ErrSnapshotNotFound
		}
		return metas[0].ID, nil
	}
	restore := func(id string) (string, string, error) {
		_, rc, err := s.Open(id)
		if err != nil {
			return "Open", "", err
		}
		dst := filepath.Join(dir, "restored.db")
		_, err = Restore(rc, dst)
		rc.Close()
		if err != nil {
			return "Restore", "", err
		}
		return "", dst, nil
	}

	switch c.consumer {
	case "startup-restore":
		// store.Store.Open: NewStore, List, Len, [restore on start =>] EnsureVerify; raft.NewRaft: List, Open, Restore.
		if _, err := s.List(); err != nil {
			return "List", "", err
		}
		if s.Len() == 0 {
			return "Len", "", ErrSnapshotNotFound
		}
		if err := s.EnsureVerify(); err != nil {
			return "EnsureVerify", "", err
		}
		id, err := newest()
		if err != nil {
			return "List", "", err
		}
		return restore(id)

	case "open-restore":
		// The newest ID is known to the node (raft keeps it); a corrupted catalog is
		// reported by Open itself.
		return restore(c.b.Newest().ID)

	case "open-install":
		meta, rc, err := s.Open(c.b.Newest().ID)
		if err != nil {
			return "Open", "", err
		}
		s2dir := filepath.Join(dir, "s2")
		s2, err := NewStore(s2dir)
		if err != nil {
			rc.Close()
			return "", "", fmt.Errorf("%w: NewStore(s2): %v", errC12Setup, err)
		}
		s2.fatalFn = nil
		defer s2.Close()
		rsink, err := s2.Create(meta.Version, meta.Index, meta.Term, meta.Configuration, meta.ConfigurationIndex, nil)
		if err != nil {
			rc.Close()
			return "", "", fmt.Errorf("%w: Create(s2): %v", errC12Setup, err)
		}
		sink := rsink.(*Sink)
		sink.fatalFn = nil
		n, err := io.Copy(sink, rc)
		rc.Close()
		if err != nil {
			sink.Cancel()
			return "stream->sink", "", err
		}
		if n != meta.Size { // raft's own check
			sink.Cancel()
			return "raft size check", "", fmt.Errorf("streamed %d bytes, meta.Size %d", n, meta.Size)
		}
		if err := sink.Close(); err != nil {
			return "sink.Close", "", err
		}
		// The receiving node now restores from what it installed.
		_, rc2, err := s2.Open(sink.ID())
		if err != nil {
			return "Open(installed)", "", err
		}
		dst := filepath.Join(dir, "restored-from-installed.db")
		_, err = Restore(rc2, dst)
		rc2.Close()
		if err != nil {
			return "Restore(installed)", "", err
		}
		return "", dst, nil

	case "reap-restore":
		if _, _, err := s.Reap(); err != nil {
			return "Reap", "", err
		}
		id, err := newest()
		if err != nil {
			return "List(after reap)", "", err
		}
		return restore(id)
	}
	return "", "", fmt.Errorf("%w: unknown consumer", errC12Setup)
}

func TestVerif_C12(t *testing.T) {
	r := kit.Start(t, "C12", "corrupt")
	defer r.Finish()
	th := r.Thorough()
	r.Rule("12 store shapes (9 standard + 3 preceded by an older full snapshot; 512-byte-page databases, distinct content per snapshot) x every data file (data.db, every WAL segment) and every .crc32 sidecar x {flip of bit p%8 at every byte p (quick: on 4 representative shapes all header bytes, every page/frame boundary with the following structure header and stride 13 elsewhere, on the other 8 shapes the boundaries, selected header bytes and stride 101; sidecars every byte, thorough additionally the whole byte inverted and the ASCII case bit; quick runs after-verify x reap-restore on the sparse set only and omits after-verify x startup-restore, which equals open-restore once the verdict is cached), truncation to every structural length class (sidecars: every length)} x timing {before NewStore, after the first successful EnsureVerify} x consumer {startup-restore = NewStore,List,Len,EnsureVerify,List,Open,Restore; open-restore; open-install = Open, stream into a second store's sink, restore from it; reap-restore = Reap,List,Open,Restore}. Oracle: a step returns an error, or the produced database equals the original newest snapshot (bytes, else logical dump). distinct = (file kind, position class, mutation, timing, consumer, normalised outcome)")
	r.Assume("fatalFn of Store and Sink is set to nil (the seam of the package's own tests): the production reaction to a detected corruption is to exit the process, observed here as the returned error")
	r.Assume("meta.json and the directory structure are not corrupted: the property is about data files and their checksum records")

	restoreLogs := commonQuietLogs()
	defer restoreLogs()

	root := commonScratchRoot(t)
	var builts []*commonBuilt
	for _, sh := range commonShapes(true) {
		if only := os.Getenv("VERIF_C12_SHAPE"); only != "" && only != sh.Name { // debugging aid
			continue
		}
		builts = append(builts, commonBuildStore(t, root, sh))
	}

	env := &c12Env{r: r, t: t, root: filepath.Join(root, "cases")}
	nw := runtime.GOMAXPROCS(0)
	if nw > 16 {
		nw = 16
	}
	ch := make(chan *c12Case, 256)
	var wg sync.WaitGroup
	for w := 0; w < nw; w++ {
		wg.Add(1)
		go func(w int) {
			defer wg.Done()
			for c := range ch {
				env.run(w, c)
			}
		}(w)
	}

	consumers := []string{"startup-restore", "open-restore", "open-install", "reap-restore"}
	nfiles, nmut := 0, 0
	stop := false
	before := map[*commonBuilt]string{}
	for _, b := range builts {
		fp, err := b.Fingerprint()
		if err != nil {
			t.Fatal(err)
		}
		before[b] = fp
	}
	// Quick tier: dense positions on four representative shapes, sparse on the
	// others. Thorough: every byte of every file of every shape.
	denseShapes := map[string]bool{"full": true, "full+2wal": true, "full,inc2,inc1": true, "older,full,inc1,inc1": true}
	for _, b := range builts {
		density := 0
		if th {
			density = 2
		} else if denseShapes[b.Shape.Name] {
			density = 1
		}
		for _, f := range b.DataFiles() {
			nfiles += 2
			data, err := os.ReadFile(filepath.Join(b.Dir, f.Rel))
			if err != nil {
				t.Fatal(err)
			}
			side, err := os.ReadFile(filepath.Join(b.Dir, f.Sidecar))
			if err != nil {
				t.Fatal(err)
			}
			kind := "wal"
			if f.Kind == "db" {
				kind = "db"
			}
			var muts []*c12Mut
			coreSet := map[int]bool{}
			for _, p := range c12Positions(kind, len(data), 0) {
				coreSet[p] = true
			}
			for _, p := range c12Positions(kind, len(data), density) {
				muts = append(muts, &c12Mut{file: f, kind: "flip", pos: p, mask: 1 << (p % 8), where: c12Where(kind, p), core: coreSet[p]})
			}
			for i, l := range c12TruncLens(kind, len(data)) {
				muts = append(muts, &c12Mut{file: f, kind: "trunc", pos: l, where: c12Where(kind, l), core: i%3 == 0})
			}
			digits := strings.Index(string(side), `"crc":"`) + 7
			for p := range side {
				where := "sidecar"
				inDigits := digits >= 7 && p >= digits && p < digits+8
				if inDigits {
					where = "sidecar-crc-digits"
				}
				core := p == 0 || p == len(side)-1 || p == digits-1 || p == digits || p == digits+7 || p == digits+8 || p%9 == 0
				muts = append(muts, &c12Mut{file: f, sidecar: true, kind: "flip", pos: p, mask: 1 << (p % 8), where: where, core: core})
				if th {
					muts = append(muts, &c12Mut{file: f, sidecar: true, kind: "flip", pos: p, mask: 0xFF, where: where},
						&c12Mut{file: f, sidecar: true, kind: "flip", pos: p, mask: 0x20, where: where})
				}
				if th || density == 1 || p%6 == 0 || p == len(side)-1 {
					muts = append(muts, &c12Mut{file: f, sidecar: true, kind: "trunc", pos: p, where: "sidecar", core: p%12 == 0})
				}
			}
			nmut += len(muts)
			for _, m := range muts {
				for _, after := range []bool{false, true} {
					for _, cons := range consumers {
						if stop {
							continue
						}
						if !th && after && (cons == "startup-restore" || (cons == "reap-restore" && !m.core)) {
							// Quick tier: after the first verification start-up == open-restore (the
							// verdict is cached), and a reap that consumes unverified files does real
							// SQLite checkpoints: sparse positions only.
							continue
						}
						if r.OverBudget() {
							stop = true
							r.Cap("time budget exhausted at shape %s file %s", b.Shape.Name, f.Rel)
							continue
						}
						ch <- &c12Case{b: b, mut: m, after: after, consumer: cons}
					}
				}
			}
		}
	}
	close(ch)
	wg.Wait()
	for _, b := range builts {
		if fp, err := b.Fingerprint(); err != nil || fp != before[b] {
			t.Errorf("c12: harness fault: the template store of shape %s was modified during the run (%v)", b.Shape.Name, err)
		}
	}
	r.State(len(builts))
	r.Set("files_mutated", nfiles)
	r.Set("mutations", nmut)
}
