package http

import (
	"bufio"
	"bytes"
	"context"
	"encoding/base64"
	"encoding/json"
	"fmt"
	"go/ast"
	"go/parser"
	"go/token"
	"io"
	"net"
	gohttp "net/http"
	"os"
	"sort"
	"strconv"
	"strings"
	"sync"
	"sync/atomic"
	"testing"
	"time"

	"github.com/rqlite/rqlite/v10/auth"
	clstrPB "github.com/rqlite/rqlite/v10/cluster/proto"
	command "github.com/rqlite/rqlite/v10/command/proto"
	kit "github.com/rqlite/rqlite/v10/internal/verifkit"
	"github.com/rqlite/rqlite/v10/proxy"
	"github.com/rqlite/rqlite/v10/store"
)

// C18, part "http": every route of the real Service.ServeHTTP switch x methods
// x node role x credential stores x credential presentations, as raw HTTP/1.1
// bytes over a real TCP connection, answer read until the server closes.

const (
	c18Marker    = "C18SECRET"
	c18MarkerInt = int64(1127298131) // decimal text searched in answers
)

var c18AllPerms = []string{auth.PermAll, auth.PermJoin, auth.PermJoinReadOnly, auth.PermJoinReadReplica,
	auth.PermRemove, auth.PermExecute, auth.PermQuery, auth.PermStatus, auth.PermReady, auth.PermBackup,
	auth.PermLoad, auth.PermSnapshot, auth.PermLeaderOps, auth.PermUI}

// ---- recording mocks ---------------------------------------------------------

type c18Rec struct {
	mu    sync.Mutex
	calls []string
}

func (r *c18Rec) add(s string) { r.mu.Lock(); r.calls = append(r.calls, s); r.mu.Unlock() }
func (r *c18Rec) take() []string {
	r.mu.Lock()
	defer r.mu.Unlock()
	c := r.calls
	r.calls = nil
	return c
}

// c18Store implements http.Store and proxy.Store. Every method records its call.
// As a follower it answers ErrNotLeader where the real store would.
type c18Store struct {
	rec      *c18Rec
	follower atomic.Bool
}

func c18Rows() *command.QueryRows {
	return &command.QueryRows{Columns: []string{"secret"}, Types: []string{"text"},
		Values: []*command.Values{{Parameters: []*command.Parameter{{Value: &command.Parameter_S{S: c18Marker + "-row"}}}}}}
}

func c18ExecResult() []*command.ExecuteQueryResponse {
	return []*command.ExecuteQueryResponse{{Result: &command.ExecuteQueryResponse_E{
		E: &command.ExecuteResult{LastInsertId: c18MarkerInt, RowsAffected: 1}}}}
}

func (m *c18Store) notLeader(name string) bool {
	m.rec.add("store." + name)
	return m.follower.Load()
}

func (m *c18Store) Execute(ctx context.Context, er *command.ExecuteRequest) ([]*command.ExecuteQueryResponse, uint64, error) {
	if m.notLeader("Execute") {
		return nil, 0, store.ErrNotLeader
	}
	return c18ExecResult(), 7, nil
}

func (m *c18Store) Query(ctx context.Context, qr *command.QueryRequest) ([]*command.QueryRows, command.ConsistencyLevel, uint64, error) {
	if m.notLeader("Query") {
		return nil, command.ConsistencyLevel_NONE, 0, store.ErrNotLeader
	}
	if len(qr.GetRequest().GetStatements()) == 1 && qr.Request.Statements[0].Sql == "SELECT 1" { // readyz probe
		return []*command.QueryRows{{Columns: []string{"1"}, Types: []string{"integer"},
			Values: []*command.Values{{Parameters: []*command.Parameter{{Value: &command.Parameter_I{I: 1}}}}}}}, command.ConsistencyLevel_NONE, 7, nil
	}
	return []*command.QueryRows{c18Rows()}, command.ConsistencyLevel_NONE, 7, nil
}

func (m *c18Store) Request(ctx context.Context, eqr *command.ExecuteQueryRequest) ([]*command.ExecuteQueryResponse, uint64, uint64, error) {
	if m.notLeader("Request") {
		return nil, 0, 0, store.ErrNotLeader
	}
	return []*command.ExecuteQueryResponse{{Result: &command.ExecuteQueryResponse_Q{Q: c18Rows()}}}, 1, 7, nil
}

func (m *c18Store) Load(ctx context.Context, lr *command.LoadRequest) error {
	if m.notLeader("Load") {
		return store.ErrNotLeader
	}
	return nil
}

func (m *c18Store) Backup(ctx context.Context, br *command.BackupRequest, dst io.Writer) error {
	if m.notLeader("Backup") {
		return store.ErrNotLeader
	}
	_, err := dst.Write([]byte("SQLite format 3\x00" + strings.Repeat(c18Marker+"-backup", 4)))
	return err
}

func (m *c18Store) Remove(ctx context.Context, rn *command.RemoveNodeRequest) error {
	if m.notLeader("Remove") {
		return store.ErrNotLeader
	}
	return nil
}

func (m *c18Store) Stepdown(wait bool, id string) error {
	if m.notLeader("Stepdown") {
		return store.ErrNotLeader
	}
	return nil
}

func (m *c18Store) LeaderAddr() (string, error) {
	m.rec.add("store.LeaderAddr")
	return "leader:4002", nil
}

func (m *c18Store) Leader() (*store.Server, error) {
	m.rec.add("store.Leader")
	return &store.Server{ID: c18Marker + "-leader-id", Addr: "leader:4002", Suffrage: command.Suffrage_VOTER}, nil
}

func (m *c18Store) Nodes() ([]*store.Server, error) {
	m.rec.add("store.Nodes")
	return []*store.Server{{ID: c18Marker + "-node-id", Addr: "leader:4002", Suffrage: command.Suffrage_VOTER}}, nil
}

func (m *c18Store) Ready() bool { m.rec.add("store.Ready"); return true }
func (m *c18Store) Committed(timeout time.Duration) (uint64, error) {
	m.rec.add("store.Committed")
	return 7, nil
}
func (m *c18Store) Stats() (map[string]any, error) {
	m.rec.add("store.Stats")
	return map[string]any{"dir": c18Marker + "-store-stats"}, nil
}
func (m *c18Store) Snapshot(n uint64) error { m.rec.add("store.Snapshot"); return nil }
func (m *c18Store) Reap() (int, int, error) { m.rec.add("store.Reap"); return 1, 1, nil }
func (m *c18Store) ReadFrom(r io.Reader) (int64, error) {
	m.rec.add("store.ReadFrom")
	return io.Copy(io.Discard, r)
}

// c18Cluster implements http.Cluster and proxy.Cluster (the forwarding client).
type c18Cluster struct{ rec *c18Rec }

func (c *c18Cluster) GetNodeMeta(ctx context.Context, a string, r int, t time.Duration) (*clstrPB.NodeMeta, error) {
	c.rec.add("cluster.GetNodeMeta")
	return &clstrPB.NodeMeta{Url: "http://" + c18Marker + "-api:4001", Version: "v"}, nil
}
func (c *c18Cluster) Stats() (map[string]any, error) {
	c.rec.add("cluster.Stats")
	return map[string]any{"addr": c18Marker + "-cluster-stats"}, nil
}
func (c *c18Cluster) Execute(ctx context.Context, er *command.ExecuteRequest, addr string, creds *clstrPB.Credentials, t time.Duration, r int) ([]*command.ExecuteQueryResponse, uint64, error) {
	c.rec.add("cluster.Execute")
	return c18ExecResult(), 7, nil
}
func (c *c18Cluster) Query(ctx context.Context, qr *command.QueryRequest, addr string, creds *clstrPB.Credentials, t time.Duration, r int) ([]*command.QueryRows, uint64, error) {
	c.rec.add("cluster.Query")
	return []*command.QueryRows{c18Rows()}, 7, nil
}
func (c *c18Cluster) Request(ctx context.Context, eqr *command.ExecuteQueryRequest, addr string, creds *clstrPB.Credentials, t time.Duration, r int) ([]*command.ExecuteQueryResponse, uint64, uint64, error) {
	c.rec.add("cluster.Request")
	return []*command.ExecuteQueryResponse{{Result: &command.ExecuteQueryResponse_Q{Q: c18Rows()}}}, 1, 7, nil
}
func (c *c18Cluster) Backup(ctx context.Context, br *command.BackupRequest, addr string, creds *clstrPB.Credentials, t time.Duration, w io.Writer) error {
	c.rec.add("cluster.Backup")
	_, err := w.Write([]byte("SQLite format 3\x00" + strings.Repeat(c18Marker+"-backup", 4)))
	return err
}
func (c *c18Cluster) Load(ctx context.Context, lr *command.LoadRequest, addr string, creds *clstrPB.Credentials, t time.Duration, r int) error {
	c.rec.add("cluster.Load")
	return nil
}
func (c *c18Cluster) RemoveNode(ctx context.Context, rn *command.RemoveNodeRequest, addr string, creds *clstrPB.Credentials, t time.Duration) error {
	c.rec.add("cluster.RemoveNode")
	return nil
}
func (c *c18Cluster) Stepdown(ctx context.Context, sr *command.StepdownRequest, addr string, creds *clstrPB.Credentials, t time.Duration) error {
	c.rec.add("cluster.Stepdown")
	return nil
}

// c18Creds delegates to the real auth.CredentialsStore currently installed.
type c18Creds struct {
	cur   atomic.Pointer[auth.CredentialsStore]
	mu    sync.Mutex
	asked []string
}

func (c *c18Creds) AA(username, password, perm string) bool {
	c.mu.Lock()
	c.asked = append(c.asked, perm)
	c.mu.Unlock()
	return c.cur.Load().AA(username, password, perm)
}

func (c *c18Creds) takeAsked() []string {
	c.mu.Lock()
	defer c.mu.Unlock()
	a := c.asked
	c.asked = nil
	return a
}

// ---- credential stores and reference decision (rule of C19) -------------------

type c18Entry struct {
	User  string   `json:"username"`
	Pass  string   `json:"password,omitempty"`
	Perms []string `json:"perms"`
}

type c18Model struct {
	pw    map[string]string
	perms map[string]map[string]bool
}

func c18Ref(entries []c18Entry) c18Model {
	m := c18Model{map[string]string{}, map[string]map[string]bool{}}
	for _, e := range entries {
		m.pw[e.User] = e.Pass
		m.perms[e.User] = map[string]bool{}
		for _, x := range e.Perms {
			m.perms[e.User][x] = true
		}
	}
	return m
}

func (m c18Model) authorized(user, pass, perm string) bool {
	if m.perms["*"][perm] || m.perms["*"]["all"] {
		return true
	}
	if user == "" {
		return false
	}
	sp, ok := m.pw[user]
	if !ok || sp != pass {
		return false
	}
	return m.perms[user][perm] || m.perms[user]["all"]
}

func (m c18Model) allowed(user, pass string, need []string) bool {
	for _, p := range need {
		if !m.authorized(user, pass, p) {
			return false
		}
	}
	return true
}

type c18PermSet struct {
	Name  string
	Perms []string
}

func c18PermSets(need []string, thorough bool) []c18PermSet {
	rel := map[string]bool{}
	for _, p := range need {
		rel[p] = true
	}
	out := []c18PermSet{{"none", []string{}}}
	for _, p := range need {
		out = append(out, c18PermSet{"only:" + p, []string{p}})
	}
	if len(need) > 1 {
		out = append(out, c18PermSet{"every-required", append([]string{}, need...)})
	}
	out = append(out, c18PermSet{"all", []string{auth.PermAll}})
	var others []string
	for _, p := range c18AllPerms {
		if p != auth.PermAll && !rel[p] {
			others = append(others, p)
		}
	}
	out = append(out, c18PermSet{"every-other", others})
	if thorough {
		for _, p := range others {
			out = append(out, c18PermSet{"other:" + p, []string{p}})
		}
	}
	return out
}

type c18CredFile struct {
	Entries []c18Entry
	JSON    string
}

func c18CredFiles(need []string, thorough bool) []c18CredFile {
	sets := c18PermSets(need, thorough)
	type ent struct {
		e     c18Entry
		other bool
	}
	var alpha []ent
	for _, u := range []string{"u", "*"} {
		for _, s := range sets {
			e := c18Entry{User: u, Perms: s.Perms}
			if u == "u" {
				e.Pass = "p"
			}
			alpha = append(alpha, ent{e, strings.HasPrefix(s.Name, "other:")})
		}
	}
	mk := func(es ...ent) c18CredFile {
		entries := []c18Entry{}
		for _, x := range es {
			entries = append(entries, x.e)
		}
		b, _ := json.Marshal(entries)
		return c18CredFile{Entries: entries, JSON: string(b)}
	}
	files := []c18CredFile{mk()}
	for _, a := range alpha {
		files = append(files, mk(a))
	}
	for _, a := range alpha {
		for _, b := range alpha {
			// thorough: an entry with a single non-required permission is combined only with a
			// basic entry of the other user, in one order
			if (a.other && b.other) || a.other || (b.other && a.e.User == b.e.User) {
				continue
			}
			files = append(files, mk(a, b))
		}
	}
	return files
}

type c18Pres struct {
	Name, User, Pass string
	None             bool
}

var c18Presentations = []c18Pres{
	{Name: "no-credentials", None: true},
	{Name: "wrong-password", User: "u", Pass: "bad"},
	{Name: "right-password", User: "u", Pass: "p"},
	{Name: "unknown-user", User: "x", Pass: "p"},
}

// ---- routes: parsed from the source, looked up in the permission table ----------

type c18SrcRoute struct {
	Lit    string
	Prefix bool
}

// c18ParseRoutes reads the path conditions of the tagless switch in Service.ServeHTTP.
func c18ParseRoutes(file string) (routes []c18SrcRoute, unknownForms []string, err error) {
	fset := token.NewFileSet()
	f, err := parser.ParseFile(fset, file, nil, 0)
	if err != nil {
		return nil, nil, err
	}
	isPath := func(e ast.Expr) bool { // r.URL.Path
		s, ok := e.(*ast.SelectorExpr)
		if !ok || s.Sel.Name != "Path" {
			return false
		}
		s2, ok := s.X.(*ast.SelectorExpr)
		return ok && s2.Sel.Name == "URL"
	}
	lit := func(e ast.Expr) (string, bool) {
		b, ok := e.(*ast.BasicLit)
		if !ok || b.Kind != token.STRING {
			return "", false
		}
		s, err := strconv.Unquote(b.Value)
		return s, err == nil
	}
	var cond func(e ast.Expr)
	cond = func(e ast.Expr) {
		switch x := e.(type) {
		case *ast.ParenExpr:
			cond(x.X)
			return
		case *ast.BinaryExpr:
			if x.Op == token.LOR {
				cond(x.X)
				cond(x.Y)
				return
			}
			if x.Op == token.EQL {
				if s, ok := lit(x.Y); ok && isPath(x.X) {
					routes = append(routes, c18SrcRoute{s, false})
					return
				}
				if s, ok := lit(x.X); ok && isPath(x.Y) {
					routes = append(routes, c18SrcRoute{s, false})
					return
				}
			}
		case *ast.CallExpr:
			if sel, ok := x.Fun.(*ast.SelectorExpr); ok && sel.Sel.Name == "HasPrefix" && len(x.Args) == 2 && isPath(x.Args[0]) {
				if s, ok := lit(x.Args[1]); ok {
					routes = append(routes, c18SrcRoute{s, true})
					return
				}
			}
		}
		var b bytes.Buffer
		fmt.Fprintf(&b, "%s", fset.Position(e.Pos()))
		unknownForms = append(unknownForms, b.String())
	}
	found := false
	for _, d := range f.Decls {
		fd, ok := d.(*ast.FuncDecl)
		if !ok || fd.Name.Name != "ServeHTTP" || fd.Recv == nil {
			continue
		}
		ast.Inspect(fd.Body, func(n ast.Node) bool {
			switch x := n.(type) {
			case *ast.SwitchStmt:
				if x.Tag != nil {
					return true
				}
				found = true
				for _, st := range x.Body.List {
					cc := st.(*ast.CaseClause)
					for _, e := range cc.List {
						cond(e) // every case condition has to be understood
					}
				}
			case *ast.IfStmt:
				// path tests outside the switch (e.g. the /console redirect): collect what can be read
				ast.Inspect(x.Cond, func(m ast.Node) bool {
					switch y := m.(type) {
					case *ast.BinaryExpr:
						if y.Op == token.EQL {
							if s, ok := lit(y.Y); ok && isPath(y.X) {
								routes = append(routes, c18SrcRoute{s, false})
							} else if s, ok := lit(y.X); ok && isPath(y.Y) {
								routes = append(routes, c18SrcRoute{s, false})
							}
						}
					case *ast.CallExpr:
						if sel, ok := y.Fun.(*ast.SelectorExpr); ok && sel.Sel.Name == "HasPrefix" && len(y.Args) == 2 && isPath(y.Args[0]) {
							if s, ok := lit(y.Args[1]); ok {
								routes = append(routes, c18SrcRoute{s, true})
							}
						}
					}
					return true
				})
			}
			return true
		})
	}
	if !found {
		return nil, nil, fmt.Errorf("no tagless switch found in ServeHTTP of %s", file)
	}
	seen := map[c18SrcRoute]bool{}
	var uniq []c18SrcRoute
	for _, rt := range routes {
		if !seen[rt] {
			seen[rt] = true
			uniq = append(uniq, rt)
		}
	}
	// one entry per literal: a literal used both exactly and as a prefix is driven once
	byLit := map[string]bool{}
	routes = routes[:0]
	for _, rt := range uniq {
		if !byLit[rt.Lit] {
			byLit[rt.Lit] = true
			routes = append(routes, rt)
		}
	}
	return routes, unknownForms, nil
}

type c18Req struct {
	Name   string // label
	Path   string // path + query
	Body   string
	CType  string
	Judged bool // false: a path of this route for which no permission is defined
	// DenyOnly: executed only when the reference decision is deny (an allowed run is slow: CPU profile)
	DenyOnly bool
	// ThoroughOnly: variant driven in the thorough tier only
	ThoroughOnly bool
}

type c18Route struct {
	Need []string // nil = no permission defined: reported, not judged
	Why  string
	Reqs []c18Req
	Sigs []string // content signatures of routes that do not go through the store
}

const c18SQLite = "SQLite format 3\x00" + "\x10\x00\x01\x01\x00\x40\x20\x20" + "0000000000000000000000000000000000000000000000000000000000000000000000000000"

// c18Table maps the literal of a ServeHTTP case to its documented permission and to the
// well-formed requests used to drive it. A literal missing here fails the run.
func c18Table() map[string]c18Route {
	j := func(name, path, body string) c18Req {
		return c18Req{Name: name, Path: path, Body: body, CType: "application/json", Judged: true}
	}
	th := func(r c18Req) c18Req { r.ThoroughOnly = true; return r }
	stmts := `["INSERT INTO t(x) VALUES(1)"]`
	sel := `["SELECT secret FROM t"]`
	return map[string]c18Route{
		"/": {Why: "redirect to /console/, no permission defined", Reqs: []c18Req{{Name: "root", Path: "/"}}},
		"":  {Why: "empty path cannot be requested over HTTP/1.1 (the request line needs a path); same case as /", Reqs: nil},
		"/console": {Need: []string{auth.PermUI}, Sigs: []string{"<!DOCTYPE html>"}, Reqs: []c18Req{
			{Name: "redirect", Path: "/console"}, // handled before the permission check: plain redirect, not judged
			j("index", "/console/", ""), th(j("asset", "/console/static/favicon.ico", "")), j("sibling", "/consolex", "")}},
		"/db/execute": {Need: []string{auth.PermExecute}, Reqs: []c18Req{
			j("plain", "/db/execute", stmts), th(j("subpath", "/db/execute/x?timings", stmts)), j("queued-wait", "/db/execute?queue&wait&timeout=20s", stmts)}},
		"/db/query": {Need: []string{auth.PermQuery}, Reqs: []c18Req{
			j("plain", "/db/query?q=SELECT%20secret%20FROM%20t", sel), j("strong", "/db/queryx?level=strong&q=SELECT%20secret%20FROM%20t", sel)}},
		"/db/request": {Need: []string{auth.PermQuery, auth.PermExecute}, Reqs: []c18Req{
			j("plain", "/db/request", sel), th(j("subpath", "/db/request/x", stmts))}},
		"/db/backup": {Need: []string{auth.PermBackup}, Reqs: []c18Req{
			j("binary", "/db/backup", ""), th(j("sql", "/db/backup/x?fmt=sql", ""))}},
		"/db/load": {Need: []string{auth.PermLoad}, Reqs: []c18Req{
			{Name: "sql-text", Path: "/db/load", Body: "INSERT INTO t(x) VALUES(1);", CType: "text/plain", Judged: true},
			{Name: "sqlite-file", Path: "/db/loadx", Body: c18SQLite, CType: "application/octet-stream", Judged: true}}},
		"/db/sql": {Need: []string{auth.PermQuery}, Sigs: []string{`"original"`}, Reqs: []c18Req{
			j("plain", "/db/sql?q=SELECT%20random()", `["SELECT random()"]`)}},
		"/boot": {Need: []string{auth.PermLoad}, Reqs: []c18Req{
			{Name: "sqlite-file", Path: "/boot", Body: c18SQLite, CType: "application/octet-stream", Judged: true}}},
		"/snapshot": {Need: []string{auth.PermSnapshot}, Reqs: []c18Req{j("plain", "/snapshot", "")}},
		"/reap":     {Need: []string{auth.PermSnapshot}, Reqs: []c18Req{j("plain", "/reap", "")}},
		"/remove":   {Need: []string{auth.PermRemove}, Reqs: []c18Req{j("plain", "/remove", `{"id":"n2"}`), th(j("sibling", "/removex", `{"id":"n2"}`))}},
		"/status":   {Need: []string{auth.PermStatus}, Reqs: []c18Req{j("plain", "/status", ""), th(j("key", "/status/x?key=store&pretty", ""))}},
		"/nodes":    {Need: []string{auth.PermStatus}, Reqs: []c18Req{j("plain", "/nodes", ""), th(j("v2", "/nodesx?ver=2&nonvoters", ""))}},
		"/leader":   {Need: []string{auth.PermLeaderOps}, Reqs: []c18Req{j("plain", "/leader", `{"id":"n2"}`), th(j("wait", "/leader?wait", ""))}},
		"/readyz":   {Need: []string{auth.PermReady}, Reqs: []c18Req{j("plain", "/readyz", ""), th(j("sync", "/readyz/x?sync", "")), j("noleader", "/readyz?noleader", "")}, Sigs: []string{"[+]node ok"}},
		"/licenses": {Need: []string{auth.PermStatus}, Sigs: []string{"The MIT License"}, Reqs: []c18Req{j("plain", "/licenses", "")}},
		"/debug/vars": {Need: []string{auth.PermStatus}, Sigs: []string{`"memstats"`, `"cmdline"`}, Reqs: []c18Req{
			j("all", "/debug/vars", ""), th(j("key", "/debug/vars?key=http", ""))}},
		"/debug/pprof": {Need: []string{auth.PermStatus}, Sigs: []string{"Types of profiles available", "heap profile", os.Args[0]}, Reqs: []c18Req{
			j("index", "/debug/pprof/", ""), j("cmdline", "/debug/pprof/cmdline", ""), th(j("symbol", "/debug/pprof/symbol", "")),
			th(j("heap", "/debug/pprof/heap?debug=1", "")), th(j("sibling", "/debug/pprofx", "")),
			{Name: "cpu-profile", Path: "/debug/pprof/profile?seconds=1", Judged: true, DenyOnly: true}}},
	}
}

// ---- one live service ----------------------------------------------------------

type c18Node struct {
	svc   *Service
	rec   *c18Rec
	st    *c18Store
	creds *c18Creds
	addr  string
}

func c18NewNode(t testing.TB) *c18Node {
	rec := &c18Rec{}
	st := &c18Store{rec: rec}
	cl := &c18Cluster{rec: rec}
	creds := &c18Creds{}
	creds.cur.Store(auth.NewCredentialsStore())
	s := New("127.0.0.1:0", st, cl, proxy.New(st, cl), creds)
	s.logger.SetOutput(io.Discard)
	s.DefaultQueueTimeout = time.Millisecond
	s.DefaultQueueBatchSz = 1
	if err := s.Start(); err != nil {
		t.Fatalf("start: %v", err)
	}
	return &c18Node{svc: s, rec: rec, st: st, creds: creds, addr: s.Addr().String()}
}

type c18Obs struct {
	Status    int    `json:"status"`
	BodyLen   int    `json:"-"` // varies (timestamps in /status)
	Marker    bool   `json:"mock_data_in_answer"`
	Sig       string `json:"content_signature,omitempty"`
	Calls     string `json:"calls"`
	Asked     string `json:"perms_asked"`
	ReadError string `json:"read_error,omitempty"`
}

func (n *c18Node) exchange(t testing.TB, method string, rq c18Req, pres c18Pres, sigs []string) c18Obs {
	var b bytes.Buffer
	fmt.Fprintf(&b, "%s %s HTTP/1.1\r\nHost: node\r\nConnection: close\r\n", method, rq.Path)
	if !pres.None {
		fmt.Fprintf(&b, "Authorization: Basic %s\r\n", base64.StdEncoding.EncodeToString([]byte(pres.User+":"+pres.Pass)))
	}
	if rq.CType != "" {
		fmt.Fprintf(&b, "Content-Type: %s\r\n", rq.CType)
	}
	fmt.Fprintf(&b, "Content-Length: %d\r\n\r\n%s", len(rq.Body), rq.Body)

	n.rec.take()
	n.creds.takeAsked()
	conn, err := net.DialTimeout("tcp", n.addr, 10*time.Second)
	if err != nil {
		t.Fatalf("dial: %v", err)
	}
	defer conn.Close()
	conn.SetDeadline(time.Now().Add(120 * time.Second))
	if _, err := conn.Write(b.Bytes()); err != nil {
		t.Fatalf("write: %v", err)
	}
	raw, rerr := io.ReadAll(conn) // the server closes after the answer (Connection: close)
	var o c18Obs
	if rerr != nil {
		o.ReadError = rerr.Error()
	}
	o.Calls = strings.Join(n.rec.take(), ",")
	o.Asked = strings.Join(n.creds.takeAsked(), ",")
	all := raw
	if resp, err := gohttp.ReadResponse(bufio.NewReader(bytes.NewReader(raw)), &gohttp.Request{Method: method}); err == nil {
		o.Status = resp.StatusCode
		body, _ := io.ReadAll(resp.Body) // de-chunked
		o.BodyLen = len(body)
		all = append(append([]byte{}, raw...), body...)
	}
	o.Marker = bytes.Contains(all, []byte(c18Marker)) || bytes.Contains(all, []byte(strconv.FormatInt(c18MarkerInt, 10)))
	for _, s := range sigs {
		if bytes.Contains(all, []byte(s)) {
			o.Sig = s
			break
		}
	}
	return o
}

type c18Case struct {
	Route    string `json:"route"`
	Request  string `json:"request"`
	Path     string `json:"path"`
	Method   string `json:"method"`
	Role     string `json:"role"`
	Store    string `json:"store"`
	Pres     string `json:"presentation"`
	Expected string `json:"expected"`
	Obs      c18Obs `json:"observed"`
}

type c18Vio struct{ key, what string }

func c18Judge(route string, want bool, o c18Obs) []c18Vio {
	var v []c18Vio
	if !want {
		if o.Calls != "" {
			v = append(v, c18Vio{"C18:http:store-reached-although-denied:" + route, "calls " + o.Calls})
		}
		if o.Marker || o.Sig != "" {
			v = append(v, c18Vio{"C18:http:content-in-answer-although-denied:" + route, fmt.Sprintf("answer carries content (mock data=%v, signature=%q)", o.Marker, o.Sig)})
		}
		if o.Status != 0 && o.Status < 400 { // no parsable answer at all (connection dropped) is a failure too
			v = append(v, c18Vio{"C18:http:no-failure-status-although-denied:" + route, fmt.Sprintf("status %d", o.Status)})
		}
	} else if o.Status == 401 || o.Status == 403 {
		v = append(v, c18Vio{"C18:http:refused-although-authorized:" + route, fmt.Sprintf("status %d", o.Status)})
	}
	return v
}

func TestVerif_C18_http(t *testing.T) {
	r := kit.Start(t, "C18", "http")
	defer r.Finish()
	thorough := r.Thorough()
	r.Rule("full product: every path literal tested in Service.ServeHTTP (the conditions of its tagless switch and of its if statements, parsed from http/service.go at run time) with 1-3 (thorough 1-6) well-formed requests each (the path itself, a sub-path or sibling matching the same prefix case, query-string variants) x methods {GET, POST, DELETE, PUT; thorough adds HEAD} x node role {leader: the store answers; follower: the store answers ErrNotLeader and the request is forwarded through the cluster client} x every credentials file of <=2 entries over users {u (password p), *} x permission sets {none, each required permission alone, every required permission, `all`, every permission constant that is not required; thorough adds each non-required constant alone} loaded by the real auth.CredentialsStore x presentation {no credentials, u with a wrong password, u with the right password, unknown user}; each request is written as raw HTTP/1.1 bytes (Connection: close) to a real TCP connection of the started Service and read until the server closes. Oracle: C19 reference decision for the route's documented permission(s); on deny a 4xx/5xx status, no call on the recording store or cluster client, no mock data and no route content signature in the answer; on allow no 401/403. SEQUENCES: every ordered pair of requests over {POST /db/execute, GET /db/query, GET /db/backup, GET /status} (thorough: over the acting request of every judged route, on a leader and on a follower) sent on ONE keep-alive connection, each with each of 5 presentations {u right password, u wrong password, no credentials, unknown user, valid user v lacking the permission} against a credentials file in which u holds exactly the first route's permission(s) and v the second's; the first answer is read completely, the mock calls taken, then the second request is sent; every request is judged alone by the same oracle. distinct = (route, request, method, role, expected, status, calls, content seen) and per-sequence outcome vectors")
	r.Assume("route -> permission table as documented for rqlite: execute, query, both for /db/request, backup, load for /db/load and /boot, snapshot for /snapshot and /reap, remove, status for /status /nodes /licenses /debug/*, ready for /readyz, leader-ops for /leader, ui for /console/, query for /db/sql; the repository carries no written table, the constants' doc comments in auth/credential_store.go were used")
	r.Assume("store and cluster client are recording mocks returning marker data; the credential store is the real auth.CredentialsStore behind a delegating recorder; a failure status is any 4xx/5xx")

	src := "service.go"
	routes, unknownForms, err := c18ParseRoutes(src)
	if err != nil {
		t.Fatalf("cannot read the route list: %v", err)
	}
	table := c18Table()
	var missing []string
	present := map[string]bool{}
	for _, rt := range routes {
		present[rt.Lit] = true
		if _, ok := table[rt.Lit]; !ok {
			missing = append(missing, rt.Lit)
		}
	}
	methods := []string{"GET", "POST", "DELETE", "PUT"}
	if thorough {
		methods = append(methods, "HEAD")
	}

	var replay *c18Case
	if raw := kit.Replay(); raw != nil {
		var x struct {
			Case     c18Case     `json:"case"`
			Sequence *c18SeqCase `json:"sequence"`
		}
		if err := json.Unmarshal(raw, &x); err != nil {
			t.Fatalf("replay: %v", err)
		}
		if x.Sequence != nil {
			c18Sequences(t, r, table, present, thorough, x.Sequence.id())
			return
		}
		replay = &x.Case
	}

	type job struct {
		lit  string
		rt   c18Route
		rq   c18Req
		file c18CredFile
	}
	var jobs []job
	for _, sr := range routes {
		rt, ok := table[sr.Lit]
		if !ok {
			// not in the table: still drive it with stores that authorize nobody; whatever its
			// permission is, such a request must not reach the store
			rt = c18Route{Reqs: []c18Req{{Name: "unknown-route", Path: sr.Lit, Body: `["SELECT 1"]`, CType: "application/json"}}}
			if sr.Prefix {
				rt.Reqs = append(rt.Reqs, c18Req{Name: "unknown-route-subpath", Path: sr.Lit + "/x", Body: `["SELECT 1"]`, CType: "application/json"})
			}
		}
		for _, rq := range rt.Reqs {
			if rq.ThoroughOnly && !thorough {
				continue
			}
			files := []c18CredFile{{Entries: []c18Entry{}, JSON: "[]"}}
			if rt.Need != nil && rq.Judged {
				files = c18CredFiles(rt.Need, thorough)
			}
			for _, f := range files {
				if replay != nil && (replay.Route != sr.Lit || replay.Request != rq.Name || replay.Store != f.JSON) {
					continue
				}
				jobs = append(jobs, job{sr.Lit, rt, rq, f})
			}
		}
	}

	type res struct {
		cases []c18Case
		vios  [][]c18Vio
	}
	results := make([]res, len(jobs))
	var wg sync.WaitGroup
	var next atomic.Int64
	for w := 0; w < 8; w++ {
		wg.Add(1)
		go func() {
			defer wg.Done()
			n := c18NewNode(t)
			defer n.svc.Close()
			for {
				i := int(next.Add(1)) - 1
				if i >= len(jobs) {
					return
				}
				j := jobs[i]
				cs := auth.NewCredentialsStore()
				if err := cs.Load(strings.NewReader(j.file.JSON)); err != nil {
					t.Errorf("credentials %s: %v", j.file.JSON, err)
					return
				}
				n.creds.cur.Store(cs)
				ref := c18Ref(j.file.Entries)
				_, known := table[j.lit]
				for _, role := range []string{"leader", "follower"} {
					n.st.follower.Store(role == "follower")
					for _, m := range methods {
						for _, p := range c18Presentations {
							if replay != nil && (replay.Pres != p.Name || replay.Method != m || replay.Role != role) {
								continue
							}
							exp, want := "unjudged", false
							judged := false
							switch {
							case !known:
								exp, judged = "deny", true // nobody is authorized for anything in an empty store
							case j.rt.Need != nil && j.rq.Judged:
								u, pw := p.User, p.Pass
								if p.None {
									u, pw = "", ""
								}
								want = ref.allowed(u, pw, j.rt.Need)
								exp, judged = map[bool]string{true: "allow", false: "deny"}[want], true
							}
							if j.rq.DenyOnly && exp != "deny" {
								continue
							}
							o := n.exchange(t, m, j.rq, p, j.rt.Sigs)
							results[i].cases = append(results[i].cases, c18Case{j.lit, j.rq.Name, j.rq.Path, m, role, j.file.JSON, p.Name, exp, o})
							var vs []c18Vio
							if judged {
								vs = c18Judge(j.lit, want, o)
							}
							results[i].vios = append(results[i].vios, vs)
						}
					}
				}
			}
		}()
	}
	wg.Wait()

	type routeStat struct {
		n, allow, deny, reached, sigSeen int
		asked                            map[string]bool
		outcomes                         map[string]int
	}
	stats := map[string]*routeStat{}
	idx := 0
	for i := range results {
		for k, c := range results[i].cases {
			st := stats[c.Route]
			if st == nil {
				st = &routeStat{asked: map[string]bool{}, outcomes: map[string]int{}}
				stats[c.Route] = st
			}
			st.n++
			switch c.Expected {
			case "allow":
				st.allow++
				if c.Obs.Calls != "" {
					st.reached++
				}
				if c.Obs.Sig != "" {
					st.sigSeen++
				}
			case "deny":
				st.deny++
			}
			for _, a := range strings.Split(c.Obs.Asked, ",") {
				if a != "" {
					st.asked[a] = true
				}
			}
			st.outcomes[fmt.Sprintf("%s: %d store-reached=%v content=%v", c.Expected, c.Obs.Status, c.Obs.Calls != "", c.Obs.Marker || c.Obs.Sig != "")]++
			r.Distinct(fmt.Sprintf("%s|%s|%s|%s|%s|%d|%s|%v|%s", c.Route, c.Request, c.Method, c.Role, c.Expected, c.Obs.Status, c.Obs.Calls, c.Obs.Marker, c.Obs.Sig))
			r.Eval(1)
			r.SampleEvery(idx, c)
			idx++
			for _, v := range results[i].vios[k] {
				r.Violation(v.key, fmt.Sprintf("%s %s (%s node) with store %s, %s (reference decision: %s): %s", c.Method, c.Path, c.Role, c.Store, c.Pres, c.Expected, v.what),
					map[string]any{"case": c})
			}
		}
	}
	r.State(len(jobs))
	if replay != nil {
		return
	}
	r.State(c18Sequences(t, r, table, present, thorough, ""))

	report := map[string]any{}
	var unj []string
	lits := make([]string, 0, len(stats))
	for l := range stats {
		lits = append(lits, l)
	}
	sort.Strings(lits)
	for _, l := range lits {
		st := stats[l]
		rt, known := table[l]
		var asked []string
		for a := range st.asked {
			asked = append(asked, a)
		}
		sort.Strings(asked)
		e := map[string]any{"cases": st.n, "expected_allow": st.allow, "expected_deny": st.deny, "permissions_the_service_asked_about": asked, "outcomes": st.outcomes}
		switch {
		case !known:
			e["judged"] = "not in the permission table: only checked with stores that authorize nobody"
		case rt.Need == nil:
			e["judged"] = false
			e["why_not_judged"] = rt.Why
			unj = append(unj, l+": "+rt.Why)
		default:
			e["judged"] = true
			e["required"] = rt.Need
			if st.reached == 0 && st.sigSeen == 0 {
				t.Errorf("harness: route %s never reached the store nor showed its content when allowed; the deny oracle would be vacuous", l)
			}
			if st.allow == 0 || st.deny == 0 {
				t.Errorf("harness: route %s has allow=%d deny=%d expected cases", l, st.allow, st.deny)
			}
		}
		report[l] = e
	}
	r.Set("routes", report)
	r.Set("routes_in_source", len(routes))
	r.Note("not judged (no permission defined): %s; also the plain redirect of exactly /console", strings.Join(unj, "; "))
	if len(unknownForms) > 0 {
		r.Cap("ServeHTTP has case conditions this harness cannot read: %v", unknownForms)
		t.Errorf("ServeHTTP has case conditions the route extractor does not understand at %v: routes may be missed", unknownForms)
	}
	if len(missing) > 0 {
		r.Cap("routes without an entry in the permission table: %v", missing)
		t.Errorf("routes %v of ServeHTTP have no entry in the C18 permission table: extend c18Table (they were only checked with credential stores that authorize nobody)", missing)
	}
}
