package http

import (
	"bytes"
	"context"
	"database/sql"
	"encoding/base64"
	"encoding/hex"
	"encoding/json"
	"fmt"
	"math"
	"math/big"
	"net/http/httptest"
	"path/filepath"
	"regexp"
	"sort"
	"strconv"
	"strings"
	"sync"
	"testing"

	_ "github.com/mattn/go-sqlite3"
	cmd "github.com/rqlite/rqlite/v10/command"
	command "github.com/rqlite/rqlite/v10/command/proto"
	"github.com/rqlite/rqlite/v10/db"
	kit "github.com/rqlite/rqlite/v10/internal/verifkit"
	"github.com/rqlite/rqlite/v10/proxy"
	pb "google.golang.org/protobuf/proto"
)

// C30: values round-trip through the HTTP API without loss.
//
// Pipeline driven (all real code): JSON body -> Service.ServeHTTP -> ParseRequest ->
// sql.Process -> proxy -> (mock Store that pushes the request through the real Raft-log
// codec: RequestMarshaler.Marshal -> Command -> Unmarshal -> UnmarshalSubCommand) ->
// real db.DB Execute/Query/Request on a real SQLite file -> DBResults.MarshalJSON
// (encoding.Encoder, array/associative, blob_array) -> HTTP body -> json.Decoder.UseNumber.
//
// Oracles:
//  (1) binding: (typeof(v), v) read by an independent plain database/sql connection on
//      rqlite's database file must equal what plain SQLite gives for the same value bound
//      with the corresponding Go type (int64/float64/bool/string/[]byte/nil) into an
//      identical table of a separate reference database.
//  (2) read-back: every JSON cell must equal the value actually stored (as read by the
//      independent connection): integers exact, reals the same float64, text exact,
//      NULL -> null, blobs base64 (or an array of byte values under blob_array).

// ---------------------------------------------------------------------------------
// value menu

type c30Val struct {
	JSON   string // literal JSON text of the parameter
	Shape  string // integer | float | bool | null | text | hex-literal | byte-array
	Alts   []any  // permitted bound Go values; Alts[0] is the primary reading
	Reject bool   // the request must not be accepted with an altered value
}

func c30I(s string) c30Val {
	n, err := strconv.ParseInt(s, 10, 64)
	if err != nil {
		panic(err)
	}
	return c30Val{JSON: s, Shape: "integer", Alts: []any{n}}
}

func c30F(s string) c30Val {
	f, err := strconv.ParseFloat(s, 64)
	if err != nil {
		panic(err)
	}
	return c30Val{JSON: s, Shape: "float", Alts: []any{f}}
}

// a JSON number written with a fraction/exponent whose value is integral: JSON has one
// number type, so both a REAL and an INTEGER binding of the same value are permitted.
func c30FI(s string) c30Val {
	f, err := strconv.ParseFloat(s, 64)
	if err != nil {
		panic(err)
	}
	return c30Val{JSON: s, Shape: "float", Alts: []any{f, int64(f)}}
}

func c30S(s string) c30Val {
	b, _ := json.Marshal(s)
	return c30Val{JSON: string(b), Shape: "text", Alts: []any{s}}
}

var (
	c30HexStrict = regexp.MustCompile(`^[xX]'([0-9a-fA-F]{2})*'$`)
)

// c30Str classifies a string by the documented rule, written independently of
// db.ParseHex: exactly X'<even number of hex digits>' is a blob literal; a string that
// only becomes one after trimming surrounding white space may be read either way;
// everything else is text.
func c30Str(s string) c30Val {
	jb, _ := json.Marshal(s)
	v := c30Val{JSON: string(jb)}
	dec := func(t string) []byte {
		b, err := hex.DecodeString(t[2 : len(t)-1])
		if err != nil {
			panic(err)
		}
		if b == nil {
			b = []byte{}
		}
		return b
	}
	switch t := strings.TrimSpace(s); {
	case c30HexStrict.MatchString(s):
		v.Shape, v.Alts = "hex-literal", []any{dec(s)}
	case c30HexStrict.MatchString(t):
		v.Shape, v.Alts = "hex-literal-padded", []any{dec(t), s}
	default:
		v.Shape, v.Alts = "text", []any{s}
	}
	return v
}

func c30Bytes(b ...byte) c30Val {
	parts := make([]string, len(b))
	for i, x := range b {
		parts[i] = strconv.Itoa(int(x))
	}
	if b == nil {
		b = []byte{}
	}
	return c30Val{JSON: "[" + strings.Join(parts, ",") + "]", Shape: "byte-array", Alts: []any{[]byte(b)}}
}

func c30Menu(thorough bool) []c30Val {
	var m []c30Val
	for _, s := range []string{"0", "1", "-1", "255", "2147483647", "2147483648", "-2147483649", "4294967296",
		"9007199254740991", "9007199254740992", "9007199254740993", "-9007199254740993",
		"9223372036854775806", "9223372036854775807", "-9223372036854775807", "-9223372036854775808",
		"1234567890123456789"} {
		m = append(m, c30I(s))
	}
	// "-0" is an integer literal whose only int64 reading is 0; a float reading is -0.0.
	m = append(m, c30Val{JSON: "-0", Shape: "integer", Alts: []any{int64(0), math.Copysign(0, -1)}})
	for _, s := range []string{"0.5", "1.5", "-1.5", "0.1", "1e308", "1.7976931348623157e308", "-1.7976931348623157e308",
		"5e-324", "2.2250738585072014e-308", "1e-7", "123456789.125", "3.141592653589793", "0.30000000000000004",
		"9007199254740993.5", "1.0000000000000002"} {
		m = append(m, c30F(s))
	}
	// integral values written as floats (either numeric class allowed by JSON)
	for _, s := range []string{"0.0", "-0.0", "1.0", "1e2", "1e21", "9007199254740992.0", "-9223372036854775808.0", "9223372036854775808.0", "1E0"} {
		m = append(m, c30FI(s))
	}
	// 2^63 as float cannot be an int64: only the float reading is allowed there.
	for i := range m {
		if m[i].JSON == "9223372036854775808.0" || m[i].JSON == "1e21" {
			m[i].Alts = m[i].Alts[:1]
		}
	}
	m = append(m,
		c30Val{JSON: "true", Shape: "bool", Alts: []any{true}},
		c30Val{JSON: "false", Shape: "bool", Alts: []any{false}},
		c30Val{JSON: "null", Shape: "null", Alts: []any{nil}},
	)
	for _, s := range []string{"", "a", "hello world", "it's \"quoted\"", "été", "日本語", "😀 non-BMP", "a\x00b", "line\nbreak\ttab\r",
		"<a href=\"x\">&amp;</a>", "  ", " ", "�", "123", "-1", "1.5", "1e3", " 12 ", "0x10", "+7",
		"-9223372036854775808", "9223372036854775807", "9223372036854775808", "9007199254740993", "true", "null", "NaN", "Infinity", "-0", "0.0",
		"YWJj", "[1,2]", "{\"a\":1}",
		// hex-looking text that is NOT a well-formed literal
		"X'zz'", "x'abc'", "X'00", "X", "x'", "X'0'", "x''x", "XX'00'", "'00'", "x '00'", "X\"00\"", "0x00ff", "X'00''", "X'0 0'", "y'00'",
		// well-formed literals
		"X'00ff'", "x'00FF'", "X''", "x''", "X'616263'", "x'61626364'", "X'DEADBEEF'", "x'e9'", "X'c3a9'", "X'00'", "x'ff'", "X'fffe'",
		// literals only after trimming
		" X'616263' ", "\tx'00'\n", "X'ff' ", " X''",
	} {
		m = append(m, c30Str(s))
	}
	m = append(m, c30Bytes(), c30Bytes(0), c30Bytes(255), c30Bytes(0, 255, 128, 65), c30Bytes(97, 98, 99), c30Bytes(97, 98, 99, 100),
		c30Bytes(233), c30Bytes(195, 169), c30Bytes(1, 2, 3, 4, 5, 6, 7, 8, 9, 10))
	// byte values outside 0..255 cannot be stored as that byte: accepting the request and
	// storing something else alters the value.
	m = append(m,
		c30Val{JSON: "[256]", Shape: "byte-array-out-of-range", Reject: true},
		c30Val{JSON: "[-1]", Shape: "byte-array-out-of-range", Reject: true},
		c30Val{JSON: "[1,2,1000]", Shape: "byte-array-out-of-range", Reject: true},
	)
	if thorough {
		for sh := uint(8); sh <= 62; sh++ {
			p := int64(1) << sh
			for _, d := range []int64{-1, 0, 1} {
				m = append(m, c30I(strconv.FormatInt(p+d, 10)), c30I(strconv.FormatInt(-(p + d), 10)))
			}
		}
		for b := 0; b < 256; b++ {
			m = append(m, c30Bytes(byte(b)), c30Str(fmt.Sprintf("X'%02x'", b)), c30Bytes('a', byte(b), 'z'))
		}
		for _, s := range []string{"1e-320", "4.9406564584124654e-324", "1.7976931348623157e+308", "-2.2250738585072014e-308", "0.1e1", "12345678901234567890.0",
			"0.000001", "0.0000001", "100000000000000000000.5", "2.5e-5", "-1e-300"} {
			m = append(m, c30F(s))
		}
	}
	// dedupe by JSON text
	seen := map[string]bool{}
	out := m[:0]
	for _, v := range m {
		if !seen[v.JSON] {
			seen[v.JSON] = true
			out = append(out, v)
		}
	}
	return out
}

// c30HexGrammar enumerates every string of a small grammar around the X'..' rule.
func c30HexGrammar(thorough bool) []c30Val {
	pre := []string{"", " "}
	lead := []string{"X", "x", "Y", ""}
	q1 := []string{"'", "\""}
	digits := []string{"", "0", "00", "0g", "ab", "AB", "a b", "abc", "00ff"}
	q2 := []string{"'", ""}
	suf := []string{"", " ", "x"}
	if thorough {
		pre = append(pre, "\n", "X")
		digits = append(digits, "Ff", "g0", "0'0", "''", "00 ", " 00", "fffffffffffffffff", "0123456789abcdefABCDEF")
		suf = append(suf, "'", "\t")
	}
	var out []c30Val
	seen := map[string]bool{}
	for _, a := range pre {
		for _, b := range lead {
			for _, c := range q1 {
				for _, d := range digits {
					for _, e := range q2 {
						for _, f := range suf {
							s := a + b + c + d + e + f
							if !seen[s] {
								seen[s] = true
								out = append(out, c30Str(s))
							}
						}
					}
				}
			}
		}
	}
	return out
}

// ---------------------------------------------------------------------------------
// environment: one real Service + real db.DB + observer + reference per worker

type c30Dest struct {
	Name  string // none|integer|real|text|blob|expr
	Table string
	Decl  string
}

var c30Dests = []c30Dest{
	{"none", "t_none", ""},
	{"integer", "t_int", "INTEGER"},
	{"real", "t_real", "REAL"},
	{"text", "t_text", "TEXT"},
	{"blob", "t_blob", "BLOB"},
	{"expr", "", ""},
}

type c30Env struct {
	t    *testing.T
	r    *kit.Run
	svc  *Service
	rq   *db.DB
	obs  *sql.DB
	ref  *sql.DB
	id   int64
	rid  int64
	refc map[string]c30Stored
}

// c30Stored is a value as SQLite holds it: typeof() and the Go value the plain driver returns.
type c30Stored struct {
	Ty  string
	Val any
}

func (s c30Stored) String() string { return s.Ty + ":" + c30Show(s.Val) }

func c30Show(v any) string {
	switch x := v.(type) {
	case nil:
		return "NULL"
	case int64:
		return strconv.FormatInt(x, 10)
	case float64:
		return fmt.Sprintf("%s(bits %016x)", strconv.FormatFloat(x, 'g', -1, 64), math.Float64bits(x))
	case bool:
		return fmt.Sprintf("bool %v", x)
	case string:
		return fmt.Sprintf("%q", x)
	case []byte:
		return "x'" + hex.EncodeToString(x) + "'"
	}
	return fmt.Sprintf("%T(%v)", v, v)
}

func c30Same(a, b c30Stored) bool {
	if a.Ty != b.Ty {
		return false
	}
	switch x := a.Val.(type) {
	case nil:
		return b.Val == nil
	case int64:
		y, ok := b.Val.(int64)
		return ok && x == y
	case float64:
		y, ok := b.Val.(float64)
		return ok && math.Float64bits(x) == math.Float64bits(y)
	case string:
		y, ok := b.Val.(string)
		return ok && x == y
	case []byte:
		y, ok := b.Val.([]byte)
		return ok && bytes.Equal(x, y)
	}
	return false
}

// c30LogCodec pushes a request through the encoding the Store uses for the Raft log.
func c30LogCodec(typ command.Command_Type, in cmd.Requester, out pb.Message) error {
	b, compressed, err := cmd.NewRequestMarshaler().Marshal(in)
	if err != nil {
		return err
	}
	c := &command.Command{Type: typ, SubCommand: b, Compressed: compressed}
	cb, err := cmd.Marshal(c)
	if err != nil {
		return err
	}
	var c2 command.Command
	if err := cmd.Unmarshal(cb, &c2); err != nil {
		return err
	}
	return cmd.UnmarshalSubCommand(&c2, out)
}

func c30NewEnv(t *testing.T, r *kit.Run, dir string) *c30Env {
	e := &c30Env{t: t, r: r, refc: map[string]c30Stored{}}
	path := filepath.Join(dir, "rq.db")
	rq, err := db.Open(path, false, true)
	if err != nil {
		t.Fatalf("open rqlite db: %v", err)
	}
	e.rq = rq
	e.obs, err = sql.Open("sqlite3", "file:"+path+"?mode=ro")
	if err != nil {
		t.Fatalf("open observer: %v", err)
	}
	e.obs.SetMaxOpenConns(1)
	e.ref, err = sql.Open("sqlite3", ":memory:")
	if err != nil {
		t.Fatalf("open reference: %v", err)
	}
	e.ref.SetMaxOpenConns(1)

	m := &MockStore{}
	m.executeFn = func(er *command.ExecuteRequest) ([]*command.ExecuteQueryResponse, uint64, error) {
		var er2 command.ExecuteRequest
		if err := c30LogCodec(command.Command_COMMAND_TYPE_EXECUTE, er, &er2); err != nil {
			return nil, 0, err
		}
		res, err := rq.Execute(er2.Request, er2.Timings)
		return res, 1, err
	}
	m.queryFn = func(qr *command.QueryRequest) ([]*command.QueryRows, uint64, error) {
		if qr.Level == command.ConsistencyLevel_STRONG {
			var qr2 command.QueryRequest
			if err := c30LogCodec(command.Command_COMMAND_TYPE_QUERY, qr, &qr2); err != nil {
				return nil, 0, err
			}
			qr = &qr2
		}
		res, err := rq.Query(qr.Request, qr.Timings)
		return res, 1, err
	}
	m.requestFn = func(eqr *command.ExecuteQueryRequest) ([]*command.ExecuteQueryResponse, uint64, uint64, error) {
		var eqr2 command.ExecuteQueryRequest
		if err := c30LogCodec(command.Command_COMMAND_TYPE_EXECUTE_QUERY, eqr, &eqr2); err != nil {
			return nil, 0, 0, err
		}
		res, err := rq.Request(eqr2.Request, eqr2.Timings)
		return res, 0, 1, err
	}
	c := &mockClusterService{}
	e.svc = New("127.0.0.1:0", m, c, proxy.New(m, c), nil)

	for _, d := range c30Dests {
		if d.Table == "" {
			continue
		}
		ddl := fmt.Sprintf("CREATE TABLE %s (id INTEGER PRIMARY KEY, v %s)", d.Table, d.Decl)
		st, body := e.http("POST", "/db/execute", c30Body(ddl))
		if st != 200 || strings.Contains(string(body), `"error"`) {
			t.Fatalf("create table via HTTP: %d %s", st, body)
		}
		if _, err := e.ref.Exec(ddl); err != nil {
			t.Fatalf("create reference table: %v", err)
		}
	}
	return e
}

func (e *c30Env) close() {
	e.obs.Close()
	e.ref.Close()
	e.rq.Close()
}

func (e *c30Env) http(method, url, body string) (int, []byte) {
	req := httptest.NewRequest(method, url, strings.NewReader(body))
	req.Header.Set("Content-Type", "application/json")
	req = req.WithContext(context.Background())
	rec := httptest.NewRecorder()
	e.svc.ServeHTTP(rec, req)
	return rec.Code, rec.Body.Bytes()
}

// c30Body builds a one-statement request body; params are literal JSON texts.
func c30Body(sqlText string, params ...string) string {
	q, _ := json.Marshal(sqlText)
	return "[[" + strings.Join(append([]string{string(q)}, params...), ",") + "]]"
}

// observe reads what is stored, through the independent connection.
func (e *c30Env) observe(expr, table string, id int64) (c30Stored, error) {
	var s c30Stored
	err := e.obs.QueryRow(fmt.Sprintf("SELECT typeof(%s), %s FROM %s WHERE id=?", expr, expr, table), id).Scan(&s.Ty, &s.Val)
	return s, err
}

func c30AltKey(v any) string {
	switch x := v.(type) {
	case float64:
		return fmt.Sprintf("f:%016x", math.Float64bits(x))
	case []byte:
		return "y:" + hex.EncodeToString(x)
	case string:
		return "s:" + x
	}
	return fmt.Sprintf("%T:%v", v, v)
}

// reference gives SQLite's own result for Go value alt bound into dest.
func (e *c30Env) reference(d c30Dest, alt any) c30Stored {
	key := d.Name + "|" + c30AltKey(alt)
	if s, ok := e.refc[key]; ok {
		return s
	}
	var s c30Stored
	if d.Table == "" {
		if err := e.ref.QueryRow("SELECT typeof(?1), ?1", alt).Scan(&s.Ty, &s.Val); err != nil {
			e.t.Fatalf("reference select %s: %v", c30Show(alt), err)
		}
	} else {
		e.rid++
		if _, err := e.ref.Exec(fmt.Sprintf("INSERT INTO %s(id, v) VALUES(?, ?)", d.Table), e.rid, alt); err != nil {
			e.t.Fatalf("reference insert %s: %v", c30Show(alt), err)
		}
		if err := e.ref.QueryRow(fmt.Sprintf("SELECT typeof(v), v FROM %s WHERE id=?", d.Table), e.rid).Scan(&s.Ty, &s.Val); err != nil {
			e.t.Fatalf("reference read: %v", err)
		}
	}
	e.refc[key] = s
	return s
}

// ---------------------------------------------------------------------------------
// response decoding

type c30Form struct {
	Assoc, BlobArray bool
}

func (f c30Form) query() string {
	var q []string
	if f.Assoc {
		q = append(q, "associative")
	}
	if f.BlobArray {
		q = append(q, "blob_array")
	}
	return strings.Join(q, "&")
}

func (f c30Form) String() string {
	s := "array"
	if f.Assoc {
		s = "associative"
	}
	if f.BlobArray {
		s += "+blob_array"
	}
	return s
}

var c30Forms = []c30Form{{false, false}, {true, false}, {false, true}, {true, true}}

type c30Rows struct {
	Err   string
	Types []string
	Cells [][]any // rows x columns, decoded with UseNumber
}

// c30Decode extracts result i of an HTTP response body for the given columns.
func c30Decode(body []byte, assoc bool, cols []string) (c30Rows, error) {
	var out c30Rows
	dec := json.NewDecoder(bytes.NewReader(body))
	dec.UseNumber()
	var top map[string]any
	if err := dec.Decode(&top); err != nil {
		return out, fmt.Errorf("response is not JSON: %v", err)
	}
	if s, ok := top["error"].(string); ok && s != "" {
		out.Err = s
		return out, nil
	}
	results, ok := top["results"].([]any)
	if !ok || len(results) != 1 {
		return out, fmt.Errorf("expected exactly one result")
	}
	res, ok := results[0].(map[string]any)
	if !ok {
		return out, fmt.Errorf("result is not an object")
	}
	if s, ok := res["error"].(string); ok && s != "" {
		out.Err = s
		return out, nil
	}
	if assoc {
		tm, _ := res["types"].(map[string]any)
		for _, c := range cols {
			ts, _ := tm[c].(string)
			out.Types = append(out.Types, ts)
		}
		rows, _ := res["rows"].([]any)
		for _, r := range rows {
			rm, ok := r.(map[string]any)
			if !ok {
				return out, fmt.Errorf("associative row is not an object")
			}
			var cells []any
			for _, c := range cols {
				v, present := rm[c]
				if !present {
					return out, fmt.Errorf("associative row lacks column %q", c)
				}
				cells = append(cells, v)
			}
			out.Cells = append(out.Cells, cells)
		}
		return out, nil
	}
	gotCols, _ := res["columns"].([]any)
	if len(gotCols) != len(cols) {
		return out, fmt.Errorf("columns %v, want %v", gotCols, cols)
	}
	for i, c := range cols {
		if s, _ := gotCols[i].(string); s != c {
			return out, fmt.Errorf("columns %v, want %v", gotCols, cols)
		}
	}
	ts, _ := res["types"].([]any)
	for _, t := range ts {
		s, _ := t.(string)
		out.Types = append(out.Types, s)
	}
	vals, _ := res["values"].([]any)
	for _, r := range vals {
		ra, ok := r.([]any)
		if !ok || len(ra) != len(cols) {
			return out, fmt.Errorf("row %v does not have %d cells", r, len(cols))
		}
		out.Cells = append(out.Cells, ra)
	}
	return out, nil
}

// c30AsJSONText is what a JSON client sees when raw bytes are emitted as a JSON string.
func c30AsJSONText(b []byte) string {
	jb, _ := json.Marshal(string(b))
	var asText string
	json.Unmarshal(jb, &asText)
	return asText
}

// c30Cell judges one returned JSON cell against the stored value. It returns "" if the
// cell carries the stored value without loss, else a violation class.
func c30Cell(stored any, got any, blobArray bool) string {
	switch s := stored.(type) {
	case nil:
		if got == nil {
			return ""
		}
		return "null-not-null"
	case int64:
		n, ok := got.(json.Number)
		if !ok {
			return "integer-not-a-number"
		}
		r, ok := new(big.Rat).SetString(n.String())
		if !ok || r.Cmp(new(big.Rat).SetInt64(s)) != 0 {
			return "int64-precision-lost"
		}
		return ""
	case float64:
		n, ok := got.(json.Number)
		if !ok {
			return "real-not-a-number"
		}
		f, err := strconv.ParseFloat(n.String(), 64)
		if err != nil || f != s { // numeric equality: the sign of a zero is not demanded
			return "real-not-roundtrip"
		}
		return ""
	case string:
		g, ok := got.(string)
		if !ok || g != s {
			return "text-altered"
		}
		return ""
	case []byte:
		if blobArray {
			if arr, ok := got.([]any); ok {
				if len(arr) != len(s) {
					return "blob-altered"
				}
				for i, x := range arr {
					n, ok := x.(json.Number)
					if !ok || n.String() != strconv.Itoa(int(s[i])) {
						return "blob-altered"
					}
				}
				return ""
			}
			if g, ok := got.(string); ok {
				if g == "" && len(s) == 0 {
					return "" // the empty byte sequence, whatever the encoding: not demanded to be []
				}
				if b, err := base64.StdEncoding.DecodeString(g); err == nil && bytes.Equal(b, s) {
					return "blob-array-option-ignored"
				}
				if g == c30AsJSONText(s) {
					return "blob-returned-as-text"
				}
			}
			return "blob-altered"
		}
		g, ok := got.(string)
		if !ok {
			return "blob-altered"
		}
		if b, err := base64.StdEncoding.DecodeString(g); err == nil && bytes.Equal(b, s) {
			return ""
		}
		if g == c30AsJSONText(s) {
			return "blob-returned-as-text"
		}
		return "blob-altered"
	}
	return "harness-unknown-stored-type"
}

// ---------------------------------------------------------------------------------
// the checks

type c30Case struct {
	Value string `json:"value_json"`
	Shape string `json:"shape"`
	Style string `json:"style"` // positional | named
	Dest  string `json:"dest"`
}

func c30SourceClass(dest, path string) string {
	if dest == "expr" || path == "expr-over-column" {
		return "expression"
	}
	if dest == "none" {
		return "untyped-column"
	}
	return dest + "-column"
}

type c30ReadPath struct {
	Name, URL string
	Expr      string // SQL expression selected
	WithKey   bool   // also select typeof(v) and id before v, and -id after it
}

var c30ReadPaths = []c30ReadPath{
	{"query", "/db/query", "v", false},
	{"query-strong", "/db/query?level=strong", "v", false},
	{"request", "/db/request", "v", false},
	{"expr-over-column", "/db/query", "coalesce(v, v)", false},
	{"four-columns", "/db/query", "v", true},
}

func c30URL(base, q string) string {
	if q == "" {
		return base
	}
	if strings.Contains(base, "?") {
		return base + "&" + q
	}
	return base + "?" + q
}

// c30BlobTextKind grades a blob that came back as a plain JSON string.
func c30BlobTextKind(b []byte) string {
	jb, _ := json.Marshal(string(b))
	var back string
	json.Unmarshal(jb, &back)
	if back != string(b) {
		return "bytes-destroyed" // invalid UTF-8 replaced by U+FFFD: the bytes cannot be recovered
	}
	return "wrong-encoding" // bytes present, but not in the documented blob encoding and indistinguishable from text
}

// c30Judge records the verdict on one returned cell.
func (e *c30Env) c30Judge(w c30Stored, got any, f c30Form, src, desc string, types []string, resp []byte, rep any) string {
	cls := c30Cell(w.Val, got, f.BlobArray)
	if cls == "" {
		return ""
	}
	key := "C30:" + cls + ":" + f.String()
	if cls == "blob-returned-as-text" {
		kind := c30BlobTextKind(w.Val.([]byte))
		key = "C30:blob-returned-as-text:" + src + ":" + kind
		cls += ":" + kind
	}
	gj, _ := json.Marshal(got)
	e.r.Violation(key, fmt.Sprintf("stored %s (%s) %s in %s form came back as %s with types %q; response %s", w, src, desc, f, gj, types, resp), rep)
	return cls
}

// readBack issues one read and judges every cell; want[i][j] is the stored value of row i, column cols[j].
func (e *c30Env) readBack(cs c30Case, path, url, body string, f c30Form, cols []string, want [][]c30Stored, outcome *[]string) {
	st, resp := e.http("POST", c30URL(url, f.query()), body)
	rep := map[string]any{"case": cs, "read_path": path, "form": f.String(), "url": c30URL(url, f.query()), "body": body, "response": string(resp), "stored": fmt.Sprint(want)}
	e.r.Eval(1)
	src := c30SourceClass(cs.Dest, path)
	if st != 200 {
		e.r.Violation("C30:read-error:"+src, fmt.Sprintf("%s %s -> HTTP %d %s (stored %v)", url, body, st, bytes.TrimSpace(resp), want), rep)
		*outcome = append(*outcome, path+"/"+f.String()+"=http"+strconv.Itoa(st))
		return
	}
	rows, err := c30Decode(resp, f.Assoc, cols)
	if err != nil || rows.Err != "" || len(rows.Cells) != len(want) {
		e.r.Violation("C30:read-error:"+src, fmt.Sprintf("%s %s -> %s (decode err %v, result error %q, %d rows, stored %v)", url, body, resp, err, rows.Err, len(rows.Cells), want), rep)
		*outcome = append(*outcome, path+"/"+f.String()+"=error")
		return
	}
	for i, wr := range want {
		for j, w := range wr {
			ty := ""
			if j < len(rows.Types) {
				ty = rows.Types[j]
			}
			cls := e.c30Judge(w, rows.Cells[i][j], f, src, fmt.Sprintf("row %d of %d column %s read by %s %s", i+1, len(want), cols[j], url, body), rows.Types, resp, rep)
			*outcome = append(*outcome, fmt.Sprintf("%s/%s[%d,%d]:%s type=%q %s", path, f, i, j, w.Ty, ty, cls))
		}
	}
}

func c30ParamObj(kv ...string) string {
	var p []string
	for i := 0; i+1 < len(kv); i += 2 {
		p = append(p, fmt.Sprintf("%q:%s", kv[i], kv[i+1]))
	}
	return "{" + strings.Join(p, ",") + "}"
}

// insert sends INSERT [RETURNING] through /db/execute and returns status, body, id.
func (e *c30Env) insert(v c30Val, style string, d c30Dest, returning bool, f c30Form) (int, []byte, int64, string) {
	e.id++
	id := strconv.FormatInt(e.id, 10)
	ret := ""
	if returning {
		ret = " RETURNING v"
	}
	var body string
	if style == "named" {
		body = c30Body(fmt.Sprintf("INSERT INTO %s(id, v) VALUES(:id, :v)%s", d.Table, ret), c30ParamObj("id", id, "v", v.JSON))
	} else {
		body = c30Body(fmt.Sprintf("INSERT INTO %s(id, v) VALUES(?, ?)%s", d.Table, ret), id, v.JSON)
	}
	st, resp := e.http("POST", c30URL("/db/execute", f.query()), body)
	return st, resp, e.id, body
}

func c30Accepted(st int, resp []byte) bool {
	if st != 200 {
		return false
	}
	var top struct {
		Error   string `json:"error"`
		Results []struct {
			Error string `json:"error"`
		} `json:"results"`
	}
	if err := json.Unmarshal(resp, &top); err != nil || top.Error != "" {
		return false
	}
	for _, r := range top.Results {
		if r.Error != "" {
			return false
		}
	}
	return len(top.Results) > 0
}

// checkBind compares what rqlite stored with SQLite's own result for every permitted reading.
func (e *c30Env) checkBind(cs c30Case, v c30Val, d c30Dest, got c30Stored, body string, resp []byte) (matched any, ok bool) {
	var wants []string
	for _, a := range v.Alts {
		w := e.reference(d, a)
		if c30Same(got, w) {
			return a, true
		}
		wants = append(wants, fmt.Sprintf("%s for Go %T", w, a))
	}
	w0 := e.reference(d, v.Alts[0])
	kind := "bind-value-mismatch"
	if w0.Ty != got.Ty {
		kind = "bind-type-mismatch"
	}
	e.r.Violation("C30:"+kind+":"+v.Shape, fmt.Sprintf("parameter %s (%s, %s) into %s: SQLite holds %s, plain SQLite gives %s; request %s",
		v.JSON, v.Shape, cs.Style, d.Name, got, strings.Join(wants, " or "), body),
		map[string]any{"case": cs, "body": body, "response": string(resp), "got": got.String(), "want": wants})
	return v.Alts[0], false
}

func (e *c30Env) runColumnCase(v c30Val, style string, d c30Dest, full bool) {
	cs := c30Case{Value: v.JSON, Shape: v.Shape, Style: style, Dest: d.Name}
	var outcome []string
	defer func() {
		e.r.Distinct(fmt.Sprintf("%s|%s|%s", v.Shape, d.Name, strings.Join(outcome, ";")))
	}()
	st, resp, id, body := e.insert(v, style, d, false, c30Form{})
	e.r.Eval(1)
	if v.Reject {
		if c30Accepted(st, resp) {
			got, _ := e.observe("v", d.Table, id)
			e.r.Violation("C30:out-of-range-byte-accepted", fmt.Sprintf("request %s accepted; stored %s", body, got),
				map[string]any{"case": cs, "body": body, "response": string(resp)})
			outcome = append(outcome, "accepted")
		} else {
			outcome = append(outcome, "rejected")
		}
		return
	}
	if !c30Accepted(st, resp) {
		e.r.Violation("C30:request-rejected:"+v.Shape, fmt.Sprintf("request %s -> HTTP %d %s", body, st, bytes.TrimSpace(resp)),
			map[string]any{"case": cs, "body": body, "response": string(resp)})
		outcome = append(outcome, "rejected")
		return
	}
	got, err := e.observe("v", d.Table, id)
	if err != nil {
		e.r.Violation("C30:row-not-stored:"+v.Shape, fmt.Sprintf("request %s accepted (%s) but row %d not readable: %v", body, resp, id, err),
			map[string]any{"case": cs, "body": body, "response": string(resp)})
		outcome = append(outcome, "not-stored")
		return
	}
	_, ok := e.checkBind(cs, v, d, got, body, resp)
	outcome = append(outcome, fmt.Sprintf("bind=%s ok=%v", got.Ty, ok))
	if !full {
		return
	}
	idj := strconv.FormatInt(id, 10)
	for _, p := range c30ReadPaths {
		want := got
		if p.Expr != "v" {
			if want, err = e.observe(p.Expr, d.Table, id); err != nil {
				e.t.Fatalf("observe %s: %v", p.Expr, err)
			}
		}
		sel, cols, wantRow := p.Expr+" AS v", []string{"v"}, []c30Stored{want}
		if p.WithKey {
			k := c30Stored{"integer", id}
			sel, cols, wantRow = "typeof(v) AS k0, id AS k1, v AS v, -id AS k2", []string{"k0", "k1", "v", "k2"},
				[]c30Stored{{"text", want.Ty}, k, want, {"integer", -id}}
		}
		var rb string
		if style == "named" {
			rb = c30Body(fmt.Sprintf("SELECT %s FROM %s WHERE id = :id", sel, d.Table), c30ParamObj("id", idj))
		} else {
			rb = c30Body(fmt.Sprintf("SELECT %s FROM %s WHERE id = ?", sel, d.Table), idj)
		}
		for _, f := range c30Forms {
			e.readBack(cs, p.Name, p.URL, rb, f, cols, [][]c30Stored{wantRow}, &outcome)
		}
	}
	// INSERT ... RETURNING through /db/execute: write and read in one statement.
	for _, f := range c30Forms {
		st, resp, id2, body2 := e.insert(v, style, d, true, f)
		e.r.Eval(1)
		want, err := e.observe("v", d.Table, id2)
		if st != 200 || err != nil {
			e.r.Violation("C30:read-error:"+c30SourceClass(d.Name, "returning"), fmt.Sprintf("%s -> HTTP %d %s (observe err %v)", body2, st, bytes.TrimSpace(resp), err),
				map[string]any{"case": cs, "body": body2, "response": string(resp)})
			continue
		}
		rows, derr := c30Decode(resp, f.Assoc, []string{"v"})
		if derr != nil || rows.Err != "" || len(rows.Cells) != 1 {
			e.r.Violation("C30:read-error:"+c30SourceClass(d.Name, "returning"), fmt.Sprintf("%s -> %s (decode err %v)", body2, resp, derr),
				map[string]any{"case": cs, "body": body2, "response": string(resp)})
			continue
		}
		cls := e.c30Judge(want, rows.Cells[0][0], f, c30SourceClass(d.Name, "returning"), "returned by "+body2, rows.Types, resp,
			map[string]any{"case": cs, "read_path": "returning", "form": f.String(), "body": body2, "response": string(resp)})
		outcome = append(outcome, fmt.Sprintf("returning/%s:%s type=%q %s", f, want.Ty, rows.Types, cls))
	}
}

func (e *c30Env) runExprCase(v c30Val, style string) {
	d := c30Dests[len(c30Dests)-1]
	cs := c30Case{Value: v.JSON, Shape: v.Shape, Style: style, Dest: d.Name}
	var outcome []string
	defer func() {
		e.r.Distinct(fmt.Sprintf("%s|expr|%s", v.Shape, strings.Join(outcome, ";")))
	}()
	// binding, observed inside SQLite by typeof/quote/hex of the parameter itself
	var bb string
	if style == "named" {
		bb = c30Body("SELECT typeof(:v) AS ty, quote(:v) AS q, hex(:v) AS hx", c30ParamObj("v", v.JSON))
	} else {
		bb = c30Body("SELECT typeof(?) AS ty, quote(?) AS q, hex(?) AS hx", v.JSON, v.JSON, v.JSON)
	}
	st, resp := e.http("POST", "/db/query", bb)
	e.r.Eval(1)
	rows, derr := c30Decode(resp, false, []string{"ty", "q", "hx"})
	accepted := st == 200 && derr == nil && rows.Err == "" && len(rows.Cells) == 1
	if v.Reject {
		if accepted {
			e.r.Violation("C30:out-of-range-byte-accepted", fmt.Sprintf("request %s accepted: %s", bb, resp), map[string]any{"case": cs, "body": bb, "response": string(resp)})
		}
		outcome = append(outcome, fmt.Sprintf("accepted=%v", accepted))
		return
	}
	if !accepted {
		e.r.Violation("C30:request-rejected:"+v.Shape, fmt.Sprintf("request %s -> HTTP %d %s", bb, st, bytes.TrimSpace(resp)), map[string]any{"case": cs, "body": bb, "response": string(resp)})
		outcome = append(outcome, "rejected")
		return
	}
	gotTy, _ := rows.Cells[0][0].(string)
	gotQ, _ := rows.Cells[0][1].(string)
	gotHx, _ := rows.Cells[0][2].(string)
	matched := v.Alts[0]
	ok := false
	var wants []string
	for _, a := range v.Alts {
		var ty, q, hx string
		if err := e.ref.QueryRow("SELECT typeof(?1), quote(?1), hex(?1)", a).Scan(&ty, &q, &hx); err != nil {
			e.t.Fatalf("reference: %v", err)
		}
		if ty == gotTy && q == gotQ && hx == gotHx {
			matched, ok = a, true
			break
		}
		wants = append(wants, fmt.Sprintf("typeof=%s quote=%s hex=%s for Go %T", ty, q, hx, a))
	}
	outcome = append(outcome, fmt.Sprintf("bind=%s ok=%v", gotTy, ok))
	if !ok {
		kind := "bind-value-mismatch"
		if !strings.Contains(wants[0], "typeof="+gotTy+" ") {
			kind = "bind-type-mismatch"
		}
		e.r.Violation("C30:"+kind+":"+v.Shape, fmt.Sprintf("parameter %s (%s, %s) in a bare expression: SQLite sees typeof=%s quote=%s hex=%s, plain SQLite gives %s; request %s",
			v.JSON, v.Shape, style, gotTy, gotQ, gotHx, strings.Join(wants, " or "), bb), map[string]any{"case": cs, "body": bb, "response": string(resp)})
	}
	if !ok {
		return // what SQLite received is not one of the permitted readings; nothing to compare a read with
	}
	// read-back of SELECT ?
	want := e.reference(d, matched)
	var rb string
	if style == "named" {
		rb = c30Body("SELECT :v AS v", c30ParamObj("v", v.JSON))
	} else {
		rb = c30Body("SELECT ? AS v", v.JSON)
	}
	for _, p := range c30ReadPaths[:3] {
		for _, f := range c30Forms {
			e.readBack(cs, p.Name, p.URL, rb, f, []string{"v"}, [][]c30Stored{{want}}, &outcome)
		}
	}
}

// runPairs reads two stored rows in one query, in both orders, from every table: the
// decoding of a row must not depend on the rows before it.
func (e *c30Env) runPairs(reps []c30Val) {
	for _, d := range c30Dests {
		if d.Table == "" {
			continue
		}
		type row struct {
			id int64
			s  c30Stored
			v  c30Val
		}
		var rowsIn []row
		for _, v := range reps {
			st, resp, id, body := e.insert(v, "positional", d, false, c30Form{})
			if !c30Accepted(st, resp) {
				e.t.Fatalf("pairs: insert %s failed: %s", body, resp)
			}
			s, err := e.observe("v", d.Table, id)
			if err != nil {
				e.t.Fatalf("pairs: observe: %v", err)
			}
			rowsIn = append(rowsIn, row{id, s, v})
		}
		for _, a := range rowsIn {
			for _, b := range rowsIn {
				if a.id == b.id {
					continue
				}
				cs := c30Case{Value: a.v.JSON + " then " + b.v.JSON, Shape: "pair", Style: "positional", Dest: d.Name}
				body := c30Body(fmt.Sprintf("SELECT v FROM %s WHERE id IN (?, ?) ORDER BY id = ? DESC", d.Table),
					strconv.FormatInt(a.id, 10), strconv.FormatInt(b.id, 10), strconv.FormatInt(a.id, 10))
				var outcome []string
				for _, f := range c30Forms {
					e.readBack(cs, "query-two-rows", "/db/query", body, f, []string{"v"}, [][]c30Stored{{a.s}, {b.s}}, &outcome)
				}
				e.r.Distinct(fmt.Sprintf("pair|%s|%s", d.Name, strings.Join(outcome, ";")))
			}
		}
	}
}

func TestVerif_C30(t *testing.T) {
	r := kit.Start(t, "C30", "enum")
	defer r.Finish()
	r.Rule("full product: value menu (int64 extremes, 2^31/2^32/2^53 +-1, +-0.0, subnormal/max floats, integral floats, true/false, null, \"\", ASCII/non-ASCII/NUL/HTML text, number-looking and hex-looking text, X'..' literals incl. empty and white-space padded, byte arrays incl. [] and non-UTF8; thorough adds all 2^k+-1 and all 256 single-byte blobs) x {positional, named} x destination {untyped, INTEGER, REAL, TEXT, BLOB column, bare expression}; each written through the real HTTP service (/db/execute -> ParseRequest -> Raft-log codec -> db.Execute) and read back through {/db/query, /db/query level=strong, /db/request, expression over the column, INSERT..RETURNING} x {array, associative} x {blob_array on/off}; plus every string of a small grammar around the X'..' rule (bind check only) and every ordered pair of 8 representative stored values read as two rows from each table. Oracles: stored (typeof, value) read by an independent connection == plain SQLite's result for the same Go-typed value in an identical table; every returned JSON cell (UseNumber) == stored value without loss. distinct = distinct (shape, destination, per-read outcome incl. reported type) vectors")
	r.Assume("SQLite's affinity rules are taken from SQLite itself (plain database/sql + go-sqlite3 on a separate reference database); bool is bound as the driver documents (integer 0/1)")
	r.Assume("the types entry of a response is recorded but not judged: the property speaks of values")
	r.Assume("an empty blob returned as the empty JSON string is accepted in every form (base64 of nothing; under blob_array \"\" instead of [] is not counted as loss)")

	thorough := r.Thorough()
	menu := c30Menu(thorough)
	grammar := c30HexGrammar(thorough)

	if rp := kit.Replay(); rp != nil {
		var x struct {
			Case c30Case `json:"case"`
		}
		if err := json.Unmarshal(rp, &x); err != nil {
			t.Fatalf("replay: %v", err)
		}
		e := c30NewEnv(t, r, kit.Scratch(t))
		defer e.close()
		all := append(append([]c30Val{}, menu...), grammar...)
		for _, v := range all {
			if v.JSON != x.Case.Value {
				continue
			}
			for _, d := range c30Dests {
				if d.Name != x.Case.Dest {
					continue
				}
				if d.Table == "" {
					e.runExprCase(v, x.Case.Style)
				} else {
					e.runColumnCase(v, x.Case.Style, d, true)
				}
			}
			return
		}
		if x.Case.Shape == "pair" {
			e.runPairs(c30PairReps())
			return
		}
		t.Fatalf("replay: value %s not in menu", x.Case.Value)
	}

	type job func(e *c30Env)
	var jobs []job
	for _, v := range menu {
		v := v
		jobs = append(jobs, func(e *c30Env) {
			for _, style := range []string{"positional", "named"} {
				for _, d := range c30Dests {
					if d.Table == "" {
						e.runExprCase(v, style)
					} else {
						e.runColumnCase(v, style, d, true)
					}
				}
			}
		})
	}
	for _, v := range grammar {
		v := v
		jobs = append(jobs, func(e *c30Env) {
			for _, style := range []string{"positional", "named"} {
				e.runColumnCase(v, style, c30Dests[0], false)
				if thorough {
					e.runColumnCase(v, style, c30Dests[3], false)
					e.runExprCase(v, style)
				}
			}
		})
	}
	jobs = append(jobs, func(e *c30Env) { e.runPairs(c30PairReps()) })

	nw := 8
	var wg sync.WaitGroup
	for w := 0; w < nw; w++ {
		wg.Add(1)
		dir := kit.Scratch(t)
		go func(w int) {
			defer wg.Done()
			e := c30NewEnv(t, r, dir)
			defer e.close()
			for i := w; i < len(jobs); i += nw {
				jobs[i](e)
			}
		}(w)
	}
	wg.Wait()

	shapes := map[string]int{}
	for _, v := range menu {
		shapes[v.Shape]++
	}
	var sk []string
	for k, n := range shapes {
		sk = append(sk, fmt.Sprintf("%s=%d", k, n))
	}
	sort.Strings(sk)
	r.Set("menu_values", len(menu))
	r.Set("menu_by_shape", strings.Join(sk, " "))
	r.Set("hex_grammar_strings", len(grammar))
	r.State(len(menu)*2*len(c30Dests) + len(grammar)*2)
	for i, v := range menu {
		if i%(len(menu)/5+1) == 3 {
			r.Sample(map[string]any{"value_json": v.JSON, "shape": v.Shape, "permitted_bindings": c30ShowAll(v.Alts)})
		}
	}
}

func c30ShowAll(a []any) []string {
	var s []string
	for _, x := range a {
		s = append(s, fmt.Sprintf("%T %s", x, c30Show(x)))
	}
	return s
}

func c30PairReps() []c30Val {
	return []c30Val{c30I("1"), c30F("1.5"), c30S("a"), c30S(""), c30Str("X'616263'"), c30Str("X'00ff'"), c30Str("X''"),
		{JSON: "null", Shape: "null", Alts: []any{nil}}}
}
