package http

import (
	"bufio"
	"bytes"
	"encoding/base64"
	"encoding/json"
	"fmt"
	"io"
	"net"
	gohttp "net/http"
	"sort"
	"strconv"
	"strings"
	"sync"
	"sync/atomic"
	"testing"
	"time"

	"github.com/rqlite/rqlite/v10/auth"
	kit "github.com/rqlite/rqlite/v10/internal/verifkit"
)

// C18, part "http", SEQUENCES: two requests on ONE keep-alive connection. Each
// request is judged on its own credentials alone; anything remembered from the
// first request of the connection shows up as a decision that differs from the
// reference.
//
// Credentials file for routes A then B: user u/p holds exactly A's
// permission(s), user v/q holds B's (an unrelated one when they coincide).

type c18SeqPres struct {
	Name, User, Pass string
	None             bool
}

var c18SeqPresentations = []c18SeqPres{
	{Name: "u-right-password", User: "u", Pass: "p"},
	{Name: "u-wrong-password", User: "u", Pass: "bad"},
	{Name: "no-credentials", None: true},
	{Name: "unknown-user", User: "x", Pass: "p"},
	{Name: "other-user-v", User: "v", Pass: "q"},
}

// the method that makes each route act
var c18SeqMethod = map[string]string{
	"/console": "GET", "/db/execute": "POST", "/db/query": "GET", "/db/request": "POST", "/db/backup": "GET",
	"/db/load": "POST", "/db/sql": "GET", "/boot": "POST", "/snapshot": "POST", "/reap": "POST", "/remove": "DELETE",
	"/status": "GET", "/nodes": "GET", "/leader": "GET", "/readyz": "GET", "/licenses": "GET", "/debug/vars": "GET", "/debug/pprof": "GET",
}

var c18SeqQuickRoutes = []string{"/db/execute", "/db/query", "/db/backup", "/status"}

type c18SeqStep struct {
	Route  string `json:"route"`
	Method string `json:"method"`
	Path   string `json:"path"`
	Pres   string `json:"presentation"`
}

type c18SeqStepObs struct {
	Expected string `json:"expected"`
	Sent     bool   `json:"sent"` // false: the server had closed the connection after the first answer
	Obs      c18Obs `json:"observed"`
}

type c18SeqCase struct {
	Role  string          `json:"role"`
	Steps []c18SeqStep    `json:"steps"`
	Store string          `json:"store"`
	Obs   []c18SeqStepObs `json:"observed_steps"`
}

func (c c18SeqCase) id() string {
	p := []string{c.Role}
	for _, s := range c.Steps {
		p = append(p, s.Method+" "+s.Path+"@"+s.Pres)
	}
	return strings.Join(p, " ; ")
}

func c18SeqStore(a, b c18Route) (string, []c18Entry) {
	have := map[string]bool{}
	for _, p := range a.Need {
		have[p] = true
	}
	var vp []string
	for _, p := range b.Need {
		if !have[p] {
			vp = append(vp, p)
		}
	}
	if len(vp) == 0 {
		vp = []string{auth.PermJoin} // unrelated to every HTTP route
	}
	entries := []c18Entry{{User: "u", Pass: "p", Perms: append([]string{}, a.Need...)}, {User: "v", Pass: "q", Perms: vp}}
	bs, _ := json.Marshal(entries)
	return string(bs), entries
}

func c18SeqRequestBytes(method string, rq c18Req, pres c18SeqPres, last bool) []byte {
	var b bytes.Buffer
	fmt.Fprintf(&b, "%s %s HTTP/1.1\r\nHost: node\r\n", method, rq.Path)
	if last {
		b.WriteString("Connection: close\r\n")
	}
	if !pres.None {
		fmt.Fprintf(&b, "Authorization: Basic %s\r\n", base64.StdEncoding.EncodeToString([]byte(pres.User+":"+pres.Pass)))
	}
	if rq.CType != "" {
		fmt.Fprintf(&b, "Content-Type: %s\r\n", rq.CType)
	}
	fmt.Fprintf(&b, "Content-Length: %d\r\n\r\n%s", len(rq.Body), rq.Body)
	return b.Bytes()
}

func (n *c18Node) runSequence(t testing.TB, steps []c18SeqStep, reqs []c18Req, pres []c18SeqPres, sigs [][]string) []c18SeqStepObs {
	n.rec.take()
	n.creds.takeAsked()
	conn, err := net.DialTimeout("tcp", n.addr, 10*time.Second)
	if err != nil {
		t.Fatalf("dial: %v", err)
	}
	defer conn.Close()
	conn.SetDeadline(time.Now().Add(120 * time.Second))
	br := bufio.NewReader(conn)
	out := make([]c18SeqStepObs, len(steps))
	closed := false
	for i := range steps {
		if closed {
			continue
		}
		last := i == len(steps)-1
		if _, err := conn.Write(c18SeqRequestBytes(steps[i].Method, reqs[i], pres[i], last)); err != nil {
			closed = true
			continue
		}
		out[i].Sent = true
		var o c18Obs
		resp, err := gohttp.ReadResponse(br, &gohttp.Request{Method: steps[i].Method})
		var all []byte
		if err != nil {
			o.ReadError = err.Error()
			closed = true
		} else {
			o.Status = resp.StatusCode
			var hdr bytes.Buffer
			resp.Header.Write(&hdr)
			body, _ := io.ReadAll(resp.Body)
			resp.Body.Close()
			all = append(hdr.Bytes(), body...)
			if resp.Close {
				closed = true
			}
		}
		if last {
			rest, _ := io.ReadAll(br) // whatever else the server sends before closing
			all = append(all, rest...)
		}
		o.Marker = bytes.Contains(all, []byte(c18Marker)) || bytes.Contains(all, []byte(strconv.FormatInt(c18MarkerInt, 10)))
		for _, s := range sigs[i] {
			if bytes.Contains(all, []byte(s)) {
				o.Sig = s
				break
			}
		}
		o.Calls = strings.Join(n.rec.take(), ",")
		o.Asked = strings.Join(n.creds.takeAsked(), ",")
		out[i].Obs = o
	}
	return out
}

func c18SeqJudge(c c18SeqCase) []c18Vio {
	var v []c18Vio
	for i, so := range c.Obs {
		if !so.Sent {
			continue
		}
		o := so.Obs
		where := fmt.Sprintf("%s:%s:request-%d-of-%d", c.Steps[i].Route, c.Steps[i].Pres, i+1, len(c.Steps))
		if so.Expected == "deny" {
			if o.Calls != "" {
				v = append(v, c18Vio{"C18:http:sequence:store-reached-although-denied:" + where, "calls " + o.Calls})
			}
			if o.Marker || o.Sig != "" {
				v = append(v, c18Vio{"C18:http:sequence:content-in-answer-although-denied:" + where, fmt.Sprintf("answer carries content (mock data=%v, signature=%q)", o.Marker, o.Sig)})
			}
			if o.Status != 0 && o.Status < 400 {
				v = append(v, c18Vio{"C18:http:sequence:no-failure-status-although-denied:" + where, fmt.Sprintf("status %d", o.Status)})
			}
		} else if o.Status == 401 || o.Status == 403 {
			v = append(v, c18Vio{"C18:http:sequence:refused-although-authorized:" + where, fmt.Sprintf("status %d", o.Status)})
		}
	}
	return v
}

// c18Sequences runs the keep-alive pairs and returns how many were run.
func c18Sequences(t *testing.T, r *kit.Run, table map[string]c18Route, present map[string]bool, thorough bool, replayID string) int {
	var lits []string
	if thorough {
		for l := range c18SeqMethod {
			lits = append(lits, l)
		}
		sort.Strings(lits)
	} else {
		lits = c18SeqQuickRoutes
	}
	type rt struct {
		lit string
		r   c18Route
		rq  c18Req
	}
	var rts []rt
	for _, l := range lits {
		e, ok := table[l]
		if !ok || e.Need == nil || !present[l] {
			continue // route gone from the source: the single-request part reports it
		}
		for _, rq := range e.Reqs {
			if rq.Judged && !rq.DenyOnly {
				rts = append(rts, rt{l, e, rq})
				break
			}
		}
	}
	roles := []string{"leader"}
	if thorough {
		roles = append(roles, "follower")
	}
	type job struct {
		role string
		a, b rt
		pa   c18SeqPres
		pb   c18SeqPres
	}
	var jobs []job
	for _, role := range roles {
		for _, a := range rts {
			for _, b := range rts {
				for _, pa := range c18SeqPresentations {
					for _, pb := range c18SeqPresentations {
						jobs = append(jobs, job{role, a, b, pa, pb})
					}
				}
			}
		}
	}
	results := make([]*c18SeqCase, len(jobs))
	var wg sync.WaitGroup
	var next atomic.Int64
	for w := 0; w < 8; w++ {
		wg.Add(1)
		go func() {
			defer wg.Done()
			n := c18NewNode(t)
			defer n.svc.Close()
			for {
				i := int(next.Add(1)) - 1
				if i >= len(jobs) {
					return
				}
				j := jobs[i]
				c := c18SeqCase{Role: j.role, Steps: []c18SeqStep{
					{j.a.lit, c18SeqMethod[j.a.lit], j.a.rq.Path, j.pa.Name},
					{j.b.lit, c18SeqMethod[j.b.lit], j.b.rq.Path, j.pb.Name}}}
				if replayID != "" && c.id() != replayID {
					continue
				}
				var entries []c18Entry
				c.Store, entries = c18SeqStore(j.a.r, j.b.r)
				cs := auth.NewCredentialsStore()
				if err := cs.Load(strings.NewReader(c.Store)); err != nil {
					t.Errorf("credentials %s: %v", c.Store, err)
					return
				}
				n.creds.cur.Store(cs)
				n.st.follower.Store(j.role == "follower")
				ref := c18Ref(entries)
				c.Obs = n.runSequence(t, c.Steps, []c18Req{j.a.rq, j.b.rq}, []c18SeqPres{j.pa, j.pb}, [][]string{j.a.r.Sigs, j.b.r.Sigs})
				for k, p := range []c18SeqPres{j.pa, j.pb} {
					u, pw := p.User, p.Pass
					if p.None {
						u, pw = "", ""
					}
					need := j.a.r.Need
					if k == 1 {
						need = j.b.r.Need
					}
					c.Obs[k].Expected = map[bool]string{true: "allow", false: "deny"}[ref.allowed(u, pw, need)]
				}
				results[i] = &c
			}
		}()
	}
	wg.Wait()
	ran, secondSent := 0, 0
	outcomes := map[string]int{}
	for _, c := range results {
		if c == nil {
			continue
		}
		ran++
		var k, short []string
		for i, so := range c.Obs {
			if !so.Sent {
				k = append(k, c.Steps[i].Route+" not-sent")
				short = append(short, "connection closed by the server")
				continue
			}
			if i == 1 {
				secondSent++
			}
			k = append(k, fmt.Sprintf("%s %s: %d calls=[%s] content=%v", c.Steps[i].Route, so.Expected, so.Obs.Status, so.Obs.Calls, so.Obs.Marker || so.Obs.Sig != ""))
			short = append(short, fmt.Sprintf("%s->%d store-reached=%v", so.Expected, so.Obs.Status, so.Obs.Calls != ""))
			r.Eval(1)
		}
		r.Distinct("sequence | " + c.Role + " | " + strings.Join(k, " ; "))
		outcomes[strings.Join(short, " ; ")]++
		if ran == 2 {
			r.Sample(*c)
		}
		for _, v := range c18SeqJudge(*c) {
			r.Violation(v.key, fmt.Sprintf("one keep-alive connection (%s node), requests [%s], credentials file %s: %s", c.Role, c.id(), c.Store, v.what),
				map[string]any{"sequence": c})
		}
	}
	if replayID == "" {
		var names []string
		for _, x := range rts {
			names = append(names, c18SeqMethod[x.lit]+" "+x.rq.Path)
		}
		r.Set("sequences", map[string]any{"run": ran, "second_request_sent_on_the_same_connection": secondSent, "requests": names, "roles": roles, "outcomes": outcomes})
		if ran > 0 && secondSent == 0 {
			t.Errorf("harness: the server never kept a connection open for a second request; the sequence oracle would be vacuous")
		}
	}
	return ran
}
