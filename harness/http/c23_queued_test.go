package http

import (
	"context"
	"encoding/json"
	"errors"
	"fmt"
	"io"
	"log"
	"net"
	"net/http/httptest"
	"os"
	"reflect"
	"runtime"
	"sort"
	"strconv"
	"strings"
	"sync"
	"testing"
	"testing/synctest"
	"time"
	"unsafe"

	cluster "github.com/rqlite/rqlite/v10/cluster/proto"
	command "github.com/rqlite/rqlite/v10/command/proto"
	kit "github.com/rqlite/rqlite/v10/internal/verifkit"
	vs "github.com/rqlite/rqlite/v10/internal/verifvsched"
	"github.com/rqlite/rqlite/v10/proxy"
	"github.com/rqlite/rqlite/v10/queue"
	"github.com/rqlite/rqlite/v10/store"
)

// C23: the real queued-write path under the controlled scheduler.
//
// Driven, all real code: Service.ServeHTTP -> handleExecute -> queuedExecute ->
// queue.Queue.Write -> queue goroutine (batching, batch timer) -> Service.runQueue
// -> proxy.Proxy.Execute -> (fake Store / fake cluster client that record what
// they apply and fail the first k attempts in a scripted way). http/service.go
// and queue/queue.go are instrumented from the current tree. Service.Start is not
// called (it opens a TCP listener and network I/O cannot run inside a synctest
// bubble): the three lines of Start that set up the queue are repeated in the
// "init" thread.

// c23Req is one client request.
type c23Req struct {
	n       int           // statements in the request (1 or 2)
	wait    bool          // ?wait
	timeout string        // ?timeout=<d> ("" = service default, 30s); menu: 0, 0s, -1s, 100ms, 500ms, 1100ms
	delay   time.Duration // fake-clock pause of the client before it sends the request
}

type c23Scenario struct {
	name    string
	clients [][]c23Req // per client: its requests, issued one after the other
	qcap    int        // DefaultQueueCap
	batch   int        // DefaultQueueBatchSz
	qto     time.Duration
	// script[i] is the result of the i-th write attempt made by runQueue
	// (attempts beyond the script succeed locally, so a leader is reachable):
	//  L  local store applies
	//  N  store is not leader and knows no leader address  -> proxy reports leader-not-found
	//  F  store is not leader, forwarding to the leader applies the batch remotely
	//  X  store is not leader, forwarding fails with "not leader"
	//  C  store is not leader, forwarding fails with a transport error ("dial tcp ...: connect: connection refused")
	//  T  local store fails with raft's "timed out enqueuing operation"
	//  Q  local store fails with raft's "leadership lost while committing log"
	// (N, Q, X and C/T reach the four branches by which runQueue classifies a failed attempt)
	script string
	// leaderCheck: while the latest attempt ended with N the node knows no leader,
	// so the handler's own leader check rejects new requests with 503.
	leaderCheck bool
	// early time advances (fake time passes although a thread could run) allowed in
	// the quick tier; the thorough tier allows one in every scenario
	timeDevs int
}

// c23Call is the run-time record of one request.
type c23Call struct {
	id       string // "r<client>.<k>"
	client   int
	k        int
	spec     c23Req
	stmts    []string
	returned bool
	status   int
	body     string
	seq      int64
	// how many of its own statements the store had applied when the handler returned
	appliedAtReturn int
}

// accepted: the handler answered 200, or 408 "queue wait timeout" (which it only
// does after the statements were written to the queue).
func (c *c23Call) accepted() bool {
	return c.returned && (c.status == 200 || (c.status == 408 && c.spec.wait))
}

// c23State is the recording fake behind the proxy.
type c23State struct {
	mu       sync.Mutex
	script   string
	attempts int
	pending  byte // mode of the attempt in progress after the local store said "not leader"
	noLeader bool // the latest attempt ended with leader-not-found
	log      []string
	applied  []string // statements in the order they were applied
	batches  [][]string
}

func (st *c23State) apply(er *command.ExecuteRequest, via string) {
	var b []string
	for _, s := range er.Request.Statements {
		b = append(b, s.Sql)
	}
	st.applied = append(st.applied, b...)
	st.batches = append(st.batches, b)
	st.noLeader = false
	st.log = append(st.log, fmt.Sprintf("apply(%s)%v", via, b))
}

type c23Store struct {
	MockStore
	st      *c23State
	checkLd bool
}

func (m *c23Store) Execute(ctx context.Context, er *command.ExecuteRequest) ([]*command.ExecuteQueryResponse, uint64, error) {
	st := m.st
	vs.Touch("c23:store")
	st.mu.Lock()
	defer st.mu.Unlock()
	mode := byte('L')
	if st.attempts < len(st.script) {
		mode = st.script[st.attempts]
	}
	st.attempts++
	switch mode {
	case 'L':
		st.apply(er, "local")
		return nil, uint64(len(st.batches)), nil
	case 'T':
		st.log = append(st.log, "attempt:enqueue-timeout")
		return nil, 0, errors.New("timed out enqueuing operation")
	case 'Q':
		st.log = append(st.log, "attempt:leadership-lost")
		return nil, 0, errors.New("leadership lost while committing log")
	}
	st.pending = mode
	return nil, 0, store.ErrNotLeader
}

// LeaderAddr is what the proxy asks after the local store said "not leader".
func (m *c23Store) LeaderAddr() (string, error) {
	st := m.st
	vs.Touch("c23:store")
	st.mu.Lock()
	defer st.mu.Unlock()
	if st.pending == 'N' {
		st.noLeader = true
		st.log = append(st.log, "attempt:leader-not-found")
		return "", nil
	}
	return "leader:4002", nil
}

// Leader is what the handler's own leader check asks.
func (m *c23Store) Leader() (*store.Server, error) {
	if !m.checkLd {
		return &store.Server{Addr: "leader:4002"}, nil
	}
	st := m.st
	vs.Touch("c23:store")
	st.mu.Lock()
	defer st.mu.Unlock()
	if st.noLeader {
		return nil, store.ErrLeaderNotFound
	}
	return &store.Server{Addr: "leader:4002"}, nil
}

type c23Cluster struct {
	mockClusterService
	st *c23State
}

func (m *c23Cluster) Execute(ctx context.Context, er *command.ExecuteRequest, addr string, creds *cluster.Credentials, t time.Duration, r int) ([]*command.ExecuteQueryResponse, uint64, error) {
	st := m.st
	vs.Touch("c23:store")
	st.mu.Lock()
	defer st.mu.Unlock()
	if st.pending == 'F' {
		st.apply(er, "forwarded")
		return nil, uint64(len(st.batches)), nil
	}
	if st.pending == 'C' {
		st.log = append(st.log, "attempt:forward-connection-refused")
		return nil, 0, errors.New("dial tcp " + addr + ": connect: connection refused")
	}
	st.log = append(st.log, "attempt:forward-failed")
	return nil, 0, errors.New("not leader")
}

type c23Addr struct{}

func (c23Addr) Network() string { return "tcp" }
func (c23Addr) String() string  { return "c23:4001" }

type c23Listener struct{}

func (c23Listener) Accept() (net.Conn, error) { return nil, errors.New("c23: no network") }
func (c23Listener) Close() error              { return nil }
func (c23Listener) Addr() net.Addr            { return c23Addr{} }

// c23BatchCh reaches the queue's unexported input channel; used by the teardown
// only, to release writers that are blocked on a full queue when an execution is
// abandoned half way.
func c23BatchCh(q *queue.Queue[*command.Statement]) reflect.Value {
	f := reflect.ValueOf(q).Elem().FieldByName("batchCh")
	return reflect.NewAt(f.Type(), unsafe.Pointer(f.UnsafeAddr())).Elem()
}

func c23Body(sc c23Scenario) vs.Body {
	return func(s *vs.Sched) vs.Outcome {
		var out vs.Outcome
		seenVio := map[string]bool{}
		vio := func(key, f string, a ...any) {
			if seenVio[key] {
				return
			}
			seenVio[key] = true
			out.Violations = append(out.Violations, vs.Vio{Key: key, What: sc.name + ": " + fmt.Sprintf(f, a...)})
		}
		st := &c23State{script: sc.script}
		fs := &c23Store{st: st, checkLd: sc.leaderCheck}
		fc := &c23Cluster{st: st}
		svc := New("c23:4001", fs, fc, proxy.New(fs, fc), nil)
		svc.logger = log.New(io.Discard, "", 0)
		svc.ln = c23Listener{}
		svc.DefaultQueueCap, svc.DefaultQueueBatchSz, svc.DefaultQueueTimeout = sc.qcap, sc.batch, sc.qto

		s.Go("init", func() {
			// the queue part of Service.Start
			svc.closeCh = make(chan struct{})
			svc.queueDone = make(chan struct{})
			svc.stmtQueue = queue.New[*command.Statement](svc.DefaultQueueCap, svc.DefaultQueueBatchSz, svc.DefaultQueueTimeout)
			vs.Go("service.go:runQueue", svc.runQueue)
		})
		teardown := func() {
			// A daemon that is still parked at its start never runs (Abort makes it
			// return), so nothing it would close can be waited for.
			qRunning, rqRunning := svc.stmtQueue != nil, svc.stmtQueue != nil
			for _, b := range s.Blocked() {
				if strings.HasSuffix(b, " at start") {
					if strings.Contains(b, ":queue.go:") {
						qRunning = false
					}
					if strings.Contains(b, ":service.go:runQueue") {
						rqRunning = false
					}
				}
			}
			s.Abort()
			if svc.stmtQueue == nil {
				return
			}
			bch := c23BatchCh(svc.stmtQueue)
			closed := make(chan struct{})
			go func() {
				if qRunning {
					svc.stmtQueue.Close()
				}
				if rqRunning {
					close(svc.closeCh)
					<-svc.queueDone
				}
				close(closed)
			}()
			cases := []reflect.SelectCase{
				{Dir: reflect.SelectRecv, Chan: reflect.ValueOf(closed)},
				{Dir: reflect.SelectRecv, Chan: reflect.ValueOf(svc.stmtQueue.C)},
				{Dir: reflect.SelectRecv, Chan: bch},
			}
			for {
				if i, _, _ := reflect.Select(cases); i == 0 {
					break
				}
			}
			// Handlers still waiting for their flush channel leave when their wait
			// time-out fires (the bubble must be empty when the body returns); writers
			// released late may still sit on the queue's input channel.
			time.Sleep(2 * time.Hour)
			for {
				synctest.Wait()
				if _, ok := bch.TryRecv(); !ok {
					break
				}
			}
		}
		if r := s.Run(); r != vs.Done {
			if r != vs.Redundant {
				vio("C23:init-stuck", "init ended %v", r)
			}
			teardown()
			return out
		}

		var calls []*c23Call

		for ci, reqs := range sc.clients {
			var mine []*c23Call
			for k, rq := range reqs {
				c := &c23Call{id: fmt.Sprintf("r%d.%d", ci, k), client: ci, k: k, spec: rq, status: -1}
				for p := 0; p < rq.n; p++ {
					c.stmts = append(c.stmts, fmt.Sprintf("INSERT INTO t(v) VALUES('%s/%d')", c.id, p))
				}

				calls = append(calls, c)
				mine = append(mine, c)
			}
			s.Go(fmt.Sprintf("client%d", ci), func() {
				for _, c := range mine {
					if c.spec.delay > 0 {
						time.Sleep(c.spec.delay)
						vs.Point("c23:client-awake")
					}
					url := "/db/execute?queue"
					if c.spec.wait {
						url += "&wait"
					}
					if c.spec.timeout != "" {
						url += "&timeout=" + c.spec.timeout
					}
					b, _ := json.Marshal(c.stmts)
					rec := httptest.NewRecorder()
					svc.ServeHTTP(rec, httptest.NewRequest("POST", url, strings.NewReader(string(b))))
					// no scheduling point between the handler's return and this record
					if c.spec.wait {
						vs.Touch("c23:store")
					}
					st.mu.Lock()
					c.status = rec.Code
					c.body = strings.TrimSpace(rec.Body.String())
					if c.status == 200 {
						var rs struct {
							Seq int64 `json:"sequence_number"`
						}
						if err := json.Unmarshal(rec.Body.Bytes(), &rs); err == nil {
							c.seq = rs.Seq
						}
					}
					for _, sql := range c.stmts {
						for _, a := range st.applied {
							if a == sql {
								c.appliedAtReturn++
								break
							}
						}
					}
					c.returned = true
					st.log = append(st.log, fmt.Sprintf("%s->%d", c.id, c.status))
					st.mu.Unlock()
				}
			})
		}
		rs := s.Run()
		if rs == vs.Redundant {
			teardown()
			return out
		}
		if rs == vs.Done {
			// Every request has returned. Let the queue drain: wait until every accepted
			// statement has been applied at least once, then pause longer than the
			// retry delay so that a wrong second application shows up.
			s.Go("drain", func() {
				vs.Block("c23:drain", func() bool {
					st.mu.Lock()
					defer st.mu.Unlock()
					cnt := map[string]int{}
					for _, a := range st.applied {
						cnt[a]++
					}
					for _, c := range calls {
						if !c.accepted() {
							continue
						}
						for _, sql := range c.stmts {
							if cnt[sql] == 0 {
								return false
							}
						}
					}
					return true
				}, "c23:store")
				time.Sleep(3 * time.Second)
				vs.Point("c23:drained", "c23:store")
			})
			rs = s.Run()
			if rs == vs.Redundant {
				teardown()
				return out
			}
		}
		oracle := func() {
			st.mu.Lock()
			defer st.mu.Unlock()

			// ---- oracle ----
			byStmt := map[string]*c23Call{}
			for _, c := range calls {
				for _, sql := range c.stmts {
					byStmt[sql] = c
				}
			}
			short := func(sqls []string) string {
				var o []string
				for _, x := range sqls {
					i, j := strings.Index(x, "'"), strings.LastIndex(x, "'")
					o = append(o, x[i+1:j])
				}
				return strings.Join(o, " ")
			}
			describe := func() string {
				var rsq []string
				for _, c := range calls {
					rsq = append(rsq, fmt.Sprintf("%s(wait=%v,timeout=%s):%d seq=%d", c.id, c.spec.wait, c.spec.timeout, c.status, c.seq))
				}
				var bs []string
				for _, b := range st.batches {
					bs = append(bs, "["+short(b)+"]")
				}
				return fmt.Sprintf("requests %v; batches applied %s; events %v", rsq, strings.Join(bs, ""), st.log)
			}
			if rs != vs.Done {
				// nothing can run any more, no timer is pending (or the horizon was reached)
				stuck := false
				for _, c := range calls {
					if !c.returned {
						stuck = true
					}
				}
				if stuck {
					vio("C23:request-never-returned", "execution ended %v with threads %v; %s", rs, s.Blocked(), describe())
				}
			}
			pos := map[string][]int{}
			for i, a := range st.applied {
				pos[a] = append(pos[a], i)
				c := byStmt[a]
				if c == nil || !c.accepted() {
					vio("C23:applied-but-not-accepted", "statement %q applied but its request was not accepted; %s", a, describe())
				}
			}
			for _, c := range calls {
				// any answer other than 200, or 408 after a wait, means "not accepted":
				// nothing is demanded of such a request except that it is never applied
				if !c.accepted() {
					continue
				}
				last := -1
				for _, sql := range c.stmts {
					p := pos[sql]
					switch {
					case len(p) == 0:
						vio("C23:statement-dropped", "statement %q of accepted request %s was never applied (run ended %v, leader reachable); %s", short([]string{sql}), c.id, rs, describe())
						continue
					case len(p) > 1:
						vio("C23:statement-applied-twice", "statement %q of %s applied %d times; %s", short([]string{sql}), c.id, len(p), describe())
					}
					if last >= 0 && p[0] != last+1 {
						vio("C23:request-split-or-reordered", "statements of %s are not contiguous and in order in the applied stream; %s", c.id, describe())
					}
					last = p[0]
				}
				if c.spec.wait && c.status == 200 && c.appliedAtReturn != len(c.stmts) {
					vio("C23:wait-returned-before-applied", "%s asked to wait and got 200 when %d of its %d statements had been applied; %s", c.id, c.appliedAtReturn, len(c.stmts), describe())
				}
			}
			first := func(c *c23Call) int {
				if p := pos[c.stmts[0]]; len(p) > 0 {
					return p[0]
				}
				return -1
			}
			for _, a := range calls {
				for _, b := range calls {
					if a == b || !a.accepted() || !b.accepted() {
						continue
					}
					pa, pb := first(a), first(b)
					if a.seq != 0 && b.seq != 0 {
						if a.seq == b.seq {
							vio("C23:duplicate-sequence-number", "%s and %s both got %d", a.id, b.id, a.seq)
						}
						if a.seq < b.seq && pa >= 0 && pb >= 0 && pa > pb {
							vio("C23:applied-order-differs-from-sequence-order", "%s (seq %d) applied after %s (seq %d); %s", a.id, a.seq, b.id, b.seq, describe())
						}
					}
					if a.client == b.client && a.k < b.k {
						// a had returned before b was sent
						if a.seq != 0 && b.seq != 0 && a.seq >= b.seq {
							vio("C23:sequence-numbers-not-increasing", "%s then %s of one client got %d then %d", a.id, b.id, a.seq, b.seq)
						}
						if pa >= 0 && pb >= 0 && pa > pb {
							vio("C23:applied-order-differs-from-client-order", "%s was accepted before %s was sent but applied after it; %s", a.id, b.id, describe())
						}
					}
				}
			}
			// observation: how the requests were batched, in which order, and what each client saw
			var ob []string
			for _, b := range st.batches {
				ob = append(ob, short(b))
			}
			var sts []string
			for _, c := range calls {
				sts = append(sts, strconv.Itoa(c.status))
			}
			out.Obs = fmt.Sprintf("%s|%s|att=%d|%v", strings.Join(ob, ";"), strings.Join(sts, ","), st.attempts, rs)
		}
		oracle()
		teardown()
		return out
	}
}

func c23Scenarios(thorough bool) []c23Scenario {
	ms := time.Millisecond
	nw := c23Req{n: 1}
	nw2 := c23Req{n: 2}
	w := c23Req{n: 1, wait: true}
	w2 := c23Req{n: 2, wait: true}
	scs := []c23Scenario{
		// two clients, batch of two: same batch or split by the batch timer; the first attempt fails with raft's enqueue time-out
		{name: "2c-w2,nw1-b2-T", clients: [][]c23Req{{w2}, {nw}}, qcap: 8, batch: 2, qto: 100 * ms, script: "T", timeDevs: 1},
		// every request its own batch; the first attempt loses leadership while committing, the retry applies;
		// one wait gives up before the retry (408, still applied), the next request of that client comes later
		{name: "2c-w1t500+nw1,nw2-b1-Q", clients: [][]c23Req{{{n: 1, wait: true, timeout: "500ms"}, nw}, {nw2}}, qcap: 8, batch: 1, qto: 100 * ms, script: "Q"},
		// three clients, batch of two + timer, first attempt applied by forwarding to the leader
		{name: "3c-nw1,nw2,w1-b2-F", clients: [][]c23Req{{nw}, {nw2}, {w}}, qcap: 8, batch: 2, qto: 100 * ms, script: "F"},
		// the node loses its leader: later requests are refused by the handler's own check
		{name: "2c-nw1+nw1,w1d-b1-NN-leadercheck", clients: [][]c23Req{{nw, nw}, {{n: 1, wait: true, delay: 150 * ms}}}, qcap: 8, batch: 1, qto: 50 * ms, script: "NN", leaderCheck: true, timeDevs: 1},
		// a full queue: writers block while runQueue retries after a forward that hit a dead leader (connection refused)
		{name: "2c-nw1+w1,nw2-cap1-b1-C", clients: [][]c23Req{{nw, w}, {nw2}}, qcap: 1, batch: 1, qto: 100 * ms, script: "C"},
		// wait time-out equal to the batch time-out: 200 or 408 by select order
		{name: "2c-w2t=,nw1-b3", clients: [][]c23Req{{{n: 2, wait: true, timeout: "100ms"}}, {nw}}, qcap: 8, batch: 3, qto: 100 * ms, timeDevs: 1},
		// wait with an explicit non-positive time-out (the three ways ParseDuration accepts one: "0s", the
		// unit-less "0", a negative value): the wait gives up at once (408) unless the batch was already applied
		{name: "2c-w1t0s,nw1-b2", clients: [][]c23Req{{{n: 1, wait: true, timeout: "0s"}}, {nw}}, qcap: 8, batch: 2, qto: 100 * ms},
		{name: "2c-w2t-1s,nw1-b1-N", clients: [][]c23Req{{{n: 2, wait: true, timeout: "-1s"}}, {nw}}, qcap: 8, batch: 1, qto: 100 * ms, script: "N"},
		{name: "1c-w1t0+nw1-b2", clients: [][]c23Req{{{n: 1, wait: true, timeout: "0"}, nw}}, qcap: 8, batch: 2, qto: 100 * ms},
		// delayed clients around the timers: at the instant the batch timer fires, during the retry sleep (wait times out before the retry), after the retry
		{name: "3c-w1,nw2d100,w1t500d300-b2-X", clients: [][]c23Req{{w}, {{n: 2, delay: 100 * ms}}, {{n: 1, wait: true, timeout: "500ms", delay: 300 * ms}}}, qcap: 8, batch: 2, qto: 100 * ms, script: "X"},
	}
	if thorough {
		scs = append(scs,
			c23Scenario{name: "2c-w1t,nw2+nw1-b1-N", clients: [][]c23Req{{{n: 1, wait: true, timeout: "1100ms"}}, {nw2, nw}}, qcap: 8, batch: 1, qto: 100 * ms, script: "N"},
			c23Scenario{name: "3c-w1,nw2,w1-b2-XF", clients: [][]c23Req{{w}, {nw2}, {w}}, qcap: 8, batch: 2, qto: 100 * ms, script: "XF"},
			c23Scenario{name: "3c-nw1,nw2,w1-cap1-b1-TC", clients: [][]c23Req{{nw}, {nw2}, {w}}, qcap: 1, batch: 1, qto: 100 * ms, script: "TC"},
			c23Scenario{name: "3c-w1+nw1,nw2,w2-b2-NX", clients: [][]c23Req{{w, nw}, {nw2}, {w2}}, qcap: 8, batch: 2, qto: 100 * ms, script: "NX"},
			c23Scenario{name: "3c-nw1+w1,nw1+nw1,w2d-b3-N-leadercheck", clients: [][]c23Req{{nw, w}, {nw, nw}, {{n: 2, wait: true, delay: 120 * ms}}}, qcap: 2, batch: 3, qto: 100 * ms, script: "N", leaderCheck: true},
		)
	}
	return scs
}

func c23Options(r *kit.Run) vs.Options {
	opts := vs.Options{Deviations: r.Pick(2, 3), Preemptions: -1, SelectDevs: -1, TimeDevs: 1, MaxExecs: int64(r.Pick(400000, 4000000))}
	if w, err := strconv.Atoi(os.Getenv("VSCHED_WORKERS")); err == nil {
		opts.Workers = w
	}
	opts.NoStatePruning = os.Getenv("VSCHED_NOPRUNE") != ""
	if n, err := strconv.Atoi(os.Getenv("VSCHED_REPLAY_EVERY")); err == nil {
		opts.ReplayEvery = n
	}
	for name, p := range map[string]*int{"C23_DEV": &opts.Deviations, "C23_PRE": &opts.Preemptions, "C23_SEL": &opts.SelectDevs, "C23_TIME": &opts.TimeDevs} {
		if n, err := strconv.Atoi(os.Getenv(name)); err == nil {
			*p = n
		}
	}
	return opts
}

func TestVerif_C23(t *testing.T) {
	r := kit.Start(t, "C23", "sched")
	defer r.Finish()
	r.Rule("E-SCHED on the real queued-write path (http/service.go and queue/queue.go instrumented from the current tree): Service.ServeHTTP -> queuedExecute -> queue.Queue -> runQueue -> proxy.Proxy.Execute -> recording fake store / cluster client whose first k attempts fail as scripted (leader-not-found, leadership lost while committing, forward answered 'not leader', forward hitting connection refused, raft enqueue time-out: every branch of runQueue's error classification) and then succeed. Per scenario every schedule of the client threads, the queue goroutine, runQueue, the batch timer, the retry sleep and the wait time-out within the bounds (preemptions P, select-order deviations S, early time advances T) is executed until every request has returned, every accepted statement is applied, and a further 3 s of fake time have passed. Oracle: the applied stream holds exactly the statements of the accepted requests (200, or 408 after a wait time-out), each once, each request contiguous and in its own order, requests in sequence-number order and in each client's program order; a waiting request that got 200 had all its statements applied when the handler returned; refused requests (503) are never applied. distinct = distinct (batching, order, per-request status, attempts) observations; states = happens-before state keys at scheduling decisions summed over shard processes; traces_validated_against_impl = executions re-run from their recorded schedule with identical observation, choice points and state keys")
	opts := c23Options(r)
	scs := c23Scenarios(r.Thorough())
	r.Set("bounds", fmt.Sprintf("total deviations (preemptions + select-order deviations + early time advances)<=%d per execution, so preemptions<=%d; early time advances<=1 and only in the scenarios that say so (quick) / in all (thorough)", opts.Deviations, opts.Deviations))

	if raw := kit.Replay(); raw != nil {
		var rp struct {
			Scenario string      `json:"scenario"`
			Schedule []vs.Choice `json:"schedule"`
		}
		if err := json.Unmarshal(raw, &rp); err != nil {
			t.Fatalf("bad replay: %v", err)
		}
		for _, sc := range c23Scenarios(true) {
			if sc.name != rp.Scenario {
				continue
			}
			o, events, div := vs.Replay(t, opts, rp.Schedule, c23Body(sc))
			r.Eval(1)
			for _, e := range events {
				t.Log(e)
			}
			t.Logf("observation: %s divergence: %q", o.Obs, div)
			if strings.Contains(div, "deadlock") {
				buf := make([]byte, 1<<20)
				t.Logf("goroutines:\n%s", buf[:runtime.Stack(buf, true)])
			}
			for _, v := range o.Violations {
				r.Violation(v.Key, v.What, rp)
			}
		}
		return
	}

	for i, sc := range scs {
		if f := os.Getenv("C23_ONLY"); f != "" && !strings.Contains(sc.name, f) {
			continue
		}
		opts.Deadline = r.SliceDeadline(i, len(scs))
		opts.TimeDevs = sc.timeDevs
		if r.Thorough() {
			opts.TimeDevs = 1
		}
		if n, err := strconv.Atoi(os.Getenv("C23_TIME")); err == nil {
			opts.TimeDevs = n
		}
		st := vs.Explore(t, opts, c23Body(sc))
		r.Eval(int(st.Executions))
		r.Transition(int(st.ChoicePts))
		r.Validated(int(st.Replays))
		r.State(int(st.StatesSeen))
		r.Add("replays_with_different_hb_state_keys", st.KeyNoise)
		var oks []string
		for o := range st.Outcomes {
			if o == "" {
				continue
			}
			r.Distinct(sc.name + ":" + o)
			oks = append(oks, o)
		}
		sort.Strings(oks)
		r.Sample(map[string]any{"scenario": sc.name, "executions": st.Executions, "pruned_redundant": st.Redundant, "max_choice_depth": st.MaxDepth, "distinct_outcomes": len(oks), "replayed": st.Replays, "early_time_advances_allowed": opts.TimeDevs, "hb_states": st.StatesSeen, "pruned_by_state": st.Pruned, "some_outcomes": oks[:min(len(oks), 6)]})
		if st.Capped {
			r.Cap("scenario %s: stopped at its execution cap (%d, a quarter of that per shard process) or at its share of the time budget before completing deviation bound %d", sc.name, opts.MaxExecs, opts.Deviations)
		}
		for _, d := range st.Divergences {
			r.Violation("C23:harness-nondeterminism", sc.name+": "+d, nil)
		}
		for _, v := range st.Violations {
			key := v.Key
			if !strings.HasPrefix(key, "C23:") {
				key = "C23:" + key
			}
			r.Violation(key, v.What, map[string]any{"scenario": sc.name, "schedule": v.Schedule, "events": v.Events, "reproduced": v.Repro})
		}
		t.Logf("%s: execs=%d redundant=%d outcomes=%d maxdepth=%d states=%d pruned=%d capped=%v replays=%d divergences=%d keynoise=%d", sc.name, st.Executions, st.Redundant, len(oks), st.MaxDepth, st.StatesSeen, st.Pruned, st.Capped, st.Replays, len(st.Divergences), st.KeyNoise)
		for _, o := range oks {
			t.Logf("  %6d x %s", st.Outcomes[o], o)
		}
	}
}
