package http

import (
	"context"
	"encoding/hex"
	"encoding/json"
	"fmt"
	"io"
	"log"
	"net"
	"net/http/httptest"
	"os"
	"regexp"
	"sort"
	"strconv"
	"strings"
	"sync"
	"testing"
	"time"

	command "github.com/rqlite/rqlite/v10/command/proto"
	kit "github.com/rqlite/rqlite/v10/internal/verifkit"
	"github.com/rqlite/rqlite/v10/proxy"
	"github.com/rqlite/rqlite/v10/store"
)

// C01, part "endpoints": every write endpoint makes its statements deterministic
// before they are replicated.
//
// A real http.Service (handlers reached through ServeHTTP, queue running) sits on
// a real single-node store.Store. Every write is sent through each write endpoint:
//
//	execute             POST /db/execute, JSON body (positional / named parameters, ?transaction)
//	execute-text        POST /db/execute, Content-Type text/plain, body = the statement
//	execute-queued      POST /db/execute?queue (no wait; flushed by a later ?queue&wait request)
//	execute-queued-wait POST /db/execute?queue&wait
//	request             POST /db/request (unified endpoint, ?transaction)
//	load-sql            POST /db/load, body = SQL text (the statements joined by ";\n")
//
// Then the database is dumped, the Store is closed without a snapshot, at least
// 1.2 s pass, the Store is reopened (Raft replays the log: the same entries, a
// second apply path at a later time) and the database is dumped again. Oracle:
// for every write the two dumps of its tables are equal. What each endpoint
// handed to the Store is recorded (a wrapper around the real Store), so that a
// divergence can be named: statement replicated unchanged, or changed but still
// divergent.

// ---------------------------------------------------------------------------
// real store behind the service

type c01Layer struct{ ln net.Listener }

func (l *c01Layer) Dial(addr string, timeout time.Duration) (net.Conn, error) {
	return net.DialTimeout("tcp", addr, timeout)
}
func (l *c01Layer) Accept() (net.Conn, error) { return l.ln.Accept() }
func (l *c01Layer) Close() error              { return l.ln.Close() }
func (l *c01Layer) Addr() net.Addr            { return l.ln.Addr() }

// c01Store is the real Store; Execute/Request/Load record what they are given.
type c01Store struct {
	*store.Store
	mu   sync.Mutex
	seen map[int][]string // owner program -> statement texts handed to the Store
}

func (c *c01Store) record(stmts []*command.Statement) {
	c.mu.Lock()
	defer c.mu.Unlock()
	for _, s := range stmts {
		n := c01EpOwnerOfSQL(s.Sql)
		c.seen[n] = append(c.seen[n], s.Sql)
	}
}

func (c *c01Store) Execute(ctx context.Context, er *command.ExecuteRequest) ([]*command.ExecuteQueryResponse, uint64, error) {
	c.record(er.Request.Statements)
	return c.Store.Execute(ctx, er)
}

func (c *c01Store) Request(ctx context.Context, eqr *command.ExecuteQueryRequest) ([]*command.ExecuteQueryResponse, uint64, uint64, error) {
	c.record(eqr.Request.Statements)
	return c.Store.Request(ctx, eqr)
}

func c01EpMust(what string, err error) {
	if err != nil {
		panic(fmt.Sprintf("c01 endpoints harness: %s: %v", what, err))
	}
}

func c01EpOpen(dir string, bootstrap bool) *store.Store {
	ln, err := net.Listen("tcp", "localhost:0")
	c01EpMust("listen", err)
	s := store.New(&store.Config{DBConf: store.NewDBConfig(), Dir: dir, ID: "c01-node", Logger: log.New(io.Discard, "", 0)}, &c01Layer{ln})
	s.RaftLogLevel = "ERROR"
	s.SnapshotThreshold = 1 << 30
	s.SnapshotInterval = time.Hour
	s.NoSnapshotOnClose = true
	s.HeartbeatTimeout = 250 * time.Millisecond
	s.ElectionTimeout = 250 * time.Millisecond
	s.LeaderLeaseTimeout = 250 * time.Millisecond
	c01EpMust("open store", s.Open())
	if bootstrap {
		c01EpMust("bootstrap", s.Bootstrap(store.NewServer(s.ID(), s.Addr(), true)))
	}
	_, err = s.WaitForLeader(60 * time.Second)
	c01EpMust("wait for leader", err)
	// a strong read goes through the log: once it is answered everything before it is applied
	for i := 0; ; i++ {
		_, _, _, err := s.Query(context.Background(), &command.QueryRequest{
			Request: &command.Request{Statements: []*command.Statement{{Sql: "SELECT 1"}}},
			Level:   command.ConsistencyLevel_STRONG})
		if err == nil {
			break
		}
		if i > 200 {
			c01EpMust("strong read after open", err)
		}
		time.Sleep(50 * time.Millisecond)
	}
	return s
}

// ---------------------------------------------------------------------------
// dump through the Store's public query API

var c01EpNameRe = regexp.MustCompile(`\bp(\d+)_`)

func c01EpOwnerOfSQL(s string) int {
	m := c01EpNameRe.FindStringSubmatch(s)
	if m == nil {
		return 0
	}
	n, _ := strconv.Atoi(m[1])
	return n
}

func c01EpCell(p *command.Parameter) string {
	switch v := p.GetValue().(type) {
	case *command.Parameter_I:
		return strconv.FormatInt(v.I, 10)
	case *command.Parameter_D:
		return strconv.FormatFloat(v.D, 'g', -1, 64)
	case *command.Parameter_S:
		return v.S
	case *command.Parameter_Y:
		return "blob:" + hex.EncodeToString(v.Y)
	case *command.Parameter_B:
		return fmt.Sprint(v.B)
	case nil:
		return "NULL"
	}
	return "?"
}

func c01EpQuery(s *store.Store, qs []string) []*command.QueryRows {
	var out []*command.QueryRows
	for i := 0; i < len(qs); i += 300 {
		req := &command.Request{}
		for _, q := range qs[i:min(i+300, len(qs))] {
			req.Statements = append(req.Statements, &command.Statement{Sql: q})
		}
		rs, _, _, err := s.Query(context.Background(), &command.QueryRequest{Request: req, Level: command.ConsistencyLevel_NONE})
		c01EpMust("dump query", err)
		for _, r := range rs {
			if r.Error != "" {
				panic("c01 endpoints harness: dump query: " + r.Error)
			}
		}
		out = append(out, rs...)
	}
	return out
}

// c01EpDump returns, per owning program, the schema entries, every row (rowid,
// typeof and quote of each column) and the sqlite_sequence rows.
func c01EpDump(s *store.Store) map[int][]string {
	d := map[int][]string{}
	rs := c01EpQuery(s, []string{
		"SELECT type, name, tbl_name, coalesce(sql, '') FROM sqlite_master ORDER BY tbl_name, type, name",
		"SELECT m.name, p.name FROM sqlite_master m, pragma_table_info(m.name) p WHERE m.type = 'table' ORDER BY m.name, p.cid",
	})
	hasSeq := false
	for _, v := range rs[0].Values {
		name, tbl := c01EpCell(v.Parameters[1]), c01EpCell(v.Parameters[2])
		if name == "sqlite_sequence" {
			hasSeq = true
			continue
		}
		o := c01EpOwnerOfSQL(tbl)
		d[o] = append(d[o], fmt.Sprintf("schema %s %s: %s", c01EpCell(v.Parameters[0]), name, c01EpCell(v.Parameters[3])))
	}
	cols := map[string][]string{}
	var tables []string
	for _, v := range rs[1].Values {
		t, c := c01EpCell(v.Parameters[0]), c01EpCell(v.Parameters[1])
		if strings.HasPrefix(t, "sqlite_") {
			continue
		}
		if _, ok := cols[t]; !ok {
			tables = append(tables, t)
		}
		cols[t] = append(cols[t], c)
	}
	var qs []string
	for _, t := range tables {
		var sel []string
		for _, c := range cols[t] {
			sel = append(sel, fmt.Sprintf(`typeof("%s")`, c), fmt.Sprintf(`quote("%s")`, c))
		}
		qs = append(qs, fmt.Sprintf(`SELECT rowid, %s FROM "%s" ORDER BY rowid`, strings.Join(sel, ", "), t))
	}
	if hasSeq {
		qs = append(qs, "SELECT name, seq FROM sqlite_sequence ORDER BY name")
	}
	res := c01EpQuery(s, qs)
	for i, t := range tables {
		o := c01EpOwnerOfSQL(t)
		for _, v := range res[i].Values {
			var cells []string
			for k, c := range cols[t] {
				cells = append(cells, fmt.Sprintf("%s=%s:%s", c, c01EpCell(v.Parameters[1+2*k]), c01EpCell(v.Parameters[2+2*k])))
			}
			d[o] = append(d[o], fmt.Sprintf("row %s rowid=%s %s", t, c01EpCell(v.Parameters[0]), strings.Join(cells, " ")))
		}
	}
	if hasSeq {
		for _, v := range res[len(res)-1].Values {
			t := c01EpCell(v.Parameters[0])
			o := c01EpOwnerOfSQL(t)
			d[o] = append(d[o], fmt.Sprintf("sequence %s seq=%s", t, c01EpCell(v.Parameters[1])))
		}
	}
	return d
}

// ---------------------------------------------------------------------------
// writes

type c01EpStmt struct {
	SQL   string            `json:"sql"`
	Pos   []string          `json:"pos,omitempty"`   // JSON literals
	Named map[string]string `json:"named,omitempty"` // name -> JSON literal
}

type c01EpCase struct {
	Endpoint string      `json:"endpoint"`
	Tx       bool        `json:"tx"`
	Stmts    []c01EpStmt `json:"stmts"`
	Form     string      `json:"form"`   // label of the value form
	Family   string      `json:"family"` // "" | random | randomblob | time
	Shape    string      `json:"shape"`  // one-statement | two-statements | text-two-statements:<which is plain>
	Flag     string      `json:"flag,omitempty"` // "" | norwrandom | norwtime: the one kind of rewriting the client opted out of
	n        int
}

func (c *c01EpCase) text() string {
	var ss []string
	for _, s := range c.Stmts {
		x := s.SQL
		if len(s.Pos) > 0 {
			x += " " + strings.Join(s.Pos, ",")
		}
		if len(s.Named) > 0 {
			x += fmt.Sprintf(" %v", s.Named)
		}
		ss = append(ss, x)
	}
	ep := c.Endpoint
	if c.Flag != "" {
		ep += "?" + c.Flag
	}
	return fmt.Sprintf("%s tx=%v: %s", ep, c.Tx, strings.Join(ss, " ;; "))
}

type c01EpVal struct {
	label, expr, family string
	pos                 []string
	named               map[string]string
}

var c01EpVals = []c01EpVal{
	{label: "random", expr: "random()", family: "random"},
	{label: "random-in-expr", expr: "abs(random() % 1000)", family: "random"},
	{label: "randomblob", expr: "randomblob(4)", family: "randomblob"},
	{label: "hex-randomblob", expr: "hex(randomblob(3))", family: "randomblob"},
	{label: "date-now", expr: "date('now')", family: "time"},
	{label: "time-now", expr: "time('now')", family: "time"},
	{label: "datetime-now", expr: "datetime('now')", family: "time"},
	{label: "julianday-now", expr: "julianday('now')", family: "time"},
	{label: "unixepoch-now", expr: "unixepoch('now')", family: "time"},
	{label: "unixepoch-now-subsec", expr: "unixepoch('now', 'subsec')", family: "time"},
	{label: "datetime-now-modifier", expr: "datetime('now', '+1 day')", family: "time"},
	{label: "strftime-s-now", expr: "strftime('%s', 'now')", family: "time"},
	{label: "strftime-f-now", expr: "strftime('%Y-%m-%d %H:%M:%f', 'now')", family: "time"},
	{label: "timediff-now", expr: "timediff('now', '2020-01-02 03:04:05')", family: "time"},
	{label: "text", expr: "'lit'"},
	{label: "pos-int", expr: "?", pos: []string{"42"}},
	{label: "named-text", expr: ":nv", named: map[string]string{"nv": `"named"`}},
}

var c01EpTmpls = []struct{ label, sql string }{
	{"insert", "INSERT INTO @a(v, w) VALUES($1, 'e')"},
	{"update", "UPDATE @a SET v = $1 WHERE id = 1"},
	{"upsert", "INSERT INTO @a(id, v) VALUES(1, $1) ON CONFLICT(id) DO UPDATE SET v = excluded.v, w = $1"},
	{"insert-select", "INSERT INTO @a(v, w) SELECT v, $1 FROM @a WHERE id = 2"},
}

var c01EpEndpoints = []string{"execute", "execute-text", "execute-queued", "execute-queued-wait", "request", "load-sql"}

func c01EpParams(ep string) bool { return ep != "execute-text" && ep != "load-sql" }

func c01EpCases() []*c01EpCase {
	var out []*c01EpCase
	mk := func(v c01EpVal, tmpl string) c01EpStmt {
		k := strings.Count(tmpl, "$1")
		st := c01EpStmt{SQL: strings.ReplaceAll(tmpl, "$1", v.expr), Named: v.named}
		for i := 0; i < k; i++ {
			st.Pos = append(st.Pos, v.pos...)
		}
		return st
	}
	val := func(l string) c01EpVal {
		for _, v := range c01EpVals {
			if v.label == l {
				return v
			}
		}
		panic(l)
	}
	for _, ep := range c01EpEndpoints {
		for _, t := range c01EpTmpls {
			for _, v := range c01EpVals {
				if (len(v.pos) > 0 || len(v.named) > 0) && !c01EpParams(ep) {
					continue
				}
				out = append(out, &c01EpCase{Endpoint: ep, Stmts: []c01EpStmt{mk(v, t.sql)}, Form: v.label, Family: v.family, Shape: "one-statement:" + t.label})
			}
		}
		// two statements in one request, transaction flag off/on
		for _, l1 := range []string{"random", "datetime-now", "text"} {
			for _, l2 := range []string{"randomblob", "unixepoch-now-subsec", "text"} {
				if l1 == "text" && l2 == "text" {
					continue
				}
				v1, v2 := val(l1), val(l2)
				fam, form := v1.family, l1
				if fam == "" {
					fam, form = v2.family, l2
				}
				stmts := []c01EpStmt{mk(v1, c01EpTmpls[0].sql), mk(v2, c01EpTmpls[1].sql)}
				switch ep {
				case "execute", "request":
					for _, tx := range []bool{false, true} {
						out = append(out, &c01EpCase{Endpoint: ep, Tx: tx, Stmts: stmts, Form: form, Family: fam, Shape: "two-statements"})
					}
				case "execute-queued", "execute-queued-wait":
					out = append(out, &c01EpCase{Endpoint: ep, Stmts: stmts, Form: form, Family: fam, Shape: "two-statements"})
				case "load-sql", "execute-text":
					// both statements travel in one SQL text
					shape := "text-two-statements"
					if l1 == "text" {
						shape += ":first-plain"
					} else if l2 == "text" {
						shape += ":second-plain"
					}
					out = append(out, &c01EpCase{Endpoint: ep, Stmts: stmts, Form: form, Family: fam, Shape: shape})
				}
			}
		}
	}
	// A client that opts out of ONE kind of rewriting (norwrandom or norwtime) has opted
	// out of that kind only: the other kind must still be made deterministic. Statements
	// here carry only the kind that was not opted out of, so the oracle is the usual one.
	for _, ep := range c01EpEndpoints {
		if ep == "load-sql" { // takes no rewrite flags
			continue
		}
		for _, v := range c01EpVals {
			flag := ""
			switch v.family {
			case "time":
				flag = "norwrandom"
			case "random", "randomblob":
				flag = "norwtime"
			default:
				continue
			}
			for _, t := range c01EpTmpls[:2] {
				out = append(out, &c01EpCase{Endpoint: ep, Flag: flag, Stmts: []c01EpStmt{mk(v, t.sql)}, Form: v.label, Family: v.family, Shape: "one-statement:" + t.label})
			}
		}
	}
	for i, c := range out {
		c.n = i + 1
	}
	return out
}

func c01EpSub(s string, n int) string { return strings.ReplaceAll(s, "@", fmt.Sprintf("p%d_", n)) }

func c01EpJSONBody(stmts []c01EpStmt, n int) string {
	var items []string
	for _, s := range stmts {
		q, _ := json.Marshal(c01EpSub(s.SQL, n))
		switch {
		case len(s.Pos) > 0:
			items = append(items, "["+string(q)+","+strings.Join(s.Pos, ",")+"]")
		case len(s.Named) > 0:
			var kv []string
			for k, v := range s.Named {
				kb, _ := json.Marshal(k)
				kv = append(kv, string(kb)+":"+v)
			}
			sort.Strings(kv)
			items = append(items, "["+string(q)+",{"+strings.Join(kv, ",")+"}]")
		default:
			items = append(items, string(q))
		}
	}
	return "[" + strings.Join(items, ",") + "]"
}

type c01EpEnv struct {
	svc *Service
}

func (e *c01EpEnv) post(url, ctype, body string) (int, string) {
	req := httptest.NewRequest("POST", url, strings.NewReader(body))
	req.Header.Set("Content-Type", ctype)
	rec := httptest.NewRecorder()
	e.svc.ServeHTTP(rec, req)
	return rec.Code, rec.Body.String()
}

func (e *c01EpEnv) send(c *c01EpCase) (int, string) {
	tx := ""
	if c.Tx {
		tx = "&transaction"
	}
	if c.Flag != "" {
		tx += "&" + c.Flag
	}
	var texts []string
	for _, s := range c.Stmts {
		texts = append(texts, c01EpSub(s.SQL, c.n))
	}
	switch c.Endpoint {
	case "execute":
		return e.post("/db/execute?x"+tx, "application/json", c01EpJSONBody(c.Stmts, c.n))
	case "execute-text":
		return e.post("/db/execute?x"+tx, "text/plain", strings.Join(texts, ";\n"))
	case "execute-queued":
		return e.post("/db/execute?queue"+tx, "application/json", c01EpJSONBody(c.Stmts, c.n))
	case "execute-queued-wait":
		return e.post("/db/execute?queue&wait&timeout=60s"+tx, "application/json", c01EpJSONBody(c.Stmts, c.n))
	case "request":
		return e.post("/db/request?x"+tx, "application/json", c01EpJSONBody(c.Stmts, c.n))
	case "load-sql":
		return e.post("/db/load", "text/plain", strings.Join(texts, ";\n")+";\n")
	}
	panic("c01 endpoints harness: endpoint " + c.Endpoint)
}

var c01EpSetup = []string{
	"CREATE TABLE @a(id INTEGER PRIMARY KEY AUTOINCREMENT, v, w)",
	"INSERT INTO @a(v, w) VALUES('s1', 1), ('s2', 2), ('s3', 3)",
	"DELETE FROM @a WHERE id = 3",
}

var c01EpCallRe = regexp.MustCompile(`(?i)\b(random|randomblob)\s*\(|'now'`)

var c01EpMaskRe = regexp.MustCompile(`-?\d{6,}(\.\d+)?|[xX]'[0-9A-Fa-f]+'`)

// c01EpMask hides the literals the rewriter put in (different on every run) for the evidence file.
func c01EpMask(in []string) []string {
	out := make([]string, len(in))
	for i, q := range in {
		out[i] = c01EpMaskRe.ReplaceAllString(q, "<v>")
	}
	return out
}

func c01EpDiff(a, b []string) string {
	for i := 0; i < len(a) || i < len(b); i++ {
		var l, r string
		if i < len(a) {
			l = a[i]
		}
		if i < len(b) {
			r = b[i]
		}
		if l != r {
			return fmt.Sprintf("%q vs %q", l, r)
		}
	}
	return ""
}

func c01EpRun(t *testing.T, r *kit.Run, cases []*c01EpCase) {
	dir := kit.Scratch(t)
	if st, err := os.Stat("/dev/shm"); err == nil && st.IsDir() {
		if d, err := os.MkdirTemp("/dev/shm", "verif-c01ep-"); err == nil {
			t.Cleanup(func() { os.RemoveAll(d) })
			dir = d
		}
	}
	real := c01EpOpen(dir, true)
	cs := &c01Store{Store: real, seen: map[int][]string{}}
	cl := &mockClusterService{}
	svc := New("127.0.0.1:0", cs, cl, proxy.New(cs, cl), nil)
	svc.logger = log.New(io.Discard, "", 0)
	c01EpMust("start service", svc.Start())
	env := &c01EpEnv{svc: svc}

	status := map[int]string{}
	for _, c := range cases {
		var setup []c01EpStmt
		for _, s := range c01EpSetup {
			setup = append(setup, c01EpStmt{SQL: s})
		}
		code, body := env.post("/db/execute?transaction", "application/json", c01EpJSONBody(setup, c.n))
		if code != 200 || strings.Contains(body, `"error"`) {
			panic(fmt.Sprintf("c01 endpoints harness: set-up of case %d: %d %s", c.n, code, body))
		}
	}
	for _, c := range cases {
		code, body := env.send(c)
		if code != 200 {
			panic(fmt.Sprintf("c01 endpoints harness: %s answered %d %s", c.text(), code, body))
		}
		st := "ok"
		if strings.Contains(body, `"error"`) {
			st = "statement-error"
		}
		status[c.n] = st
	}
	// the queue keeps order: when this one is through, everything queued before it is
	code, body := env.post("/db/execute?queue&wait&timeout=60s", "application/json", `["CREATE TABLE p0_flush(x)"]`)
	if code != 200 {
		panic(fmt.Sprintf("c01 endpoints harness: queue flush: %d %s", code, body))
	}
	applied := time.Now()
	live := c01EpDump(real)
	svc.Close()
	c01EpMust("close store", real.Close(true))
	if w := 1200*time.Millisecond - time.Since(applied); w > 0 {
		time.Sleep(w)
	}
	again := c01EpOpen(dir, false)
	replay := c01EpDump(again)
	c01EpMust("close store", again.Close(true))

	for _, c := range cases {
		r.Eval(1)
		r.State(2)
		r.Transition(4)
		seen := cs.seen[c.n]
		if len(seen) > len(c01EpSetup) {
			seen = seen[len(c01EpSetup):]
		} else {
			seen = nil
		}
		unchanged, family := false, c.Family
		for _, q := range seen {
			if c.Family != "" && c01EpCallRe.MatchString(q) {
				unchanged = true
				// name the family of the call that was handed over as written
				switch lq := strings.ToLower(q); {
				case strings.Contains(lq, "randomblob("):
					family = "randomblob"
				case strings.Contains(lq, "random("):
					family = "random"
				default:
					family = "time"
				}
			}
		}
		d := c01EpDiff(live[c.n], replay[c.n])
		outcome := "converged"
		if d != "" {
			outcome = "diverged"
		}
		rewritten := "n/a"
		if c.Family != "" {
			rewritten = fmt.Sprint(!unchanged)
		}
		r.Distinct(fmt.Sprintf("%s %s %s %s => %s rewritten=%s => %s lines=%d", c.Endpoint, c.Flag, c.Shape, c.Family, status[c.n], rewritten, outcome, len(live[c.n])))
		r.SampleEvery(c.n, map[string]any{"write": c.text(), "handed_to_store": c01EpMask(seen), "outcome": outcome})
		if len(seen) == 0 {
			r.Violation("C01:endpoint:"+c.Endpoint+":nothing-reached-the-store", fmt.Sprintf("%s: answered 200 but no statement was handed to the Store", c.text()), map[string]any{"case": c})
			continue
		}
		if d == "" {
			continue
		}
		var key string
		switch {
		case c.Flag != "":
			// the client opted out of the other kind of rewriting only
			how := "rewritten-but-diverges"
			if unchanged {
				how = "not-rewritten"
			}
			key = "C01:endpoint:" + c.Endpoint + ":with-" + c.Flag + ":" + how + ":" + family
		case strings.HasPrefix(c.Shape, "text-two-statements") && c.Endpoint == "execute-text":
			// the C14 check knows this one: a statement text carrying several statements
			key = "C01:unrewritten:ctx-multi-statement-first-plain:" + c.Endpoint
			if !unchanged {
				key = "C01:endpoint:" + c.Endpoint + ":multi-statement-text:diverges:" + family
			}
		case unchanged:
			key = "C01:endpoint:" + c.Endpoint + ":not-rewritten:" + family
		default:
			key = "C01:endpoint:" + c.Endpoint + ":rewritten-but-diverges:" + family
		}
		r.Violation(key, fmt.Sprintf("%s: handed to the Store as %q; live vs restart-replay >= 1.2 s later: %s", c.text(), seen, d), map[string]any{"case": c})
	}
}

func TestVerif_C01_endpoints(t *testing.T) {
	r := kit.Start(t, "C01", "endpoints")
	defer r.Finish()
	cases := c01EpCases()
	if rp := kit.Replay(); rp != nil {
		var in struct {
			Case c01EpCase `json:"case"`
		}
		c01EpMust("replay file", json.Unmarshal(rp, &in))
		in.Case.n = 1
		cases = []*c01EpCase{&in.Case}
	}
	r.Rule(fmt.Sprintf("%d writes: every write endpoint {execute (JSON), execute (text/plain), queued execute without and with wait, unified request, load of SQL text} x {INSERT, UPDATE, UPSERT, INSERT..SELECT} x %d value forms (14 non-deterministic ones, a literal, a positional and a named parameter where the endpoint takes parameters), plus two-statement requests (transaction flag off/on where the endpoint has one; one SQL text carrying both statements for text/plain and load), plus, for every endpoint that takes the rewrite flags, the two single opt-outs {norwrandom with each of the 10 time forms, norwtime with each of the 4 random forms} x {INSERT, UPDATE} (the kind not opted out of must still be rewritten; nothing is demanded of the opted-out kind, which these statements do not contain), sent through the real http.Service handlers on a real single-node Store; database dumped, Store closed without a snapshot, reopened >= 1.2 s later (Raft replays the log), dumped again; the two dumps of every write's table must be equal. distinct = (endpoint, shape, function family, response status, whether the Store was handed a changed text, outcome)", len(cases), len(c01EpVals)))
	r.Assume("the queue keeps order (property C23): a final ?queue&wait request is used to know that everything queued before it has been written")
	r.Note("date('now') changes once a day: an endpoint that leaves only that form unrewritten is not seen by a 1.2 s gap; the other 13 forms are")
	c01EpRun(t, r, cases)
}
