package http

import (
	"bytes"
	"compress/gzip"
	"context"
	"encoding/json"
	"errors"
	"fmt"
	"io"
	"net"
	"net/http"
	"os"
	"path/filepath"
	"sort"
	"strings"
	"sync"
	"sync/atomic"
	"syscall"
	"testing"
	"time"

	"github.com/rqlite/rqlite/v10/cluster"
	command "github.com/rqlite/rqlite/v10/command/proto"
	"github.com/rqlite/rqlite/v10/db"
	kit "github.com/rqlite/rqlite/v10/internal/verifkit"
	"github.com/rqlite/rqlite/v10/proxy"
	"github.com/rqlite/rqlite/v10/store"
	"github.com/rqlite/rqlite/v10/tcp"
)

// C21 part "http": GET /db/backup on the real http.Service never hands the HTTP
// client an incomplete backup as a success. A success, as an HTTP client sees
// it, is a 2xx status whose body ends cleanly (Content-Length satisfied or the
// final chunk received). A non-2xx status, or a connection that is aborted
// before the body ends, is an error report.
//
//	local   the node's own Store fails after having written n bytes of the backup
//	remote  the node is not the leader: the real proxy forwards through the real
//	        cluster.Client to a real cluster.Service on the "leader"; the inter-node
//	        stream is cut after n bytes (eof / reset at the client's socket, or the
//	        leader's Store failing after n bytes of the backup stream)
//
// for every n on a small backup and a grid of n on a large one (the large one is
// what makes the decompressing client emit part of the payload before the cut),
// with and without ?compress.

type c21hSource struct {
	gzp       atomic.Pointer[[]byte]
	failAfter atomic.Int64
}

var errC21h = errors.New("c21: injected failure of the backup source")

func (d *c21hSource) Backup(ctx context.Context, br *command.BackupRequest, dst io.Writer) error {
	if !br.Compress {
		return errors.New("c21 harness: the Service is expected to ask its Store for a compressed stream")
	}
	gz := *d.gzp.Load()
	if fa := int(d.failAfter.Load()); fa >= 0 && fa < len(gz) {
		if fa > 0 {
			if _, err := dst.Write(gz[:fa]); err != nil {
				return err
			}
		}
		return errC21h
	}
	_, err := dst.Write(gz)
	return err
}
func (d *c21hSource) Execute(ctx context.Context, er *command.ExecuteRequest) ([]*command.ExecuteQueryResponse, uint64, error) {
	return nil, 0, errors.New("unused")
}
func (d *c21hSource) Query(ctx context.Context, qr *command.QueryRequest) ([]*command.QueryRows, command.ConsistencyLevel, uint64, error) {
	return nil, 0, 0, errors.New("unused")
}
func (d *c21hSource) Request(ctx context.Context, rr *command.ExecuteQueryRequest) ([]*command.ExecuteQueryResponse, uint64, uint64, error) {
	return nil, 0, 0, errors.New("unused")
}
func (d *c21hSource) Load(ctx context.Context, lr *command.LoadRequest) error {
	return errors.New("unused")
}

type c21hMgr struct{}

func (c21hMgr) LeaderAddr() (string, error)                                     { return "", nil }
func (c21hMgr) CommitIndex() (uint64, error)                                    { return 0, nil }
func (c21hMgr) Remove(ctx context.Context, rn *command.RemoveNodeRequest) error { return nil }
func (c21hMgr) Notify(n *command.NotifyRequest) error                           { return nil }
func (c21hMgr) Join(n *command.JoinRequest) error                               { return nil }
func (c21hMgr) Stepdown(wait bool, id string) error                             { return nil }

type c21hCred struct{}

func (c21hCred) AA(username, password, perm string) bool { return true }

type c21hDialer struct {
	inner *tcp.Dialer
	limit int
	kind  string
}

func (d *c21hDialer) Dial(addr string, timeout time.Duration) (net.Conn, error) {
	c, err := d.inner.Dial(addr, timeout)
	if err != nil {
		return nil, err
	}
	return &c21hConn{Conn: c, d: d}, nil
}

type c21hConn struct {
	net.Conn
	d    *c21hDialer
	read int
}

func (c *c21hConn) Read(p []byte) (int, error) {
	if c.d.limit >= 0 {
		rem := c.d.limit - c.read
		if rem <= 0 {
			c.Conn.Close()
			if c.d.kind == "reset" {
				return 0, &net.OpError{Op: "read", Net: "tcp", Err: syscall.ECONNRESET}
			}
			return 0, io.EOF
		}
		if len(p) > rem {
			p = p[:rem]
		}
	}
	n, err := c.Conn.Read(p)
	c.read += n
	return n, err
}

type c21hCase struct {
	Payload  string `json:"payload"` // small | large; real-* modes: sqlcol | dbfile (the trigger)
	Mode     string `json:"mode"`    // local | remote | real-leader | real-follower
	Kind     string `json:"kind"`    // ok | storefail | eof | reset | srcfail; real-* modes: sql | binary (the format)
	Compress bool   `json:"compress"`
	N        int    `json:"n"`
}

func (c c21hCase) String() string {
	gz := "plain"
	if c.Compress {
		gz = "?compress"
	}
	return fmt.Sprintf("%s %s %s %s@%d", c.Payload, c.Mode, gz, c.Kind, c.N)
}

// c21hChain is one follower http.Service + proxy + cluster client -> leader cluster.Service.
type c21hChain struct {
	t      *testing.T
	svc    *Service
	store  *MockStore
	leader *cluster.Service
	src    *c21hSource
	client *http.Client
	cl     func()
	// payload currently served
	plain, gz []byte
}

func c21hNewChain(t *testing.T) *c21hChain {
	ln, err := net.Listen("tcp", "localhost:0")
	if err != nil {
		t.Fatal(err)
	}
	mux, err := tcp.NewMux(ln, nil)
	if err != nil {
		t.Fatal(err)
	}
	go mux.Serve()
	src := &c21hSource{}
	src.failAfter.Store(-1)
	leader := cluster.New(mux.Listen(cluster.MuxClusterHeader), src, c21hMgr{}, c21hCred{})
	if err := leader.Open(); err != nil {
		t.Fatal(err)
	}
	m := &MockStore{}
	c := &mockClusterService{}
	s := New("127.0.0.1:0", m, c, proxy.New(m, c), nil)
	if err := s.Start(); err != nil {
		t.Fatalf("harness: start http service: %v", err)
	}
	ch := &c21hChain{t: t, svc: s, store: m, leader: leader, src: src,
		client: &http.Client{Transport: &http.Transport{DisableCompression: true}, Timeout: 60 * time.Second}}
	ch.cl = func() { s.Close(); leader.Close(); ln.Close(); mux.Close() }
	return ch
}

// run performs one GET /db/backup and reports (success as a client sees it, body, description).
func (ch *c21hChain) run(cs c21hCase) (bool, []byte, string) {
	gz := ch.gz
	ch.src.gzp.Store(&gz)
	ch.src.failAfter.Store(-1)
	dl := &c21hDialer{inner: tcp.NewDialer(cluster.MuxClusterHeader, nil), limit: -1, kind: cs.Kind}
	q := "?timeout=20s"
	switch cs.Mode {
	case "local":
		ch.store.leaderAddr = ""
		ch.store.backupFn = func(br *command.BackupRequest, dst io.Writer) error {
			b := ch.plain
			if br.Compress {
				b = ch.gz
			}
			if cs.Kind == "storefail" {
				if cs.N > 0 {
					dst.Write(b[:min(cs.N, len(b))])
				}
				return errC21h
			}
			_, err := dst.Write(b)
			return err
		}
	case "remote":
		ch.store.leaderAddr = ch.leader.Addr()
		ch.store.backupFn = func(br *command.BackupRequest, dst io.Writer) error { return store.ErrNotLeader }
		switch cs.Kind {
		case "eof", "reset":
			dl.limit = cs.N
		case "srcfail":
			ch.src.failAfter.Store(int64(cs.N))
		case "ok":
			// cut exactly at the end of the complete stream: the clean end a closing peer produces.
			// (Left uncut, a compressed exchange only ends by a deadline; see part "remote".)
			dl.limit = 8 + len(ch.gz)
			dl.kind = "eof"
		}
	}
	// a fresh client (and connection pool) per request: a cut connection must not be reused
	ch.svc.proxy = proxy.New(ch.store, cluster.NewClient(dl, 20*time.Second))
	if cs.Compress {
		q += "&compress"
	}
	resp, err := ch.client.Get("http://" + ch.svc.Addr().String() + "/db/backup" + q)
	if err != nil {
		return false, nil, "transport error: " + c21hShort(err.Error())
	}
	defer resp.Body.Close()
	body, rerr := io.ReadAll(resp.Body)
	if resp.StatusCode < 200 || resp.StatusCode > 299 {
		return false, body, fmt.Sprintf("status %d", resp.StatusCode)
	}
	if rerr != nil {
		return false, body, fmt.Sprintf("status %d, body aborted: %s", resp.StatusCode, c21hShort(rerr.Error()))
	}
	return true, body, fmt.Sprintf("status %d, body of %d bytes ended cleanly", resp.StatusCode, len(body))
}

func c21hShort(e string) string {
	for _, k := range []string{"unexpected EOF", "connection reset", "EOF", "timeout"} {
		if strings.Contains(e, k) {
			return k
		}
	}
	if len(e) > 50 {
		e = e[:50]
	}
	return e
}

func c21hGzip(b []byte) []byte {
	var buf bytes.Buffer
	w, _ := gzip.NewWriterLevel(&buf, gzip.BestSpeed)
	w.Write(b)
	w.Close()
	return buf.Bytes()
}

// c21hMakeDB builds a genuine SQLite database image of roughly the wanted size.
func c21hMakeDB(t *testing.T, rows int) []byte {
	dir := kit.Scratch(t)
	p := filepath.Join(dir, "src.db")
	d, err := db.Open(p, false, false)
	if err != nil {
		t.Fatal(err)
	}
	qs := []string{"CREATE TABLE kv(k INTEGER PRIMARY KEY, v TEXT)",
		fmt.Sprintf("WITH RECURSIVE c(i) AS (SELECT 1 UNION ALL SELECT i+1 FROM c WHERE i<%d) INSERT INTO kv SELECT i, printf('%%x-%%x-%%x-%%x-%%x', i*2654435761, i*i*40503+977, (i+13)*7919*104729, i*i*i*31337, (i+5)*(i+7)*2246822519) FROM c", rows)}
	for _, q := range qs {
		if r, err := d.ExecuteStringStmt(q); err != nil || r[0].GetError() != "" {
			t.Fatalf("harness: %s: %v %v", q, err, r)
		}
	}
	if err := d.Close(); err != nil {
		t.Fatal(err)
	}
	b, err := os.ReadFile(p)
	if err != nil {
		t.Fatal(err)
	}
	return b
}

func TestVerif_C21(t *testing.T) {
	r := kit.Start(t, "C21", "http")
	defer r.Finish()
	r.Rule("GET /db/backup on the real http.Service, {plain, ?compress} x {own Store fails after n bytes | not leader: real proxy -> real cluster.Client -> real cluster.Service with the inter-node stream ended after n bytes by a clean close, by a reset, or by the leader's Store failing}; every n for a small database image, a grid of n (every 1/256th plus the first and last 64 offsets) for a large one (thorough: every 1/2048th). A response that an HTTP client takes as a success (2xx, body ends cleanly) must carry exactly the complete backup. distinct = (payload, mode, kind, compression, what the client saw)")
	r.Assume("an HTTP client treats a 2xx response whose body ends cleanly as a successful download; a non-2xx status or an aborted body is an error report")
	r.Note("an error text following a COMPLETE backup in a 2xx body (possible when the source fails after its last byte) is counted as an observation, not as a violation")

	type payloadT struct{ plain, gz []byte }
	payloads := map[string]payloadT{}
	small := c21hMakeDB(t, 3)
	large := c21hMakeDB(t, 1500)
	payloads["small"] = payloadT{small, c21hGzip(small)}
	payloads["large"] = payloadT{large, c21hGzip(large)}
	for k, p := range payloads {
		t.Logf("payload %s: %d bytes, gzip %d bytes", k, len(p.plain), len(p.gz))
		r.Set("payload_"+k+"_bytes", len(p.plain))
		r.Set("payload_"+k+"_gzip_bytes", len(p.gz))
	}

	grid := func(n int, fine bool) []int {
		if fine {
			out := make([]int, n)
			for i := range out {
				out[i] = i
			}
			return out
		}
		parts := r.Pick(256, 2048)
		set := map[int]bool{}
		for i := 0; i < parts; i++ {
			set[i*n/parts] = true
		}
		for i := 0; i < 64 && i < n; i++ {
			set[i], set[n-1-i] = true, true
		}
		for _, b := range []int{4095, 4096, 4097, 32767, 32768, 32769} {
			if b < n {
				set[b] = true
			}
		}
		out := make([]int, 0, len(set))
		for k := range set {
			out = append(out, k)
		}
		sort.Ints(out)
		return out
	}

	var cases []c21hCase
	for _, pn := range []string{"small", "large"} {
		p := payloads[pn]
		fine := pn == "small"
		for _, gz := range []bool{false, true} {
			body := p.plain
			if gz {
				body = p.gz
			}
			cases = append(cases, c21hCase{pn, "local", "ok", gz, 0}, c21hCase{pn, "remote", "ok", gz, 0})
			for _, n := range grid(len(body), fine) {
				cases = append(cases, c21hCase{pn, "local", "storefail", gz, n})
			}
			for _, n := range grid(8+len(p.gz), fine) {
				cases = append(cases, c21hCase{pn, "remote", "eof", gz, n}, c21hCase{pn, "remote", "reset", gz, n})
			}
			for _, n := range grid(len(p.gz), fine) {
				cases = append(cases, c21hCase{pn, "remote", "srcfail", gz, n})
			}
		}
	}

	judge := func(ch *c21hChain, cs c21hCase) {
		p := payloads[cs.Payload]
		ch.plain, ch.gz = p.plain, p.gz
		ok, body, what := ch.run(cs)
		r.Eval(1)
		gzs := "uncompressed"
		if cs.Compress {
			gzs = "compressed"
		}
		if !ok {
			r.Distinct(fmt.Sprintf("%s %s %s %s => error: %s", cs.Payload, cs.Mode, gzs, cs.Kind, what))
			return
		}
		want := p.plain
		if cs.Compress {
			want = p.gz
		}
		switch {
		case bytes.Equal(body, want):
			r.Distinct(fmt.Sprintf("%s %s %s %s => success, complete", cs.Payload, cs.Mode, gzs, cs.Kind))
		case bytes.HasPrefix(body, want):
			r.Distinct(fmt.Sprintf("%s %s %s %s => success, complete backup followed by %d more bytes", cs.Payload, cs.Mode, gzs, cs.Kind, len(body)-len(want)))
			r.Add("complete_backup_followed_by_error_text", 1)
		default:
			common := 0
			for common < len(body) && common < len(want) && body[common] == want[common] {
				common++
			}
			r.Distinct(fmt.Sprintf("%s %s %s %s => success, INCOMPLETE", cs.Payload, cs.Mode, gzs, cs.Kind))
			tail := body[common:]
			if len(tail) > 80 {
				tail = tail[:80]
			}
			mode := cs.Mode + ":" + cs.Kind
			r.Violation(fmt.Sprintf("C21:http-2xx-incomplete-backup:%s:%s", mode, gzs),
				fmt.Sprintf("%s: %s, but only the first %d of the backup's %d bytes are in it, followed by %q", cs, what, common, len(want), tail), cs)
		}
	}

	if raw := kit.Replay(); raw != nil {
		var cs c21hCase
		if err := json.Unmarshal(raw, &cs); err != nil {
			t.Fatal(err)
		}
		if cs.Mode == "real-leader" || cs.Mode == "real-follower" {
			c21hRealSource(t, r, &cs)
			return
		}
		ch := c21hNewChain(t)
		defer ch.cl()
		judge(ch, cs)
		return
	}

	for i := range cases {
		r.SampleEvery(i, cases[i].String())
	}
	const workers = 8
	var wg sync.WaitGroup
	for w := 0; w < workers; w++ {
		wg.Add(1)
		go func(w int) {
			defer wg.Done()
			ch := c21hNewChain(t)
			defer ch.cl()
			for i := w; i < len(cases); i += workers {
				judge(ch, cases[i])
			}
		}(w)
	}
	wg.Wait()
	r.State(len(cases))
	c21hRealSource(t, r, nil)
}

type c21hLayer struct{ net.Listener }

func (l *c21hLayer) Dial(addr string, timeout time.Duration) (net.Conn, error) {
	return net.DialTimeout("tcp", addr, timeout)
}

// c21hRealSource: GET /db/backup when the backup fails inside a REAL Store.
//
//	real-leader    the http.Service's own Store is the real Store
//	real-follower  the http.Service is not the leader: real proxy -> real cluster.Client
//	               -> real cluster.Service -> the real Store
//
// Payload "sqlcol": a table (sorted after a healthy one) has a column name holding
// a double quote, on which the real db.Dump fails after having emitted the first
// table. Payload "dbfile": the main database file cannot be read while a binary
// backup copies it. Oracle: if the local Store.Backup of the same request fails,
// the HTTP client must not see a 2xx response that ends cleanly; if it succeeds,
// such a response must carry the same backup.
func c21hRealSource(t *testing.T, r *kit.Run, only *c21hCase) {
	dir := kit.Scratch(t)
	if st, err := os.Stat("/dev/shm"); err == nil && st.IsDir() {
		if d, err := os.MkdirTemp("/dev/shm", "verif-c21h-"); err == nil {
			t.Cleanup(func() { os.RemoveAll(d) })
			dir = d
		}
	}
	ln, err := net.Listen("tcp", "localhost:0")
	if err != nil {
		t.Fatal(err)
	}
	defer ln.Close()
	sdir := filepath.Join(dir, "badnode")
	st := store.New(&store.Config{DBConf: store.NewDBConfig(), Dir: sdir, ID: "c21hbad"}, &c21hLayer{ln})
	if err := st.Open(); err != nil {
		t.Fatalf("harness: open: %v", err)
	}
	defer st.Close(true)
	if err := st.Bootstrap(store.NewServer(st.ID(), st.Addr(), true)); err != nil {
		t.Fatalf("harness: bootstrap: %v", err)
	}
	if _, err := st.WaitForLeader(60 * time.Second); err != nil {
		t.Fatalf("harness: leader: %v", err)
	}
	er := &command.ExecuteRequest{Request: &command.Request{Transaction: true}}
	for _, q := range []string{
		`CREATE TABLE a_ok(id INTEGER PRIMARY KEY, v TEXT)`,
		`INSERT INTO a_ok VALUES(1,'one'),(2,'two'),(3,'three')`,
		`CREATE TABLE b_bad(id INTEGER PRIMARY KEY, "we""ird" TEXT)`,
		`INSERT INTO b_bad VALUES(1,'x')`,
	} {
		er.Request.Statements = append(er.Request.Statements, &command.Statement{Sql: q})
	}
	resp, _, err := st.Execute(context.Background(), er)
	if err != nil {
		t.Fatalf("harness: execute: %v", err)
	}
	for _, rr := range resp {
		if e := rr.GetError() + rr.GetE().GetError(); e != "" {
			t.Fatalf("harness: %s", e)
		}
	}
	if err := st.Snapshot(0); err != nil {
		t.Fatalf("harness: snapshot: %v", err)
	}

	// the leader's inter-node service in front of the real Store
	cln, err := net.Listen("tcp", "localhost:0")
	if err != nil {
		t.Fatal(err)
	}
	mux, err := tcp.NewMux(cln, nil)
	if err != nil {
		t.Fatal(err)
	}
	go mux.Serve()
	leader := cluster.New(mux.Listen(cluster.MuxClusterHeader), st, c21hMgr{}, c21hCred{})
	if err := leader.Open(); err != nil {
		t.Fatal(err)
	}
	defer func() { leader.Close(); cln.Close(); mux.Close() }()

	// follower: not the leader, forwards
	fm := &MockStore{leaderAddr: leader.Addr()}
	fm.backupFn = func(br *command.BackupRequest, dst io.Writer) error { return store.ErrNotLeader }
	fc := &mockClusterService{}
	follower := New("127.0.0.1:0", fm, fc, proxy.New(fm, cluster.NewClient(tcp.NewDialer(cluster.MuxClusterHeader, nil), 20*time.Second)), nil)
	if err := follower.Start(); err != nil {
		t.Fatalf("harness: %v", err)
	}
	defer follower.Close()
	// leader's own HTTP service: a Store whose Backup is the real Store's
	lm := &MockStore{}
	lm.backupFn = func(br *command.BackupRequest, dst io.Writer) error { return st.Backup(context.Background(), br, dst) }
	lsvc := New("127.0.0.1:0", lm, fc, proxy.New(lm, fc), nil)
	if err := lsvc.Start(); err != nil {
		t.Fatalf("harness: %v", err)
	}
	defer lsvc.Close()

	dbFile := filepath.Join(sdir, "db.sqlite")
	breakFile := func() func() {
		if err := os.Rename(dbFile, dbFile+".real"); err != nil {
			t.Fatalf("harness: %v", err)
		}
		if err := os.Symlink(sdir, dbFile); err != nil {
			t.Fatalf("harness: %v", err)
		}
		return func() {
			os.Remove(dbFile)
			if err := os.Rename(dbFile+".real", dbFile); err != nil {
				t.Fatalf("harness: %v", err)
			}
		}
	}

	var cases []c21hCase
	for _, mode := range []string{"real-leader", "real-follower"} {
		for _, gz := range []bool{false, true} {
			cases = append(cases,
				c21hCase{"sqlcol", mode, "sql", gz, 0},
				c21hCase{"sqlcol", mode, "binary", gz, 0},
				c21hCase{"dbfile", mode, "binary", gz, 0})
		}
	}
	if only != nil {
		cases = []c21hCase{*only}
	}
	client := &http.Client{Transport: &http.Transport{DisableCompression: true}, Timeout: 60 * time.Second}
	for _, cs := range cases {
		restore := func() {}
		if cs.Payload == "dbfile" {
			restore = breakFile()
		}
		br := &command.BackupRequest{Format: command.BackupRequest_BACKUP_REQUEST_FORMAT_BINARY, Leader: true, Compress: cs.Compress}
		q := "?timeout=20s&fmt=binary"
		if cs.Kind == "sql" {
			br.Format = command.BackupRequest_BACKUP_REQUEST_FORMAT_SQL
			q = "?timeout=20s&fmt=sql"
		}
		if cs.Compress {
			q += "&compress"
		}
		var local bytes.Buffer
		lerr := st.Backup(context.Background(), br, &local)
		svc := lsvc
		if cs.Mode == "real-follower" {
			svc = follower
			// a fresh client (and connection pool) per request: the connection of an exchange the
			// leader ended must not be what the next case runs on
			follower.proxy = proxy.New(fm, cluster.NewClient(tcp.NewDialer(cluster.MuxClusterHeader, nil), 20*time.Second))
		}
		ok, body, what := false, []byte(nil), ""
		resp, err := client.Get("http://" + svc.Addr().String() + "/db/backup" + q)
		if err != nil {
			what = "transport error: " + c21hShort(err.Error())
		} else {
			var rerr error
			body, rerr = io.ReadAll(resp.Body)
			resp.Body.Close()
			switch {
			case resp.StatusCode < 200 || resp.StatusCode > 299:
				what = fmt.Sprintf("status %d", resp.StatusCode)
			case rerr != nil:
				what = fmt.Sprintf("status %d, body aborted: %s", resp.StatusCode, c21hShort(rerr.Error()))
			default:
				ok, what = true, fmt.Sprintf("status %d, body of %d bytes ended cleanly", resp.StatusCode, len(body))
			}
		}
		restore()
		r.Eval(1)
		gzs := "uncompressed"
		if cs.Compress {
			gzs = "compressed"
		}
		lo := "local-ok"
		if lerr != nil {
			lo = "local-error"
		}
		t.Logf("real source %s: local err=%v; http: %s", cs, lerr, what)
		if !ok {
			r.Distinct(fmt.Sprintf("%s %s %s %s %s => error: %s", cs.Payload, cs.Mode, cs.Kind, gzs, lo, what))
			continue
		}
		if lerr == nil && bytes.Equal(body, local.Bytes()) {
			r.Distinct(fmt.Sprintf("%s %s %s %s %s => success, complete", cs.Payload, cs.Mode, cs.Kind, gzs, lo))
			continue
		}
		r.Distinct(fmt.Sprintf("%s %s %s %s %s => success, INCOMPLETE", cs.Payload, cs.Mode, cs.Kind, gzs, lo))
		why := fmt.Sprintf("the Store cannot produce this backup (local Store.Backup: %v)", lerr)
		if lerr == nil {
			why = fmt.Sprintf("it differs from the local backup of %d bytes", local.Len())
		}
		path := "http-leader"
		if cs.Mode == "real-follower" {
			path = "http-follower"
		}
		r.Violation(fmt.Sprintf("C21:source-failure-reported-success:%s:%s:%s", cs.Kind, path, gzs),
			fmt.Sprintf("%s: %s, but %s", cs, what, why), cs)
	}
}
