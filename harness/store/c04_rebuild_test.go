package store

import (
	"bytes"
	"context"
	"crypto/sha256"
	"encoding/hex"
	"encoding/json"
	"errors"
	"fmt"
	"io"
	"log"
	"os"
	"path/filepath"
	"sort"
	"strconv"
	"strings"
	"sync"
	"sync/atomic"
	"testing"
	"time"

	"github.com/hashicorp/raft"
	"github.com/rqlite/rqlite/v10/command/proto"
	sql "github.com/rqlite/rqlite/v10/db"
	kit "github.com/rqlite/rqlite/v10/internal/verifkit"
	"github.com/rqlite/rqlite/v10/snapshot"
)

// C04: restoring the newest snapshot of the snapshot store and replaying the raft
// log entries after it always rebuilds exactly the database the node had applied.
//
// Engine E-SEQ: a state is the operation list that reaches it; every state is
// built by replaying the list on a FRESH real single-node Store (stores do not
// clone). Alphabet (one letter per operation):
//
//	w  small write   the n-th small write is UPDATE p SET g=g+1 WHERE id=(n mod 4)+1; p has one
//	                 row per database page, so consecutive small writes touch different
//	                 pages and every fifth the same page again (a WAL that is lost, applied
//	                 twice, out of order, or that does not belong is visible in the result)
//	W  big write     UPDATE of every row of t + INSERT of 30 rows of 1300 bytes with ids
//	                 assigned by SQLite (one transaction, one raft command, ~12 pages)
//	S  snapshot      Store.Snapshot(0) = raft user snapshot (full or incremental, as the
//	                 store decides); "nothing new"/"no WAL" refusals are legitimate
//	K  snapshot whose Persist is skipped: a non-voter at an address nobody listens on is
//	                 joined (a committed configuration entry ahead of the FSM index), then
//	                 Store.Snapshot(0) - raft calls the FSM's Snapshot (the store checkpoints
//	                 and stages the WAL) and then refuses to persist ("wait until the
//	                 configuration entry ... has been applied") - then the non-voter is removed
//	F  snapshot whose Persist fails before the staged WAL is consumed: the store's
//	                 Checkpointer is wrapped for this one snapshot; right after the incremental
//	                 checkpoint succeeded (WAL staged) the wrapper raises the snapshot store's
//	                 full-needed requirement, as a load applied during the persist would; the
//	                 sink's Write refuses the incremental header, Persist fails, raft cancels
//	                 the sink; the requirement is withdrawn again afterwards. The harness
//	                 verifies the failed persist and the retained WAL. When the store takes a
//	                 full snapshot here (or none) there is nothing to fail: F is then S.
//	G  snapshot whose Persist succeeds but which is NOT installed: the full-needed
//	                 requirement is raised after the sink accepted the incremental header (at
//	                 the moment Persist reports success) and the sink refuses when raft closes
//	                 it; the requirement is withdrawn afterwards. Verified: newest snapshot
//	                 index unchanged, staged WAL retained. (See c04SnapshotNotInstalled.)
//	L  load          Store.Load of a SQLite file (goes through the raft log)
//	B  boot          Store.ReadFrom of a SQLite file (bypasses the log, snapshots itself)
//	R  reap          Store.Reap()
//	X  restart       Close (no snapshot on close) + a NEW Store object opened on the same
//	                 directory (nothing of the old object's memory survives, as in a new process)
//
// Oracle, evaluated in EVERY state (= at the end of every enumerated history):
//
//	(live)    the live database equals the reference model (a Go map stepped alongside)
//	          after every single operation: a restart or a snapshot never reverts data;
//	(restore) the newest snapshot is opened from the real snapshot.Store and restored with
//	          the real snapshot.Restore: it must succeed and equal the model as it was when
//	          that snapshot was taken;
//	(install) the same stream is written through the Sink of a second, empty
//	          snapshot.Store (what a follower does on InstallSnapshot), opened there and
//	          restored: must succeed and be equal too;
//	(restart) the store is closed (no snapshot on close), the clean-snapshot marker is
//	          removed (the documented ForceSnapshotRestore), and the store is re-opened:
//	          the real start-up restores the newest snapshot and replays the log entries
//	          after it. Open must succeed and the database must equal the live database
//	          taken before the close.
//
// A restore/open that errors is a violation exactly like a wrong database.
//
// State key (states with equal keys are expanded once): see c04Exec.key. It is made of
// everything the snapshot/restore machinery can observe: per snapshot directory its kind
// and number of WAL files; the staged WAL files (count, frame structure, whether each
// predates the newest full snapshot) and whether the staging directory exists;
// FULL_NEEDED; whether the live WAL holds data; whether the database file looks modified
// to the store and whether the store remembers a modification time at all (memory only,
// lost by a restart); whether a configuration entry is ahead of the FSM; the number of
// servers; whether the clean-snapshot marker is absent, vouches for the database file as it is (the
// start-up fast path) or is stale; the number of command entries in the
// log after the newest snapshot; the digest of the live database; the digest of the
// database the newest snapshot must restore to; which load file and which row of p the
// next load/boot and small write will use. Two histories with equal keys have the same
// files with the same logical contents in every place the code under test reads, and the
// same in-memory inputs of the full/incremental decision; raft indexes and the
// timestamps in snapshot names differ, but they only order snapshots, and are ordered
// the same way. So every continuation takes the same branches on both and is judged
// against the same expected databases. (Older snapshots enter only through reap, which
// folds the newest full snapshot and everything after it into one: their combined content
// is the digest of the newest snapshot.)

const c04Alphabet = "wWSKFGLBRX"

var c04OpName = map[byte]string{'w': "write", 'W': "big-write", 'S': "snapshot", 'K': "snapshot-persist-skipped",
	'F': "snapshot-persist-fails", 'G': "snapshot-persisted-not-installed", 'L': "load", 'B': "boot", 'R': "reap", 'X': "restart"}

const (
	c04BigRows  = 30
	c04BigBytes = 1300
	c04PRows    = 4
	c04PBytes   = 3000
)

func c04BigValue(id int64) string {
	return strings.Repeat(string(rune('a'+id%26)), c04BigBytes) + strconv.FormatInt(id, 10)
}

// c04PTable is the content of table p (one row per database page) with all g = g0.
func c04PTable(g0 int64, ch string) map[int64]c04Row {
	m := map[int64]c04Row{}
	for id := int64(1); id <= c04PRows; id++ {
		m[id] = c04Row{g0, strings.Repeat(ch, c04PBytes) + strconv.FormatInt(id, 10)}
	}
	return m
}

// c04Setup creates the initial tables on a fresh store (one command each).
func (c *c04Exec) setup() {
	c.exec(c04CreateSQL("t"))
	c.exec(c04CreateSQL("p"))
	c.model["p"] = c04PTable(0, "p")
	var vals []string
	for id := int64(1); id <= c04PRows; id++ {
		vals = append(vals, fmt.Sprintf("(%d,0,'%s')", id, c.model["p"][id].v))
	}
	c.exec("INSERT INTO p(id,g,v) VALUES" + strings.Join(vals, ","))
}

// ---------------------------------------------------------------- reference model

type c04Row struct {
	g int64
	v string
}

// c04Model is the reference database: table name -> rows by id. Every table has the
// shape (id INTEGER PRIMARY KEY, g INTEGER NOT NULL, v TEXT NOT NULL).
type c04Model map[string]map[int64]c04Row

func c04CreateSQL(name string) string {
	return "CREATE TABLE " + name + "(id INTEGER PRIMARY KEY, g INTEGER NOT NULL, v TEXT NOT NULL)"
}

func (m c04Model) clone() c04Model {
	c := c04Model{}
	for t, rows := range m {
		cr := make(map[int64]c04Row, len(rows))
		for k, v := range rows {
			cr[k] = v
		}
		c[t] = cr
	}
	return c
}

// c04Dump is the canonical text of a database and a short summary of it.
type c04Dump struct {
	hash    string
	summary string
}

func (d c04Dump) String() string { return d.summary + "#" + d.hash[:10] }

func c04Digest(tables []string, sqls map[string]string, rows map[string][]string) c04Dump {
	h := sha256.New()
	var sum []string
	for _, t := range tables {
		fmt.Fprintf(h, "T %s %s\n", t, sqls[t])
		for _, r := range rows[t] {
			io.WriteString(h, r)
			io.WriteString(h, "\n")
		}
		first, last := "", ""
		if n := len(rows[t]); n > 0 {
			first = rows[t][0][:strings.IndexByte(rows[t][0], '|')]
			last = rows[t][n-1][:strings.IndexByte(rows[t][n-1], '|')]
		}
		sum = append(sum, fmt.Sprintf("%s:%d[%s..%s]", t, len(rows[t]), first, last))
	}
	return c04Dump{hash: hex.EncodeToString(h.Sum(nil)), summary: strings.Join(sum, ",")}
}

func (m c04Model) dump() c04Dump {
	var tables []string
	sqls := map[string]string{}
	rows := map[string][]string{}
	for t, rs := range m {
		tables = append(tables, t)
		sqls[t] = c04CreateSQL(t)
		ids := make([]int64, 0, len(rs))
		for id := range rs {
			ids = append(ids, id)
		}
		sort.Slice(ids, func(i, j int) bool { return ids[i] < ids[j] })
		for _, id := range ids {
			rows[t] = append(rows[t], fmt.Sprintf("%d|%d|%s", id, rs[id].g, rs[id].v))
		}
	}
	sort.Strings(tables)
	return c04Digest(tables, sqls, rows)
}

type c04Queryer func(q string) ([]*proto.QueryRows, error)

func c04ParamText(p *proto.Parameter) string {
	switch v := p.GetValue().(type) {
	case *proto.Parameter_I:
		return strconv.FormatInt(v.I, 10)
	case *proto.Parameter_S:
		return v.S
	case *proto.Parameter_D:
		return strconv.FormatFloat(v.D, 'g', -1, 64)
	case *proto.Parameter_B:
		return strconv.FormatBool(v.B)
	case *proto.Parameter_Y:
		return "x" + hex.EncodeToString(v.Y)
	case nil:
		return "NULL"
	}
	return fmt.Sprint(p.GetValue())
}

// c04DumpDB reads the logical content of a real database through q.
func c04DumpDB(q c04Queryer) (c04Dump, error) {
	one := func(stmt string) (*proto.QueryRows, error) {
		r, err := q(stmt)
		if err != nil {
			return nil, err
		}
		if len(r) != 1 {
			return nil, fmt.Errorf("%d results for %q", len(r), stmt)
		}
		if r[0].GetError() != "" {
			return nil, errors.New(r[0].GetError())
		}
		return r[0], nil
	}
	mr, err := one("SELECT name, sql FROM sqlite_master WHERE type='table' ORDER BY name")
	if err != nil {
		return c04Dump{}, err
	}
	var tables []string
	sqls := map[string]string{}
	rows := map[string][]string{}
	for _, v := range mr.GetValues() {
		p := v.GetParameters()
		name := c04ParamText(p[0])
		tables = append(tables, name)
		sqls[name] = c04ParamText(p[1])
	}
	for _, t := range tables {
		tr, err := one(`SELECT * FROM "` + t + `" ORDER BY 1`)
		if err != nil {
			return c04Dump{}, fmt.Errorf("table %s: %w", t, err)
		}
		for _, v := range tr.GetValues() {
			var cols []string
			for _, p := range v.GetParameters() {
				cols = append(cols, c04ParamText(p))
			}
			rows[t] = append(rows[t], strings.Join(cols, "|"))
		}
	}
	return c04Digest(tables, sqls, rows), nil
}

// c04DumpFile opens a SQLite file (a scratch copy: it is opened in DELETE mode) and dumps it.
func c04DumpFile(path string) (c04Dump, error) {
	d, err := sql.Open(path, false, false)
	if err != nil {
		return c04Dump{}, fmt.Errorf("open: %w", err)
	}
	defer d.Close()
	ir, err := d.QueryStringStmt("PRAGMA integrity_check")
	if err != nil {
		return c04Dump{}, fmt.Errorf("integrity_check: %w", err)
	}
	if len(ir) != 1 || ir[0].GetError() != "" {
		return c04Dump{}, fmt.Errorf("integrity_check: %s", ir[0].GetError())
	}
	if vs := ir[0].GetValues(); len(vs) != 1 || c04ParamText(vs[0].GetParameters()[0]) != "ok" {
		return c04Dump{}, fmt.Errorf("integrity_check reports %d problems, first: %s", len(vs), c04ParamText(vs[0].GetParameters()[0]))
	}
	return c04DumpDB(d.QueryStringStmt)
}

// ---------------------------------------------------------------- load/boot files

type c04File struct {
	data  []byte
	model c04Model
}

var (
	c04FilesOnce sync.Once
	c04Files     [2]c04File
)

// c04LoadFiles builds the two SQLite files used by load and boot (alternately): file 0
// has a page-heavy t and a small table ua, file 1 a small t and a page-heavy ub.
func c04LoadFiles(t *testing.T) [2]c04File {
	c04FilesOnce.Do(func() {
		dir := kit.Scratch(t)
		specs := []c04Model{
			{"t": {}, "ua": {}, "p": c04PTable(100, "q")},
			{"t": {}, "ub": {}, "p": c04PTable(200, "r")},
		}
		for i := int64(0); i < 24; i++ {
			specs[0]["t"][1001+i] = c04Row{g: 7, v: strings.Repeat("A", 1000) + strconv.FormatInt(i, 10)}
		}
		for i := int64(1); i <= 3; i++ {
			specs[0]["ua"][i] = c04Row{g: i, v: "ua" + strconv.FormatInt(i, 10)}
		}
		for i := int64(0); i < 2; i++ {
			specs[1]["t"][2001+i] = c04Row{g: 9, v: "b" + strconv.FormatInt(i, 10)}
		}
		for i := int64(1); i <= 30; i++ {
			specs[1]["ub"][i] = c04Row{g: i, v: strings.Repeat("B", 1000) + strconv.FormatInt(i, 10)}
		}
		for k, m := range specs {
			p := filepath.Join(dir, fmt.Sprintf("load%d.db", k))
			d, err := sql.Open(p, false, false)
			if err != nil {
				t.Fatalf("c04: cannot create load file: %v", err)
			}
			var names []string
			for n := range m {
				names = append(names, n)
			}
			sort.Strings(names)
			for _, n := range names {
				stmts := []string{c04CreateSQL(n)}
				ids := make([]int64, 0)
				for id := range m[n] {
					ids = append(ids, id)
				}
				sort.Slice(ids, func(i, j int) bool { return ids[i] < ids[j] })
				for _, id := range ids {
					stmts = append(stmts, fmt.Sprintf("INSERT INTO %s(id,g,v) VALUES(%d,%d,'%s')", n, id, m[n][id].g, m[n][id].v))
				}
				for _, st := range stmts {
					rs, err := d.ExecuteStringStmt(st)
					if err != nil || rs[0].GetError() != "" {
						t.Fatalf("c04: building load file: %v %s", err, rs[0].GetError())
					}
				}
			}
			if err := d.Close(); err != nil {
				t.Fatalf("c04: %v", err)
			}
			b, err := os.ReadFile(p)
			if err != nil {
				t.Fatalf("c04: %v", err)
			}
			c04Files[k] = c04File{data: b, model: m}
		}
	})
	return c04Files
}

// ---------------------------------------------------------------- one history on a fresh store

type c04Violation struct {
	key, what string
}

type c04Result struct {
	hist       string
	key        string // canonical state key (before the destructive restart check)
	obs        string // observed outcome of every operation
	steps      int
	violations []c04Violation
}

type c04Exec struct {
	t     *testing.T
	hist  string
	dir   string
	s     *Store
	files [2]c04File

	model  c04Model
	nSmall int
	// uninstalled: a snapshot was persisted but refused at install since the last good one
	uninstalled bool
	nFileOps    int
	nJoins      int
	snapIdx     uint64  // index of the newest snapshot when last looked at
	snapModel   c04Dump // what the newest snapshot must restore to
	haveSnap    bool
	// stale maps the base name of a WAL file that was sitting in the staging directory
	// when a full snapshot was installed (it predates that snapshot and must never be
	// applied on top of it) to the reason the full snapshot was taken.
	stale      map[string]string
	fullReason string // why the next full snapshot is due: "first", "load", "boot"
	obs        []string
	res        *c04Result
	// prop and mech let another property's harness (C06, store part) reuse this executor
	// with its own violation keys
	prop string
	// firstSnapID: used by the replicated-load scenarios (the snapshot taken before the load)
	firstSnapID string
	mech        func() string
	names       map[byte]string
}

func (c *c04Exec) opName(op byte) string {
	if c.names != nil {
		return c.names[op]
	}
	return c04OpName[op]
}

func (c *c04Exec) spell() string {
	if strings.Contains(c.hist, ":") {
		return "directed two-node scenario"
	}
	if c.hist == "" {
		return "(empty)"
	}
	var n []string
	for i := 0; i < len(c.hist); i++ {
		n = append(n, c.opName(c.hist[i]))
	}
	return strings.Join(n, ", ")
}

func (c *c04Exec) violate(mech, symptom, what string) {
	prop := c.prop
	if prop == "" {
		prop = "C04"
	}
	// key = mechanism class x coarse symptom (the rebuilt database cannot be produced /
	// is wrong / the live database is wrong); which of restore, install, restart showed
	// it is in the text
	coarse := symptom
	switch symptom {
	case "restore-fails", "install-fails", "restart-fails", "reap-fails":
		coarse = "rebuild-fails"
	case "restore-wrong", "install-wrong", "restart-wrong":
		coarse = "rebuild-wrong"
	}
	what = symptom + ": " + what
	c.res.violations = append(c.res.violations, c04Violation{
		key:  prop + ":" + mech + ":" + coarse,
		what: fmt.Sprintf("history [%s] (%s): %s", c.hist, c.spell(), what),
	})
}

func c04Must(hist, what string, err error) {
	if err != nil {
		panic(fmt.Sprintf("c04 harness: history %q: %s: %v", hist, what, err))
	}
}

func c04NewStore(dir string) *Store {
	cfg := NewDBConfig()
	lw := &c04LogWriter{}
	s := New(&Config{DBConf: cfg, Dir: dir, ID: "c04", Logger: log.New(lw, "[store] ", log.LstdFlags)}, mustMockLayer("localhost:0"))
	c04LogWriters.Store(s, lw)
	s.NoSnapshotOnClose = true
	s.SnapshotReapThreshold = 1 << 20 // no background reaping: reap is an explicit operation
	s.RaftLogLevel = "ERROR"
	s.HeartbeatTimeout = 150 * time.Millisecond
	s.ElectionTimeout = 150 * time.Millisecond
	s.LeaderLeaseTimeout = 150 * time.Millisecond
	return s
}

// open opens the store. A re-open builds a NEW Store object on the same directory (and a
// new listener), as a restarted process does: nothing of the old object's memory survives.
func (c *c04Exec) open(first bool) error {
	if !first {
		c.s.ly.Close()
		c.s = c04NewStore(c.s.raftDir)
	}
	if err := c.s.Open(); err != nil {
		return err
	}
	if first {
		c04Must(c.hist, "bootstrap", c.s.Bootstrap(NewServer(c.s.ID(), c.s.Addr(), true)))
	}
	_, err := c.s.WaitForLeader(120 * time.Second)
	c04Must(c.hist, "wait for leader", err)
	return nil
}

func (c *c04Exec) exec(stmts ...string) {
	rs, _, err := c.s.Execute(context.Background(), executeRequestFromStrings(stmts, false, len(stmts) > 1))
	c04Must(c.hist, "execute", err)
	for i, r := range rs {
		if r.GetError() != "" || r.GetE().GetError() != "" {
			panic(fmt.Sprintf("c04 harness: history %q: statement %d: %s%s", c.hist, i, r.GetError(), r.GetE().GetError()))
		}
	}
}

func (c *c04Exec) nextID() int64 {
	var mx int64
	for id := range c.model["t"] {
		if id > mx {
			mx = id
		}
	}
	return mx + 1
}

func (c *c04Exec) stagedWALs() []string {
	fs, _ := filepath.Glob(filepath.Join(c.s.walStagingDir, "*.wal"))
	sort.Strings(fs)
	return fs
}

func (c *c04Exec) snapErrClass(err error) string {
	switch {
	case err == nil:
		return "ok"
	case err == ErrNothingNewToSnapshot:
		return "nothing-new"
	case err == ErrNoWALToSnapshot:
		return "no-wal"
	case strings.Contains(err.Error(), "wait until the configuration entry"):
		return "persist-skipped"
	case strings.Contains(err.Error(), "failed to persist snapshot"):
		return "persist-failed"
	}
	return "error(" + err.Error() + ")"
}

// step runs one operation and updates the model.
func (c *c04Exec) step(i int, op byte) {
	s := c.s
	switch op {
	case 'w':
		// the n-th small write updates row (n mod 4)+1 of p, a table with one row per page:
		// consecutive small writes touch different pages, every fifth the same page again;
		// applying one twice or not at all changes the result
		id := int64(c.nSmall%c04PRows) + 1
		c.nSmall++
		c.exec(fmt.Sprintf("UPDATE p SET g=g+1 WHERE id=%d", id))
		r := c.model["p"][id]
		r.g++
		c.model["p"][id] = r
		c.obs = append(c.obs, "w")
	case 'W':
		id := c.nextID()
		var vals []string
		for k := int64(0); k < c04BigRows; k++ {
			vals = append(vals, fmt.Sprintf("(0,'%s')", c04BigValue(id+k)))
		}
		// ids are assigned by SQLite (max+1): applying the command twice adds 30 more rows
		c.exec("UPDATE t SET g=g+1", "INSERT INTO t(g,v) VALUES"+strings.Join(vals, ","))
		for k, r := range c.model["t"] {
			r.g++
			c.model["t"][k] = r
		}
		for k := int64(0); k < c04BigRows; k++ {
			c.model["t"][id+k] = c04Row{0, c04BigValue(id + k)}
		}
		c.obs = append(c.obs, "W")
	case 'S':
		c.obs = append(c.obs, "S="+c.snapErrClass(s.Snapshot(0)))
	case 'K':
		c.nJoins++
		id := fmt.Sprintf("nv%d", c.nJoins)
		c04Must(c.hist, "join", s.Join(joinRequest(id, fmt.Sprintf("127.0.0.1:%d", c.nJoins), false)))
		cls := c.snapErrClass(s.Snapshot(0))
		c04Must(c.hist, "remove", s.Remove(context.Background(), removeNodeRequest(id)))
		c.obs = append(c.obs, "K="+cls)
	case 'F':
		c.obs = append(c.obs, "F="+c04SnapshotPersistFails(c.hist, s, c.snapErrClass))
	case 'G':
		out := c04SnapshotNotInstalled(c.hist, s, c.snapErrClass)
		if out == "persisted-not-installed" {
			c.uninstalled = true
		}
		c.obs = append(c.obs, "G="+out)
	case 'L':
		f := c.files[c.nFileOps%2]
		c.nFileOps++
		err := s.Load(context.Background(), &proto.LoadRequest{Data: f.data})
		c.fullReason = "load"
		c.fileOpDone('L', i, err, f)
	case 'B':
		f := c.files[c.nFileOps%2]
		c.nFileOps++
		_, err := s.ReadFrom(bytes.NewReader(f.data))
		c.fullReason = "boot"
		c.fileOpDone('B', i, err, f)
	case 'R':
		n, w, err := c04Reap(s.Reap)
		if err != nil {
			c.violate(c.mechanism(), "reap-fails", fmt.Sprintf("operation %d: reaping the snapshot store fails: %v", i, err))
			c.obs = append(c.obs, "R=error")
			panic(c04Stop{})
		}
		c.obs = append(c.obs, fmt.Sprintf("R=%d/%d", n, w))
	case 'X':
		want := s.fsmIdx.Load()
		c04Must(c.hist, "close", s.Close(true))
		if err := c.open(false); err != nil {
			c.violate(c.mechanism(), "restart-fails", fmt.Sprintf("operation %d: re-opening the store fails: %v", i, err))
			c.obs = append(c.obs, "X=open-error")
			panic(c04Stop{})
		}
		c.waitApplied(want)
		c.obs = append(c.obs, "X")
	}
}

type c04Stop struct{}

// c04PersistBreaker makes the Persist of ONE incremental snapshot fail before the staged
// WAL is consumed, through the sink's own Write path: it wraps the store's Checkpointer
// (passing everything through) and, right after the checkpoint of an incremental snapshot
// succeeded (the WAL is staged by then), raises the snapshot store's full-needed
// requirement - which is what happens when the FSM applies a load while a snapshot is
// being persisted. The sink then refuses the incremental header ("full snapshot needed
// before incremental can be applied"), Persist returns that error, raft cancels the sink.
type c04PersistBreaker struct {
	inner Checkpointer
	s     *Store
	fired atomic.Bool
}

func (b *c04PersistBreaker) Checkpoint(w io.Writer, timeout time.Duration) (*sql.CheckpointManagerMeta, int64, error) {
	meta, n, err := b.inner.Checkpoint(w, timeout)
	if w != nil && err == nil && b.fired.CompareAndSwap(false, true) {
		if serr := b.s.snapshotStore.SetDueNext(snapshot.Full); serr != nil {
			panic(fmt.Sprintf("c04 harness: cannot raise full-needed: %v", serr))
		}
	}
	return meta, n, err
}

// c04LogWriter is the output of a harness store's own logger: chatter is dropped, lines
// announcing a process exit are kept, and a hook may watch the lines (operation G).
type c04LogWriter struct {
	hook atomic.Pointer[func(line []byte)]
}

func (w *c04LogWriter) Write(p []byte) (int, error) {
	if h := w.hook.Load(); h != nil {
		(*h)(p)
	}
	return c04FatalOnly{}.Write(p)
}

var c04LogWriters sync.Map // *Store -> *c04LogWriter

// c04SnapshotNotInstalled is operation G: a snapshot whose Persist SUCCEEDS but which is
// not installed in the snapshot store: the sink refuses it when raft closes it. The
// full-needed requirement is raised after the sink accepted the incremental header and
// before raft closes the sink - at the moment FSMSnapshot.Persist reports its success to the
// store's logger (the only harness-reachable point between the two; incremental snapshots
// are logged at level INFO, which is switched on for this one snapshot). Since fix 0c97859
// the sink re-checks the requirement in Close and refuses. Afterwards the requirement is
// withdrawn, so what remains is: Persist returned nil, raft's sink.Close failed, Release
// ran with (invoked, succeeded). Verified: the snapshot store's newest index is unchanged
// and the staged WAL is still there.
func c04SnapshotNotInstalled(hist string, s *Store, classify func(error) string) string {
	v, ok := c04LogWriters.Load(s)
	if !ok {
		panic("c04 harness: store has no hookable logger")
	}
	lw := v.(*c04LogWriter)
	staged := func() int {
		fs, _ := filepath.Glob(filepath.Join(s.walStagingDir, "*.wal"))
		return len(fs)
	}
	newest := func() uint64 {
		li, _, err := snapshot.LatestIndexTerm(s.snapshotDir)
		if err != nil {
			return 0
		}
		return li
	}
	before, prevIdx := staged(), newest()
	var fired atomic.Bool
	hook := func(line []byte) {
		if bytes.Contains(line, []byte("persisted incremental snapshot")) && fired.CompareAndSwap(false, true) {
			if err := s.snapshotStore.SetDueNext(snapshot.Full); err != nil {
				panic(fmt.Sprintf("c04 harness: cannot raise full-needed: %v", err))
			}
		}
	}
	oldLevel := s.RaftLogLevel
	s.RaftLogLevel = "INFO"
	lw.hook.Store(&hook)
	err := s.Snapshot(0)
	lw.hook.Store(nil)
	s.RaftLogLevel = oldLevel
	cls := classify(err)
	if !fired.Load() {
		// no incremental snapshot got as far as a successful Persist (a full snapshot was due,
		// nothing to snapshot, persist skipped): G is an ordinary snapshot attempt
		return cls + "(no-incremental-persist)"
	}
	c04Must(hist, "withdraw full-needed", s.snapshotStore.SetDueNext(snapshot.Incremental))
	if err == nil || !strings.Contains(err.Error(), "failed to close snapshot") || newest() != prevIdx || staged() != before+1 {
		panic(fmt.Sprintf("c04 harness: history %q: the snapshot was meant to be persisted but refused at Close; it returned %v, the newest snapshot index went from %d to %d and the staging directory from %d to %d WAL files", hist, err, prevIdx, newest(), before, staged()))
	}
	return "persisted-not-installed"
}

// c04SnapshotPersistFails is operation F: a snapshot whose Persist fails before the staged
// WAL is consumed. The requirement raised by the breaker is withdrawn again afterwards, so
// the only thing that remains of the injection is the failed Persist. It is checked that
// the persist really failed and that exactly one more WAL is staged; when the snapshot
// the store takes here is not an incremental one (a full snapshot is due, nothing to
// snapshot) there is no incremental persist to fail and F is an ordinary snapshot.
func c04SnapshotPersistFails(hist string, s *Store, classify func(error) string) string {
	staged := func() int {
		fs, _ := filepath.Glob(filepath.Join(s.walStagingDir, "*.wal"))
		return len(fs)
	}
	before := staged()
	br := &c04PersistBreaker{inner: s.checkpointer, s: s}
	s.checkpointer = br
	err := s.Snapshot(0)
	s.checkpointer = br.inner
	cls := classify(err)
	if !br.fired.Load() {
		return cls + "(no-incremental-persist)"
	}
	c04Must(hist, "withdraw full-needed", s.snapshotStore.SetDueNext(snapshot.Incremental))
	if err != nil && strings.Contains(err.Error(), "wait until the configuration entry") && staged() == before+1 {
		// raft did not even invoke Persist (a configuration entry is ahead of the FSM): the
		// WAL is retained all the same, by the other route
		return cls + "(persist-not-invoked)"
	}
	if err == nil || !strings.Contains(err.Error(), "failed to persist snapshot") || staged() != before+1 {
		panic(fmt.Sprintf("c04 harness: history %q: the persist was meant to fail with the WAL retained, but the snapshot returned %v and the staging directory went from %d to %d WAL files", hist, err, before, staged()))
	}
	return cls
}

// c04DumpKey appends "history, key, outcomes" to the file named by VERIF_DUMPKEYS (for
// comparing two runs while developing the harness).
func c04DumpKey(res *c04Result) {
	if p := os.Getenv("VERIF_DUMPKEYS"); p != "" {
		if f, err := os.OpenFile(p, os.O_APPEND|os.O_CREATE|os.O_WRONLY, 0644); err == nil {
			fmt.Fprintf(f, "%s\t%s\t%s\n", res.hist, res.key, res.obs)
			f.Close()
		}
	}
}

// c04FatalOnly is the output of the standard logger during a run: the stores' chatter is
// dropped, a line announcing a process exit is kept (it explains a run that ends abruptly).
type c04FatalOnly struct{}

func (c04FatalOnly) Write(p []byte) (int, error) {
	if bytes.Contains(p, []byte("exiting process")) || bytes.Contains(p, []byte("atal")) || bytes.Contains(p, []byte("Aborting")) {
		os.Stderr.Write(p)
	}
	return len(p), nil
}

// fileOpDone updates the model after a load or boot. When the operation reports an error
// the statement does not say whether the database was replaced: both are allowed, the
// model follows what the live database shows.
func (c *c04Exec) fileOpDone(op byte, i int, err error, f c04File) {
	if err == nil {
		c.model = f.model.clone()
		c.obs = append(c.obs, string(op))
		return
	}
	c.obs = append(c.obs, fmt.Sprintf("%c=error(%v)", op, err))
	ld, derr := c.liveDump()
	if derr == nil && ld.hash == f.model.dump().hash {
		c.model = f.model.clone()
	}
}

// waitApplied waits until the FSM has (re-)applied everything up to index want. The bound
// is generous: replay takes milliseconds; what it distinguishes is "never".
func (c *c04Exec) waitApplied(want uint64) bool {
	dl := time.Now().Add(120 * time.Second)
	for time.Now().Before(dl) {
		if c.s.fsmIdx.Load() >= want && c.s.raft.AppliedIndex() >= c.s.raft.LastIndex() && c.s.raft.State() == raft.Leader {
			return true
		}
		time.Sleep(2 * time.Millisecond)
	}
	return false
}

func (c *c04Exec) liveDump() (c04Dump, error) { return c04DumpDB(c.s.db.QueryStringStmt) }

// afterOp checks the live database against the model and keeps the bookkeeping of
// snapshots and stale WAL files.
func (c *c04Exec) afterOp(i int, op byte, stagedBefore []string) {
	ld, err := c.liveDump()
	md := c.model.dump()
	if err != nil {
		c.violate(c.mechanism(), "live-database-unreadable", fmt.Sprintf("after operation %d (%s) the live database cannot be read: %v", i, c.opName(op), err))
		panic(c04Stop{})
	}
	if ld.hash != md.hash {
		c.violate(c.mechanism(), "live-database-wrong", fmt.Sprintf("after operation %d (%s) the live database is %s, the writes applied make %s", i, c.opName(op), ld, md))
		panic(c04Stop{})
	}
	metas, err := c.s.snapshotStore.(*snapshot.Store).ListAll()
	c04Must(c.hist, "list snapshots", err)
	if len(metas) == 0 {
		return
	}
	if op == 'R' && c.haveSnap {
		// reaping consolidates: whatever index the consolidated snapshot carries, its content
		// has to stay the content of the newest snapshot before the reap
		c.snapIdx = metas[0].Index
	} else if !c.haveSnap || metas[0].Index != c.snapIdx {
		// a new snapshot: it was taken by this operation, of the state the model has now
		c.haveSnap, c.snapIdx, c.snapModel = true, metas[0].Index, md
		c.uninstalled = false
		if c04Exists(filepath.Join(c.s.snapshotDir, metas[0].ID, "data.db")) {
			// a full snapshot: whatever was staged before it was taken predates it
			for _, w := range stagedBefore {
				if c04Exists(w) {
					c.stale[filepath.Base(w)] = c.fullReason
				}
			}
			c.fullReason = "other"
		}
	}
}

func c04Exists(p string) bool { _, err := os.Stat(p); return err == nil }

// mechanism names the class of a failure from what the snapshot store holds: if the
// newest snapshot resolves to a WAL file that predates its full snapshot, that is it.
func (c *c04Exec) mechanism() string {
	if c.mech != nil {
		return c.mech()
	}
	set, err := (&snapshot.SnapshotCatalog{}).Scan(c.s.snapshotDir)
	if err != nil {
		return "snapshot-store-unreadable"
	}
	newest, ok := set.Newest()
	if !ok {
		return "no-snapshot"
	}
	_ = newest
	ids := set.IDs()
	_, wals, err := set.ResolveFiles(ids[len(ids)-1])
	if err != nil {
		return "snapshot-chain-unresolvable"
	}
	for _, w := range wals {
		if why, ok := c.stale[filepath.Base(w.Path)]; ok {
			return "stale-staged-wal-after-" + why
		}
	}
	for _, w := range c.stagedWALs() {
		if why, ok := c.stale[filepath.Base(w)]; ok {
			return "stale-staged-wal-after-" + why + "-still-staged"
		}
	}
	if c.uninstalled {
		return "after-persisted-but-not-installed-snapshot"
	}
	// otherwise: the shape of the chain the newest snapshot resolves to
	_, newer := set.PartitionAtFull()
	cnt := func(n int) string {
		if n >= 2 {
			return "2+"
		}
		return strconv.Itoa(n)
	}
	return fmt.Sprintf("chain-of-%s-incrementals-%s-wals", cnt(newer.Len()), cnt(len(wals)))
}

// walShape is the frame structure of a WAL file: page number and commit flag per frame.
func c04WALShape(path string) string {
	b, err := os.ReadFile(path)
	if err != nil || len(b) < 32 {
		return fmt.Sprintf("short(%d)", len(b))
	}
	ps := int(uint32(b[8])<<24 | uint32(b[9])<<16 | uint32(b[10])<<8 | uint32(b[11]))
	var sb strings.Builder
	for off := 32; off+24+ps <= len(b); off += 24 + ps {
		pg := uint32(b[off])<<24 | uint32(b[off+1])<<16 | uint32(b[off+2])<<8 | uint32(b[off+3])
		cm := uint32(b[off+4])<<24 | uint32(b[off+5])<<16 | uint32(b[off+6])<<8 | uint32(b[off+7])
		fmt.Fprintf(&sb, "%d", pg)
		if cm != 0 {
			fmt.Fprintf(&sb, "c%d", cm)
		}
		sb.WriteByte(' ')
	}
	return sb.String()
}

// key is the canonical state key (see the file comment).
func (c *c04Exec) key() string {
	s := c.s
	var parts []string
	set, err := (&snapshot.SnapshotCatalog{}).Scan(s.snapshotDir)
	c04Must(c.hist, "scan snapshots", err)
	var sn []string
	for _, id := range set.IDs() {
		d := filepath.Join(s.snapshotDir, id)
		w, _ := filepath.Glob(filepath.Join(d, "*.wal"))
		k := "I"
		if c04Exists(filepath.Join(d, "data.db")) {
			k = "F"
		}
		sn = append(sn, fmt.Sprintf("%s%d", k, len(w)))
	}
	parts = append(parts, "snaps="+strings.Join(sn, ","))
	if c04Exists(s.walStagingDir) {
		var sh []string
		for _, w := range c.stagedWALs() {
			st := ""
			if _, ok := c.stale[filepath.Base(w)]; ok {
				st = "!"
			}
			sh = append(sh, st+c04HashShort(c04WALShape(w)))
		}
		parts = append(parts, fmt.Sprintf("staged=%d[%s]", len(sh), strings.Join(sh, ",")))
	} else {
		parts = append(parts, "staged=-")
	}
	parts = append(parts, fmt.Sprintf("fullneeded=%t", c04Exists(filepath.Join(s.snapshotDir, "FULL_NEEDED"))))
	wst, _ := os.Stat(s.walPath)
	parts = append(parts, fmt.Sprintf("waldata=%t", wst != nil && wst.Size() > 0))
	// the store remembers the database file's mtime of the last snapshot attempt in memory
	// only; whether it has one decides what a later file swap looks like to it
	parts = append(parts, fmt.Sprintf("dbmodified=%t/%t", s.dbModified(), s.dbModifiedTime.IsZero()))
	cf := s.raft.GetConfiguration()
	c04Must(c.hist, "configuration", cf.Error())
	first, _ := s.raftLog.FirstIndex()
	last, _ := s.raftLog.LastIndex()
	// index of the newest configuration entry: in the log, or recorded by the newest snapshot
	var cfgIdx uint64
	for i := last; i >= first && first != 0; i-- {
		var l raft.Log
		if err := s.raftLog.GetLog(i, &l); err == nil && l.Type == raft.LogConfiguration {
			cfgIdx = i
			break
		}
	}
	if metas, err := s.snapshotStore.List(); err == nil && len(metas) > 0 && metas[0].ConfigurationIndex > cfgIdx {
		cfgIdx = metas[0].ConfigurationIndex
	}
	parts = append(parts, fmt.Sprintf("cfgahead=%t", cfgIdx > s.fsmIdx.Load()))
	parts = append(parts, fmt.Sprintf("servers=%d", len(cf.Configuration().Servers)))
	// the clean-snapshot marker as start-up will judge it: absent, or vouching / not
	// vouching for the database file as it is now (modification time and size)
	clean := "absent"
	if c04Exists(s.cleanSnapshotPath) {
		clean = "unreadable"
		fp := &FileFingerprint{}
		if err := fp.ReadFromFile(s.cleanSnapshotPath); err == nil {
			clean = "stale"
			if st, err := os.Stat(s.dbPath); err == nil && st.ModTime().Equal(fp.ModTime) && st.Size() == fp.Size {
				clean = "matches-file"
			}
		}
	}
	parts = append(parts, "clean="+clean)
	// command entries after the newest snapshot
	ncmd := 0
	from := c.snapIdx + 1
	if !c.haveSnap {
		from = 1
	}
	if first > from {
		from = first
	}
	for i := from; i <= last && first != 0; i++ {
		var l raft.Log
		if err := s.raftLog.GetLog(i, &l); err == nil && l.Type == raft.LogCommand {
			ncmd++
		}
	}
	parts = append(parts, fmt.Sprintf("cmdsafter=%d", ncmd))
	parts = append(parts, "live="+c.model.dump().hash[:16])
	if c.haveSnap {
		parts = append(parts, "snap="+c.snapModel.hash[:16])
	}
	parts = append(parts, fmt.Sprintf("fileops=%d smallwrites=%d", c.nFileOps%2, c.nSmall%c04PRows))
	return strings.Join(parts, " ")
}

func c04HashShort(s string) string {
	h := sha256.Sum256([]byte(s))
	return hex.EncodeToString(h[:4])
}

// checkRestore is the non-destructive part of the oracle: restore the newest snapshot
// directly and through a second snapshot store.
func (c *c04Exec) checkRestore() {
	if !c.haveSnap {
		return
	}
	s := c.s
	metas, err := s.snapshotStore.List()
	c04Must(c.hist, "list", err)
	id := metas[0].ID
	scratch := filepath.Join(c.dir, "oracle")
	c04Must(c.hist, "mkdir", os.MkdirAll(scratch, 0755))

	restore := func(str *snapshot.Store, id, name string) (c04Dump, string, error) {
		_, rc, err := str.Open(id)
		if err != nil {
			return c04Dump{}, "open", err
		}
		dst := filepath.Join(scratch, name)
		os.MkdirAll(dst, 0755)
		p := filepath.Join(dst, "restored.db")
		_, err = snapshot.Restore(rc, p)
		rc.Close()
		if err != nil {
			return c04Dump{}, "restore", err
		}
		d, err := c04DumpFile(p)
		if err != nil {
			return c04Dump{}, "read", err
		}
		return d, "", nil
	}

	d, phase, err := restore(s.snapshotStore.(*snapshot.Store), id, "direct")
	if err != nil {
		c.violate(c.mechanism(), "restore-fails", fmt.Sprintf("restoring the newest snapshot %s (index %d) fails in %s: %v", id, metas[0].Index, phase, err))
	} else if d.hash != c.snapModel.hash {
		c.violate(c.mechanism(), "restore-wrong", fmt.Sprintf("the newest snapshot %s (index %d) restores to %s, the database at that index was %s", id, metas[0].Index, d, c.snapModel))
	}

	// install: what a follower does with the stream
	str2, err := snapshot.NewStore(filepath.Join(scratch, "follower-snapshots"))
	c04Must(c.hist, "second snapshot store", err)
	defer str2.Close()
	meta, rc, err := s.snapshotStore.Open(id)
	if err != nil {
		if len(c.res.violations) == 0 {
			c.violate(c.mechanism(), "install-fails", fmt.Sprintf("opening the newest snapshot %s for transfer fails: %v", id, err))
		}
		return
	}
	sink, err := str2.Create(meta.Version, meta.Index, meta.Term, meta.Configuration, meta.ConfigurationIndex, nil)
	c04Must(c.hist, "create sink", err)
	_, err = io.Copy(sink, rc)
	rc.Close()
	if err == nil {
		err = sink.Close()
	} else {
		sink.Cancel()
	}
	if err != nil {
		c.violate(c.mechanism(), "install-fails", fmt.Sprintf("writing the newest snapshot %s through a follower's sink fails: %v", id, err))
		return
	}
	d2, phase, err := restore(str2, sink.ID(), "installed")
	if err != nil {
		c.violate(c.mechanism(), "install-fails", fmt.Sprintf("restoring the installed copy of snapshot %s fails in %s: %v", id, phase, err))
	} else if d2.hash != c.snapModel.hash {
		c.violate(c.mechanism(), "install-wrong", fmt.Sprintf("the installed copy of snapshot %s restores to %s, the database at that index was %s", id, d2, c.snapModel))
	}
}

// checkRestart is the destructive part: forced restore from the snapshot store + log replay
// by the real start-up.
func (c *c04Exec) checkRestart() {
	before, err := c.liveDump()
	c04Must(c.hist, "live dump", err)
	want := c.s.fsmIdx.Load()
	mech := c.mechanism()
	c04Must(c.hist, "close", c.s.Close(true))
	c04Must(c.hist, "force restore", c.s.ForceSnapshotRestore())
	if err := c.open(false); err != nil {
		c.violate(mech, "restart-fails", fmt.Sprintf("a restart that restores the newest snapshot and replays the log fails to open: %v", err))
		// release what Open left behind
		s := c.s
		if s.db != nil {
			s.db.Close()
		}
		if s.boltStore != nil {
			s.boltStore.Close()
		}
		if s.snapshotStore != nil {
			s.snapshotStore.Close()
		}
		return
	}
	ok := c.waitApplied(want)
	after, err := c.liveDump()
	if err != nil {
		c.violate(mech, "restart-wrong", fmt.Sprintf("after a restart that restores the newest snapshot and replays the log the database cannot be read: %v", err))
		return
	}
	if after.hash != before.hash {
		c.violate(mech, "restart-wrong", fmt.Sprintf("after a restart that restores the newest snapshot and replays the log the database is %s, before the restart it was %s (log replay finished: %t)", after, before, ok))
	}
}

// c04Run executes one history on a fresh store and evaluates the oracle in its end state.
func c04Run(t *testing.T, hist string) (res *c04Result) {
	res = &c04Result{hist: hist}
	c := &c04Exec{t: t, hist: hist, dir: kit.Scratch(t), files: c04LoadFiles(t), model: c04Model{"t": {}},
		stale: map[string]string{}, fullReason: "first", res: res}
	defer os.RemoveAll(c.dir)
	c.s = c04NewStore(filepath.Join(c.dir, "node"))
	c04Must(hist, "open", c.open(true))
	defer func() {
		c.s.Close(true)
		c.s.ly.Close()
		res.obs = strings.Join(c.obs, " ")
		if p := recover(); p != nil {
			if _, ok := p.(c04Stop); !ok {
				panic(p)
			}
		}
	}()
	c.setup()
	c.afterOp(-1, 'w', nil)
	for i := 0; i < len(hist); i++ {
		staged := c.stagedWALs()
		c.step(i, hist[i])
		res.steps++
		c.afterOp(i, hist[i], staged)
	}
	res.key = c.key()
	c.checkRestore()
	c.checkRestart()
	return res
}

// ---------------------------------------------------------------- search

// c04Directed are longer histories aimed at the anchored mechanisms; every prefix of
// each is a state of its own and gets the full oracle.
var c04Directed = func() []string {
	hs := []string{
		"wSwKLSwS",  // the suspected one: a WAL staged by a skipped persist survives load + full snapshot
		"wSwFLSwS",  // staged by a failed persist
		"wSwKwKwSR", // three WALs in one incremental, then reap
		"wSWFWSRX",  // failed persist, two page-heavy WALs, reap, restart
		"wSwSwSRX",  // chain of incrementals consolidated by reap, restart
		"wSwSRwSX",  // incremental on a reaped (renamed) full snapshot, restart
		"WSLwSRwS",  // load then chain then reap then chain
		"wSwKLXSwS", // load, restart, full
		"wSBwKwSX",  // boot then retained WAL
		"WSWKWLWSWS",
		"SLXwS",    // a load must still force a full snapshot after a restart
		"SwLXwSRX", // the same, followed by reap and restart
		"SLKwS",    // ... and after a full snapshot attempt whose persist was skipped
		"SLFwS",    // ... or failed
		"SwSLFwSwS",
		// a snapshot that was persisted but not installed, then a restart (normal start-up
		// path) before / after the next good snapshot
		"SwGX",
		"SWGXwSX",
		"SwwGwXwSX",
		"SwGwSXwS",
		"SWGGXS",
	}
	// a WAL retained in the staging directory (persist skipped / failed), then everything
	// that may happen before the next successful snapshot, then what follows it
	for _, retain := range []string{"K", "F", "G"} {
		for _, mid := range []string{"", "w", "LS", "B", "X", "R"} {
			for _, tail := range []string{"RX", "wS"} {
				hs = append(hs, "Sw"+retain+mid+"wS"+tail)
			}
		}
	}
	return hs
}()

func c04Prefixes(hs []string) []string {
	seen := map[string]bool{}
	var out []string
	for _, h := range hs {
		for i := 1; i <= len(h); i++ {
			if !seen[h[:i]] {
				seen[h[:i]] = true
				out = append(out, h[:i])
			}
		}
	}
	return out
}

func TestVerif_C04(t *testing.T) {
	r := kit.Start(t, "C04", "hist")
	defer r.Finish()
	log.SetOutput(c04FatalOnly{})
	depth := r.Pick(3, 5)
	workers := 12
	r.Rule(fmt.Sprintf("breadth-first over operation histories of a fresh real single-node Store, alphabet {write, big write, snapshot, snapshot with persist skipped (non-voter joined), snapshot whose persist fails, load, boot, reap, restart}: every history of length <=%d (states with equal canonical keys expanded once) plus every prefix of %d directed longer histories; in every state the newest snapshot is restored directly and through a second snapshot store's sink and the store is restarted with a forced restore + log replay, all compared with the reference model / the live database. distinct = (canonical state key, operation outcomes)", depth, len(c04Directed)))
	r.Assume("single node: a follower's InstallSnapshot is represented by writing the leader's snapshot stream through a second snapshot.Store's sink and restoring from there; a follower that itself holds a staged WAL when it installs needs the multi-node part, which is not built")
	r.Assume("a persist that fails AFTER the staged WAL was consumed makes the sink exit the process (log.Fatalf): that is a crash image, enumerated by C03/C07, not here")

	if rp := kit.Replay(); rp != nil {
		var v struct {
			History string `json:"history"`
		}
		if err := json.Unmarshal(rp, &v); err != nil {
			t.Fatalf("bad replay: %v", err)
		}
		res := c04Run(t, v.History)
		t.Logf("history %q outcomes [%s] key [%s] violations %d", res.hist, res.obs, res.key, len(res.violations))
		r.Eval(1)
		r.State(1)
		r.Transition(res.steps)
		for _, vi := range res.violations {
			r.Violation(vi.key, vi.what, map[string]any{"history": res.hist})
		}
		return
	}

	runAll := func(hs []string) []*c04Result {
		out := make([]*c04Result, len(hs))
		var wg sync.WaitGroup
		sem := make(chan struct{}, workers)
		for i, h := range hs {
			wg.Add(1)
			sem <- struct{}{}
			go func(i int, h string) {
				defer wg.Done()
				defer func() { <-sem }()
				out[i] = c04Run(t, h)
			}(i, h)
		}
		wg.Wait()
		return out
	}
	ran := map[string]bool{}
	nres := 0
	nFFailed, nKSkipped, nGRefused := 0, 0, 0
	record := func(res *c04Result) {
		ran[res.hist] = true
		r.Eval(1)
		r.Transition(res.steps + 1)
		r.Distinct(res.key + " || " + res.obs)
		nFFailed += strings.Count(res.obs, "F=persist-failed")
		nKSkipped += strings.Count(res.obs, "K=persist-skipped")
		nGRefused += strings.Count(res.obs, "G=persisted-not-installed")
		c04DumpKey(res)
		r.SampleEvery(nres, map[string]any{"history": res.hist, "outcomes": res.obs, "state_key": res.key, "violations": len(res.violations)})
		nres++
		for _, vi := range res.violations {
			r.Violation(vi.key, vi.what, map[string]any{"history": res.hist})
		}
	}

	seen := map[string]bool{}
	bad := map[string]bool{}
	frontier := []string{""}
	root := runAll(frontier)[0]
	record(root)
	seen[root.key] = true
	states := 1
	for d := 1; d <= depth; d++ {
		if r.OverBudget() {
			r.Cap("time budget reached before depth %d (all histories of length <=%d are covered)", d, d-1)
			break
		}
		var hs []string
		for _, h := range frontier {
			for i := 0; i < len(c04Alphabet); i++ {
				hs = append(hs, h+string(c04Alphabet[i]))
			}
		}
		results := runAll(hs)
		var next []string
		for _, res := range results {
			record(res)
			if len(res.violations) > 0 {
				bad[res.hist] = true
				continue // a broken state is reported, not expanded
			}
			if !seen[res.key] {
				seen[res.key] = true
				states++
				next = append(next, res.hist)
			}
		}
		r.Note("depth %d: %d histories run, %d new states", d, len(hs), len(next))
		frontier = next
	}
	// directed histories: prefixes by increasing length; the extensions of a state that
	// violated are not run (a broken state is reported, not driven further)
	byLen := map[int][]string{}
	maxLen := 0
	for _, h := range c04Prefixes(c04Directed) {
		byLen[len(h)] = append(byLen[len(h)], h)
		if len(h) > maxLen {
			maxLen = len(h)
		}
	}
	ndir := 0
	for n := 1; n <= maxLen; n++ {
		var dir []string
		for _, h := range byLen[n] {
			if bad[h[:n-1]] {
				bad[h] = true
				continue
			}
			if !ran[h] {
				dir = append(dir, h)
			}
		}
		for _, res := range runAll(dir) {
			record(res)
			ndir++
			if len(res.violations) > 0 {
				bad[res.hist] = true
			} else if !seen[res.key] {
				seen[res.key] = true
				states++
			}
		}
	}
	r.Note("directed: %d further prefixes run", ndir)
	r.Set("persists_failed_by_F", nFFailed)
	r.Set("persists_skipped_by_K", nKSkipped)
	r.Set("installs_refused_by_G", nGRefused)
	if nFFailed == 0 || nKSkipped == 0 || nGRefused == 0 {
		r.Cap("the fault operations did not take effect: F failed %d persists, K had %d persists skipped, G had %d installs refused", nFFailed, nKSkipped, nGRefused)
		t.Fatalf("c04 harness: the fault operations did not take effect: F failed %d persists, K had %d persists skipped, G had %d installs refused", nFFailed, nKSkipped, nGRefused)
	}
	r.State(states)
}

// c04Reap calls the store's explicit Reap. Reap takes the snapshot store's lock without
// waiting and reports "MSRW conflict" when anything holds it at that instant; raft itself
// lists the snapshot store from its own goroutine now and then (a read hold of
// microseconds). Such a refusal is not a failed reap: ask again (the real periodic reaper
// does the same on its next tick).
func c04Reap(reap func() (int, int, error)) (n, w int, err error) {
	for try := 0; try < 50; try++ {
		n, w, err = reap()
		if err == nil || !strings.Contains(err.Error(), "MSRW conflict") {
			return
		}
		time.Sleep(20 * time.Millisecond)
	}
	return
}
