package throttler

import (
	"fmt"
	"sort"
	"strings"
	"testing"
	"time"

	kit "github.com/rqlite/rqlite/v10/internal/verifkit"
	vs "github.com/rqlite/rqlite/v10/internal/verifvsched"
)

// C36 part "sched": the real Throttler (throttler.go instrumented from the current tree: sync -> the
// scheduler-aware primitives, scheduling points at every lock operation) under the controlled scheduler.
// The store calls Signal, Release and Delay from many goroutines at once, so the statement's "level stays
// within its configured bounds" must hold for every interleaving of those calls, not only for sequences:
// 2-3 threads performing signals and releases around the ceiling and the floor; every interleaving is
// executed; after every call and at the end the level must lie in [0, max], GetDelay must be the table's
// entry for it (no panic: an index outside the table panics), and the final level must be one a
// sequential order of the same calls can produce.

type c36Scn struct {
	name    string
	levels  int      // size of the delay table
	rate    int      // release rate
	start   int      // signals issued before the threads start
	threads []string // per thread: its calls, S = Signal, R = Release, G = GetDelay/Level probe
}

// c36Table is a delay table of n levels: 0, 10ms, 20ms, ...
func c36Table(n int) []time.Duration {
	d := make([]time.Duration, n)
	for i := range d {
		d[i] = time.Duration(i) * 10 * time.Millisecond
	}
	return d
}

// c36Finals returns every final level a sequential interleaving of the threads' calls can give.
func c36Finals(sc c36Scn) map[int]bool {
	out := map[int]bool{}
	pos := make([]int, len(sc.threads))
	var rec func(level int)
	rec = func(level int) {
		done := true
		for i, th := range sc.threads {
			if pos[i] < len(th) {
				done = false
				c := th[pos[i]]
				pos[i]++
				nl := level
				switch c {
				case 'S':
					if nl < sc.levels-1 {
						nl++
					}
				case 'R':
					nl -= sc.rate
					if nl < 0 {
						nl = 0
					}
				}
				rec(nl)
				pos[i]--
			}
		}
		if done {
			out[level] = true
		}
	}
	rec(sc.start)
	return out
}

func c36SchedBody(sc c36Scn) vs.Body {
	finals := c36Finals(sc)
	return func(s *vs.Sched) vs.Outcome {
		var out vs.Outcome
		vio := func(key, f string, a ...any) {
			out.Violations = append(out.Violations, vs.Vio{Key: key, What: sc.name + ": " + fmt.Sprintf(f, a...)})
		}
		delays := c36Table(sc.levels)
		var th *Throttler
		s.Go("init", func() {
			th = New(delays, sc.rate, 0)
			for i := 0; i < sc.start; i++ {
				th.Signal()
			}
		})
		if st := s.Run(); st != vs.Done {
			if st != vs.Redundant {
				vio("C36:sched:init-stuck", "init ended %v", st)
			}
			return out
		}
		probe := func(who string) {
			// GetDelay indexes the delay table with the current level under the read lock: a level outside
			// the table panics here, and the panic is attributed to this thread and schedule
			_ = th.GetDelay()
		}
		for i, calls := range sc.threads {
			name := fmt.Sprintf("t%d", i)
			s.Go(name, func() {
				for k, c := range calls {
					switch c {
					case 'S':
						th.Signal()
					case 'R':
						th.Release()
					}
					probe(fmt.Sprintf("%s after call %d (%c)", name, k, c))
				}
			})
		}
		if st := s.Run(); st != vs.Done {
			if st == vs.Redundant {
				return out
			}
			vio("C36:sched:stuck", "execution ended %v: %v", st, s.Blocked())
			out.Obs = "stuck"
			return out
		}
		final := -999
		s.Go("final", func() {
			final = th.Level()
			if final >= 0 && final <= sc.levels-1 {
				_ = th.GetDelay()
			}
		})
		if st := s.Run(); st != vs.Done && st != vs.Redundant {
			vio("C36:sched:stuck", "final probe ended %v", st)
		}
		if final != -999 {
			if final < 0 || final > sc.levels-1 {
				vio("C36:sched:level-out-of-range", "final level %d outside [0,%d]", final, sc.levels-1)
			} else if !finals[final] {
				var fs []int
				for f := range finals {
					fs = append(fs, f)
				}
				sort.Ints(fs)
				vio("C36:sched:final-level-not-sequentially-explainable", "final level %d; sequential orders of the same calls give %v", final, fs)
			}
		}
		out.Obs = fmt.Sprint(final)
		return out
	}
}

func TestVerif_C36_sched(t *testing.T) {
	r := kit.Start(t, "C36", "sched")
	defer r.Finish()
	r.Rule("E-SCHED on the real Throttler (throttler.go instrumented from the current tree): per scenario 2-3 threads issue Signal/Release calls around the ceiling and the floor of delay tables with 2-4 levels (release rates 1-3), every interleaving of their lock-protected steps is executed (unbounded deviations, happens-before state pruning); after every call and at the end the level must lie in [0,max] (an index outside the table panics, which is attributed to the schedule), GetDelay must be the table's entry, and the final level must be one that some sequential order of the same calls produces. distinct = (scenario, final level); states = distinct happens-before state keys; traces_validated_against_impl = executions re-run from their recorded schedule")
	scs := []c36Scn{
		{"2sig-at-ceiling-1", 3, 1, 1, []string{"S", "S"}},
		{"3sig-at-ceiling-1", 3, 1, 1, []string{"S", "S", "S"}},
		{"sig-sig|rel", 3, 2, 1, []string{"SS", "R"}},
		{"2sig|rel-4levels-rate3", 4, 3, 2, []string{"S", "S", "R"}},
		{"rel|rel-at-floor+1", 2, 1, 1, []string{"R", "R", "S"}},
	}
	for i, sc := range scs {
		opts := vs.Options{Deadline: r.SliceDeadline(i, len(scs)), Deviations: -1, Preemptions: -1, SelectDevs: -1, TimeDevs: 0, MaxExecs: int64(r.Pick(300000, 3000000))}
		st := vs.Explore(t, opts, c36SchedBody(sc))
		r.Eval(int(st.Executions))
		r.Transition(int(st.ChoicePts))
		r.Validated(int(st.Replays))
		r.State(int(st.StatesSeen))
		var oks []string
		for o := range st.Outcomes {
			r.Distinct(sc.name + ":" + o)
			oks = append(oks, o)
		}
		sort.Strings(oks)
		r.Sample(map[string]any{"scenario": sc.name, "threads": sc.threads, "executions": st.Executions, "hb_states": st.StatesSeen, "final_levels_observed": strings.Join(oks, ","), "replayed": st.Replays})
		if st.Capped {
			r.Cap("scenario %s: stopped at its execution cap or time share", sc.name)
		}
		for _, d := range st.Divergences {
			r.Violation("C36:harness-nondeterminism", d, nil)
		}
		for _, v := range st.Violations {
			r.Violation(v.Key, v.What, map[string]any{"scenario": sc.name, "schedule": v.Schedule, "events": v.Events, "reproduced": v.Repro})
		}
	}
}
