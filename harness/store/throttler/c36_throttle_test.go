package throttler

import (
	"context"
	"fmt"
	"sort"
	"strings"
	"testing"
	"testing/synctest"
	"time"

	kit "github.com/rqlite/rqlite/v10/internal/verifkit"
)

// C36: every sequence over {signal, release, idle, delay, delay-with-ending-context}
// on a fresh real Throttler inside a synctest bubble (fake clock), next to a
// reference model written from the property statement.

const (
	c36Signal  = 'S' // pressure signal
	c36Release = 'R' // release
	c36Idle    = 'I' // nothing happens for longer than the idle timeout
	c36Delay   = 'D' // a request is delayed, its context stays live
	c36Cancel  = 'C' // a request is delayed, its context ends half-way through the delay
)

var c36Ops = []byte{c36Signal, c36Release, c36Idle, c36Delay, c36Cancel}

// All delay-table entries and context deadlines are whole milliseconds and the
// idle timeout has a half millisecond, so no request ever ends at the very
// instant the idle timer fires (the order of two events at one fake instant
// is not part of the property).
const c36IdleTimeout = 1000*time.Millisecond + 500*time.Microsecond

var c36Tables = [][]time.Duration{
	{0},
	{0, 600 * time.Millisecond},
	{0, 300 * time.Millisecond, 400 * time.Millisecond, 700 * time.Millisecond},
}

// c36Model is the reference: the statement of C36 and nothing else.
type c36Model struct {
	level    int
	max      int
	rate     int
	idle     time.Duration // 0 = no idle timeout
	pending  bool          // an idle deadline is armed
	deadline time.Time
}

func (m *c36Model) tick(now time.Time) { // "returns to zero after the idle timeout"
	if m.pending && now.After(m.deadline) {
		m.level = 0
		m.pending = false
	}
}
func (m *c36Model) activity(now time.Time) {
	if m.idle > 0 {
		m.pending = true
		m.deadline = now.Add(m.idle)
	}
}
func (m *c36Model) signal(now time.Time) { // "raises it by one up to the maximum"
	m.tick(now)
	if m.level < m.max {
		m.level++
	}
	m.activity(now)
}
func (m *c36Model) release(now time.Time) { // "lowers it by the release rate down to zero"
	m.tick(now)
	m.level -= m.rate
	if m.level < 0 {
		m.level = 0
	}
	m.activity(now)
}

type c36Cfg struct {
	Table   int  `json:"delay_table"`
	Rate    int  `json:"release_rate"`
	NoIdle  bool `json:"idle_timeout_disabled"`
	rateArg int
}

type c36Replay struct {
	Cfg c36Cfg `json:"config"`
	Seq string `json:"sequence(S=signal,R=release,I=idle,D=delay,C=delay+context-ends)"`
}

type c36State struct {
	level int
	armed bool
}
type c36DelayObs struct {
	level  int
	op     byte
	waited time.Duration
	err    bool
}
type c36Seen struct {
	states map[c36State]struct{}
	delays map[c36DelayObs]struct{}
	steps  int
}

// c36Run replays seq on a fresh real throttler inside the current bubble and
// checks every step; canonical states (level, idle deadline armed) go to seen.
func c36Run(r *kit.Run, cfg c36Cfg, seq []byte, seen *c36Seen) {
	table := c36Tables[cfg.Table]
	idle := c36IdleTimeout
	if cfg.NoIdle {
		idle = 0
	}
	th := New(table, cfg.rateArg, idle)
	m := &c36Model{max: len(table) - 1, rate: cfg.Rate, idle: idle}
	rep := c36Replay{cfg, string(seq)}
	class := func(op byte) string {
		return map[byte]string{c36Signal: "signal", c36Release: "release", c36Idle: "idle-timeout", c36Delay: "delay", c36Cancel: "delay-context-ends"}[op]
	}
	for i, op := range seq {
		start := time.Now()
		startLevel := m.level
		d := table[startLevel]
		switch op {
		case c36Signal:
			th.Signal()
			m.signal(start)
		case c36Release:
			th.Release()
			m.release(start)
		case c36Idle:
			time.Sleep(c36IdleTimeout + time.Millisecond)
		case c36Delay, c36Cancel:
			ctx, cancel := context.Background(), context.CancelFunc(func() {})
			bound := d
			ctxEnd := time.Duration(-1)
			if op == c36Cancel {
				ctxEnd = d / 2
				if d == 0 {
					ctxEnd = 50 * time.Millisecond
				} else {
					bound = ctxEnd
				}
				ctx, cancel = context.WithTimeout(context.Background(), ctxEnd)
			}
			err := th.Delay(ctx)
			el := time.Since(start)
			cancel()
			// "waits no longer than the current delay and returns early if its context ends"
			if el > d {
				r.Violation("C36:delay-longer-than-current-level:"+class(op), fmt.Sprintf("cfg %+v seq %s step %d: level %d has delay %v, request waited %v", cfg, seq, i, startLevel, d, el), rep)
			} else if el > bound {
				r.Violation("C36:delay-not-ended-by-context", fmt.Sprintf("cfg %+v seq %s step %d: context ended after %v, request waited %v (level delay %v)", cfg, seq, i, ctxEnd, el, d), rep)
			}
			if err != nil && (op == c36Delay || d == 0) {
				r.Violation("C36:delay-error-with-live-context", fmt.Sprintf("cfg %+v seq %s step %d: Delay returned %v although its context had not ended", cfg, seq, i, err), rep)
			}
			seen.delays[c36DelayObs{startLevel, op, el, err != nil}] = struct{}{}
		}
		synctest.Wait() // let a fired idle timer finish its reset
		now := time.Now()
		m.tick(now)
		seen.steps++

		got := th.Level()
		th.mu.RLock()
		raw := th.delayFactor
		th.mu.RUnlock()
		if raw < 0 || raw > len(table)-1 || got != raw {
			r.Violation("C36:level-out-of-range:after-"+class(op), fmt.Sprintf("cfg %+v seq %s step %d: level field %d (Level() %d), range 0..%d", cfg, seq, i, raw, got, len(table)-1), rep)
			return // GetDelay would index out of range
		}
		if got != m.level {
			key := "C36:level-mismatch:after-" + class(op)
			if op == c36Delay || op == c36Cancel || op == c36Idle {
				if m.level == 0 {
					key += ":idle-reset-missing"
				} else {
					key += ":reset-before-idle-timeout"
				}
			}
			r.Violation(key, fmt.Sprintf("cfg %+v seq %s step %d (%s): real level %d, reference %d", cfg, seq, i, class(op), got, m.level), rep)
			return
		}
		if gd := th.GetDelay(); gd != table[got] {
			r.Violation("C36:delay-value-mismatch", fmt.Sprintf("cfg %+v seq %s step %d: GetDelay %v, table[%d]=%v", cfg, seq, i, gd, got, table[got]), rep)
		}
		seen.states[c36State{m.level, m.pending}] = struct{}{}
	}
	// at the end of the sequence: a raised level with an idle timeout configured
	// needs an armed idle timer, or it would never return to zero. (Whether the
	// timer is armed at level 0 is unobservable and not demanded.)
	if m.level > 0 && idle > 0 {
		if th.timer == nil || !th.timer.Stop() {
			r.Violation("C36:idle-timer-not-armed-at-raised-level", fmt.Sprintf("cfg %+v seq %s: level %d but no idle timer is pending", cfg, seq, m.level), rep)
		}
	}
}

func TestVerif_C36(t *testing.T) {
	r := kit.Start(t, "C36", "seq")
	defer r.Finish()
	maxLen := r.Pick(6, 8)
	r.Rule(fmt.Sprintf("all sequences of length <=%d over {signal, release, idle (sleep past the idle timeout), delay with a live context, delay whose context ends half-way} x delay tables of 1, 2 and 4 levels x release rate {1,2,3} (plus rate 0, documented to mean 1) x idle timeout {1000.5ms, disabled}; each sequence is replayed on a fresh real Throttler inside a testing/synctest bubble (fake clock, exact times) next to a reference model of the statement; after every step the real level (field and Level()), its range, and GetDelay are compared; every delay is timed with the fake clock; at the end a raised level must have a pending idle timer. states = distinct (config, level, idle timer armed) reached; distinct = states + (level, op, waited, error) delay outcomes", maxLen))

	var cfgs []c36Cfg
	for tb := range c36Tables {
		for _, rate := range []int{1, 2, 3, 0} {
			for _, noIdle := range []bool{false, true} {
				c := c36Cfg{Table: tb, Rate: rate, NoIdle: noIdle, rateArg: rate}
				if rate == 0 {
					c.Rate = 1 // New: "releaseRate < 1" is treated as 1
					if noIdle || tb != 2 {
						continue
					}
				}
				cfgs = append(cfgs, c)
			}
		}
	}
	states := 0
	for _, cfg := range cfgs {
		if r.OverBudget() {
			r.Cap("stopped before config %+v", cfg)
			break
		}
		seen := &c36Seen{states: map[c36State]struct{}{}, delays: map[c36DelayObs]struct{}{}}
		nseq := 0
		synctest.Test(t, func(t *testing.T) {
			seq := make([]byte, 0, maxLen)
			var rec func()
			rec = func() {
				if len(seq) > 0 {
					// state = the sequence; successor = replay of the prefix + 1 op on a fresh throttler
					c36Run(r, cfg, seq, seen)
					nseq++
				}
				if len(seq) == maxLen {
					return
				}
				for _, op := range c36Ops {
					seq = append(seq, op)
					rec()
					seq = seq[:len(seq)-1]
				}
			}
			rec()
			// let stale timers of finished throttlers run out before the bubble ends
			time.Sleep(2 * c36IdleTimeout)
			synctest.Wait()
		})
		r.Eval(nseq)
		r.Transition(seen.steps)
		states += len(seen.states)
		var ks []string
		for k := range seen.states {
			ks = append(ks, fmt.Sprintf("L%d/timer-armed=%v", k.level, k.armed))
			r.Distinct(fmt.Sprintf("state|%+v|%+v", cfg, k))
		}
		for k := range seen.delays {
			r.Distinct(fmt.Sprintf("delay|%+v|lvl=%d|op=%c|waited=%v|err=%v", cfg, k.level, k.op, k.waited, k.err))
		}
		sort.Strings(ks)
		r.Sample(map[string]any{"config": cfg, "sequences": nseq, "canonical_states": strings.Join(ks, " "), "distinct_delay_outcomes": len(seen.delays)})
	}
	r.State(states)
	r.Set("configs", len(cfgs))
}
