package store

import (
	"context"
	"fmt"
	"strings"
	"testing"
	"time"

	"github.com/rqlite/rqlite/v10/command/proto"
	"github.com/rqlite/rqlite/v10/internal/random"
	kit "github.com/rqlite/rqlite/v10/internal/verifkit"
)

// C17: no query-endpoint request, and no statement a unified request treats
// as read-only, at any consistency level, changes the database.
//
// One real single-node Store. Every SQL text of the grammar
//
//	text   := first | second | first sep second
//	first  := a statement the classifier calls read-only (SELECT, EXPLAIN, PRAGMA
//	          table_info, WITH..SELECT, VALUES, a SELECT with a ';' inside a comment)
//	second := a statement that changes the database (INSERT, UPDATE, DELETE, REPLACE,
//	          INSERT..RETURNING, CREATE TABLE, CREATE INDEX, ALTER TABLE, DROP TABLE,
//	          PRAGMA user_version=7)
//	sep    := ";" | "; " | ";\n" | " ; -- c\n"
//
// is sent (a) to Store.Query and (b) to Store.Request as a one-statement
// request, at each of NONE, WEAK, STRONG, LINEARIZABLE and AUTO; two-statement
// requests [first, second] go to both as well. Before and after every request
// the database is read back in full (schema, every row of both tables,
// user_version) through a NONE-level query.
//
// Oracle: after a Store.Query request the database is unchanged. After a
// Store.Request request in which no statement was answered with an execute
// result (every statement was treated as a read: rows or an error), the database
// is unchanged. A request with an execute result is a legitimate write and is
// only used to check that the harness's reset works.

type c17Frag struct{ name, sql, kind string }

var c17Firsts = []c17Frag{
	{"select-const", "SELECT 1", ""},
	{"select-table", "SELECT * FROM t", ""},
	{"explain", "EXPLAIN SELECT 1", ""},
	{"pragma-table-info", "PRAGMA table_info(t)", ""},
	{"cte-select", "WITH x(a) AS (SELECT 1) SELECT a FROM x", ""},
	{"values", "VALUES(1)", ""},
	{"select-with-semicolon-in-comment", "SELECT 1 /* ; */", ""},
}

var c17Seconds = []c17Frag{
	{"insert", "INSERT INTO t(v) VALUES('m')", "dml"},
	{"update", "UPDATE t SET v='m' WHERE id=1", "dml"},
	{"delete", "DELETE FROM t WHERE id=1", "dml"},
	{"replace", "REPLACE INTO t(id,v) VALUES(1,'m')", "dml"},
	{"insert-returning", "INSERT INTO t(v) VALUES('m') RETURNING id", "dml"},
	{"create-table", "CREATE TABLE z(a)", "ddl"},
	{"create-index", "CREATE INDEX zi ON t(v)", "ddl"},
	{"alter-table", "ALTER TABLE u ADD COLUMN w", "ddl"},
	{"drop-table", "DROP TABLE u", "ddl"},
	{"pragma-user-version", "PRAGMA user_version=7", "pragma"},
}

var c17Seps = []struct{ name, s string }{{"semi", ";"}, {"semi-space", "; "}, {"semi-newline", ";\n"}, {"semi-comment", " ; -- c\n"}}

var c17Levels = []proto.ConsistencyLevel{proto.ConsistencyLevel_NONE, proto.ConsistencyLevel_WEAK, proto.ConsistencyLevel_STRONG, proto.ConsistencyLevel_LINEARIZABLE, proto.ConsistencyLevel_AUTO}

type c17Case struct {
	shape string   // single-first | single-second | multi-statement-text | two-statements
	stmts []string // statements of the request
	first string
	sec   c17Frag
	sep   string
}

func c17Cases() []c17Case {
	var cs []c17Case
	for _, f := range c17Firsts {
		cs = append(cs, c17Case{shape: "single-first", stmts: []string{f.sql}, first: f.name})
	}
	for _, s := range c17Seconds {
		cs = append(cs, c17Case{shape: "single-second", stmts: []string{s.sql}, sec: s})
	}
	for _, f := range c17Firsts {
		for _, s := range c17Seconds {
			for _, sp := range c17Seps {
				cs = append(cs, c17Case{shape: "multi-statement-text", stmts: []string{f.sql + sp.s + s.sql}, first: f.name, sec: s, sep: sp.name})
			}
			cs = append(cs, c17Case{shape: "two-statements", stmts: []string{f.sql, s.sql}, first: f.name, sec: s})
		}
	}
	return cs
}

var c17Reset = []string{
	"DROP INDEX IF EXISTS zi", "DROP TABLE IF EXISTS z", "DROP TABLE IF EXISTS t", "DROP TABLE IF EXISTS u",
	"CREATE TABLE t(id INTEGER PRIMARY KEY, v TEXT)", "CREATE TABLE u(id INTEGER PRIMARY KEY, v TEXT)",
	"INSERT INTO t(id,v) VALUES(1,'a'),(2,'b')", "INSERT INTO u(id,v) VALUES(1,'c')", "PRAGMA user_version=0",
}

func TestVerif_C17(t *testing.T) {
	r := kit.Start(t, "C17", "reads")
	defer r.Finish()
	r.Rule("every text {first | second | first sep second} over 7 read-only firsts x 10 modifying seconds x 4 separators, plus every two-statement request [first, second], sent to Store.Query and to Store.Request at NONE, WEAK, STRONG, LINEARIZABLE and AUTO on a real single-node Store; the whole database (schema, rows, user_version) is read back before and after; distinct = (entry point, level, shape, kind of second, outcome)")
	r.Assume("TEMP tables and ATTACH are left out: they change connection state, not the database, and would leak from one case into the next on the shared connections")
	r.Note("single node: 'any node' is the one node; the log-replicated path is the same code on every node")

	s, ln := mustNewStoreAtPathsLn(random.String(), kit.Scratch(t), false)
	defer ln.Close()
	if err := s.Open(); err != nil {
		t.Fatalf("harness: open: %v", err)
	}
	defer s.Close(true)
	if err := s.Bootstrap(NewServer(s.ID(), s.Addr(), true)); err != nil {
		t.Fatalf("harness: bootstrap: %v", err)
	}
	if _, err := s.WaitForLeader(60 * time.Second); err != nil {
		t.Fatalf("harness: leader: %v", err)
	}
	ctx := context.Background()

	digest := func() string {
		qr := queryRequestFromStrings([]string{
			"SELECT type,name,tbl_name,sql FROM sqlite_master ORDER BY name",
			"SELECT * FROM t ORDER BY id", "SELECT * FROM u ORDER BY id", "PRAGMA user_version"}, false, false, false)
		qr.Level = proto.ConsistencyLevel_NONE
		rows, _, _, err := s.Query(ctx, qr)
		if err != nil {
			t.Fatalf("harness: digest: %v", err)
		}
		var b strings.Builder
		for _, q := range rows {
			fmt.Fprintf(&b, "%v:", q.Columns)
			for _, row := range q.Values {
				b.WriteString("(")
				for _, p := range row.Parameters {
					switch v := p.GetValue().(type) {
					case *proto.Parameter_I:
						fmt.Fprintf(&b, "%d,", v.I)
					case *proto.Parameter_D:
						fmt.Fprintf(&b, "%g,", v.D)
					case *proto.Parameter_S:
						fmt.Fprintf(&b, "%q,", v.S)
					case *proto.Parameter_Y:
						fmt.Fprintf(&b, "x%x,", v.Y)
					case *proto.Parameter_B:
						fmt.Fprintf(&b, "%v,", v.B)
					default:
						b.WriteString("NULL,")
					}
				}
				b.WriteString(")")
			}
			fmt.Fprintf(&b, "%s ## ", q.Error)
		}
		return b.String()
	}
	reset := func() {
		if _, _, err := s.Execute(ctx, executeRequestFromStrings(c17Reset, false, false)); err != nil {
			t.Fatalf("harness: reset: %v", err)
		}
	}
	reset()
	base := digest()
	// one strong read, so that LINEARIZABLE requests are not upgraded to STRONG on first use
	sq := queryRequestFromString("SELECT 1", false, false, false)
	sq.Level = proto.ConsistencyLevel_STRONG
	if _, _, _, err := s.Query(ctx, sq); err != nil {
		t.Fatalf("harness: strong read: %v", err)
	}

	resets := 0
	for ci, c := range c17Cases() {
		for _, lvl := range c17Levels {
			for _, ep := range []string{"query", "request"} {
				r.Eval(1)
				replay := map[string]any{"endpoint": ep, "level": lvl.String(), "statements": c.stmts}
				treatedAsRead := true
				outcome := ""
				if ep == "query" {
					qr := queryRequestFromStrings(c.stmts, false, false, false)
					qr.Level = lvl
					qr.LinearizableTimeout = int64(5 * time.Second)
					rows, _, _, err := s.Query(ctx, qr)
					outcome = c17Outcome(err, len(rows))
				} else {
					eqr := executeQueryRequestFromStrings(c.stmts, lvl, false, false, false)
					eqr.LinearizableTimeout = int64(5 * time.Second)
					resp, _, _, err := s.Request(ctx, eqr)
					outcome = c17Outcome(err, len(resp))
					for _, x := range resp {
						if x.GetE() != nil {
							treatedAsRead = false
							outcome += "+execute-result"
						}
					}
				}
				after := digest()
				changed := after != base
				kind := c.sec.kind
				if kind == "" {
					kind = "none"
				}
				r.Distinct(fmt.Sprintf("%s|%s|%s|%s|%s|changed=%v", ep, lvl, c.shape, kind, outcome, changed))
				if ci%97 == 0 && lvl == proto.ConsistencyLevel_STRONG {
					r.Sample(map[string]any{"endpoint": ep, "level": lvl.String(), "statements": c.stmts, "outcome": outcome, "database_changed": changed})
				}
				if changed {
					if treatedAsRead {
						r.Violation(fmt.Sprintf("C17:db-changed:%s:%s:%s:%s", ep, lvl, c.shape, kind),
							fmt.Sprintf("Store.%s at level %s, statements %q (%s): every statement was answered as a read (%s) but the database changed: before %s ; after %s",
								map[string]string{"query": "Query", "request": "Request"}[ep], lvl, c.stmts, c.shape, outcome, base, after), replay)
					}
					reset()
					resets++
					if digest() != base {
						t.Fatalf("harness: reset did not restore the database after %q", c.stmts)
					}
				}
			}
		}
	}
	r.Set("legitimate_or_illegitimate_changes_reset", resets)
}

func c17Outcome(err error, n int) string {
	if err != nil {
		return "request-error"
	}
	return fmt.Sprintf("%d-results", n)
}
