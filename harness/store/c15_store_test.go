package store

import (
	"bytes"
	"context"
	"fmt"
	"os"
	"strings"
	"sync"
	"testing"
	"time"

	"github.com/rqlite/rqlite/v10/command/proto"
	kit "github.com/rqlite/rqlite/v10/internal/verifkit"
)

// C15, second part: one representative of every grammar class (the canonical
// form, and the canonical form with exactly one dimension changed) is sent
// through the three real entry points of an opened single-node Store. What the
// node's database looks like afterwards is read from the node itself: PRAGMA
// queries executed on its read-write connection and on its read-only
// connection, the bytes of its main database file and the size of its WAL.

type c15sRep struct {
	setting string   // guarded setting the text aims at ("" for a control)
	class   string   // bypass class of the single non-canonical dimension ("canonical" if none)
	stmts   []string // statements of the request (one text, except for the multi-Statement class)
}

func c15sReps() []c15sRep {
	type prag struct{ name, value string }
	var reps []c15sRep
	guarded := []prag{
		{"journal_mode", "delete"},
		{"wal_autocheckpoint", "1000"},
		{"synchronous", "normal"},
		{"query_only", "1"}, // breaks the read-write connection
		{"query_only", "0"}, // un-protects the read-only connection
		{"wal_checkpoint", "truncate"},
	}
	for _, p := range guarded {
		type form struct{ class, text string }
		eq := "pragma " + p.name + "=" + p.value
		forms := []form{
			{"canonical", eq},
			{"spaced-assignment", "pragma " + p.name + " = " + p.value},
			{"letter-case", "PRAGMA " + strings.ToUpper(p.name) + "=" + p.value},
			{"letter-case", "Pragma " + strings.ToUpper(p.name[:1]) + p.name[1:] + "=" + p.value},
			{"leading-whitespace", " " + eq},
			{"leading-whitespace", "\n\t" + eq},
			{"leading-comment", "-- c\n" + eq},
			{"leading-comment", "/* c */" + eq},
			{"leading-empty-statement", ";" + eq},
			{"explain-prefix", "explain " + eq},
			{"explain-prefix", "EXPLAIN QUERY PLAN " + eq},
			{"later-statement", "SELECT 1;" + eq},
			{"later-statement", "INSERT INTO c15t(v) VALUES('p');" + eq},
			{"inner-whitespace", "pragma\t\n" + p.name + "=" + p.value},
			{"inner-comment", "pragma/**/" + p.name + "=" + p.value},
			{"quoted-name", "pragma\"" + p.name + "\"=" + p.value},
			{"schema-prefix", "pragma main." + p.name + "=" + p.value},
			{"quoted-schema-prefix", "pragma \"main\"." + p.name + "=" + p.value},
			{"quoted-schema-prefix", "pragma [main]." + p.name + "=" + p.value},
			{"temp-schema-prefix", "pragma temp." + p.name + "=" + p.value},
			{"quoted-name", "pragma \"" + p.name + "\"=" + p.value},
			{"quoted-name", "pragma [" + p.name + "]=" + p.value},
			{"quoted-name", "pragma `" + p.name + "`=" + p.value},
			{"quoted-name", "pragma '" + p.name + "'=" + p.value},
			{"call-syntax", "pragma " + p.name + "(" + p.value + ")"},
			{"call-syntax", "pragma " + p.name + " ( " + p.value + " )"},
			{"trailing-semicolon", eq + ";"},
		}
		if p.name == "wal_checkpoint" {
			forms = append(forms, form{"bare", "pragma wal_checkpoint"}, form{"quoted-name", "pragma \"wal_checkpoint\""})
		}
		for _, f := range forms {
			reps = append(reps, c15sRep{p.name, f.class, []string{f.text}})
		}
		reps = append(reps, c15sRep{p.name, "second-statement-of-request", []string{"SELECT 1", eq}})
		// the canonical text carried by a parameterised statement: the JSON API attaches any surplus values to
		// the statement and SQLite ignores values beyond the placeholder count, so the text runs as written
		reps = append(reps, c15sRep{p.name, "surplus-parameter", []string{eq + c15sParamMark}})
		reps = append(reps, c15sRep{p.name, "surplus-parameter", []string{"SELECT 1", eq + c15sParamMark}})
		reps = append(reps, c15sRep{p.name, "call-syntax", []string{"SELECT 1", "pragma " + p.name + "(" + p.value + ")"}})
	}
	// harmless controls and plain reads of the guarded settings
	for _, t := range []string{
		"pragma cache_size=100", "pragma cache_size(100)", "pragma table_info(c15t)", "pragma main.table_info('c15t')",
		"pragma journal_mode", "pragma synchronous", "pragma wal_autocheckpoint", "pragma query_only", "SELECT 1",
	} {
		reps = append(reps, c15sRep{"", "control", []string{t}})
	}
	return reps
}

// c15sParamMark, appended to a statement text by c15sReps, makes send() strip it and attach one
// surplus positional parameter to that statement.
const c15sParamMark = "\x00+param"

func c15sAttachParams(stmts []*proto.Statement) {
	for _, st := range stmts {
		if strings.HasSuffix(st.Sql, c15sParamMark) {
			st.Sql = strings.TrimSuffix(st.Sql, c15sParamMark)
			st.Parameters = append(st.Parameters, &proto.Parameter{Value: &proto.Parameter_I{I: 1}})
		}
	}
}

const (
	c15sExecute = iota
	c15sQueryNone
	c15sQueryStrong
	c15sRequestNone
	c15sRequestStrong
	c15sNPaths
)

var c15sPathNames = [c15sNPaths]string{"Store.Execute", "Store.Query(level=NONE)", "Store.Query(level=STRONG)", "Store.Request(level=NONE)", "Store.Request(level=STRONG)"}

type c15sObs struct {
	rw      string // journal_mode, wal_autocheckpoint, synchronous, query_only of the read-write connection
	roQO    string
	main    []byte
	walSize int64
	snaps   uint64
}

type c15sNode struct {
	t  *testing.T
	s  *Store
	ln interface{ Close() error }
}

func c15sNew(t *testing.T) *c15sNode {
	s, ln := mustNewStore(t)
	// keep the Store's own checkpointing (snapshots) out of the observation window
	s.SnapshotThreshold = 1 << 40
	s.SnapshotInterval = time.Hour
	s.SnapshotThresholdWALSize = 1 << 40
	s.NoSnapshotOnClose = true
	s.MaxReadOnlyConns = 1 // one pooled read-only connection, so that it can be read back
	if err := s.Open(); err != nil {
		panic(fmt.Sprintf("C15 store harness: open store: %v", err))
	}
	if err := s.Bootstrap(NewServer(s.ID(), s.Addr(), true)); err != nil {
		panic(fmt.Sprintf("C15 store harness: bootstrap: %v", err))
	}
	if _, err := s.WaitForLeader(120 * time.Second); err != nil {
		panic(fmt.Sprintf("C15 store harness: wait for leader: %v", err))
	}
	er := executeRequestFromStrings([]string{
		"CREATE TABLE c15t(id INTEGER PRIMARY KEY, v TEXT)",
		"INSERT INTO c15t(v) VALUES('a')",
		"INSERT INTO c15t(v) VALUES('b')",
	}, false, false)
	res, _, err := s.Execute(context.Background(), er)
	if err != nil || len(res) != 3 {
		panic(fmt.Sprintf("C15 store harness: set-up rows: %v %s", err, asJSON(res)))
	}
	return &c15sNode{t: t, s: s, ln: ln}
}

func (n *c15sNode) close() {
	n.s.Close(true)
	n.ln.Close()
}

func c15sReq(stmts ...string) *proto.Request {
	r := &proto.Request{}
	for _, s := range stmts {
		r.Statements = append(r.Statements, &proto.Statement{Sql: s})
	}
	return r
}

// observe reads the node's settings straight from its database object (no Store
// entry point, hence no guard, involved).
func (n *c15sNode) observe(useRO bool) (c15sObs, error) {
	var o c15sObs
	rq := c15sReq("PRAGMA journal_mode", "PRAGMA wal_autocheckpoint", "PRAGMA synchronous", "PRAGMA query_only")
	for _, st := range rq.Statements {
		// "PRAGMA journal_mode" is not a read-only statement for SQLite, so db.Request
		// would execute it without returning its row
		st.ForceQuery = true
	}
	res, err := n.s.db.Request(rq, false)
	if err != nil || len(res) != 4 {
		return o, fmt.Errorf("read rw settings: %v %s", err, asJSON(res))
	}
	var parts []string
	for _, r := range res {
		if r.GetError() != "" || r.GetQ() == nil {
			return o, fmt.Errorf("read rw settings: %s", asJSON(res))
		}
		parts = append(parts, asJSON(r.GetQ().Values))
	}
	o.rw = strings.Join(parts, " ")
	if useRO {
		rows, err := n.s.db.Query(c15sReq("PRAGMA query_only"), false)
		if err != nil || len(rows) != 1 || rows[0].Error != "" {
			return o, fmt.Errorf("read ro query_only: %v %s", err, asJSON(rows))
		}
		o.roQO = asJSON(rows[0].Values)
	}
	o.main, err = os.ReadFile(n.s.dbPath)
	if err != nil {
		return o, err
	}
	if fi, err := os.Stat(n.s.dbPath + "-wal"); err == nil {
		o.walSize = fi.Size()
	}
	o.snaps = n.s.numSnapshots.Load()
	return o, nil
}

// repair puts per-connection settings back, bypassing the Store entry points.
func (n *c15sNode) repair(useRO bool, changed []string) bool {
	for _, c := range changed {
		if c == "journal_mode" || c == "wal_checkpoint" {
			return false
		}
	}
	if _, err := n.s.db.Request(c15sReq("PRAGMA query_only=0", "PRAGMA wal_autocheckpoint=0", "PRAGMA synchronous=0"), false); err != nil {
		return false
	}
	if useRO {
		if _, err := n.s.db.Query(c15sReq("PRAGMA query_only=1"), false); err != nil {
			return false
		}
	}
	return true
}

const c15sNodeRW = `[["wal"]] [[0]] [[0]] [[0]]`

func c15sDiff(a, b c15sObs) []string {
	var ch []string
	fa, fb := strings.Fields(a.rw), strings.Fields(b.rw)
	names := []string{"journal_mode", "wal_autocheckpoint", "synchronous", "query_only"}
	jm := false
	for i := range names {
		if i < len(fa) && i < len(fb) && fa[i] != fb[i] {
			ch = append(ch, names[i])
			if i == 0 {
				jm = true
			}
		}
	}
	if a.roQO != b.roQO && (len(ch) == 0 || ch[len(ch)-1] != "query_only") {
		ch = append(ch, "query_only")
	}
	if !jm && a.snaps == b.snaps && (!bytes.Equal(a.main, b.main) || b.walSize < a.walSize) {
		ch = append(ch, "wal_checkpoint")
	}
	return ch
}

func (n *c15sNode) send(path int, stmts []string) (rejected bool, errText string) {
	ctx := context.Background()
	var err error
	var inner []string
	switch path {
	case c15sExecute:
		var res []*proto.ExecuteQueryResponse
		er := executeRequestFromStrings(stmts, false, false)
		c15sAttachParams(er.Request.Statements)
		res, _, err = n.s.Execute(ctx, er)
		for _, r := range res {
			if e := r.GetError(); e != "" {
				inner = append(inner, e)
			}
		}
	case c15sQueryNone, c15sQueryStrong:
		qr := queryRequestFromStrings(stmts, false, false, false)
		c15sAttachParams(qr.Request.Statements)
		qr.Level = proto.ConsistencyLevel_NONE
		if path == c15sQueryStrong {
			qr.Level = proto.ConsistencyLevel_STRONG
		}
		var rows []*proto.QueryRows
		rows, _, _, err = n.s.Query(ctx, qr)
		for _, r := range rows {
			if r.Error != "" {
				inner = append(inner, r.Error)
			}
		}
	case c15sRequestNone, c15sRequestStrong:
		lvl := proto.ConsistencyLevel_NONE
		if path == c15sRequestStrong {
			lvl = proto.ConsistencyLevel_STRONG
		}
		var res []*proto.ExecuteQueryResponse
		eqr := executeQueryRequestFromStrings(stmts, lvl, false, false, false)
		c15sAttachParams(eqr.Request.Statements)
		res, _, _, err = n.s.Request(ctx, eqr)
		for _, r := range res {
			if e := r.GetError(); e != "" {
				inner = append(inner, e)
			}
		}
	}
	if err != nil {
		if strings.Contains(err.Error(), "disallowed pragma") {
			return true, err.Error()
		}
		return false, "error: " + err.Error()
	}
	if len(inner) > 0 {
		return false, "stmt-error: " + inner[0]
	}
	return false, ""
}

func TestVerif_C15_Store(t *testing.T) {
	r := kit.Start(t, "C15", "store")
	defer r.Finish()
	r.Rule("for each guarded setting (journal_mode=delete, wal_autocheckpoint=1000, synchronous=normal, query_only=1, query_only=0, wal_checkpoint=truncate): the canonical text and every text differing from it in exactly one grammar dimension (30-32 per setting), plus requests carrying the pragma as a second Statement, plus harmless controls; each sent through Store.Execute, Store.Query (NONE, STRONG) and Store.Request (NONE, STRONG) of an opened, bootstrapped single-node Store holding rows in its WAL; after each request the node's settings are read from its own database object (read-write and read-only connection), with main-file bytes and WAL size. distinct = (setting, class, entry point, guard verdict, changed settings, error class)")
	r.Assume("the Store's own snapshot/checkpoint triggers are configured out of the window (threshold 2^40, interval 1h) and every observation also checks that the snapshot counter did not move")

	reps := c15sReps()
	type job struct {
		rep  c15sRep
		path int
	}
	var jobs []job
	for _, rep := range reps {
		for p := 0; p < c15sNPaths; p++ {
			jobs = append(jobs, job{rep, p})
		}
	}
	var nRejected, nAccepted, nNodes int
	var mu sync.Mutex
	type vrec struct {
		key, what string
		replay    any
		setting   string
		path      int
	}
	var vios []vrec

	nw := 8
	var wg sync.WaitGroup
	for w := 0; w < nw; w++ {
		wg.Add(1)
		go func(w int) {
			defer wg.Done()
			// Two nodes per worker. Slot 0 serves Store.Execute only and its read-only
			// pool is never touched (a node that has not served a read for 30 s, or
			// since start-up, has no read-only connection open); slot 1 serves the
			// entry points that use the read-only pool and reads that connection back.
			var slots [2]struct {
				node *c15sNode
				base c15sObs
			}
			fresh := func(k int) {
				if slots[k].node != nil {
					slots[k].node.close()
				}
				slots[k].node = c15sNew(t)
				var err error
				slots[k].base, err = slots[k].node.observe(k == 1)
				if err != nil {
					panic("C15 store harness: " + err.Error())
				}
				b := slots[k].base
				if b.rw != c15sNodeRW || (k == 1 && b.roQO != `[[1]]`) || b.walSize == 0 {
					panic(fmt.Sprintf("C15 store harness: node database not in the expected configuration: rw=%s ro query_only=%s wal=%d", b.rw, b.roQO, b.walSize))
				}
				mu.Lock()
				nNodes++
				mu.Unlock()
			}
			fresh(0)
			fresh(1)
			defer func() { slots[0].node.close(); slots[1].node.close() }()
			for i := w; i < len(jobs); i += nw {
				j := jobs[i]
				k := 1
				if j.path == c15sExecute {
					k = 0
				}
				node, base := slots[k].node, slots[k].base
				rejected, errText := node.send(j.path, j.rep.stmts)
				after, err := node.observe(k == 1)
				if err != nil {
					// the node's database can no longer even be read the normal way (e.g. the
					// read-write connection became query-only is still readable; this is for
					// anything worse): treat as a changed node and start over
					mu.Lock()
					vios = append(vios, vrec{"C15:node-unreadable:" + j.rep.class,
						fmt.Sprintf("after %q via %s the node's settings cannot be read: %v", j.rep.stmts, c15sPathNames[j.path], err),
						map[string]any{"stmts": j.rep.stmts, "entry_point": c15sPathNames[j.path]}, "", j.path})
					mu.Unlock()
					fresh(k)
					continue
				}
				changed := c15sDiff(base, after)
				if after.snaps != base.snaps {
					r.Note("a Store snapshot ran during %q; checkpoint evidence ignored for that case", j.rep.stmts)
				}
				verdict := "accepted"
				mu.Lock()
				if rejected {
					verdict = "rejected"
					nRejected++
				} else {
					nAccepted++
				}
				mu.Unlock()
				r.Eval(1)
				r.Transition(1)
				// one grammar-class representative of part enum replayed through a real
				// Store entry point and its effect read back from the node's own database
				r.Validated(1)
				ec := errText
				if k := strings.Index(ec, ":"); k > 0 && !rejected {
					ec = ec[:k]
				}
				r.Distinct(fmt.Sprintf("%s|%s|%d|%s|%v|%s", j.rep.setting, j.rep.class, j.path, verdict, changed, ec))
				r.SampleEvery(i, map[string]any{"stmts": j.rep.stmts, "entry_point": c15sPathNames[j.path], "guard": verdict, "changed": changed, "result": errText})
				if len(changed) == 0 {
					slots[k].base = after
					continue
				}
				for _, setting := range changed {
					class := j.rep.class
					if rejected {
						class = "changed-although-rejected:" + class
					} else if j.rep.setting == "" {
						class = "control-changed-setting"
					} else if class == "canonical" {
						class = "plain-form-not-guarded"
					}
					mu.Lock()
					vios = append(vios, vrec{"C15:" + setting + ":" + class,
						fmt.Sprintf("%s accepted %q on a live single-node store and the node's %s changed: read-write conn %s -> %s, read-only conn query_only %s -> %s, main file %d -> %d bytes (equal=%v), WAL %d -> %d bytes",
							c15sPathNames[j.path], j.rep.stmts, setting, base.rw, after.rw, base.roQO, after.roQO, len(base.main), len(after.main), bytes.Equal(base.main, after.main), base.walSize, after.walSize),
						map[string]any{"stmts": j.rep.stmts, "entry_point": c15sPathNames[j.path], "setting": setting}, setting, j.path})
					mu.Unlock()
				}
				// The node is no longer a properly configured node. Per-connection
				// settings are put back straight on its database object and verified by
				// a new observation; otherwise (journal mode, checkpoint) start a new node.
				if node.repair(k == 1, changed) {
					if again, err := node.observe(k == 1); err == nil && len(c15sDiff(base, again)) == 0 &&
						again.rw == c15sNodeRW && (k == 0 || again.roQO == `[[1]]`) {
						slots[k].base = again
						continue
					}
				}
				fresh(k)
			}
		}(w)
	}
	wg.Wait()
	// Same reduction as in part enum. If the canonical text itself gets through an
	// entry point and changes a setting, the decoration of the other texts is not
	// the cause there: they are all the class "plain-form-not-guarded".
	plainVia := map[string]bool{}
	for _, v := range vios {
		if strings.HasSuffix(v.key, ":plain-form-not-guarded") {
			plainVia[fmt.Sprintf("%s|%d", v.setting, v.path)] = true
		}
	}
	for i, v := range vios {
		if v.setting != "" && plainVia[fmt.Sprintf("%s|%d", v.setting, v.path)] {
			vios[i].key = "C15:" + v.setting + ":plain-form-not-guarded"
		}
	}
	// And a decorated schema prefix is only its own class if the plain prefix
	// `main.` does not bypass for that setting.
	has := map[string]bool{}
	for _, v := range vios {
		has[v.key] = true
	}
	for i, v := range vios {
		for _, deco := range []string{":quoted-schema-prefix", ":temp-schema-prefix"} {
			if strings.HasSuffix(v.key, deco) {
				if plain := strings.TrimSuffix(v.key, deco) + ":schema-prefix"; has[plain] {
					vios[i].key = plain
				}
			}
		}
	}
	for _, v := range vios {
		r.Violation(v.key, v.what, v.replay)
	}
	r.Set("requests", len(jobs))
	r.Set("representatives", len(reps))
	r.Set("guard_rejected", nRejected)
	r.Set("guard_accepted", nAccepted)
	r.Set("stores_started", nNodes)
	r.Note("%d representative requests x %d entry points on live single-node stores: %d rejected with 'disallowed pragma', %d accepted; %d stores started (a new one after every detected change).", len(reps), c15sNPaths, nRejected, nAccepted, nNodes)
}
