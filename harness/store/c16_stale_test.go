package store

import (
	"fmt"
	"strings"
	"testing"
	"testing/synctest"
	"time"

	kit "github.com/rqlite/rqlite/v10/internal/verifkit"
)

// C16 part (a) "stale": the staleness decision for 'none' reads with a freshness
// bound. IsStaleRead is a pure function of its seven arguments and the clock;
// the full product of boundary values is evaluated in a fake-clock bubble and
// compared with a reference written from the property statement and
// store/DESIGN.md ("Consistency levels", NONE).
// (Part (b), the live-cluster exploration, lives in other c16 files.)

type c16aVerdict int

const (
	c16aServe c16aVerdict = iota
	c16aRefuse
)

// c16aRef is the documented rule:
//   - no freshness bound (0): never refused;
//   - refused when the node has not heard from the leader within the bound
//     (never heard = not within any bound; exactly at the bound is within it);
//   - in strict mode also refused when the node is behind (its FSM index is
//     below the commit index it knows of) and its last applied entry was
//     appended more than the bound before it was applied;
//   - otherwise served.
//
// An unknown append time (zero) cannot satisfy the strict clause.
func c16aRef(now, lastContact, fsmUpdate, appendedAt time.Time, fsmIdx, commitIdx uint64, freshness int64, strict bool) (c16aVerdict, string) {
	if freshness == 0 {
		return c16aServe, "no-freshness-bound"
	}
	if lastContact.IsZero() {
		return c16aRefuse, "never-heard-from-leader"
	}
	since := now.Sub(lastContact)
	if int64(since) > freshness {
		return c16aRefuse, "leader-contact-older-than-bound"
	}
	at := ""
	if int64(since) == freshness {
		at = ":contact-exactly-at-bound"
	}
	if !strict {
		return c16aServe, "contact-within-bound:non-strict" + at
	}
	switch {
	case fsmIdx == commitIdx:
		return c16aServe, "strict:caught-up" + at
	case fsmIdx > commitIdx:
		return c16aServe, "strict:fsm-index-ahead-of-known-commit-index" + at
	}
	if appendedAt.IsZero() {
		return c16aServe, "strict:behind:append-time-unknown" + at
	}
	lag := int64(fsmUpdate.Sub(appendedAt))
	if lag > freshness {
		return c16aRefuse, "strict:behind:applied-later-than-bound-after-append"
	}
	if lag == freshness {
		at += ":lag-exactly-at-bound"
	}
	return c16aServe, "strict:behind:applied-within-bound-after-append" + at
}

type c16aCase struct {
	Freshness      int64  `json:"freshness_ns"`
	Strict         bool   `json:"strict"`
	SinceContact   string `json:"now_minus_leader_last_contact"`
	SinceFSMUpdate string `json:"now_minus_fsm_update_time"`
	SinceAppended  string `json:"now_minus_appended_at_time"`
	FSMIndex       uint64 `json:"fsm_index"`
	CommitIndex    uint64 `json:"commit_index"`
}

func c16aUniq(v []int64) []int64 {
	var o []int64
	seen := map[int64]bool{}
	for _, x := range v {
		if !seen[x] {
			seen[x] = true
			o = append(o, x)
		}
	}
	return o
}

const c16aZero = int64(-1 << 62) // marker: the zero time.Time ("never")

func c16aTime(now time.Time, off int64) (time.Time, string) {
	if off == c16aZero {
		return time.Time{}, "never(zero time)"
	}
	return now.Add(-time.Duration(off)), time.Duration(off).String()
}

func TestVerif_C16_stale(t *testing.T) {
	r := kit.Start(t, "C16", "stale")
	defer r.Finish()
	r.Rule("full product, inside a testing/synctest bubble (time.Now fixed), of freshness f in {0, 1ns, 1s, 1h} x strict {off,on} x (now - leader last contact) in {-1ns (future), 0, f-1, f, f+1, 2f+1, never} x (now - FSM update time) in {0, 1, f-1, f, f+1, never} x (now - appended-at time) in {-1ns, 0, f-1, f, f+1, 2f, 2f+1, 2f+2, never} x FSM index {0,1,2} x commit index {0,1,2} (for f=0 the offsets use f=1s); the real store.IsStaleRead against the reference rule of the statement. distinct = (reference reason, real decision)")
	fresh := []int64{0, 1, int64(time.Second), int64(time.Hour)}
	synctest.Test(t, func(t *testing.T) {
		now := time.Now()
		n := 0
		for _, f := range fresh {
			g := f
			if g == 0 {
				g = int64(time.Second)
			}
			contacts := c16aUniq([]int64{-1, 0, g - 1, g, g + 1, 2*g + 1, c16aZero})
			updates := c16aUniq([]int64{0, 1, g - 1, g, g + 1, c16aZero})
			appends := c16aUniq([]int64{-1, 0, g - 1, g, g + 1, 2 * g, 2*g + 1, 2*g + 2, c16aZero})
			for _, strict := range []bool{false, true} {
				for _, co := range contacts {
					for _, uo := range updates {
						for _, ao := range appends {
							for fi := uint64(0); fi <= 2; fi++ {
								for ci := uint64(0); ci <= 2; ci++ {
									lc, lcs := c16aTime(now, co)
									fu, fus := c16aTime(now, uo)
									aa, aas := c16aTime(now, ao)
									cs := c16aCase{f, strict, lcs, fus, aas, fi, ci}
									if time.Now() != now {
										t.Fatalf("fake clock moved")
									}
									want, why := c16aRef(now, lc, fu, aa, fi, ci, f, strict)
									var got bool
									r.Guard("C16:stale:panic", cs, func() { got = IsStaleRead(lc, fu, aa, fi, ci, f, strict) })
									n++
									r.Distinct(fmt.Sprintf("%s => stale=%v", why, got))
									r.SampleEvery(n, map[string]any{"case": cs, "reference": why, "stale": got})
									if got != (want == c16aRefuse) {
										dir := "refused-although:"
										if !got {
											dir = "served-although:"
										}
										// class = reference reason; a case sitting exactly on a bound gets its own class (off-by-one)
										cls := why
										if i := strings.Index(why, ":contact-exactly"); i >= 0 {
											cls = why[:i] + ":exactly-at-bound"
										} else if i := strings.Index(why, ":lag-exactly"); i >= 0 {
											cls = why[:i] + ":exactly-at-bound"
										}
										if strings.HasPrefix(why, "strict:fsm-index-ahead") { // one mechanism whatever the contact offset
											cls = "strict:fsm-index-ahead-of-known-commit-index"
										}
										r.Violation("C16:stale:"+dir+cls,
											fmt.Sprintf("freshness=%v strict=%v now-lastContact=%s now-fsmUpdate=%s now-appendedAt=%s fsmIndex=%d commitIndex=%d: IsStaleRead=%v, documented rule says %s", time.Duration(f), strict, lcs, fus, aas, fi, ci, got, why), cs)
									}
								}
							}
						}
					}
				}
			}
		}
		r.Eval(n)
	})
}
