package store

// Reusable in-process cluster kit for the E-CLUSTER checks (identifiers are
// prefixed vc). Other store-package checks pull this file in through
// `"also_files": ["C02"]` in their checks.d configuration.
//
// A vcCluster is N real store.Store nodes in this process, on loopback, each
// given a harness-owned network layer (vcLayer, implements store.Layer). All
// layers of one cluster share a vcNet that decides, per DIRECTED pair of nodes,
// whether bytes travelling from -> to get through:
//
//   - Block(a, b): new dials a -> b fail at once; on a connection a dialed to
//     b the next request a writes is lost, and on a connection b dialed to a the
//     next response a sends back is lost. "Lost" always means "the connection is
//     reset under the party using it", never "hangs until a deadline", so that
//     raft's retry/backoff loops keep turning and Heal() takes effect within the
//     current backoff interval (at most about as long as the partition lasted).
//     Connections are reset lazily, on use, on purpose: raft keeps idle
//     connections in a pool, and a connection reset behind its back would make
//     the next one-shot RPC (a vote request) fail long after the partition.
//   - Delay(a, b, d): every write a -> b is held back by d.
//   - DropEntries(i, true): node i cannot send AppendEntries messages that
//     carry log entries (the message is dropped, the connection reset and the
//     sender sees an error); heartbeats (empty AppendEntries), votes and
//     everything else pass. This is the "dropped messages" fault at message
//     granularity. Two mechanisms: the dialer's connection wrapper decodes each
//     outgoing raft RPC (raft flushes one RPC per Write: a type byte followed by
//     a msgpack body) and drops AppendEntries whose Entries are not empty - this
//     also covers raft's pipelined replication - and rqlite's own
//     NodeTransport.SetAppendEntriesTxHandler seam refuses them before they are
//     sent on the non-pipelined path.
//   - Heal(): clears all of the above.
//
// Raft timing. hashicorp/raft insists on LeaderLeaseTimeout <= HeartbeatTimeout
// <= ElectionTimeout per node, so a "short election timeout + long leader
// lease" configuration does not exist. The kit therefore stretches all three
// to vcOpts.RaftTimeout (default 5 s) on every node - a leader cut off from its
// followers keeps believing it is the leader for that long, and no follower
// starts an election on its own during a history - and triggers elections
// itself, deterministically, with ForceElection: it delivers raft's own
// TimeoutNow message (the RPC a leader sends for a leadership transfer) to the
// chosen node, which makes that node stand for election immediately, exactly as
// if its election timer had fired. Timers may fire at any moment in an
// asynchronous system, so every state reached this way is a legitimate one.
// "Partition the leader, elect a successor on the majority side, write there,
// read at the old leader" is thus a deterministic window of RaftTimeout, not a
// race.
//
// Listening ports survive a node restart: the TCP listener of a node belongs
// to the cluster (vcPort), each Store incarnation gets a fresh vcLayer fed from
// it, and connections arriving while the node is down are reset.

import (
	"context"
	"errors"
	"fmt"
	"net"
	"os"
	"path/filepath"
	"sort"
	"strings"
	"sync"
	"sync/atomic"
	"testing"
	"time"

	"github.com/hashicorp/go-msgpack/v2/codec"
	"github.com/hashicorp/raft"
	"github.com/rqlite/rqlite/v10/command/proto"
)

var (
	vcErrPartition = errors.New("vc: connection reset (partition)")
	vcErrDropped   = errors.New("vc: AppendEntries with entries dropped")
	vcErrClosed    = errors.New("vc: layer closed")
	vcErrDown      = errors.New("vc: node is down")
	vcErrNoRoute   = errors.New("vc: forward target unreachable")
	vcErrRespLost  = errors.New("vc: response lost (partition)")
	vcErrOpenHung  = errors.New("vc: Store.Open did not return within 60 s; the cluster must be discarded")
	vcErrBounded   = errors.New("vc: operation did not finish within its bound")
	vcErrCloseHung = errors.New("vc: Store.Close did not return within 15 s; the cluster must be discarded")
)

// ---------------------------------------------------------------------------
// network

type vcNet struct {
	mu      sync.RWMutex
	n       int
	blocked [][]bool
	delay   [][]time.Duration
	dropAE  []bool
	conns   map[*vcConn]struct{}
	addrIdx map[string]int
}

func vcNewNet(n int) *vcNet {
	nw := &vcNet{n: n, conns: map[*vcConn]struct{}{}, addrIdx: map[string]int{}, dropAE: make([]bool, n)}
	nw.blocked = make([][]bool, n)
	nw.delay = make([][]time.Duration, n)
	for i := range nw.blocked {
		nw.blocked[i] = make([]bool, n)
		nw.delay[i] = make([]time.Duration, n)
	}
	return nw
}

func (nw *vcNet) isBlocked(from, to int) bool {
	nw.mu.RLock()
	defer nw.mu.RUnlock()
	return nw.blocked[from][to]
}

func (nw *vcNet) delayOf(from, to int) time.Duration {
	nw.mu.RLock()
	defer nw.mu.RUnlock()
	return nw.delay[from][to]
}

func (nw *vcNet) dropsEntries(i int) bool {
	nw.mu.RLock()
	defer nw.mu.RUnlock()
	return nw.dropAE[i]
}

// sever resets every live connection for which pred(from, to) holds (from = dialer).
func (nw *vcNet) sever(pred func(from, to int) bool) {
	nw.mu.Lock()
	var victims []*vcConn
	for c := range nw.conns {
		if pred(c.from, c.to) {
			victims = append(victims, c)
		}
	}
	nw.mu.Unlock()
	for _, c := range victims {
		c.Close()
	}
}

// Block loses everything travelling from -> to (see the file comment).
func (nw *vcNet) Block(from, to int) {
	nw.mu.Lock()
	nw.blocked[from][to] = true
	nw.mu.Unlock()
}

// Isolate cuts node i off from every other node, in both directions.
func (nw *vcNet) Isolate(i int) {
	for j := 0; j < nw.n; j++ {
		if j != i {
			nw.Block(i, j)
			nw.Block(j, i)
		}
	}
}

// Partitioned reports whether any pair is blocked.
func (nw *vcNet) Partitioned() bool {
	nw.mu.RLock()
	defer nw.mu.RUnlock()
	for i := range nw.blocked {
		for j := range nw.blocked[i] {
			if nw.blocked[i][j] {
				return true
			}
		}
	}
	return false
}

// Connected reports whether a and b can exchange requests and responses both ways.
func (nw *vcNet) Connected(a, b int) bool {
	nw.mu.RLock()
	defer nw.mu.RUnlock()
	return !nw.blocked[a][b] && !nw.blocked[b][a]
}

func (nw *vcNet) Delay(from, to int, d time.Duration) {
	nw.mu.Lock()
	nw.delay[from][to] = d
	nw.mu.Unlock()
}

// DropEntries switches the entry-carrying-AppendEntries filter of node i.
func (nw *vcNet) DropEntries(i int, on bool) {
	nw.mu.Lock()
	nw.dropAE[i] = on
	nw.mu.Unlock()
}

// vcCarriesEntries reports whether p is one raft AppendEntries RPC with a
// non-empty Entries list, as raft's NetworkTransport writes it.
func vcCarriesEntries(p []byte) bool {
	if len(p) < 2 || p[0] != 0 { // rpcAppendEntries
		return false
	}
	var req raft.AppendEntriesRequest
	codec.NewDecoderBytes(p[1:], &codec.MsgpackHandle{}).Decode(&req)
	return len(req.Entries) > 0
}

// Heal removes every block, delay and message filter.
func (nw *vcNet) Heal() {
	nw.mu.Lock()
	for i := range nw.blocked {
		for j := range nw.blocked[i] {
			nw.blocked[i][j] = false
			nw.delay[i][j] = 0
		}
		nw.dropAE[i] = false
	}
	nw.mu.Unlock()
}

// vcConn is the dialer's end of a connection from node `from` to node `to`.
type vcConn struct {
	net.Conn
	nw       *vcNet
	from, to int
	closed   atomic.Bool
}

func (c *vcConn) Write(p []byte) (int, error) {
	if c.nw.isBlocked(c.from, c.to) {
		c.Close()
		return 0, vcErrPartition
	}
	if c.from != c.to && c.nw.dropsEntries(c.from) && vcCarriesEntries(p) {
		c.Close()
		return 0, vcErrDropped
	}
	if d := c.nw.delayOf(c.from, c.to); d > 0 {
		time.Sleep(d)
		if c.nw.isBlocked(c.from, c.to) {
			c.Close()
			return 0, vcErrPartition
		}
	}
	return c.Conn.Write(p)
}

func (c *vcConn) Read(p []byte) (int, error) {
	n, err := c.Conn.Read(p)
	if n > 0 {
		if c.nw.isBlocked(c.to, c.from) {
			c.Close()
			return 0, vcErrPartition
		}
		if d := c.nw.delayOf(c.to, c.from); d > 0 {
			time.Sleep(d)
		}
	}
	return n, err
}

func (c *vcConn) Close() error {
	if c.closed.Swap(true) {
		return nil
	}
	c.nw.mu.Lock()
	delete(c.nw.conns, c)
	c.nw.mu.Unlock()
	return c.Conn.Close()
}

// vcPort owns the TCP listener of one node for the life of the cluster.
type vcPort struct {
	ln  net.Listener
	mu  sync.Mutex
	cur *vcLayer
}

func vcNewPort() (*vcPort, error) {
	ln, err := net.Listen("tcp", "127.0.0.1:0")
	if err != nil {
		return nil, err
	}
	p := &vcPort{ln: ln}
	go func() {
		for {
			c, err := ln.Accept()
			if err != nil {
				return
			}
			p.mu.Lock()
			l := p.cur
			p.mu.Unlock()
			if l == nil || !l.offer(c) {
				c.Close()
			}
		}
	}()
	return p, nil
}

// vcLayer is the store.Layer of one Store incarnation.
type vcLayer struct {
	nw   *vcNet
	idx  int
	port *vcPort
	ch   chan net.Conn
	done chan struct{}
	once sync.Once
	mu   sync.Mutex
	acc  []net.Conn
}

func (p *vcPort) newLayer(nw *vcNet, idx int) *vcLayer {
	l := &vcLayer{nw: nw, idx: idx, port: p, ch: make(chan net.Conn, 64), done: make(chan struct{})}
	p.mu.Lock()
	p.cur = l
	p.mu.Unlock()
	return l
}

func (l *vcLayer) offer(c net.Conn) bool {
	select {
	case <-l.done:
		return false
	default:
	}
	l.mu.Lock()
	l.acc = append(l.acc, c)
	l.mu.Unlock()
	select {
	case l.ch <- c:
		return true
	case <-l.done:
		return false
	}
}

func (l *vcLayer) Accept() (net.Conn, error) {
	select {
	case c := <-l.ch:
		return c, nil
	case <-l.done:
		return nil, vcErrClosed
	}
}

// Close ends this incarnation: the node stops accepting, and every connection
// it dialed or accepted is reset. The TCP listener itself stays with the port.
func (l *vcLayer) Close() error {
	l.once.Do(func() {
		close(l.done)
		l.mu.Lock()
		acc := l.acc
		l.acc = nil
		l.mu.Unlock()
		for _, c := range acc {
			c.Close()
		}
		l.nw.sever(func(f, t int) bool { return f == l.idx })
	})
	return nil
}

func (l *vcLayer) Addr() net.Addr { return l.port.ln.Addr() }

func (l *vcLayer) Dial(addr string, timeout time.Duration) (net.Conn, error) {
	select {
	case <-l.done:
		return nil, vcErrClosed
	default:
	}
	l.nw.mu.RLock()
	to, known := l.nw.addrIdx[addr]
	l.nw.mu.RUnlock()
	if !known {
		return net.DialTimeout("tcp", addr, timeout)
	}
	if l.nw.isBlocked(l.idx, to) {
		return nil, vcErrPartition
	}
	c, err := net.DialTimeout("tcp", addr, timeout)
	if err != nil {
		return nil, err
	}
	vc := &vcConn{Conn: c, nw: l.nw, from: l.idx, to: to}
	l.nw.mu.Lock()
	l.nw.conns[vc] = struct{}{}
	l.nw.mu.Unlock()
	return vc, nil
}

// ---------------------------------------------------------------------------
// cluster

type vcOpts struct {
	N             int
	RaftTimeout   time.Duration // HeartbeatTimeout = ElectionTimeout = LeaderLeaseTimeout
	CommitTimeout time.Duration // how often a leader tells idle followers its commit index
	Base          string        // directory for node data ("" = /dev/shm or the OS temp dir)
}

func (o vcOpts) withDefaults() vcOpts {
	if o.N == 0 {
		o.N = 3
	}
	if o.RaftTimeout == 0 {
		o.RaftTimeout = 5 * time.Second
	}
	if o.CommitTimeout == 0 {
		o.CommitTimeout = 200 * time.Millisecond
	}
	return o
}

type vcNode struct {
	idx  int
	id   string
	dir  string
	addr string
	port *vcPort

	mu sync.RWMutex
	s  *Store
	ly *vcLayer
	up bool
}

// store returns the current Store incarnation, or nil while the node is down.
func (n *vcNode) store() *Store {
	n.mu.RLock()
	defer n.mu.RUnlock()
	if !n.up {
		return nil
	}
	return n.s
}

type vcCluster struct {
	o     vcOpts
	net   *vcNet
	nodes []*vcNode
	root  string

	wedged atomic.Bool
	logMu  sync.Mutex
	log    []string // remarks about slow internal steps (diagnostics only)
}

func (c *vcCluster) remark(f string, a ...any) {
	c.logMu.Lock()
	c.log = append(c.log, fmt.Sprintf(f, a...))
	c.logMu.Unlock()
}

// Remarks returns and clears the diagnostics collected so far.
func (c *vcCluster) Remarks() []string {
	c.logMu.Lock()
	defer c.logMu.Unlock()
	l := c.log
	c.log = nil
	return l
}

func (c *vcCluster) describe() string {
	var sb strings.Builder
	for _, n := range c.nodes {
		s := n.store()
		if s == nil {
			fmt.Fprintf(&sb, "n%d:down ", n.idx)
			continue
		}
		lt, li := c.lastLog(n.idx)
		fmt.Fprintf(&sb, "n%d:%s/t%d/last%d.%d/commit%d/fsm%d ", n.idx, s.raft.State(), s.raft.CurrentTerm(), lt, li, s.raft.CommitIndex(), s.fsmIdx.Load())
	}
	return sb.String()
}

// vcOpenLimit bounds Store.Open of a node (normally well under a second).
const vcOpenLimit = 60 * time.Second

// vcStartLimit bounds vcNewCluster as a whole.
const vcStartLimit = 150 * time.Second

const vcTable = "CREATE TABLE kv(k TEXT PRIMARY KEY, v INTEGER)"

// vcNewCluster starts o.N voters, node 0 bootstrapped and the rest joined, creates
// the kv table and waits until every node has applied it. Node 0 is the leader
// and has served a strong read in its term.
func vcNewCluster(o vcOpts) (*vcCluster, error) {
	// bounded: a start that does not finish (it takes 1-10 s) is given up; whatever it
	// had started is shut down if it ever returns
	type result struct {
		c   *vcCluster
		err error
	}
	ch := make(chan result, 1)
	var abandoned atomic.Bool
	go func() {
		c, err := vcStartCluster(o)
		if abandoned.Load() && c != nil {
			c.Close()
			return
		}
		ch <- result{c, err}
	}()
	select {
	case r := <-ch:
		return r.c, r.err
	case <-time.After(vcStartLimit):
		abandoned.Store(true)
		return nil, fmt.Errorf("vc: cluster start did not finish within %v", vcStartLimit)
	}
}

func vcStartCluster(o vcOpts) (c *vcCluster, err error) {
	o = o.withDefaults()
	base := o.Base
	if base == "" {
		base = os.TempDir()
		if st, e := os.Stat("/dev/shm"); e == nil && st.IsDir() {
			base = "/dev/shm"
		}
	}
	vcSweepOnce.Do(func() { vcSweepStale(base) })
	root, err := os.MkdirTemp(base, "vc-cluster-")
	if err != nil {
		return nil, err
	}
	c = &vcCluster{o: o, net: vcNewNet(o.N), root: root}
	defer func() {
		if err != nil {
			c.Close()
			c = nil
		}
	}()
	for i := 0; i < o.N; i++ {
		p, err := vcNewPort()
		if err != nil {
			return c, err
		}
		n := &vcNode{idx: i, id: fmt.Sprintf("n%d", i), dir: filepath.Join(root, fmt.Sprintf("n%d", i)), port: p, addr: p.ln.Addr().String()}
		c.net.addrIdx[n.addr] = i
		c.nodes = append(c.nodes, n)
	}
	for _, n := range c.nodes {
		if err := c.open(n); err != nil {
			return c, fmt.Errorf("open %s: %w", n.id, err)
		}
	}
	n0 := c.nodes[0]
	if err := n0.s.Bootstrap(NewServer(n0.id, n0.addr, true)); err != nil {
		return c, fmt.Errorf("bootstrap: %w", err)
	}
	if err := c.TimeoutNow(0); err != nil {
		return c, fmt.Errorf("first election: %w", err)
	}
	if _, err := n0.s.WaitForLeader(60 * time.Second); err != nil {
		return c, fmt.Errorf("first leader: %w", err)
	}
	for _, n := range c.nodes[1:] {
		if err := n0.s.Join(joinRequest(n.id, n.addr, true)); err != nil {
			return c, fmt.Errorf("join %s: %w", n.id, err)
		}
		if _, err := n.s.WaitForLeader(60 * time.Second); err != nil {
			return c, fmt.Errorf("%s learns the leader: %w", n.id, err)
		}
	}
	if _, _, err := n0.s.Execute(context.Background(), executeRequestFromString(vcTable, false, false)); err != nil {
		return c, fmt.Errorf("create table: %w", err)
	}
	if _, err := c.Settle(60 * time.Second); err != nil {
		return c, err
	}
	if _, err := c.Quiesce(60 * time.Second); err != nil {
		return c, err
	}
	// the leader has served a strong read in its term: linearizable reads are not upgraded
	if res := c.Read(max(c.Leader(), 0), "-", proto.ConsistencyLevel_STRONG, vcAPIQuery, false); res.Err != nil {
		return c, fmt.Errorf("first strong read: %w", res.Err)
	}
	return c, nil
}

func (c *vcCluster) open(n *vcNode) error {
	ly := n.port.newLayer(c.net, n.idx)
	s := New(&Config{DBConf: NewDBConfig(), Dir: n.dir, ID: n.id}, ly)
	s.HeartbeatTimeout = c.o.RaftTimeout
	s.ElectionTimeout = c.o.RaftTimeout
	s.LeaderLeaseTimeout = c.o.RaftTimeout
	s.CommitTimeout = c.o.CommitTimeout
	s.RaftLogLevel = "ERROR"
	if lv := os.Getenv("VERIF_VC_RAFTLOG"); lv != "" {
		s.RaftLogLevel = lv
	}
	s.NoSnapshotOnClose = true
	// Store.Open can block for ever (bbolt waits without limit for the file lock, which a
	// half-closed or half-opened earlier incarnation in this process may still hold) and a
	// failed Open does not release what it had already opened. Either way this directory
	// cannot be opened again in this process: the cluster is marked wedged.
	opened := make(chan error, 1)
	go func() { opened <- s.Open() }()
	select {
	case err := <-opened:
		if err != nil {
			ly.Close()
			c.wedged.Store(true)
			return fmt.Errorf("vc: open %s: %w (cluster marked wedged)", n.id, err)
		}
	case <-time.After(vcOpenLimit):
		ly.Close()
		c.wedged.Store(true)
		return vcErrOpenHung
	}
	idx := n.idx
	s.raftTn.SetAppendEntriesTxHandler(func(req *raft.AppendEntriesRequest) error {
		if len(req.Entries) > 0 && c.net.dropsEntries(idx) {
			return vcErrDropped
		}
		return nil
	})
	n.mu.Lock()
	n.s, n.ly, n.up = s, ly, true
	n.mu.Unlock()
	return nil
}

// Close shuts every node down and removes the cluster's data.
func (c *vcCluster) Close() {
	c.net.Heal()
	var wg sync.WaitGroup
	for _, n := range c.nodes {
		wg.Add(1)
		go func(n *vcNode) {
			defer wg.Done()
			c.Crash(n.idx)
			n.port.ln.Close()
		}(n)
	}
	wg.Wait()
	os.RemoveAll(c.root)
}

// Crash stops node i the way a killed process would look to the others: no
// snapshot on close, all its connections reset. Its files stay.
//
// Store.Close(true) waits for raft's goroutines. hashicorp/raft v1.7.3 can
// deadlock a leader's pipelined-replication goroutine for good (pipelineReplicate
// picks triggerCh although finishCh is also ready, and the next
// netPipeline.AppendEntries then blocks on the unbuffered inprogressCh whose
// reader is itself blocked on doneCh, whose reader - pipelineDecode - has
// returned), after which Shutdown never completes. That is a liveness defect of
// the dependency, not a matter of the histories' correctness, so the kit bounds
// the wait: after 15 s the cluster is marked wedged and must be thrown away
// (the node's files are still locked by the half-closed Store).
func (c *vcCluster) Crash(i int) error {
	n := c.nodes[i]
	n.mu.Lock()
	s, ly, up := n.s, n.ly, n.up
	n.up = false
	n.mu.Unlock()
	if !up {
		return nil
	}
	done := make(chan error, 1)
	go func() { done <- s.Close(true) }()
	select {
	case err := <-done:
		ly.Close()
		if err != nil {
			// Close gave up part-way: the Store may still hold its files (bolt lock)
			c.wedged.Store(true)
		}
		return err
	case <-time.After(15 * time.Second):
		ly.Close()
		c.wedged.Store(true)
		return vcErrCloseHung
	}
}

// Wedged reports whether a node of this cluster could not be closed; such a
// cluster cannot be used any further.
func (c *vcCluster) Wedged() bool { return c.wedged.Load() }

// Restart reopens node i on the same directory, ID and address.
func (c *vcCluster) Restart(i int) error {
	n := c.nodes[i]
	if n.store() != nil {
		return nil
	}
	if c.Wedged() {
		return vcErrCloseHung
	}
	return c.open(n)
}

func (c *vcCluster) Up(i int) bool { return c.nodes[i].store() != nil }

// CrashRestart is Crash followed by Restart.
func (c *vcCluster) CrashRestart(i int) error {
	if err := c.Crash(i); err != nil {
		return err
	}
	return c.Restart(i)
}

var vcSweepOnce sync.Once

// vcSweepStale removes cluster directories a killed run left behind (older than 3 hours).
func vcSweepStale(base string) {
	ents, err := os.ReadDir(base)
	if err != nil {
		return
	}
	for _, e := range ents {
		if !e.IsDir() || !strings.HasPrefix(e.Name(), "vc-cluster-") {
			continue
		}
		if fi, err := e.Info(); err == nil && time.Since(fi.ModTime()) > 3*time.Hour {
			os.RemoveAll(filepath.Join(base, e.Name()))
		}
	}
}

// TimeoutNow delivers raft's TimeoutNow message to node i (through node i's own
// transport, i.e. as a message from itself): the node stands for election at once.
func (c *vcCluster) TimeoutNow(i int) error {
	n := c.nodes[i]
	s := n.store()
	if s == nil {
		return vcErrDown
	}
	req := &raft.TimeoutNowRequest{RPCHeader: raft.RPCHeader{ProtocolVersion: raft.ProtocolVersionMax, ID: []byte(n.id), Addr: []byte(n.addr)}}
	var resp raft.TimeoutNowResponse
	return s.raftTn.TimeoutNow(raft.ServerID(n.id), raft.ServerAddress(n.addr), req, &resp)
}

// FreshenConns makes sure that the next RPC between any two nodes of `set`
// travels on a live connection. raft's transport pools idle connections and
// finds out that one was reset (the peer restarted, a message on it was dropped)
// only by failing the next RPC that uses it; heartbeats and replication retry at
// once, but a vote request is sent once per election, and a candidate that loses
// its only vote request this way sits out a whole election timeout. The kit sends
// a pre-vote request for term 0 - which every node answers "no" without changing
// any state - over each directed pair until one gets through, which discards the
// dead connections.
func (c *vcCluster) FreshenConns(set []int) {
	for _, i := range set {
		s := c.nodes[i].store()
		if s == nil {
			continue
		}
		from := c.nodes[i]
		for _, j := range set {
			if j == i || !c.Up(j) || !c.net.Connected(i, j) {
				continue
			}
			to := c.nodes[j]
			for try := 0; try < connectionPoolCount+3; try++ {
				req := &raft.RequestPreVoteRequest{RPCHeader: raft.RPCHeader{ProtocolVersion: raft.ProtocolVersionMax, ID: []byte(from.id), Addr: []byte(from.addr)}}
				var resp raft.RequestPreVoteResponse
				if err := s.raftTn.RequestPreVote(raft.ServerID(to.id), raft.ServerAddress(to.addr), req, &resp); err == nil {
					break
				}
			}
		}
	}
}

// Leader returns the node that claims leadership in the highest term (-1: none).
func (c *vcCluster) Leader() int {
	best, bestTerm := -1, uint64(0)
	for _, n := range c.nodes {
		s := n.store()
		if s == nil || s.raft.State() != raft.Leader {
			continue
		}
		if t := s.raft.CurrentTerm(); best < 0 || t > bestTerm {
			best, bestTerm = n.idx, t
		}
	}
	return best
}

// Term returns node i's current term (0 when down).
func (c *vcCluster) Term(i int) uint64 {
	if s := c.nodes[i].store(); s != nil {
		return s.raft.CurrentTerm()
	}
	return 0
}

// IsLeader reports whether node i currently believes it is the leader.
func (c *vcCluster) IsLeader(i int) bool {
	s := c.nodes[i].store()
	return s != nil && s.raft.State() == raft.Leader
}

// WaitLeader waits until some node among `among` (nil = all) claims leadership
// in a term above minTerm, and returns it.
func (c *vcCluster) WaitLeader(among []int, minTerm uint64, timeout time.Duration) (int, error) {
	deadline := time.Now().Add(timeout)
	for {
		if l := c.Leader(); l >= 0 && c.Term(l) > minTerm && (among == nil || vcHas(among, l)) {
			return l, nil
		}
		if time.Now().After(deadline) {
			return -1, fmt.Errorf("vc: no leader above term %d among %v within %v", minTerm, among, timeout)
		}
		time.Sleep(2 * time.Millisecond)
	}
}

func vcHas(xs []int, x int) bool {
	for _, y := range xs {
		if y == x {
			return true
		}
	}
	return false
}

// lastLog returns (term, index) of node i's last log entry.
func (c *vcCluster) lastLog(i int) (uint64, uint64) {
	s := c.nodes[i].store()
	if s == nil {
		return 0, 0
	}
	li := s.raft.LastIndex()
	var l raft.Log
	if err := s.raftLog.GetLog(li, &l); err != nil {
		return 0, li
	}
	return l.Term, li
}

// Component returns the largest set of running nodes that are pairwise connected
// (ties: the one containing the lowest node number).
func (c *vcCluster) Component() []int {
	var best []int
	n := len(c.nodes)
	for mask := 1; mask < 1<<n; mask++ {
		var set []int
		ok := true
		for i := 0; i < n && ok; i++ {
			if mask&(1<<i) == 0 {
				continue
			}
			if !c.Up(i) {
				ok = false
				break
			}
			for _, j := range set {
				if !c.net.Connected(i, j) {
					ok = false
					break
				}
			}
			set = append(set, i)
		}
		if ok && len(set) > len(best) {
			best = set
		}
	}
	return best
}

// ForceElection makes a node of the largest connected component stand for
// election (TimeoutNow), preferring `prefer` among the nodes whose log is most
// up to date (only those can win), and waits for a leader inside the component in
// a term above the highest term any of its nodes has now. It tries the next
// candidate when one does not win within half a second. Needs a quorum in the component.
func (c *vcCluster) ForceElection(prefer []int, timeout time.Duration) (leader int, err error) {
	start := time.Now()
	var tr []string
	defer func() {
		if d := time.Since(start); d > time.Second || err != nil {
			c.remark("ForceElection took %v -> n%d err=%v: %s", d, leader, err, strings.Join(tr, " | "))
		}
	}()
	deadline := time.Now().Add(timeout)
	for {
		comp := c.Component()
		if len(comp) <= len(c.nodes)/2 {
			return -1, fmt.Errorf("vc: no quorum among connected running nodes %v", comp)
		}
		c.FreshenConns(comp)
		var minTerm uint64
		for _, i := range comp {
			if t := c.Term(i); t > minTerm {
				minTerm = t
			}
		}
		cands := append([]int(nil), comp...)
		rank := func(i int) int {
			for k, p := range prefer {
				if p == i {
					return k
				}
			}
			return len(prefer) + i
		}
		sort.SliceStable(cands, func(a, b int) bool {
			ta, ia := c.lastLog(cands[a])
			tb, ib := c.lastLog(cands[b])
			if ta != tb {
				return ta > tb
			}
			if ia != ib {
				return ia > ib
			}
			return rank(cands[a]) < rank(cands[b])
		})
		for _, cand := range cands {
			if c.IsLeader(cand) {
				// a believer in an older term cannot be told to time out; it learns of the
				// new term from the winner
				continue
			}
			tr = append(tr, fmt.Sprintf("+%v kick n%d [%s]", time.Since(start).Round(time.Millisecond), cand, c.describe()))
			if err := c.TimeoutNow(cand); err != nil {
				tr = append(tr, "TimeoutNow: "+err.Error())
				continue
			}
			if l, err := c.WaitLeader(comp, minTerm, 500*time.Millisecond); err == nil {
				return l, nil
			}
			tr = append(tr, fmt.Sprintf("+%v no leader [%s]", time.Since(start).Round(time.Millisecond), c.describe()))
			if time.Now().After(deadline) {
				break
			}
		}
		if l := c.Leader(); l >= 0 && vcHas(comp, l) && c.Term(l) >= minTerm {
			return l, nil
		}
		if time.Now().After(deadline) {
			return -1, fmt.Errorf("vc: forced election produced no leader within %v", timeout)
		}
		time.Sleep(20 * time.Millisecond)
	}
}

// Stepdown asks leader `from` to transfer leadership to node `to` (raft
// leadership transfer) and waits for the transfer to finish or fail.
func (c *vcCluster) Stepdown(from, to int) error {
	s := c.nodes[from].store()
	if s == nil {
		return vcErrDown
	}
	return s.Stepdown(true, c.nodes[to].id)
}

// Settle heals nothing by itself: it waits until the running nodes agree on one
// leader in one term, forcing an election whenever no node of the largest
// component claims leadership. Returns the leader.
func (c *vcCluster) Settle(timeout time.Duration) (int, error) {
	deadline := time.Now().Add(timeout)
	lastForce := time.Time{}
	for {
		if l := c.stableLeader(); l >= 0 {
			return l, nil
		}
		if time.Now().After(deadline) {
			return -1, fmt.Errorf("vc: cluster did not settle on one leader within %v", timeout)
		}
		comp := c.Component()
		l := c.Leader()
		if (l < 0 || !vcHas(comp, l)) && time.Since(lastForce) > 1500*time.Millisecond && len(comp) > len(c.nodes)/2 {
			c.ForceElection(nil, 3*time.Second)
			lastForce = time.Now()
			continue
		}
		time.Sleep(3 * time.Millisecond)
	}
}

// stableLeader: exactly one running node is Leader, and every running node of the
// largest component names it as leader and is in its term.
func (c *vcCluster) stableLeader() int {
	leader := -1
	for _, n := range c.nodes {
		if c.IsLeader(n.idx) {
			if leader >= 0 {
				return -1
			}
			leader = n.idx
		}
	}
	if leader < 0 {
		return -1
	}
	term := c.Term(leader)
	for _, i := range c.Component() {
		s := c.nodes[i].store()
		if s == nil {
			continue
		}
		addr, _ := s.LeaderAddr()
		if addr != c.nodes[leader].addr || s.raft.CurrentTerm() != term {
			return -1
		}
	}
	if !vcHas(c.Component(), leader) {
		return -1
	}
	return leader
}

// WaitApplied waits until every running node has applied command index idx.
func (c *vcCluster) WaitApplied(idx uint64, timeout time.Duration) error {
	deadline := time.Now().Add(timeout)
	for {
		ok := true
		for _, n := range c.nodes {
			if s := n.store(); s != nil && s.fsmIdx.Load() < idx {
				ok = false
			}
		}
		if ok {
			return nil
		}
		if time.Now().After(deadline) {
			return fmt.Errorf("vc: not every node applied index %d within %v", idx, timeout)
		}
		time.Sleep(2 * time.Millisecond)
	}
}

// noop commits a no-op command through node i and returns its index.
func (c *vcCluster) noop(i int) (uint64, error) {
	s := c.nodes[i].store()
	if s == nil {
		return 0, vcErrDown
	}
	f, err := s.Noop("vc")
	if err != nil {
		return 0, err
	}
	// the future resolves when the entry commits or leadership is lost; bound it anyway
	done := make(chan error, 1)
	go func() { done <- f.Error() }()
	select {
	case err := <-done:
		if err != nil {
			return 0, err
		}
		return f.Index(), nil
	case <-time.After(20 * time.Second):
		return 0, vcErrBounded
	}
}

// Dump returns node i's kv table as text (read directly from its database).
func (c *vcCluster) Dump(i int) (string, error) {
	s := c.nodes[i].store()
	if s == nil {
		return "", vcErrDown
	}
	qr := queryRequestFromString("SELECT k, v FROM kv ORDER BY k", false, false, false)
	qr.Level = proto.ConsistencyLevel_NONE
	rows, _, _, err := s.Query(context.Background(), qr)
	if err != nil {
		return "", err
	}
	if len(rows) != 1 || rows[0].Error != "" {
		return "", fmt.Errorf("dump: %v", rows)
	}
	var sb strings.Builder
	for _, v := range rows[0].Values {
		fmt.Fprintf(&sb, "%s=%d;", v.Parameters[0].GetS(), v.Parameters[1].GetI())
	}
	return sb.String(), nil
}

// Quiesce brings all running nodes to the same point of the log and dumps them
// there. It sends two no-op commands through the leader (Store.Noop: command
// entries that reach the FSM but change nothing); they must land on adjacent
// indexes n-1 and n. Once the leader
// has acknowledged the second, every follower that stores entry n has been told
// that n-1 is committed. Quiesce then waits until entry n is the last entry of
// every node's log and every node's last applied command is n-1 or n, dumps every
// node, and checks again that no log grew meanwhile; otherwise it starts over.
// All dumps returned are therefore taken after exactly the same sequence of
// mutating commands - whatever stragglers of earlier operations were in flight -
// and must be equal.
func (c *vcCluster) Quiesce(timeout time.Duration) ([]string, error) {
	deadline := time.Now().Add(timeout)
	why := "never tried"
	for time.Now().Before(deadline) {
		l := c.stableLeader()
		if l < 0 {
			why = "no stable leader"
			time.Sleep(5 * time.Millisecond)
			continue
		}
		n1, err := c.noop(l)
		if err != nil {
			why = "noop: " + err.Error()
			time.Sleep(5 * time.Millisecond)
			continue
		}
		n2, err := c.noop(l)
		if err != nil || n2 != n1+1 {
			why = fmt.Sprintf("second noop: index %d after %d, err %v", n2, n1, err)
			continue
		}
		n := n2
		// 0 = all there, 1 = not yet, 2 = some log moved past n
		at := func() int {
			st := 0
			for _, nd := range c.nodes {
				s := nd.store()
				if s == nil {
					continue
				}
				li, fi := s.raft.LastIndex(), s.fsmIdx.Load()
				if li > n || fi > n {
					return 2
				}
				if li != n || fi < n-1 {
					st = 1
				}
			}
			return st
		}
		inner := time.Now().Add(5 * time.Second)
		st := at()
		for st == 1 && time.Now().Before(inner) {
			time.Sleep(2 * time.Millisecond)
			st = at()
		}
		if st != 0 {
			why = fmt.Sprintf("nodes not all at index %d (state %d)", n, st)
			continue
		}
		dumps := make([]string, len(c.nodes))
		bad := false
		for i := range c.nodes {
			if !c.Up(i) {
				dumps[i] = "(down)"
				continue
			}
			d, err := c.Dump(i)
			if err != nil {
				why = "dump: " + err.Error()
				bad = true
				break
			}
			dumps[i] = d
		}
		if bad || at() != 0 {
			continue
		}
		return dumps, nil
	}
	return nil, fmt.Errorf("vc: cluster did not quiesce within %v (%s)", timeout, why)
}

// ---------------------------------------------------------------------------
// client operations

type vcAPI int

const (
	vcAPIQuery   vcAPI = iota // Store.Execute / Store.Query
	vcAPIRequest              // Store.Request (the unified endpoint)
)

func (a vcAPI) String() string {
	if a == vcAPIRequest {
		return "request"
	}
	return "execute/query"
}

// vcResult is the client's view of one operation.
type vcResult struct {
	Val       int    // value read (0 = key absent)
	Err       error  // nil = acknowledged
	NotLeader bool   // refused with ErrNotLeader by the node that finally handled it: definitely not applied
	Served    int    // node that executed it (after forwarding)
	Forwarded bool   // the addressed node handed it to the node it believes is the leader
	Index     uint64 // raft index (writes, strong reads)
	Level     string // level the read was served at (a linearizable read may be upgraded to strong)
}

// Write sets key to val through node i. With forward, a node that answers "not
// leader" hands the request to the node it names as leader, once - what the HTTP
// layer does through the cluster client - provided the two can talk.
func (c *vcCluster) Write(i int, key string, val int, api vcAPI, forward bool) vcResult {
	sql := fmt.Sprintf("INSERT OR REPLACE INTO kv(k, v) VALUES('%s', %d)", key, val)
	return c.route(i, forward, func(s *Store) vcResult {
		var results []*proto.ExecuteQueryResponse
		var idx uint64
		var err error
		if api == vcAPIRequest {
			results, _, idx, err = s.Request(context.Background(), executeQueryRequestFromString(sql, proto.ConsistencyLevel_WEAK, false, false, false))
		} else {
			results, idx, err = s.Execute(context.Background(), executeRequestFromString(sql, false, false))
		}
		if err != nil {
			return vcResult{Err: err}
		}
		if len(results) != 1 || results[0].GetE() == nil || results[0].GetE().Error != "" {
			return vcResult{Err: fmt.Errorf("write result: %v", results)}
		}
		return vcResult{Index: idx}
	})
}

// Read reads key through node i at the given level.
func (c *vcCluster) Read(i int, key string, level proto.ConsistencyLevel, api vcAPI, forward bool) vcResult {
	sql := fmt.Sprintf("SELECT v FROM kv WHERE k='%s'", key)
	return c.route(i, forward, func(s *Store) vcResult {
		var rows *proto.QueryRows
		var idx uint64
		served := level.String()
		if api == vcAPIRequest {
			eqr := executeQueryRequestFromString(sql, level, false, false, false)
			results, _, ridx, err := s.Request(context.Background(), eqr)
			if err != nil {
				return vcResult{Err: err}
			}
			if len(results) != 1 || results[0].GetQ() == nil {
				return vcResult{Err: fmt.Errorf("read result: %v", results)}
			}
			rows, idx, served = results[0].GetQ(), ridx, eqr.Level.String()
		} else {
			qr := queryRequestFromString(sql, false, false, false)
			qr.Level = level
			rr, lvl, ridx, err := s.Query(context.Background(), qr)
			if err != nil {
				return vcResult{Err: err}
			}
			if len(rr) != 1 {
				return vcResult{Err: fmt.Errorf("read result: %v", rr)}
			}
			rows, idx, served = rr[0], ridx, lvl.String()
		}
		if rows.Error != "" {
			return vcResult{Err: errors.New(rows.Error)}
		}
		res := vcResult{Index: idx, Level: served}
		if len(rows.Values) > 0 {
			res.Val = int(rows.Values[0].Parameters[0].GetI())
		}
		return res
	})
}

func (c *vcCluster) route(i int, forward bool, do func(s *Store) vcResult) vcResult {
	s := c.nodes[i].store()
	if s == nil {
		return vcResult{Err: vcErrDown, Served: i}
	}
	res := do(s)
	res.Served = i
	if res.Err == nil || !errors.Is(res.Err, ErrNotLeader) {
		return res
	}
	res.NotLeader = true
	if !forward {
		return res
	}
	addr, _ := s.LeaderAddr()
	c.net.mu.RLock()
	j, ok := c.net.addrIdx[addr]
	c.net.mu.RUnlock()
	if !ok || j == i {
		return res
	}
	if c.net.isBlocked(i, j) {
		return vcResult{Err: vcErrNoRoute, Served: i, Forwarded: true, NotLeader: true}
	}
	s2 := c.nodes[j].store()
	if s2 == nil {
		return vcResult{Err: vcErrNoRoute, Served: i, Forwarded: true, NotLeader: true}
	}
	res = do(s2)
	res.Served, res.Forwarded = j, true
	res.NotLeader = res.Err != nil && errors.Is(res.Err, ErrNotLeader)
	if c.net.isBlocked(j, i) {
		return vcResult{Err: vcErrRespLost, Served: j, Forwarded: true}
	}
	return res
}

// ---------------------------------------------------------------------------
// linearizability of a single register

// vcLinOp is one operation of a register history. Times are any monotonic
// clock; Resp < 0 means the operation never returned (it may take effect at any
// time after Inv, or never).
type vcLinOp struct {
	Write    bool
	Val      int
	Inv      int64
	Resp     int64
	Optional bool // outcome unknown to the client: may be left out of the linearization
}

// vcLinearizable decides by exhaustive search (Wing & Gong, memoised on the set
// of linearized operations and the register value) whether the history is
// linearizable with respect to a register that starts at `init`.
func vcLinearizable(ops []vcLinOp, init int) bool {
	n := len(ops)
	if n > 24 {
		panic("vcLinearizable: history too long for the brute-force checker")
	}
	var required uint32
	for i, o := range ops {
		if !o.Optional {
			required |= 1 << i
		}
	}
	type key struct {
		done uint32
		val  int
	}
	seen := map[key]bool{}
	var rec func(done uint32, val int) bool
	rec = func(done uint32, val int) bool {
		if done&required == required {
			return true
		}
		k := key{done, val}
		if seen[k] {
			return false
		}
		seen[k] = true
		// an operation can be next only if no required, not yet linearized operation
		// returned before it was invoked
		minResp := int64(1<<62 - 1)
		for i, o := range ops {
			if done&(1<<i) == 0 && !o.Optional && o.Resp >= 0 && o.Resp < minResp {
				minResp = o.Resp
			}
		}
		for i, o := range ops {
			if done&(1<<i) != 0 || o.Inv > minResp {
				continue
			}
			if o.Write {
				if rec(done|1<<i, o.Val) {
					return true
				}
			} else if o.Val == val {
				if rec(done|1<<i, val) {
					return true
				}
			}
		}
		return false
	}
	return rec(0, init)
}

// vcSelfTestLin exercises the checker on histories with known verdicts; a
// harness calls it once so that a broken checker cannot report silence.
func vcSelfTestLin(t testing.TB) {
	w := func(v int, inv, resp int64) vcLinOp { return vcLinOp{Write: true, Val: v, Inv: inv, Resp: resp} }
	mw := func(v int, inv int64) vcLinOp {
		return vcLinOp{Write: true, Val: v, Inv: inv, Resp: -1, Optional: true}
	}
	r := func(v int, inv, resp int64) vcLinOp { return vcLinOp{Val: v, Inv: inv, Resp: resp} }
	cases := []struct {
		name string
		ops  []vcLinOp
		want bool
	}{
		{"empty", nil, true},
		{"read initial", []vcLinOp{r(0, 1, 2)}, true},
		{"read unwritten", []vcLinOp{r(7, 1, 2)}, false},
		{"write then read", []vcLinOp{w(1, 1, 2), r(1, 3, 4)}, true},
		{"stale read after acked write", []vcLinOp{w(1, 1, 2), r(0, 3, 4)}, false},
		{"read concurrent with write sees old", []vcLinOp{w(1, 1, 5), r(0, 2, 3)}, true},
		{"read concurrent with write sees new", []vcLinOp{w(1, 1, 5), r(1, 2, 3)}, true},
		{"new then old", []vcLinOp{w(1, 1, 9), r(1, 2, 3), r(0, 4, 5)}, false},
		{"maybe write seen", []vcLinOp{mw(1, 1), r(1, 2, 3)}, true},
		{"maybe write not seen", []vcLinOp{mw(1, 1), r(0, 2, 3)}, true},
		{"maybe write seen before its invocation", []vcLinOp{r(1, 1, 2), mw(1, 3)}, false},
		{"maybe write seen then lost", []vcLinOp{mw(1, 1), r(1, 2, 3), r(0, 4, 5)}, false},
		{"maybe write lands late", []vcLinOp{mw(1, 1), w(2, 2, 3), r(2, 4, 5), r(1, 6, 7)}, true},
		{"two writes, old one read after both acked", []vcLinOp{w(1, 1, 2), w(2, 3, 4), r(1, 5, 6)}, false},
		{"concurrent writes either order", []vcLinOp{w(1, 1, 4), w(2, 2, 3), r(1, 5, 6)}, true},
		{"concurrent writes, readers disagree", []vcLinOp{w(1, 1, 4), w(2, 2, 3), r(1, 5, 6), r(2, 7, 8)}, false},
	}
	for _, c := range cases {
		if got := vcLinearizable(c.ops, 0); got != c.want {
			t.Fatalf("harness: linearizability checker self-test %q: got %v want %v", c.name, got, c.want)
		}
	}
}
